import Yomm2.Model.StaticList
/-!
# A small imperative language for the pointer code of `detail/static_list.hpp`

`tools/cpp2lean.py` reads clang's AST of the *instantiated* member functions of `static_list<T>` and
writes each body, construct by construct, as a term of `Stmt` (file `Generated/StaticListSrc.lean`,
rewritten on every run). The translator knows no semantics: it maps `MemberExpr`, `UnaryOperator &`,
`BinaryOperator =`, `IfStmt`, `WhileStmt`, `ReturnStmt`, `DeclStmt` and the expansion of `BOOST_ASSERT` to
the constructors below and refuses everything else. What the constructs *mean* is `exec`, below — forty
lines that can be read against the C++ standard. `Proofs/SrcStaticList.lean` then proves that the
translated bodies compute exactly the hand-written model `SList.pushBack / remove / clear`, so the
theorems of C18 hold for the text of the header as it is now; an edit of the header changes the generated
terms and the proofs are checked again against them.

Values are pointers to nodes (`none` = `nullptr`); a reference parameter `T& node` is represented by its
address, so `&node` is the variable and `node.f` is `(&node)->f`. Dereferencing `nullptr` is a fault, a
failed `BOOST_ASSERT` is its own outcome (the assertion is compiled out under `NDEBUG`; the theorems are
stated for states in which it holds), a `while` loop runs on fuel.
-/
namespace Yomm2.Mini

inductive Fld
  | prev
  | next
deriving DecidableEq, Repr

/-- pointer-valued expressions -/
inductive PExpr
  | null
  | var (x : String)
  | first
  | fld (e : PExpr) (f : Fld)
deriving Repr

inductive BExpr
  | truthy (e : PExpr)
  | not (b : BExpr)
  | eq (a b : PExpr)
  | ne (a b : PExpr)
deriving Repr

inductive Stmt
  | skip
  | seq (a b : Stmt)
  | assert (c : BExpr)
  | setVar (x : String) (e : PExpr)
  | setFirst (e : PExpr)
  | setFld (target : PExpr) (f : Fld) (e : PExpr)
  | ite (c : BExpr) (t e : Stmt)
  | while (c : BExpr) (body : Stmt)
  | ret
deriving Repr

structure St where
  env : List (String × Option Nat)
  list : SList

inductive Res
  | normal (s : St)
  | returned (s : St)
  | fault (why : String)
  | assertFailed
  | outOfFuel

def lookupVar (env : List (String × Option Nat)) (x : String) : Option (Option Nat) :=
  match env with
  | [] => none
  | (y, v) :: rest => if x = y then some v else lookupVar rest x

def bindVar (env : List (String × Option Nat)) (x : String) (v : Option Nat) : List (String × Option Nat) :=
  match env with
  | [] => [(x, v)]
  | (y, w) :: rest => if x = y then (y, v) :: rest else (y, w) :: bindVar rest x v

def getFld (l : SList) (n : Nat) : Fld → Option Nat
  | .prev => (l.links n).prev
  | .next => (l.links n).next

def putFld (l : SList) (n : Nat) (f : Fld) (v : Option Nat) : SList :=
  match f with
  | .prev => l.setPrev n v
  | .next => l.setNext n v

def evalP (s : St) : PExpr → Except String (Option Nat)
  | .null => .ok none
  | .var x =>
    match lookupVar s.env x with
    | some v => .ok v
    | none => .error ("unbound variable " ++ x)
  | .first => .ok s.list.first
  | .fld e f =>
    match evalP s e with
    | .error w => .error w
    | .ok none => .error "null pointer dereferenced"
    | .ok (some n) => .ok (getFld s.list n f)

def evalB (s : St) : BExpr → Except String Bool
  | .truthy e =>
    match evalP s e with
    | .ok v => .ok v.isSome
    | .error w => .error w
  | .not b =>
    match evalB s b with
    | .ok v => .ok (!v)
    | .error w => .error w
  | .eq a b =>
    match evalP s a, evalP s b with
    | .ok x, .ok y => .ok (decide (x = y))
    | .error w, _ => .error w
    | _, .error w => .error w
  | .ne a b =>
    match evalP s a, evalP s b with
    | .ok x, .ok y => .ok (decide (x ≠ y))
    | .error w, _ => .error w
    | _, .error w => .error w

/-- the meaning of a statement; `fuel` bounds the number of loop iterations -/
def exec (fuel : Nat) (stmt : Stmt) (s : St) : Res :=
  match stmt with
  | .skip => .normal s
  | .seq a b =>
    match exec fuel a s with
    | .normal s' => exec fuel b s'
    | r => r
  | .assert c =>
    match evalB s c with
    | .error w => .fault w
    | .ok true => .normal s
    | .ok false => .assertFailed
  | .setVar x e =>
    match evalP s e with
    | .error w => .fault w
    | .ok v => .normal { s with env := bindVar s.env x v }
  | .setFirst e =>
    match evalP s e with
    | .error w => .fault w
    | .ok v => .normal { s with list := { s.list with first := v } }
  | .setFld t f e =>
    -- the right operand of a built-in assignment is sequenced before the left one (C++17)
    match evalP s e with
    | .error w => .fault w
    | .ok v =>
      match evalP s t with
      | .error w => .fault w
      | .ok none => .fault "null pointer dereferenced"
      | .ok (some n) => .normal { s with list := putFld s.list n f v }
  | .ite c t e =>
    match evalB s c with
    | .error w => .fault w
    | .ok true => exec fuel t s
    | .ok false => exec fuel e s
  | .while c body =>
    match fuel with
    | 0 => .outOfFuel
    | fuel' + 1 =>
      match evalB s c with
      | .error w => .fault w
      | .ok false => .normal s
      | .ok true =>
        match exec fuel' body s with
        | .normal s' => exec fuel' (.while c body) s'
        | r => r
  | .ret => .returned s
termination_by (fuel, stmt)

/-- a member function called on list `l` with its parameters bound: the list it leaves behind -/
inductive Outcome
  | done (l : SList)
  | fault (why : String)
  | assertFailed
  | outOfFuel

def run (fuel : Nat) (body : Stmt) (l : SList) (params : List (String × Option Nat)) : Outcome :=
  match exec fuel body { env := params, list := l } with
  | .normal s => .done s.list
  | .returned s => .done s.list
  | .fault w => .fault w
  | .assertFailed => .assertFailed
  | .outOfFuel => .outOfFuel

end Yomm2.Mini
