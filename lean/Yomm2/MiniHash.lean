import Yomm2.Model.Hash
/-!
# A fourth small language: the call-time lookup of a type id

`fast_perfect_hash<Policy>::hash_type_id(type)` is `(hash_mult * type) >> hash_shift`; the checked variant adds
`if (index >= hash_length || control[index] != type) { report unknown_class(type); abort(); }`. They run on every
call with a `virtual_<T&>` argument and on every `virtual_ptr` construction (C05, C15). `tools/cpp2lean.py` maps
their bodies from clang's AST to the terms below (`Generated/HashSrc.lean`); `exec` is their meaning — 64-bit
unsigned arithmetic, `||` short-circuits, subscripting `control` outside its size is a fault, shifting by 64 or
more is a fault — and `Proofs/SrcHash.lean` proves them equal to `hashIdx` / `checkedIdx` of `Model/Hash.lean`.
-/
namespace Yomm2.HashL

inductive E
  | param
  | var (x : String)
  /-- a static data member of the facet: `hash_mult`, `hash_shift`, `hash_length` -/
  | static (name : String)
  | mul (a b : E)
  | shr (a b : E)
  /-- `fast_perfect_hash<Policy>::hash_type_id(e)` -/
  | fastHash (e : E)
  /-- `control[e]` -/
  | controlAt (e : E)
deriving Repr

inductive B
  | ge (a b : E)
  | ne (a b : E)
  | or (a b : B)
deriving Repr

inductive Stmt
  | skip
  | seq (a b : Stmt)
  | declVar (x : String) (e : E)
  | ifThen (c : B) (t : Stmt)
  /-- build an `unknown_class_error` with `type = e` and hand it to `Policy::error` -/
  | reportUnknown (e : E)
  | abort
  | ret (e : E)
deriving Repr

inductive Res
  | normal (vars : List (String × UInt64))
  | returned (v : UInt64)
  /-- the error handler got `unknown_class(id)`; no index is returned (the handler throws, or `abort()` follows) -/
  | reported (id : UInt64)
  | aborted
  | fault (why : String)

structure Env where
  st : HashSt
  control : Array UInt64
  /-- the body of `fast_perfect_hash::hash_type_id`, for calls from the checked variant -/
  fast : E
  param : UInt64

def lookup (vars : List (String × UInt64)) (x : String) : Option UInt64 :=
  match vars with
  | [] => none
  | (y, v) :: rest => if x = y then some v else lookup rest x

def evalE (env : Env) (vars : List (String × UInt64)) : Nat → E → Except String UInt64
  | _, .param => .ok env.param
  | _, .var x =>
    match lookup vars x with
    | some v => .ok v
    | none => .error ("unbound variable " ++ x)
  | _, .static n =>
    if n = "hash_mult" then .ok env.st.mult
    else if n = "hash_shift" then .ok (UInt64.ofNat env.st.shift)
    else if n = "hash_length" then .ok (UInt64.ofNat env.st.length)
    else .error ("unknown static " ++ n)
  | d, .mul a b =>
    match evalE env vars d a, evalE env vars d b with
    | .ok x, .ok y => .ok (x * y)
    | .error w, _ => .error w
    | _, .error w => .error w
  | d, .shr a b =>
    match evalE env vars d a, evalE env vars d b with
    | .ok x, .ok y => if y.toNat < 64 then .ok (x >>> y) else .error "shift by 64 or more"
    | .error w, _ => .error w
    | _, .error w => .error w
  | 0, .fastHash _ => .error "call depth"
  | d + 1, .fastHash e =>
    match evalE env vars d e with
    | .ok x => evalE { env with param := x } [] d env.fast
    | .error w => .error w
  | d, .controlAt e =>
    match evalE env vars d e with
    | .ok i =>
      match env.control[i.toNat]? with
      | some v => .ok v
      | none => .error "vector subscript out of range"
    | .error w => .error w

def evalB (env : Env) (vars : List (String × UInt64)) : B → Except String Bool
  | .ge a b =>
    match evalE env vars 2 a, evalE env vars 2 b with
    | .ok x, .ok y => .ok (decide (x ≥ y))
    | .error w, _ => .error w
    | _, .error w => .error w
  | .ne a b =>
    match evalE env vars 2 a, evalE env vars 2 b with
    | .ok x, .ok y => .ok (decide (x ≠ y))
    | .error w, _ => .error w
    | _, .error w => .error w
  | .or a b =>
    match evalB env vars a with
    | .ok true => .ok true
    | .ok false => evalB env vars b
    | .error w => .error w

def exec (env : Env) (vars : List (String × UInt64)) : Stmt → Res
  | .skip => .normal vars
  | .seq a b =>
    match exec env vars a with
    | .normal vars' => exec env vars' b
    | r => r
  | .declVar x e =>
    match evalE env vars 2 e with
    | .ok v => .normal ((x, v) :: vars)
    | .error w => .fault w
  | .ifThen c t =>
    match evalB env vars c with
    | .ok true => exec env vars t
    | .ok false => .normal vars
    | .error w => .fault w
  | .reportUnknown e =>
    match evalE env vars 2 e with
    | .ok v => .reported v
    | .error w => .fault w
  | .abort => .aborted
  | .ret e =>
    match evalE env vars 2 e with
    | .ok v => .returned v
    | .error w => .fault w

def run (st : HashSt) (control : Array UInt64) (fast : E) (body : Stmt) (id : UInt64) : Res :=
  exec { st, control, fast, param := id } [] body

end Yomm2.HashL
