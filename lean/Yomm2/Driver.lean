-- what the line-protocol driver needs: the executable model and the specification oracle, no proofs
import Yomm2.Basic
import Yomm2.Model.Types
import Yomm2.Model.Classes
import Yomm2.Model.Slots
import Yomm2.Model.Dispatch
import Yomm2.Model.Hash
import Yomm2.Model.Runtime
import Yomm2.Model.World
import Yomm2.Model.StaticList
import Yomm2.Model.Codec
import Yomm2.Model.Generator
import Yomm2.Model.Multi
import Yomm2.Model.Templates
import Yomm2.Model.Thunk
import Yomm2.Spec
import Yomm2.SpecExec
import Yomm2.Generated.Constants
