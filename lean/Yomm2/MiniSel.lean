import Yomm2.Model.Dispatch
/-!
# A small language for the comparison loops of `detail/compiler.hpp`

`compiler<Policy>::is_more_specific(a, b)` and `is_base(a, b)` decide everything about which definition a
call selects and what `next` refers to: `best` asks the first, the candidates for `next` are filtered by the
second. Both walk the virtual parameter classes of two definitions in step and ask, position by position,
whether one class is in the other's covariant set. `tools/cpp2lean.py` maps their bodies, from clang's AST of
the instantiated functions, to terms of `Stmt` below (`Generated/CompareSrc.lean`, rewritten on every run);
`exec` is what the constructs mean; `Proofs/SrcCompare.lean` proves that the translated bodies compute
`isMoreSpecific` and `isBase` of `Model/Dispatch.lean` for every pair of parameter lists of equal length and
every covariance relation.

A definition's `vp` is a list of classes (numbers); an iterator is (which parameter's list, position);
`*it` past the end is a fault. `owner->covariant_classes.find(elem) != owner->covariant_classes.end()` is
`der elem owner` ("elem is in the covariant set of owner"), the same reading as in `Model/Dispatch.lean`.
-/
namespace Yomm2.Sel

/-- class-valued expressions: `*it` -/
inductive CE
  | deref (it : String)
deriving Repr, DecidableEq

inductive BE
  | lit (b : Bool)
  | var (x : String)
  | iterNe (i j : String)
  | classNe (x y : CE)
  | classEq (x y : CE)
  /-- `owner->covariant_classes.find(elem) != owner->covariant_classes.end()` -/
  | inCov (owner elem : CE)
  /-- `owner->covariant_classes.find(elem) == owner->covariant_classes.end()` -/
  | notInCov (owner elem : CE)
  | not (b : BE)
deriving Repr

inductive Stmt
  | skip
  | seq (a b : Stmt)
  | setBool (x : String) (e : BE)
  /-- `auto it = p->vp.begin()` -/
  | declBegin (it p : String)
  /-- `auto it = p->vp.end()` -/
  | declEnd (it p : String)
  /-- `for (; cond; ++i1, ++i2, …) body` -/
  | forLoop (cond : BE) (incs : List String) (body : Stmt)
  | ite (c : BE) (t e : Stmt)
  | ret (e : BE)
deriving Repr

structure St where
  /-- the parameter lists of the two definitions, by parameter name -/
  params : List (String × List Nat)
  bools : List (String × Bool)
  iters : List (String × (String × Nat))

inductive Res
  | normal (s : St)
  | returned (b : Bool)
  | fault (why : String)
  | outOfFuel

def find {α} (l : List (String × α)) (x : String) : Option α :=
  match l with
  | [] => none
  | (y, v) :: rest => if x = y then some v else find rest x

def put {α} (l : List (String × α)) (x : String) (v : α) : List (String × α) :=
  match l with
  | [] => [(x, v)]
  | (y, w) :: rest => if x = y then (y, v) :: rest else (y, w) :: put rest x v

def evalC (s : St) : CE → Except String Nat
  | .deref it =>
    match find s.iters it with
    | none => .error ("unbound iterator " ++ it)
    | some (p, k) =>
      match find s.params p with
      | none => .error ("unbound parameter " ++ p)
      | some l =>
        match l[k]? with
        | some c => .ok c
        | none => .error "iterator dereferenced past the end"

def evalB (der : Nat → Nat → Bool) (s : St) : BE → Except String Bool
  | .lit b => .ok b
  | .var x =>
    match find s.bools x with
    | some b => .ok b
    | none => .error ("unbound variable " ++ x)
  | .iterNe i j =>
    match find s.iters i, find s.iters j with
    | some (p, k), some (q, m) =>
      if p = q then .ok (decide (k ≠ m)) else .error "iterators into different vectors compared"
    | _, _ => .error "unbound iterator"
  | .classNe x y =>
    match evalC s x, evalC s y with
    | .ok a, .ok b => .ok (decide (a ≠ b))
    | .error w, _ => .error w
    | _, .error w => .error w
  | .classEq x y =>
    match evalC s x, evalC s y with
    | .ok a, .ok b => .ok (decide (a = b))
    | .error w, _ => .error w
    | _, .error w => .error w
  | .inCov owner elem =>
    match evalC s owner, evalC s elem with
    | .ok o, .ok e => .ok (der e o)
    | .error w, _ => .error w
    | _, .error w => .error w
  | .notInCov owner elem =>
    match evalC s owner, evalC s elem with
    | .ok o, .ok e => .ok (!der e o)
    | .error w, _ => .error w
    | _, .error w => .error w
  | .not b =>
    match evalB der s b with
    | .ok v => .ok (!v)
    | .error w => .error w

/-- `++it`; stepping beyond the end is a fault -/
def incr (s : St) (it : String) : Except String St :=
  match find s.iters it with
  | none => .error ("unbound iterator " ++ it)
  | some (p, k) =>
    match find s.params p with
    | none => .error ("unbound parameter " ++ p)
    | some l =>
      if k < l.length then .ok { s with iters := put s.iters it (p, k + 1) }
      else .error "iterator incremented past the end"

def incrAll (s : St) : List String → Except String St
  | [] => .ok s
  | it :: rest =>
    match incr s it with
    | .ok s' => incrAll s' rest
    | .error w => .error w

def exec (der : Nat → Nat → Bool) (fuel : Nat) (stmt : Stmt) (s : St) : Res :=
  match stmt with
  | .skip => .normal s
  | .seq a b =>
    match exec der fuel a s with
    | .normal s' => exec der fuel b s'
    | r => r
  | .setBool x e =>
    match evalB der s e with
    | .error w => .fault w
    | .ok v => .normal { s with bools := put s.bools x v }
  | .declBegin it p =>
    match find s.params p with
    | none => .fault ("unbound parameter " ++ p)
    | some _ => .normal { s with iters := put s.iters it (p, 0) }
  | .declEnd it p =>
    match find s.params p with
    | none => .fault ("unbound parameter " ++ p)
    | some l => .normal { s with iters := put s.iters it (p, l.length) }
  | .ite c t e =>
    match evalB der s c with
    | .error w => .fault w
    | .ok true => exec der fuel t s
    | .ok false => exec der fuel e s
  | .forLoop c incs body =>
    match fuel with
    | 0 => .outOfFuel
    | fuel' + 1 =>
      match evalB der s c with
      | .error w => .fault w
      | .ok false => .normal s
      | .ok true =>
        match exec der fuel' body s with
        | .normal s' =>
          match incrAll s' incs with
          | .ok s'' => exec der fuel' (.forLoop c incs body) s''
          | .error w => .fault w
        | r => r
  | .ret e =>
    match evalB der s e with
    | .error w => .fault w
    | .ok v => .returned v
termination_by (fuel, stmt)

/-- a comparison function called on the parameter lists of two definitions -/
def run (der : Nat → Nat → Bool) (fuel : Nat) (body : Stmt) (a b : List Nat) : Res :=
  exec der fuel body { params := [("a", a), ("b", b)], bools := [], iters := [] }

end Yomm2.Sel
