import Yomm2.Model.Types
/-!
# Spec: what the user relies on (no algorithm, no tables, no order of registration)

Classes are identified by their `type_index` key (`proj id`); a registry is what was registered:
class records (id, listed bases) and methods with their definitions.
-/
namespace Yomm2.Spec
open Yomm2

/-- position-wise relation between two lists of equal length -/
inductive Forall₂ {α β} (R : α → β → Prop) : List α → List β → Prop
  | nil : Forall₂ R [] []
  | cons {a b as bs} : R a b → Forall₂ R as bs → Forall₂ R (a :: as) (b :: bs)

/-- class `d` lists class `b` as a base in some record -/
def Lists (proj : Nat → Nat) (reg : Registry) (d b : Nat) : Prop :=
  ∃ r ∈ reg.classes, proj r.id = d ∧ ∃ b' ∈ r.bases, proj b' = b

/-- `Derives d b`: `d` is `b`, or has `b` as a direct or indirect base -/
inductive Derives (proj : Nat → Nat) (reg : Registry) : Nat → Nat → Prop
  | refl (c) : Derives proj reg c c
  | step {d m b} : Lists proj reg d m → Derives proj reg m b → Derives proj reg d b

def ProperDerives (proj : Nat → Nat) (reg : Registry) (d b : Nat) : Prop :=
  Derives proj reg d b ∧ d ≠ b

def Registered (proj : Nat → Nat) (reg : Registry) (k : Nat) : Prop :=
  ∃ r ∈ reg.classes, proj r.id = k

/-- a definition accepts a tuple of dynamic classes (given by their keys) -/
def Applicable (proj : Nat → Nat) (reg : Registry) (d : DefRec) (args : List Nat) : Prop :=
  Forall₂ (fun a p => Derives proj reg a (proj p)) args d.vp

/-- the documented ordering: nowhere a proper base of the other's class, somewhere a proper derived
    class (unrelated classes at a position are allowed) -/
def MoreSpecific (proj : Nat → Nat) (reg : Registry) (d e : DefRec) : Prop :=
  Forall₂ (fun dp ep => ¬ ProperDerives proj reg (proj ep) (proj dp)) d.vp e.vp ∧
  ∃ i : Nat, ∃ dp ep, d.vp[i]? = some dp ∧ e.vp[i]? = some ep ∧ ProperDerives proj reg (proj dp) (proj ep)

inductive Outcome
  | ran (d : Nat)
  | notImplemented
  | ambiguous
deriving Repr, DecidableEq

/-- what a call of method `m` with arguments of dynamic classes `args` must do. Definitions are
    identified by their position in the method's catalog (two registrations of one function are
    two definitions). -/
def Selects (proj : Nat → Nat) (reg : Registry) (defs : List DefRec) (args : List Nat) : Outcome → Prop
  | .ran d => ∃ (i : Nat) (df : DefRec), defs[i]? = some df ∧ df.id = d ∧ Applicable proj reg df args ∧
      ∀ (j : Nat) (e : DefRec), defs[j]? = some e → j ≠ i → Applicable proj reg e args → MoreSpecific proj reg df e
  | .notImplemented => ∀ e ∈ defs, ¬ Applicable proj reg e args
  | .ambiguous => (∃ e ∈ defs, Applicable proj reg e args) ∧
      ∀ (i : Nat) (df : DefRec), defs[i]? = some df → Applicable proj reg df args →
        ∃ (j : Nat) (e : DefRec), defs[j]? = some e ∧ j ≠ i ∧ Applicable proj reg e args ∧ ¬ MoreSpecific proj reg df e

/-- candidates for `next` inside `d`: a base of `d`'s class everywhere, different somewhere -/
def MoreGeneral (proj : Nat → Nat) (reg : Registry) (e d : DefRec) : Prop :=
  Forall₂ (fun dp ep => Derives proj reg (proj dp) (proj ep)) d.vp e.vp ∧
  e.vp.map proj ≠ d.vp.map proj

/-- a legal call: every argument's class is registered and derives from the method's parameter -/
def Legal (proj : Nat → Nat) (reg : Registry) (m : MethodRec) (args : List Nat) : Prop :=
  Forall₂ (fun a p => Registered proj reg a ∧ Derives proj reg a (proj p)) args m.vp

/-! ## basic facts -/

theorem Derives.trans {proj reg a b c} (h1 : Derives proj reg a b) (h2 : Derives proj reg b c) :
    Derives proj reg a c := by
  induction h1 with
  | refl => exact h2
  | step hl _ ih => exact Derives.step hl (ih h2)

/-- registries whose listed-base relation has no cycle between distinct classes (guaranteed by C++) -/
def Acyclic (proj : Nat → Nat) (reg : Registry) : Prop :=
  ∀ a b, Derives proj reg a b → Derives proj reg b a → a = b

theorem forall₂_length {α β} {R : α → β → Prop} {l₁ l₂} (h : Forall₂ R l₁ l₂) :
    l₁.length = l₂.length := by
  induction h with
  | nil => rfl
  | cons _ _ ih => simp [ih]

theorem forall₂_get {α β} {R : α → β → Prop} {l₁ : List α} {l₂ : List β} (h : Forall₂ R l₁ l₂) :
    ∀ (i : Nat) a b, l₁[i]? = some a → l₂[i]? = some b → R a b := by
  induction h with
  | nil => intro i a b h; simp at h
  | cons hr _ ih =>
    intro i a b h1 h2
    cases i with
    | zero => simp at h1 h2; subst h1; subst h2; exact hr
    | succ i => simp at h1 h2; exact ih i a b h1 h2

theorem forall₂_of_get {α β} {R : α → β → Prop} : ∀ {l₁ : List α} {l₂ : List β},
    l₁.length = l₂.length → (∀ (i : Nat) a b, l₁[i]? = some a → l₂[i]? = some b → R a b) →
    Forall₂ R l₁ l₂
  | [], [], _, _ => Forall₂.nil
  | [], _ :: _, h, _ => by simp at h
  | _ :: _, [], h, _ => by simp at h
  | a :: as, b :: bs, hl, h =>
    Forall₂.cons (h 0 a b (by simp) (by simp))
      (forall₂_of_get (by simpa using hl) (fun i x y hx hy => h (i + 1) x y (by simpa using hx) (by simpa using hy)))

/-- `MoreSpecific` is asymmetric: at the position where `d` is properly derived, `e` is a proper
    base. Hence at most one definition is more specific than every other applicable one. -/
theorem moreSpecific_asymm {proj reg} {d e : DefRec}
    (h : MoreSpecific proj reg d e) : ¬ MoreSpecific proj reg e d := by
  intro h'
  obtain ⟨_, i, dp, ep, hd, he, hpd⟩ := h
  obtain ⟨hno, _⟩ := h'
  exact forall₂_get hno i ep dp he hd hpd

theorem selects_ran_unique {proj reg} {defs : List DefRec} {args} {d d' : Nat}
    (h : Selects proj reg defs args (.ran d)) (h' : Selects proj reg defs args (.ran d')) : d = d' := by
  obtain ⟨i, df, hi, hid, hap, hdom⟩ := h
  obtain ⟨i', df', hi', hid', hap', hdom'⟩ := h'
  by_cases hii : i = i'
  · subst hii
    rw [hi] at hi'
    cases hi'
    rw [← hid, ← hid']
  · exfalso
    have h1 := hdom i' df' hi' (fun e => hii e.symm) hap'
    have h2 := hdom' i df hi hii hap
    exact moreSpecific_asymm h1 h2

/-- the three outcomes exclude one another -/
theorem selects_exclusive_ran_ambiguous {proj reg} {defs : List DefRec} {args} {d : Nat}
    (h : Selects proj reg defs args (.ran d)) : ¬ Selects proj reg defs args .ambiguous := by
  intro ha
  obtain ⟨i, df, hi, _, hap, hdom⟩ := h
  obtain ⟨_, hall⟩ := ha
  obtain ⟨j, e, hj, hne, hape, hnot⟩ := hall i df hi hap
  exact hnot (hdom j e hj hne hape)

theorem selects_exclusive_ran_ni {proj reg} {defs : List DefRec} {args} {d : Nat}
    (h : Selects proj reg defs args (.ran d)) : ¬ Selects proj reg defs args .notImplemented := by
  intro hn
  obtain ⟨i, df, hi, _, hap, _⟩ := h
  exact hn df (List.mem_of_getElem? hi) hap

theorem selects_exclusive_amb_ni {proj reg} {defs : List DefRec} {args}
    (h : Selects proj reg defs args .ambiguous) : ¬ Selects proj reg defs args .notImplemented := by
  intro hn
  obtain ⟨⟨e, he, hap⟩, _⟩ := h
  exact hn e he hap

end Yomm2.Spec
