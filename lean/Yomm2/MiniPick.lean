import Yomm2.Model.Dispatch
/-!
# A third small language: `compiler<Policy>::best`

`best(candidates)` is a range-for over the candidates whose body asks `std::all_of(candidates, λ other. …)` and
returns `{spec}` for the first candidate that passes, `candidates` when none does (the repair of D2: no
incremental elimination). `tools/cpp2lean.py` maps exactly these constructs — range-for over the parameter,
`if (std::all_of(begin, end, [spec](auto other) { return cond; }))`, `return {spec}`, `return candidates`, and
conditions built from `other == spec`, `is_more_specific(x, y)`, `||`, `&&`, `!` — to the terms below and
refuses anything else. `exec` is their meaning; `Proofs/SrcBest.lean` proves the translated body equal to the
model's `best`.
-/
namespace Yomm2.Pick

inductive Who
  | spec
  | other
deriving Repr, DecidableEq

inductive Cond
  | same (x y : Who)
  | ms (x y : Who)
  | or (a b : Cond)
  | and (a b : Cond)
  | not (a : Cond)
deriving Repr

inductive Stmt
  | skip
  | seq (a b : Stmt)
  /-- `for (auto spec : candidates) body` -/
  | forEach (body : Stmt)
  /-- `if (std::all_of(candidates.begin(), candidates.end(), [spec](auto other) { return c; })) t` -/
  | ifAllOf (c : Cond) (t : Stmt)
  /-- `return {spec};` -/
  | retSingle
  /-- `return candidates;` -/
  | retAll
deriving Repr

inductive Res (α : Type)
  | normal
  | returned (l : List α)
  | fault (why : String)

variable {α : Type} [DecidableEq α]

def evalCond (ms : α → α → Bool) (spec other : α) : Cond → Bool
  | .same x y => decide ((if x = .spec then spec else other) = (if y = .spec then spec else other))
  | .ms x y => ms (if x = .spec then spec else other) (if y = .spec then spec else other)
  | .or a b => evalCond ms spec other a || evalCond ms spec other b
  | .and a b => evalCond ms spec other a && evalCond ms spec other b
  | .not a => !evalCond ms spec other a

mutual
/-- `spec` is the loop variable when inside a `forEach` -/
def exec (ms : α → α → Bool) (cands : List α) (spec : Option α) : Stmt → Res α
  | .skip => .normal
  | .seq a b =>
    match exec ms cands spec a with
    | .normal => exec ms cands spec b
    | r => r
  | .forEach body => loop ms cands body cands
  | .ifAllOf c t =>
    match spec with
    | none => .fault "the lambda captures the loop variable outside the loop"
    | some s => if cands.all (fun o => evalCond ms s o c) then exec ms cands spec t else .normal
  | .retSingle =>
    match spec with
    | none => .fault "return {spec} outside the loop"
    | some s => .returned [s]
  | .retAll => .returned cands
termination_by stmt => (sizeOf stmt, 0)

/-- the iterations of the range-for over the remaining candidates -/
def loop (ms : α → α → Bool) (cands : List α) (body : Stmt) : List α → Res α
  | [] => .normal
  | s :: rest =>
    match exec ms cands (some s) body with
    | .normal => loop ms cands body rest
    | r => r
termination_by l => (sizeOf body, l.length + 1)
end

def run (ms : α → α → Bool) (body : Stmt) (cands : List α) : Res α := exec ms cands none body

end Yomm2.Pick
