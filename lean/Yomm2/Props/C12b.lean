import Yomm2.Props.C12
/-!
# C12 — the debug-build cross-check accepts the generated offsets and rejects any other
-/
namespace Yomm2.Props.C12
open Yomm2

theorem staticCheckFrom_none (arity : Nat) (st ins : List Nat) : ∀ (f k : Nat), arity ≤ k + f →
    (staticCheckFrom arity st ins f k = none ↔
      (∀ i, k ≤ i → i < arity → (st[i]?).getD 0 = (ins[i]?).getD 0) ∧
      (∀ i, k ≤ i → 1 ≤ i → i < arity → (st[arity + i - 1]?).getD 0 = (ins[arity + i - 1]?).getD 0))
  | 0, k, h => by
    simp only [staticCheckFrom, true_iff]
    exact ⟨fun i h1 h2 => by omega, fun i h1 _ h2 => by omega⟩
  | f + 1, k, h => by
    simp only [staticCheckFrom]
    by_cases hk : k ≥ arity
    · rw [if_pos hk]
      simp only [true_iff]
      exact ⟨fun i h1 h2 => by omega, fun i h1 _ h2 => by omega⟩
    · rw [if_neg hk]
      by_cases hs : (st[k]?).getD 0 ≠ (ins[k]?).getD 0
      · rw [if_pos hs]
        simp only [reduceCtorEq, false_iff]
        intro ⟨h1, _⟩
        exact hs (h1 k (Nat.le_refl _) (by omega))
      · rw [if_neg hs]
        by_cases ht : k ≥ 1 ∧ (st[arity + k - 1]?).getD 0 ≠ (ins[arity + k - 1]?).getD 0
        · rw [if_pos ht]
          simp only [reduceCtorEq, false_iff]
          intro ⟨_, h2⟩
          exact ht.2 (h2 k (Nat.le_refl _) ht.1 (by omega))
        · rw [if_neg ht]
          rw [staticCheckFrom_none arity st ins f (k + 1) (by omega)]
          have hs' : (st[k]?).getD 0 = (ins[k]?).getD 0 := by simpa using hs
          constructor
          · rintro ⟨h1, h2⟩
            refine ⟨?_, ?_⟩
            · intro i hi hlt
              by_cases hik : i = k
              · subst hik; exact hs'
              · exact h1 i (by omega) hlt
            · intro i hi h1i hlt
              by_cases hik : i = k
              · subst hik
                by_cases hne : (st[arity + i - 1]?).getD 0 = (ins[arity + i - 1]?).getD 0
                · exact hne
                · exact absurd ⟨h1i, hne⟩ ht
              · exact h2 i (by omega) h1i hlt
          · rintro ⟨h1, h2⟩
            exact ⟨fun i hi hlt => h1 i (by omega) hlt, fun i hi h1i hlt => h2 i (by omega) h1i hlt⟩

/-- **the cross-check is exact**: a call meets no disagreement iff every slot and every stride it uses
    is the installed one — correctly generated offsets are accepted, any other offsets are rejected -/
theorem C12_check_accepts_exactly_the_installed (arity : Nat) (st ins : List Nat) :
    staticCheck arity st ins = none ↔
      (∀ i, i < arity → (st[i]?).getD 0 = (ins[i]?).getD 0) ∧
      (∀ i, 1 ≤ i → i < arity → (st[arity + i - 1]?).getD 0 = (ins[arity + i - 1]?).getD 0) := by
  unfold staticCheck
  rw [staticCheckFrom_none arity st ins arity 0 (by omega)]
  constructor
  · rintro ⟨h1, h2⟩
    exact ⟨fun i hi => h1 i (Nat.zero_le _) hi, fun i h1i hi => h2 i (Nat.zero_le _) h1i hi⟩
  · rintro ⟨h1, h2⟩
    exact ⟨fun i _ hi => h1 i hi, fun i _ h1i hi => h2 i h1i hi⟩

/-- with the generated offsets (= the installed arrays, `printed_eq_installed`) the check is silent -/
theorem C12_generated_offsets_pass (arity : Nat) (ins : List Nat) : staticCheck arity ins ins = none :=
  (C12_check_accepts_exactly_the_installed arity ins ins).mpr ⟨fun _ _ => rfl, fun _ _ _ => rfl⟩

example : staticCheck 3 [7, 8, 2, 2, 4] [7, 8, 2, 2, 4] = none := by decide
example : staticCheck 3 [7, 9, 2, 2, 4] [7, 8, 2, 2, 4] = some "static_slot" := by decide
example : staticCheck 3 [7, 8, 2, 3, 4] [7, 8, 2, 2, 4] = some "static_stride" := by decide

end Yomm2.Props.C12
