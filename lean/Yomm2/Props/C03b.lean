import Yomm2.Proofs.Bridge
/-!
# C03 (continued) — `next` on the model of `update`, in terms of the specification
-/
namespace Yomm2.Props.C03
open Yomm2 Yomm2.Spec

/-- **C03**: after every `update` (the statement is about the function `dispatchMethod`, which every
    update recomputes from the current catalogs), for every definition `d` of every method, `next` is
    computed from exactly the definitions strictly more general than `d`: no such definition ⇒ the
    not-implemented handler; one that is more specific than all the others ⇒ that definition; otherwise
    the ambiguity handler. (`CellFor` spells the three cases; `msOf` is the documented ordering by
    `Bridge.msOf_iff`.) -/
theorem next_refers_to_most_specific_more_general (c : Bridge.Ctx) (m : MethodC) (mr : MethodRec)
    (hm : Bridge.MethodMatches c m mr) (i : Nat) (d : DefRec) (hd : mr.defs[i]? = some d) :
    ∃ cell cands, (dispatchMethod c.g m).nexts[i]? = some cell ∧
      (∀ o, o ∈ cands ↔ ∃ e, mr.defs[o]? = some e ∧ MoreGeneral c.proj c.reg e d) ∧
      Cells.CellFor (Cells.msOf c.g m) cands cell :=
  Bridge.next_correct c m mr hm i d hd

/-- the ordering used is the documented one -/
theorem next_uses_documented_ordering (c : Bridge.Ctx) (m : MethodC) (mr : MethodRec) (hm : Bridge.MethodMatches c m mr)
    (a b : Nat) (da db : DefRec) (ha : mr.defs[a]? = some da) (hb : mr.defs[b]? = some db) :
    Cells.msOf c.g m a b = true ↔ MoreSpecific c.proj c.reg da db :=
  Bridge.msOf_iff c m mr hm a b da db ha hb

end Yomm2.Props.C03
