import Yomm2.Props.C10
import Yomm2.Props.C01c
import Yomm2.Props.C06b
/-!
# C10 — at the level of the model: every id of a class reaches the class's definitions
-/
namespace Yomm2.Props.C10
open Yomm2 Yomm2.Spec Yomm2.GraphProofs Yomm2.Props.C01

/-- **every id of a class reaches that class's definitions**: two calls of one method whose arguments
    carry different ids of the same classes (ids with the same `type_index`: several ids per class under
    a projection, or the same class seen from several shared objects) have the same outcome in the
    specification and therefore run the same definition — for every arity, whatever the projection
    (identity, many-to-one, deferred ids resolved at `update`), hashed or not, after any update -/
theorem C10_every_id_of_a_class_dispatches_alike (s s' : PState) (mults rest : List UInt64)
    (hup : s.update mults = (s', .ok, rest))
    (hwf : WF s.cfg.proj s.registry.classes s.registry.methods)
    (hword : ∀ r ∈ s.registry.classes, r.id < 2 ^ 64 - 1)
    (c : Compiled) (hc : s'.compiled = some c)
    (key mi : Nat) (m : MethodC) (hfind : (List.zipIdx c.methods).find? (fun e => e.1.key == key) = some (m, mi))
    (args args' : List (Kind × Nat)) (cs : List Nat) (hnomap : s.cfg.hash = .checked → ¬ s.cfg.vptrMap = true)
    (hreg : Forall₂ (fun (id ci : Nat) => id ∈ c.graph.ids ci) (virtIds args) cs)
    (hreg' : Forall₂ (fun (id ci : Nat) => id ∈ c.graph.ids ci) (virtIds args') cs)
    (halias : (virtIds args).map s.cfg.proj = (virtIds args').map s.cfg.proj)
    (hacc : Forall₂ (fun cl v => cl ∈ c.graph.cov.get v) cs m.vp) (hpos : 0 < m.vp.length) :
    ∃ o, s'.callWith key args .ref [] = expected m.vp.length args o ∧
         s'.callWith key args' .ref [] = expected m.vp.length args' o := by
  obtain ⟨mr, o, hmr, hsel, hcall⟩ := C01_C02_call_after_update s s' mults rest hup hwf hword c hc key mi m hfind
    args cs hnomap hreg hacc hpos
  obtain ⟨mr', o', hmr', hsel', hcall'⟩ := C01_C02_call_after_update s s' mults rest hup hwf hword c hc key mi m hfind
    args' cs hnomap hreg' hacc hpos
  rw [hmr] at hmr'; cases hmr'
  rw [← halias] at hsel'
  have hr : Ranked s.cfg.proj s.registry s.registry.classes.length := Props.C06.ranked_of_wf hwf
  have : o = o' := spec_functional hr hsel hsel'
  subst this
  exact ⟨o, hcall, hcall'⟩

/-- in particular, when a definition runs for one id of a class it runs for every other id of it -/
theorem C10_alias_runs_same_definition (s s' : PState) (mults rest : List UInt64)
    (hup : s.update mults = (s', .ok, rest))
    (hwf : WF s.cfg.proj s.registry.classes s.registry.methods)
    (hword : ∀ r ∈ s.registry.classes, r.id < 2 ^ 64 - 1)
    (c : Compiled) (hc : s'.compiled = some c)
    (key mi : Nat) (m : MethodC) (hfind : (List.zipIdx c.methods).find? (fun e => e.1.key == key) = some (m, mi))
    (args args' : List (Kind × Nat)) (cs : List Nat) (hnomap : s.cfg.hash = .checked → ¬ s.cfg.vptrMap = true)
    (hreg : Forall₂ (fun (id ci : Nat) => id ∈ c.graph.ids ci) (virtIds args) cs)
    (hreg' : Forall₂ (fun (id ci : Nat) => id ∈ c.graph.ids ci) (virtIds args') cs)
    (halias : (virtIds args).map s.cfg.proj = (virtIds args').map s.cfg.proj)
    (hacc : Forall₂ (fun cl v => cl ∈ c.graph.cov.get v) cs m.vp) (hpos : 0 < m.vp.length)
    (d : Nat) (hran : s'.callWith key args .ref [] = .ran d) : s'.callWith key args' .ref [] = .ran d := by
  obtain ⟨o, h1, h2⟩ := C10_every_id_of_a_class_dispatches_alike s s' mults rest hup hwf hword c hc key mi m hfind
    args args' cs hnomap hreg hreg' halias hacc hpos
  rw [h1] at hran
  cases o with
  | ran d' => simp only [expected] at hran h2; rw [h2]; exact hran
  | notImplemented => simp [expected] at hran
  | ambiguous => simp [expected] at hran

end Yomm2.Props.C10
