import Yomm2.Model.Generator
import Yomm2.Model.Runtime
/-!
# C12 — generated static offsets equal the offsets installed by update
-/
namespace Yomm2.Props.C12
open Yomm2

/-- the numbers `write_static_offsets` prints as slots / strides, positionally -/
def printedSlots (arity : Nat) (ss : List Nat) : List Nat := (List.range arity).map (fun i => (ss[i]?).getD 0)
def printedStrides (arity : Nat) (ss : List Nat) : List Nat := (List.range (arity - 1)).map (fun i => (ss[arity + i]?).getD 0)

theorem range_map_getD (l : List Nat) : (List.range l.length).map (fun i => (l[i]?).getD 0) = l := by
  apply List.ext_getElem?
  intro i
  by_cases h : i < l.length
  · simp [h]
  · simp [h]

/-- **for every arity**, the printed slots and strides are, position by position, the installed ones
    (`slots_strides` = all slots followed by all strides) -/
theorem printed_eq_installed (slots strides : List Nat) (h : strides.length = slots.length - 1) :
    printedSlots slots.length (slots ++ strides) = slots ∧
    printedStrides slots.length (slots ++ strides) = strides := by
  constructor
  · unfold printedSlots
    conv => rhs; rw [← range_map_getD slots]
    apply List.map_congr_left
    intro i hi
    have : i < slots.length := List.mem_range.mp hi
    rw [List.getElem?_append_left this]
  · unfold printedStrides
    rw [← h]
    conv => rhs; rw [← range_map_getD strides]
    apply List.map_congr_left
    intro i _
    rw [List.getElem?_append_right (by omega)]
    simp

/-- the text is built from exactly those numbers -/
theorem text_uses_printed (name : String) (arity : Nat) (ss : List Nat) (h : arity > 1) :
    writeStaticOffsets name arity ss =
      "template<> struct yorel::yomm2::detail::static_offsets<" ++ name ++
      "> {static constexpr std::size_t slots[] = {" ++ joinNats ", " (printedSlots arity ss) ++
      "}; static constexpr std::size_t strides[] = {" ++ joinNats ", " (printedStrides arity ss) ++ "}; };" := by
  unfold writeStaticOffsets printedSlots printedStrides
  simp [h]

/-- the arity-3 witness of D6: installed `{0,1,0 | 3,9}` is printed as slots {0,1,0}, strides {3,9} -/
example : printedSlots 3 [0, 1, 0, 3, 9] = [0, 1, 0] ∧ printedStrides 3 [0, 1, 0, 3, 9] = [3, 9] := by decide

end Yomm2.Props.C12
