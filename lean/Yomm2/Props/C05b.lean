import Yomm2.Props.C05
/-!
# C05 (continued) — from one attempt to the whole search and to the checked lookup
-/
namespace Yomm2.Props.C05
open Yomm2

/-- a pass that ends with `found` ends on a successful attempt with the reported multiplier, whose
    buckets and maximum it returns -/
theorem passLoop_found (classes : List (List UInt64)) (M : Nat) :
    ∀ (budget : Nat) (mults : List UInt64) (mn mx : Nat) (mult0 : UInt64)
      (b : Array UInt64) (mn' mx' : Nat) (mult : UInt64) (att : Nat) (rest : List UInt64),
      passLoop classes M budget mults mn mx mult0 = some (true, b, mn', mx', mult, att, rest, false) →
      ∃ mn0 mx0, let a := attempt (hashIdx mult (64 - M)) (2 ^ M) mn0 mx0 classes
        a.found = true ∧ a.fault = false ∧ b = a.buckets ∧ mx' = a.mx
  | 0, _, _, _, _, _, _, _, _, _, _, h => by simp [passLoop] at h
  | budget + 1, [], _, _, _, _, _, _, _, _, _, h => by simp [passLoop] at h
  | budget + 1, m :: ms, mn, mx, mult0, b, mn', mx', mult, att, rest, h => by
    simp only [passLoop] at h
    split at h
    · simp at h
    · rename_i hnf
      split at h
      · rename_i hfound
        simp only [Option.some.injEq, Prod.mk.injEq] at h
        obtain ⟨_, hb, _, hmx, hmult, _, _, _⟩ := h
        refine ⟨mn, mx, ?_⟩
        subst hmult
        exact ⟨hfound, by simpa using hnf, hb.symm, hmx.symm⟩
      · cases hrec : passLoop classes M budget ms
            (attempt (hashIdx (m ||| 1) (64 - M)) (2 ^ M) mn mx classes).mn
            (attempt (hashIdx (m ||| 1) (64 - M)) (2 ^ M) mn mx classes).mx (m ||| 1) with
        | none => simp [hrec] at h
        | some r =>
          obtain ⟨f, b2, mn2, mx2, mult2, att2, rest2, flt2⟩ := r
          simp only [hrec, Option.some.injEq, Prod.mk.injEq] at h
          obtain ⟨hf, hb, hmn, hmx, hmult, _, hrest, hflt⟩ := h
          subst hf hb hmx hmult hflt
          exact passLoop_found classes M budget ms _ _ _ _ _ _ _ _ _ (by rw [hrec, hmn, hrest])

/-- the whole search: when it reports success, the installed parameters are those of a successful
    attempt, `hash_length` is its maximum + 1 -/
theorem searchPasses_found (classes : List (List UInt64)) (budget : Nat) :
    ∀ (passes M : Nat) (mults : List UInt64) (st : HashSt) (total : Nat)
      (st' : HashSt) (buckets : Array UInt64) (att : Nat) (rest : List UInt64),
      searchPasses classes budget passes M mults st total = .found st' buckets att rest →
      ∃ M' mn0 mx0, let a := attempt (hashIdx st'.mult st'.shift) (2 ^ M') mn0 mx0 classes
        st'.shift = 64 - M' ∧ a.found = true ∧ buckets = a.buckets ∧ st'.length = a.mx + 1
  | 0, _, _, _, _, _, _, _, _, h => by simp [searchPasses] at h
  | p + 1, M, mults, st, total, st', buckets, att, rest, h => by
    simp only [searchPasses] at h
    cases hp : passLoop classes M budget mults st.mn st.mx st.mult with
    | none => simp [hp] at h
    | some r =>
      obtain ⟨found, b, mn, mx, mult, att1, rest1, flt⟩ := r
      simp only [hp] at h
      cases flt with
      | true => simp at h
      | false =>
        simp only [Bool.false_eq_true, if_false] at h
        cases found with
        | true =>
          simp only [if_true, SearchResult.found.injEq] at h
          obtain ⟨hst, hb, _, _⟩ := h
          obtain ⟨mn0, mx0, hf, _, hbb, hmx⟩ := passLoop_found classes M budget mults st.mn st.mx st.mult b mn mx mult att1 rest1 hp
          refine ⟨M, mn0, mx0, ?_⟩
          subst hst
          exact ⟨rfl, hf, by rw [← hb, hbb], by simp only [hmx]⟩
        | false =>
          simp only [Bool.false_eq_true, if_false] at h
          exact searchPasses_found classes budget p (M + 1) rest1 _ _ st' buckets att rest h

/-- **C05 (search)**: whenever `hash_initialize` returns normally, for every multiplier stream, every
    budget, every previous `hash_min` / `hash_max`: every registered id hashes to an index below
    `hash_length`, the bucket there holds the id, and distinct registered ids have distinct indices -/
theorem C05_installed_hash_is_perfect (classes : List (List UInt64)) (budget : Nat) (mults : List UInt64) (st st' : HashSt)
    (buckets : Array UInt64) (att : Nat) (rest : List UInt64)
    (hs : ∀ c ∈ classes, ∀ t ∈ c, t ≠ sentinel)
    (h : hashSearch classes budget mults st = .found st' buckets att rest) :
    (∀ c ∈ classes, ∀ t ∈ c, hashIdx st'.mult st'.shift t < st'.length ∧ buckets[hashIdx st'.mult st'.shift t]? = some t) ∧
    (∀ c ∈ classes, ∀ t ∈ c, ∀ c' ∈ classes, ∀ t' ∈ c',
      hashIdx st'.mult st'.shift t = hashIdx st'.mult st'.shift t' → t = t') := by
  unfold hashSearch at h
  obtain ⟨M', mn0, mx0, _, hf, hb, hlen⟩ := searchPasses_found classes budget Generated.hashPasses _ mults st 0 st' buckets att rest h
  obtain ⟨p1, p2⟩ := found_is_perfect (hashIdx st'.mult st'.shift) (2 ^ M') mn0 mx0 classes hs hf
  constructor
  · intro c hc t ht
    obtain ⟨hle, hbk⟩ := p1 c hc t ht
    exact ⟨by rw [hlen]; omega, by rw [hb]; exact hbk⟩
  · exact p2

/-- **C05 (search), rejection**: after a successful search no bucket holds an id that is neither
    registered nor the reserved value 2^64-1 -/
theorem C05_buckets_hold_only_registered (classes : List (List UInt64)) (budget : Nat) (mults : List UInt64) (st st' : HashSt)
    (buckets : Array UInt64) (att : Nat) (rest : List UInt64)
    (hs : ∀ c ∈ classes, ∀ t ∈ c, t ≠ sentinel)
    (h : hashSearch classes budget mults st = .found st' buckets att rest)
    (id : UInt64) (hid : id ≠ sentinel) (hunreg : ∀ c ∈ classes, id ∉ c) (j : Nat) :
    buckets[j]? ≠ some id := by
  unfold hashSearch at h
  obtain ⟨M', mn0, mx0, _, hf, hb, _⟩ := searchPasses_found classes budget Generated.hashPasses _ mults st 0 st' buckets att rest h
  rw [hb]
  exact unregistered_not_in_buckets (hashIdx st'.mult st'.shift) (2 ^ M') mn0 mx0 classes hs hf id hid hunreg j

/-- `control.resize(hash_length)` keeps the buckets it keeps and fills the rest with zero -/
theorem resizeControl_get (buckets : Array UInt64) (len j : Nat) (v : UInt64)
    (h : (resizeControl buckets len)[j]? = some v) : buckets[j]? = some v ∨ (buckets.size ≤ j ∧ v = 0) := by
  unfold resizeControl at h
  split at h
  · rename_i hle
    rw [Array.getElem?_extract] at h
    split at h
    · left; simpa using h
    · cases h
  · rw [Array.getElem?_append] at h
    split at h
    · exact Or.inl h
    · rename_i hge
      rw [Array.getElem?_replicate] at h
      split at h
      · right; exact ⟨Nat.le_of_not_lt hge, (Option.some.inj h).symm⟩
      · cases h

theorem hashIdx_zero (mult : UInt64) (shift : Nat) : hashIdx mult shift 0 = 0 := by
  simp [hashIdx]

theorem classLoop_size (ix : UInt64 → Nat) : ∀ (ts : List UInt64) (a : Att), (classLoop ix a ts).buckets.size = a.buckets.size
  | [], a => rfl
  | t :: ts, a => by
    simp only [classLoop]
    split
    · rfl
    · split
      · rfl
      · rw [classLoop_size ix ts]; simp [Array.set!]

theorem attempt_size (ix : UInt64 → Nat) (size mn mx : Nat) (classes : List (List UInt64)) :
    (attempt ix size mn mx classes).buckets.size = size := by
  unfold attempt
  suffices H : ∀ (cls : List (List UInt64)) (a : Att), (cls.foldl (classLoop ix) a).buckets.size = a.buckets.size by
    rw [H]; simp
  intro cls
  induction cls with
  | nil => intro a; rfl
  | cons c cs ih => intro a; simp only [List.foldl_cons]; rw [ih, classLoop_size]

/-- **C05 (checked variant)**: with the control table produced by a successful search, every id that
    is not registered — other than 0 and the reserved 2^64-1 — is rejected (reported as an unknown
    class) instead of being mapped to some registered class's table -/
theorem C05_checked_rejects_unregistered (classes : List (List UInt64)) (budget : Nat) (mults : List UInt64) (st st' : HashSt)
    (buckets : Array UInt64) (att : Nat) (rest : List UInt64)
    (hs : ∀ c ∈ classes, ∀ t ∈ c, t ≠ sentinel)
    (h : hashSearch classes budget mults st = .found st' buckets att rest)
    (id : UInt64) (hid : id ≠ sentinel) (hunreg : ∀ c ∈ classes, id ∉ c) :
    checkedIdx st' (resizeControl buckets st'.length) id = none := by
  cases hc : checkedIdx st' (resizeControl buckets st'.length) id with
  | none => rfl
  | some i =>
    exfalso
    obtain ⟨hi, _, hctl⟩ := checked_accepts_only_stored st' _ id i hc
    rcases resizeControl_get buckets st'.length i id hctl with hb | ⟨hsz, hz⟩
    · exact C05_buckets_hold_only_registered classes budget mults st st' buckets att rest hs h id hid hunreg i hb
    · -- the zero-filled extension is never reached: id 0 hashes to index 0, inside the buckets
      subst hz
      rw [hashIdx_zero] at hi
      subst hi
      have h' := h
      unfold hashSearch at h'
      obtain ⟨M', mn0, mx0, _, _, hb, _⟩ := searchPasses_found classes budget Generated.hashPasses _ mults st 0 st' buckets att rest h'
      rw [hb, attempt_size] at hsz
      have : 0 < 2 ^ M' := Nat.two_pow_pos M'
      omega

end Yomm2.Props.C05
