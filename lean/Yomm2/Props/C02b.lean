import Yomm2.Props.C01c
/-!
# C02 (continued) — what becomes of the error: the handler throws, or the program aborts

`method::not_implemented_handler` / `ambiguous_handler` (core.hpp) build the `resolution_error`, pass it to
`Policy::error`, and call `abort()` when that returns ("in case user handler forgets to abort"). The three
error facets differ only in what `Policy::error` does: `throw_error` always throws the error; `vectored_error`
calls the user's `std::function`, which may throw or return; the deprecated `call_error` indirection returns.
The model's `callWith` is a function of the state: a call does not change it.
-/
namespace Yomm2.Props.C02
open Yomm2

/-- what `Policy::error` does with an error -/
inductive HandlerAction
  | throws
  | returns
deriving DecidableEq

/-- what the caller observes -/
inductive Observed
  | ran (d : Nat)
  /-- the exception thrown by the handler reaches the caller, carrying the error -/
  | threw (e : CallErr)
  | aborted
deriving DecidableEq

/-- a call under an error handler: `handler(error); abort();` on the error path -/
def callObserved (s : PState) (handler : CallErr → HandlerAction) (key : Nat) (args : List (Kind × Nat))
    (route : Route) (pre : List (Nat × VPtr)) : Observed :=
  match s.callWith key args route pre with
  | .ran d => .ran d
  | .raised e =>
    match handler e with
    | .throws => .threw e
    | .returns => .aborted

/-- if the handler throws, the caller gets exactly the error the call raised … -/
theorem C02_throwing_handler_reaches_caller (s : PState) (handler : CallErr → HandlerAction)
    (hthrow : ∀ e, handler e = .throws) (key : Nat) (args : List (Kind × Nat)) (route : Route) (pre : List (Nat × VPtr))
    (e : CallErr) (h : s.callWith key args route pre = .raised e) :
    callObserved s handler key args route pre = .threw e := by
  simp [callObserved, h, hthrow]

/-- … and if it returns, the program aborts: no definition runs and nothing is returned to the caller -/
theorem C02_returning_handler_aborts (s : PState) (handler : CallErr → HandlerAction)
    (hret : ∀ e, handler e = .returns) (key : Nat) (args : List (Kind × Nat)) (route : Route) (pre : List (Nat × VPtr))
    (e : CallErr) (h : s.callWith key args route pre = .raised e) :
    callObserved s handler key args route pre = .aborted := by
  simp [callObserved, h, hret]

/-- whatever the handler does, an unresolvable call never runs a definition -/
theorem C02_error_never_runs (s : PState) (handler : CallErr → HandlerAction) (key : Nat) (args : List (Kind × Nat))
    (route : Route) (pre : List (Nat × VPtr)) (e : CallErr) (h : s.callWith key args route pre = .raised e) (d : Nat) :
    callObserved s handler key args route pre ≠ .ran d := by
  unfold callObserved
  rw [h]
  cases hh : handler e <;> simp [hh]

/- Later calls: `callWith` takes the state and returns an outcome; it returns no new state, so a call that raised
   leaves everything as it was and the next call is again a call "after the latest successful update" in the sense
   of `C01_C02_call_after_update`. On the implementation this is observed: calls made after a thrown error are part
   of every script of C02's battery. -/

end Yomm2.Props.C02
