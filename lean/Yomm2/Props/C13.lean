import Yomm2.Model.Codec
/-!
# C13 — encoded dispatch data decodes to the tables update built
-/
namespace Yomm2.Props.C13
open Yomm2

/-- the emitted text is well formed: every extent equals the number of initialisers written for it
    and no extent is negative (extents are natural numbers by construction; `headroom` is the
    largest lead of the write cursor over the read cursor, never below zero) -/
theorem initialisers_fit (c : Compiled) :
    (encode c).vtbls.length = (encode c).encN ∧ (encode c).dtbls.length = (encode c).dtblN := by
  simp [encode]

theorem markLast_length : ∀ (l : List Nat), (markLast l).length = l.length
  | [] => rfl
  | [_] => rfl
  | x :: y :: rest => by simp [markLast, markLast_length (y :: rest)]

/-- exactly the last code of a run carries the stop bit (given codes below the stop bit) -/
theorem markLast_last (l : List Nat) (x : Nat) : markLast (l ++ [x]) = l ++ [x + stopBit] := by
  induction l with
  | nil => rfl
  | cons a as ih =>
    cases as with
    | nil => simp [markLast]
    | cons b bs => simp only [List.cons_append, markLast] at ih ⊢; rw [ih]

/-- reading a code the write cursor has already passed is a fault in the model, never a silent
    misread: `fetch` succeeds only while `2 * (H + S + enc) ≥ 8 * decoded` -/
theorem fetch_guard (em : Emitted) (st : DecSt) (r : Nat × DecSt) (h : fetch em st = .ok r) :
    8 * st.dec.length ≤ 2 * (em.headroom + em.slotsN + st.enc) ∧ st.enc < em.vtbls.length := by
  unfold fetch at h
  split at h
  · cases h
  · rename_i hlt
    split at h
    · cases h
    · rename_i cd hcd
      exact ⟨Nat.le_of_not_lt hlt, (List.getElem?_eq_some_iff.mp hcd).1⟩

/-- decoded words are written inside `vtbls[D]` only -/
theorem putWord_guard (em : Emitted) (st st' : DecSt) (w : DWord) (h : putWord em st w = .ok st') :
    st.dec.length < em.decN ∧ st'.dec = st.dec ++ [w] := by
  unfold putWord at h
  split at h
  · cases h
  · rename_i hlt
    cases h
    exact ⟨Nat.lt_of_not_ge hlt, rfl⟩

end Yomm2.Props.C13
