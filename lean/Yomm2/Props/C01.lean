import Yomm2.SpecExec
import Yomm2.Model.World
import Yomm2.Proofs.Bridge
/-!
# C01 — a call runs the definition more specific than every other applicable one
-/
namespace Yomm2.Props.C01
open Yomm2 Yomm2.Spec

/-- the specification is well defined: at most one definition can be selected, and the three
    outcomes exclude one another -/
theorem spec_functional {proj reg} {defs : List DefRec} {args : List Nat} {o o' : Outcome}
    (hr : Ranked proj reg reg.classes.length)
    (h : Selects proj reg defs args o) (h' : Selects proj reg defs args o') : o = o' := by
  rw [(selects_iff_selectB hr defs args o).mp h, (selects_iff_selectB hr defs args o').mp h']

/-- the executable oracle used by the failing-input search decides the specification -/
theorem oracle_decides {proj reg} (hr : Ranked proj reg reg.classes.length) (defs : List DefRec)
    (args : List Nat) : Selects proj reg defs args (selectB proj reg defs args) :=
  selectB_spec hr defs args

/-- **C01, table level (PARTIAL)**: for every registry without inheritance cycles, every presentation of its
    base lists, every method and every tuple of classes acceptable to it, the dispatch table built by
    the model of `update` holds — at the offset the call computes from the tuple's group indices — the
    definition more specific than every other applicable one, or the error the specification prescribes.
    What remains for the end-to-end statement: that `install` + the v-table walk reach this offset
    (slot allocation, proved for lattices in C04; flattening; v-table pointer lookup). -/
theorem C01_table_correct (c : Bridge.Ctx) (m : MethodC) (mr : MethodRec) (hm : Bridge.MethodMatches c m mr)
    (cs ks gis : List Nat) (hk : Forall₂ (fun i k => c.key i = some k) cs ks)
    (hloc : Cells.LocatedAll c.g m 0 m.vp cs gis) :
    ∃ cell conc,
      (dispatchMethod c.g m).table[TableProofs.offset (dispatchMethod c.g m).groups.reverse gis.reverse]? = some (cell, conc) ∧
      Selects c.proj c.reg mr.defs ks (Bridge.outcomeOf mr.defs cell) ∧
      (∀ i, cell = .defn i → ∃ df, mr.defs[i]? = some df) :=
  Bridge.dispatch_table_correct c m mr hm cs ks gis hk hloc

/-- every acceptable class has a group, so the theorem above covers every legal call -/
theorem every_acceptable_class_is_located (g : Graph) (m : MethodC) (dim v cl : Nat) (h : cl ∈ g.cov.get v) :
    ∃ gi, Cells.Located g m dim v cl gi := Cells.located_exists g m dim v cl h

end Yomm2.Props.C01
