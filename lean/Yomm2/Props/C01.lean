import Yomm2.SpecExec
import Yomm2.Model.World
/-!
# C01 — a call runs the definition more specific than every other applicable one
-/
namespace Yomm2.Props.C01
open Yomm2 Yomm2.Spec

/-- the specification is well defined: at most one definition can be selected, and the three
    outcomes exclude one another -/
theorem spec_functional {proj reg} {defs : List DefRec} {args : List Nat} {o o' : Outcome}
    (hr : Ranked proj reg reg.classes.length)
    (h : Selects proj reg defs args o) (h' : Selects proj reg defs args o') : o = o' := by
  rw [(selects_iff_selectB hr defs args o).mp h, (selects_iff_selectB hr defs args o').mp h']

/-- the executable oracle used by the failing-input search decides the specification -/
theorem oracle_decides {proj reg} (hr : Ranked proj reg reg.classes.length) (defs : List DefRec)
    (args : List Nat) : Selects proj reg defs args (selectB proj reg defs args) :=
  selectB_spec hr defs args

end Yomm2.Props.C01
