import Yomm2.SpecExec
import Yomm2.Model.World
import Yomm2.Proofs.Bridge
import Yomm2.Proofs.Walk
/-!
# C01 — a call runs the definition more specific than every other applicable one
-/
namespace Yomm2.Props.C01
open Yomm2 Yomm2.Spec

/-- the specification is well defined: at most one definition can be selected, and the three
    outcomes exclude one another -/
theorem spec_functional {proj reg} {defs : List DefRec} {args : List Nat} {o o' : Outcome}
    (hr : Ranked proj reg reg.classes.length)
    (h : Selects proj reg defs args o) (h' : Selects proj reg defs args o') : o = o' := by
  rw [(selects_iff_selectB hr defs args o).mp h, (selects_iff_selectB hr defs args o').mp h']

/-- the executable oracle used by the failing-input search decides the specification -/
theorem oracle_decides {proj reg} (hr : Ranked proj reg reg.classes.length) (defs : List DefRec)
    (args : List Nat) : Selects proj reg defs args (selectB proj reg defs args) :=
  selectB_spec hr defs args

/-- **C01, table level (PARTIAL)**: for every registry without inheritance cycles, every presentation of its
    base lists, every method and every tuple of classes acceptable to it, the dispatch table built by
    the model of `update` holds — at the offset the call computes from the tuple's group indices — the
    definition more specific than every other applicable one, or the error the specification prescribes.
    What remains for the end-to-end statement: that `install` + the v-table walk reach this offset
    (slot allocation, proved for lattices in C04; flattening; v-table pointer lookup). -/
theorem C01_table_correct (c : Bridge.Ctx) (m : MethodC) (mr : MethodRec) (hm : Bridge.MethodMatches c m mr)
    (cs ks gis : List Nat) (hk : Forall₂ (fun i k => c.key i = some k) cs ks)
    (hloc : Cells.LocatedAll c.g m 0 m.vp cs gis) :
    ∃ cell conc,
      (dispatchMethod c.g m).table[TableProofs.offset (dispatchMethod c.g m).groups.reverse gis.reverse]? = some (cell, conc) ∧
      Selects c.proj c.reg mr.defs ks (Bridge.outcomeOf mr.defs cell) ∧
      (∀ i, cell = .defn i → ∃ df, mr.defs[i]? = some df) :=
  Bridge.dispatch_table_correct c m mr hm cs ks gis hk hloc

/-- **C01, the walk (PARTIAL)**: if the v-table of each virtual argument's class holds at the method's
    slot for that parameter the entry (method, parameter, group of the class) — what `update` writes —
    then `method::resolve` on the flattened dispatch data returns the function word of the cell the
    specification prescribes: for every arity, every placement of non-virtual parameters, and
    independently of where `dispatch_data` is laid out. What remains: the v-table content itself
    (slots in range and exclusive, C04) and the lookup of the v-table pointers (C05 / policies). -/
theorem C01_walk_correct (c : Bridge.Ctx) (cp : Compiled) (inst : Installed) (hinst : install cp = .ok inst)
    (hgraph : cp.graph = c.g) (mi : Nat) (m : MethodC) (mr : MethodRec) (hmm : Bridge.MethodMatches c m mr)
    (hm : cp.methods[mi]? = some m) (ho : cp.outs[mi]? = some (dispatchMethod cp.graph m))
    (args : List (Kind × Int)) (cs ks gis : List Nat)
    (hk : Forall₂ (fun i k => c.key i = some k) cs ks)
    (hloc : Cells.LocatedAll c.g m 0 m.vp cs gis)
    (hlen : (Walk.virtPtrs args).length = m.vp.length) (hpos : 0 < m.vp.length)
    (hf : ∀ p v g, (Walk.virtPtrs args)[p]? = some v → gis[p]? = some g → Walk.ArgFact cp inst mi p v g) :
    ∃ cell, resolve inst mi args = .ok (Word.fn mi cell) ∧
      Selects c.proj c.reg mr.defs ks (Bridge.outcomeOf mr.defs cell) ∧
      (∀ i, cell = .defn i → ∃ df, mr.defs[i]? = some df) := by
  obtain ⟨cell, conc, hcell, hsel, hdef⟩ := Bridge.dispatch_table_correct c m mr hmm cs ks gis hk hloc
  refine ⟨cell, ?_, hsel, hdef⟩
  have hgl := (Cells.locatedAll_length c.g m 0 m.vp cs gis hloc).2
  rw [← hgraph] at hcell
  exact Walk.resolve_correct cp inst hinst mi m hm ho args gis hlen hgl hpos hf (cell, conc) hcell

/-- every acceptable class has a group, so the theorem above covers every legal call -/
theorem every_acceptable_class_is_located (g : Graph) (m : MethodC) (dim v cl : Nat) (h : cl ∈ g.cov.get v) :
    ∃ gi, Cells.Located g m dim v cl gi := Cells.located_exists g m dim v cl h

end Yomm2.Props.C01
