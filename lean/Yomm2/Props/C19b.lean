import Yomm2.Props.C19
import Yomm2.Proofs.Writer
/-!
# C19 — the forward declarations are balanced and declare exactly the requested classes
-/
namespace Yomm2.Props.C19
open Yomm2 Yomm2.Writer

/-- **C19, the writer**: for every list of qualified names (any number of nested namespaces, shared and
    diverging prefixes, identifiers that are string prefixes of one another, any order — sorted as the
    generator's `std::set` gives them or not), the text written by the character-level model of
    `write_forward_declarations` is a sequence of `namespace x {`, `class y;` and `}` lines which, read as
    C++ with a stack of open namespaces, (1) never closes a namespace that is not open and ends with
    none open — it is balanced; (2) declares exactly the requested classes, each once per request, each
    inside exactly its namespace path, in the order given, and nothing else. Components are non-empty
    and contain no `':'` (`QName.Wf`). -/
theorem C19_writer_balanced_and_exact (qs : List QName) (hq : ∀ q ∈ qs, q.Wf) :
    writeForwardDeclarations (qs.map QName.str) = String.join ((refToks [] qs).map Tok.render) ∧
    interp (refToks [] qs) [] [] = some (qs, []) := by
  constructor
  · unfold writeForwardDeclarations
    rw [fwdLines_ref qs hq, refAll_render]
  · have := interp_ref qs [] []
    simpa using this

/-- the hypotheses are met by ordinary names (non-vacuity), and the statement computes on them -/
example : (⟨["ns".toList, "sub".toList], "Baz".toList⟩ : QName).str = "ns::sub::Baz" := by decide

example : (refToks [] [⟨[], "Top".toList⟩, ⟨["ns".toList], "Bar".toList⟩, ⟨["ns".toList, "sub".toList], "Baz".toList⟩,
    ⟨["nsx".toList], "Q".toList⟩]).map Tok.render =
    ["class Top;\n", "namespace ns {\n", "class Bar;\n", "namespace sub {\n", "class Baz;\n", "}\n", "}\n",
     "namespace nsx {\n", "class Q;\n", "}\n"] := by decide

end Yomm2.Props.C19
