import Yomm2.SpecExec
/-!
# C06 — dispatch does not depend on the order of registration

At the level of the specification this is immediate: `Selects` speaks about membership only. The
model-level statement follows from C01 (model = specification), in each order.
-/
namespace Yomm2.Props.C06
open Yomm2 Yomm2.Spec

/-- the inheritance relation only depends on the *set* of class records -/
theorem derives_perm {proj} {reg reg' : Registry}
    (h : ∀ r, r ∈ reg.classes ↔ r ∈ reg'.classes) {a b : Nat} :
    Derives proj reg a b → Derives proj reg' a b := by
  intro hd
  induction hd with
  | refl c => exact Derives.refl c
  | step hl _ ih =>
    obtain ⟨r, hr, hk, b', hb', hp⟩ := hl
    exact Derives.step ⟨r, (h r).mp hr, hk, b', hb', hp⟩ ih

theorem derives_perm_iff {proj} {reg reg' : Registry}
    (h : ∀ r, r ∈ reg.classes ↔ r ∈ reg'.classes) (a b : Nat) :
    Derives proj reg a b ↔ Derives proj reg' a b :=
  ⟨derives_perm h, derives_perm (fun r => (h r).symm)⟩

theorem forall₂_imp {α β} {R S : α → β → Prop} (h : ∀ a b, R a b → S a b) {l₁ l₂} :
    Forall₂ R l₁ l₂ → Forall₂ S l₁ l₂ := by
  intro hf
  induction hf with
  | nil => exact Forall₂.nil
  | cons hr _ ih => exact Forall₂.cons (h _ _ hr) ih

theorem applicable_perm {proj} {reg reg' : Registry}
    (h : ∀ r, r ∈ reg.classes ↔ r ∈ reg'.classes) (d : DefRec) (args : List Nat) :
    Applicable proj reg d args ↔ Applicable proj reg' d args :=
  ⟨forall₂_imp (fun _ _ => derives_perm h), forall₂_imp (fun _ _ => derives_perm (fun r => (h r).symm))⟩

theorem moreSpecific_perm {proj} {reg reg' : Registry}
    (h : ∀ r, r ∈ reg.classes ↔ r ∈ reg'.classes) (d e : DefRec) :
    MoreSpecific proj reg d e → MoreSpecific proj reg' d e := by
  rintro ⟨h1, i, dp, ep, hd, he, hp⟩
  refine ⟨forall₂_imp (fun a b hn hpd => hn ⟨derives_perm (fun r => (h r).symm) hpd.1, hpd.2⟩) h1, i, dp, ep, hd, he,
    ⟨derives_perm h hp.1, hp.2⟩⟩

/-- membership form of "the definition selected": with distinct definitions, positions do not matter -/
def SelectsRan (proj : Nat → Nat) (reg : Registry) (defs : List DefRec) (args : List Nat) (df : DefRec) : Prop :=
  df ∈ defs ∧ Applicable proj reg df args ∧ ∀ e ∈ defs, e ≠ df → Applicable proj reg e args → MoreSpecific proj reg df e

/-- **C06 (specification level)**: permuting the class records and the definitions of a method (as the
    unspecified order of static initialisation does) does not change which definition is selected -/
theorem C06_selected_perm {proj} {reg reg' : Registry} {defs defs' : List DefRec} {args : List Nat}
    (hc : ∀ r, r ∈ reg.classes ↔ r ∈ reg'.classes) (hd : ∀ d, d ∈ defs ↔ d ∈ defs') (df : DefRec) :
    SelectsRan proj reg defs args df → SelectsRan proj reg' defs' args df := by
  rintro ⟨h1, h2, h3⟩
  refine ⟨(hd df).mp h1, (applicable_perm hc df args).mp h2, ?_⟩
  intro e he hne hap
  exact moreSpecific_perm hc df e (h3 e ((hd e).mpr he) hne ((applicable_perm hc e args).mpr hap))

/-- the "no applicable definition" outcome is order independent too -/
theorem C06_not_implemented_perm {proj} {reg reg' : Registry} {defs defs' : List DefRec} {args : List Nat}
    (hc : ∀ r, r ∈ reg.classes ↔ r ∈ reg'.classes) (hd : ∀ d, d ∈ defs ↔ d ∈ defs') :
    Selects proj reg defs args .notImplemented → Selects proj reg' defs' args .notImplemented := by
  intro h e he hap
  exact h e ((hd e).mpr he) ((applicable_perm hc e args).mpr hap)

/-- with distinct definitions the positional and the membership forms agree -/
theorem selects_ran_iff {proj} {reg : Registry} {defs : List DefRec} (hnd : defs.Nodup) {args : List Nat} (df : DefRec) :
    SelectsRan proj reg defs args df ↔
    ∃ i, defs[i]? = some df ∧ Applicable proj reg df args ∧
      ∀ (j : Nat) (e : DefRec), defs[j]? = some e → j ≠ i → Applicable proj reg e args → MoreSpecific proj reg df e := by
  constructor
  · rintro ⟨h1, h2, h3⟩
    obtain ⟨i, hi⟩ := List.getElem?_of_mem h1
    refine ⟨i, hi, h2, ?_⟩
    intro j e hj hne hap
    apply h3 e (List.mem_of_getElem? hj) _ hap
    intro hed
    subst hed
    -- two positions hold the same definition: impossible without duplicates
    have hi' := List.getElem?_eq_some_iff.mp hi
    have hj' := List.getElem?_eq_some_iff.mp hj
    obtain ⟨hil, hie⟩ := hi'
    obtain ⟨hjl, hje⟩ := hj'
    exact hne ((List.getElem_inj hnd).mp (hje.trans hie.symm))
  · rintro ⟨i, hi, h2, h3⟩
    refine ⟨List.mem_of_getElem? hi, h2, ?_⟩
    intro e he hne hap
    obtain ⟨j, hj⟩ := List.getElem?_of_mem he
    apply h3 j e hj _ hap
    intro hji
    subst hji
    rw [hi] at hj
    exact hne (Option.some.inj hj).symm

end Yomm2.Props.C06
