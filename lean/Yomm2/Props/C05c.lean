import Yomm2.Props.C05b
/-!
# C05 — the hash search never reads or writes outside its bucket vector
-/
namespace Yomm2.Props.C05
open Yomm2

/-- the index `(mult * id) >> (64 - M)` is below `2^M`, the size of the bucket vector of that pass -/
theorem hashIdx_lt (mult id : UInt64) (M : Nat) (h1 : 1 ≤ M) (h64 : M ≤ 64) : hashIdx mult (64 - M) id < 2 ^ M := by
  unfold hashIdx
  rw [UInt64.toNat_shiftRight]
  have hs : 64 - M < 64 := by omega
  have hmod : (UInt64.ofNat (64 - M)).toNat % 64 = 64 - M := by
    rw [UInt64.toNat_ofNat', Nat.mod_eq_of_lt (show 64 - M < 2 ^ 64 by omega), Nat.mod_eq_of_lt hs]
  rw [hmod, Nat.shiftRight_eq_div_pow]
  have hx := UInt64.toNat_lt (mult * id)
  rw [Nat.div_lt_iff_lt_mul (Nat.two_pow_pos _)]
  have : 2 ^ M * 2 ^ (64 - M) = 2 ^ 64 := by rw [← Nat.pow_add]; congr 1; omega
  omega

theorem classLoop_no_fault (ix : UInt64 → Nat) : ∀ (ts : List UInt64) (a : Att), (∀ t, ix t < a.buckets.size) →
    a.fault = false → (classLoop ix a ts).fault = false
  | [], a, _, hf => hf
  | t :: ts, a, hix, hf => by
    simp only [classLoop]
    have hlt := hix t
    rw [Array.getElem?_eq_getElem hlt]
    simp only
    split
    · exact hf
    · apply classLoop_no_fault ix ts
      · intro t'; simp; exact hix t'
      · exact hf

theorem attempt_no_fault (ix : UInt64 → Nat) (size mn mx : Nat) (classes : List (List UInt64)) (hix : ∀ t, ix t < size) :
    (attempt ix size mn mx classes).fault = false := by
  unfold attempt
  suffices H : ∀ (cls : List (List UInt64)) (a : Att), a.buckets.size = size → a.fault = false →
      (cls.foldl (classLoop ix) a).fault = false from H classes _ (by simp) rfl
  intro cls
  induction cls with
  | nil => intro a _ hf; exact hf
  | cons c cs ih =>
    intro a hs hf
    simp only [List.foldl_cons]
    apply ih
    · rw [classLoop_size, hs]
    · exact classLoop_no_fault ix c a (by rw [hs]; exact hix) hf

theorem passLoop_no_fault (classes : List (List UInt64)) (M : Nat) (h1 : 1 ≤ M) (h64 : M ≤ 64) :
    ∀ (budget : Nat) (mults : List UInt64) (mn mx : Nat) (mult0 : UInt64) (r),
      passLoop classes M budget mults mn mx mult0 = some r → r.2.2.2.2.2.2.2 = false
  | 0, _, _, _, _, r, h => by simp [passLoop] at h; subst h; rfl
  | budget + 1, [], _, _, _, r, h => by simp [passLoop] at h
  | budget + 1, m :: rest, mn, mx, mult0, r, h => by
    simp only [passLoop] at h
    have hnf := attempt_no_fault (hashIdx (m ||| 1) (64 - M)) (2 ^ M) mn mx classes (fun t => hashIdx_lt _ t M h1 h64)
    simp only [hnf, Bool.false_eq_true, if_false] at h
    by_cases hfd : (attempt (hashIdx (m ||| 1) (64 - M)) (2 ^ M) mn mx classes).found = true
    · simp only [hfd, if_true] at h
      cases h; rfl
    · simp only [hfd, Bool.false_eq_true, if_false] at h
      cases hrec : passLoop classes M budget rest
          (attempt (hashIdx (m ||| 1) (64 - M)) (2 ^ M) mn mx classes).mn
          (attempt (hashIdx (m ||| 1) (64 - M)) (2 ^ M) mn mx classes).mx (m ||| 1) with
      | none => simp [hrec] at h
      | some r' =>
        simp only [hrec] at h
        have := passLoop_no_fault classes M h1 h64 budget rest _ _ _ r' hrec
        obtain ⟨f, b, mn', mx', mult', att, rest', flt⟩ := r'
        simp only at this h
        cases h
        exact this

/-- **the search never indexes outside the bucket vector of its pass** (an out-of-bounds access is the
    model's `fault` outcome): for every id list, multiplier stream, budget and earlier state, as long as
    the table exponent stays within the 64-bit word -/
theorem searchPasses_no_fault (classes : List (List UInt64)) (budget : Nat) :
    ∀ (passes M : Nat) (mults : List UInt64) (st : HashSt) (total : Nat), 1 ≤ M → M + passes ≤ 65 →
      searchPasses classes budget passes M mults st total ≠ .fault
  | 0, M, mults, st, total, _, _ => by simp [searchPasses]
  | p + 1, M, mults, st, total, h1, hb => by
    simp only [searchPasses]
    cases hp : passLoop classes M budget mults st.mn st.mx st.mult with
    | none => simp
    | some r =>
      obtain ⟨found, buckets, mn, mx, mult, att, rest, flt⟩ := r
      have hnf := passLoop_no_fault classes M h1 (by omega) budget mults _ _ _ _ hp
      simp only at hnf
      subst hnf
      simp only [Bool.false_eq_true, if_false]
      by_cases hfd : found = true
      · simp [hfd]
      · simp only [hfd, Bool.false_eq_true, if_false]
        exact searchPasses_no_fault classes budget p (M + 1) rest _ _ (by omega) (by omega)

theorem initialM_pos (n : Nat) : 1 ≤ initialM n := by unfold initialM; simp only; omega

/-- for every number of classes whose table exponent fits the word (`initialM n + passes ≤ 65`, i.e. fewer than
    about 2^58 classes) `hash_initialize` never touches memory outside `buckets` -/
theorem C05_search_stays_in_bounds (classes : List (List UInt64)) (budget : Nat) (mults : List UInt64) (st : HashSt)
    (hn : initialM classes.length + Generated.hashPasses ≤ 65) : hashSearch classes budget mults st ≠ .fault := by
  unfold hashSearch
  exact searchPasses_no_fault classes budget Generated.hashPasses _ mults st 0 (initialM_pos _) hn

end Yomm2.Props.C05
