import Yomm2.Props.C14
import Yomm2.Props.C01c
/-!
# C14 — with the end-to-end theorem: a policy's calls follow its own registry whatever the others do
-/
namespace Yomm2.Props.C14
open Yomm2 Yomm2.Spec Yomm2.GraphProofs Yomm2.Props.C01

/-- **isolation, in terms of the specification**: once policy `k'` has been updated, any interleaving of
    registrations, removals and updates on *other* policies — sharing the same classes or not — leaves
    every call of `k'` doing what the specification prescribes for `k'`'s own registry -/
theorem C14_calls_follow_own_registry (w : World) (k' : String) (ops : List (String × POp))
    (hother : ∀ o ∈ ops, o.1 ≠ k')
    (s s' : PState) (mults rest : List UInt64) (hup : s.update mults = (s', .ok, rest))
    (hget : w.get k' = some s')
    (hwf : WF s.cfg.proj s.registry.classes s.registry.methods)
    (hword : ∀ r ∈ s.registry.classes, r.id < 2 ^ 64 - 1)
    (c : Compiled) (hc : s'.compiled = some c)
    (key mi : Nat) (m : MethodC) (hfind : (List.zipIdx c.methods).find? (fun e => e.1.key == key) = some (m, mi))
    (args : List (Kind × Nat)) (cs : List Nat)
    (hnomap : s.cfg.hash = .checked → ¬ s.cfg.vptrMap = true)
    (hreg : Forall₂ (fun (id ci : Nat) => id ∈ c.graph.ids ci) (virtIds args) cs)
    (hacc : Forall₂ (fun cl v => cl ∈ c.graph.cov.get v) cs m.vp) (hpos : 0 < m.vp.length) :
    ∃ mr o, s.registry.methods[mi]? = some mr ∧
      Selects s.cfg.proj s.registry mr.defs ((virtIds args).map s.cfg.proj) o ∧
      ((ops.foldl (fun w o => w.apply o.1 o.2) w).get k').map (fun st => st.callWith key args .ref []) =
        some (expected m.vp.length args o) := by
  obtain ⟨mr, o, hmr, hsel, hcall⟩ := C01_C02_call_after_update s s' mults rest hup hwf hword c hc key mi m hfind
    args cs hnomap hreg hacc hpos
  refine ⟨mr, o, hmr, hsel, ?_⟩
  rw [frame_seq w k' ops hother, hget]
  simp [hcall]

end Yomm2.Props.C14
