import Yomm2.Proofs.RoundTripNext
/-!
# C13 (continued) — `next` after decoding   (the repair of D15)

Before the repair `decode_dispatch_data` left the definitions' `next` pointers untouched: in a process that
starts from the encoded data a definition that calls `next` jumped through a null pointer. The encoder now
emits what `next` refers to in every definition and the decoder restores it.
-/
namespace Yomm2.Props.C13
open Yomm2 Yomm2.RoundTrip

/-- **C13, calls that go through `next`**: for every registry `compile` accepts whose methods have a virtual
    parameter, decoding what the encoder emits restores, for every definition of every method, exactly the
    `next` cell `update` computed (a definition of the method, the ambiguity handler or the not-implemented
    handler) — no size hypothesis beyond the encoder's own refusal (`C13_emits_iff_fits`) -/
theorem C13_next_after_decoding_as_after_update (proj : Nat → Nat) (reg : Registry)
    (c : Compiled) (hc : compile proj reg = .ok c) (har : ∀ m ∈ c.methods, 1 ≤ m.vp.length) :
    decodeNext (encode c) (msOf c) = .ok (c.outs.map (·.nexts)) :=
  next_round_trip_after_compile proj reg c hc har

/-- the decoder never indexes outside the array of definitions it built: every emitted `next` index names a
    definition of the method or one of the two error pseudo-definitions -/
theorem C13_next_indices_in_range (g : Graph) (m : MethodC) :
    ∀ cell ∈ (dispatchMethod g m).nexts, cellIndex m.specs.length cell < m.specs.length + 2 := by
  intro cell hcell
  have h := (nexts_valid g m).2 cell hcell
  cases cell with
  | defn i => have := h i rfl; simp only [cellIndex]; omega
  | amb => simp only [cellIndex]; omega
  | ni => simp only [cellIndex]; omega

end Yomm2.Props.C13
