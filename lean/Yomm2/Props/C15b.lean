import Yomm2.Props.C15
import Yomm2.Props.C01c
/-!
# C15 — at the outermost level of the model: a call with an unregistered class is reported, nothing runs
-/
namespace Yomm2.Props.C15
open Yomm2 Yomm2.Spec Yomm2.Heads Yomm2.GraphProofs Yomm2.Props.C01 Yomm2.Publish

/-- what a successful `publish_vptrs` leaves behind under the checked hash -/
theorem publish_checked (cfg : Cfg) (ids : List (List Nat)) (budget : Nat) (mults : List UInt64) (p0 p : Pub)
    (att : Nat) (rest : List UInt64) (hc : cfg.hash = .checked) (hm : cfg.vptrMap = false)
    (hpub : publish cfg ids budget mults p0 = .ok p att rest) :
    ∃ st buckets, hashSearch (ids.map (fun l => l.map UInt64.ofNat)) budget mults p0.hash = .found st buckets att rest ∧
      p.hash = st ∧ p.control = resizeControl buckets st.length := by
  unfold publish at hpub
  simp only [hm, Bool.false_eq_true, if_false, hc] at hpub
  split at hpub
  · cases hpub
  · cases hpub
  · cases hpub
  · rename_i st buckets att' rest' hsearch
    injection hpub with hp ha hr
    subst hp ha hr
    exact ⟨st, buckets, hsearch, rfl, by simp⟩

theorem mapM_prefix_error {α β ε} (f : α → Except ε β) : ∀ (l1 : List α) (a : α) (l2 : List α) (e : ε),
    (∀ b ∈ l1, ∃ r, f b = .ok r) → f a = .error e → (l1 ++ a :: l2).mapM f = .error e
  | [], a, l2, e, _, ha => by rw [List.nil_append, List.mapM_cons, ha]; rfl
  | b :: l1, a, l2, e, h, ha => by
    obtain ⟨r, hr⟩ := h b (by simp)
    rw [List.cons_append, List.mapM_cons, hr, mapM_prefix_error f l1 a l2 e (fun x hx => h x (by simp [hx])) ha]
    rfl

theorem mapM_ok_each {α β ε} (f : α → Except ε β) : ∀ (l : List α) (r : List β), l.mapM f = .ok r →
    ∀ b ∈ l, ∃ x, f b = .ok x
  | [], _, _, b, hb => by cases hb
  | a :: l, r, h, b, hb => by
    rw [List.mapM_cons] at h
    cases ha : f a with
    | error e => rw [ha] at h; cases h
    | ok x =>
      rw [ha] at h
      cases hl : l.mapM f with
      | error e => rw [hl] at h; cases h
      | ok r' =>
        cases hb with
        | head => exact ⟨x, ha⟩
        | tail _ hb' => exact mapM_ok_each f l r' hl b hb'

theorem forall₂_of_each {α β} {R : α → β → Prop} : ∀ (l : List α), (∀ a ∈ l, ∃ b, R a b) → ∃ l', Forall₂ R l l'
  | [], _ => ⟨[], .nil⟩
  | a :: l, h => by
    obtain ⟨b, hb⟩ := h a (by simp)
    obtain ⟨l', hl'⟩ := forall₂_of_each l (fun x hx => h x (by simp [hx]))
    exact ⟨b :: l', .cons hb hl'⟩

/-- **C15 at the outermost level of the model**: under a policy with the checked hash, after an `update`
    that succeeded, a call whose first unregistered virtual argument (passed by reference, at any position,
    after any number of non-virtual arguments and of registered ones, the latter passed by reference or as
    `virtual_ptr`s made on the spot, whatever the static class) has a type id that no registered class
    carries is reported as `unknown_class` with that id — the lookups stop there: no table is read, no
    definition runs -/
theorem C15_call_reports_unknown_class (s s' : PState) (mults rest : List UInt64)
    (hup : s.update mults = (s', .ok, rest))
    (hwf : WF s.cfg.proj s.registry.classes s.registry.methods)
    (hword : ∀ r ∈ s.registry.classes, r.id < 2 ^ 64 - 1)
    (hchk : s.cfg.hash = .checked) (hmap : s.cfg.vptrMap = false)
    (c : Compiled) (hc : s'.compiled = some c)
    (key mi : Nat) (m : MethodC) (hfind : (List.zipIdx c.methods).find? (fun e => e.1.key == key) = some (m, mi))
    (pre post : List (Kind × Nat)) (id : Nat)
    (hpre : ∀ a ∈ pre, a.1.isVirtual = true → ∃ ci, a.2 ∈ c.graph.ids ci)
    (hid : id < 2 ^ 64 - 1) (hunreg : ∀ ci, id ∉ c.graph.ids ci) :
    s'.callWith key (pre ++ (Kind.virt, id) :: post) .ref [] = .raised (.unknownClass id) := by
  obtain ⟨c', inst, att, hcomp, hinst, hpub, hc', hi', hcfg⟩ := update_ok s s' mults rest hup
  rw [hc] at hc'; cases hc'
  obtain ⟨hg, _, _, _, _⟩ := VtblContent.compile_fields s.cfg.proj s.registry c hcomp
  let ctx : Bridge.Ctx := ⟨s.cfg.proj, s.registry, c.graph, hg, hwf⟩
  obtain ⟨_, hn, hheads, _⟩ := buildGraph_fields s.cfg.proj s.registry.classes c.graph hg
  let ids := (List.range c.graph.n).map c.graph.ids
  -- ids of classes: machine words, one class each
  have hidsget' : ∀ (ci : Nat) (l : List Nat), ids[ci]? = some l → l = c.graph.ids ci ∧ ci < c.graph.n := by
    intro ci l hl
    have hlt : ci < c.graph.n := by
      have := (List.getElem?_eq_some_iff.mp hl).1
      simpa [ids] using this
    have : ids[ci]? = some (c.graph.ids ci) := by
      simp only [ids, List.getElem?_map, List.getElem?_range hlt, Option.map_some]
    rw [this] at hl
    exact ⟨(Option.some.inj hl).symm, hlt⟩
  have hidkey : ∀ (id' ci : Nat), id' ∈ c.graph.ids ci → ctx.key ci = some (s.cfg.proj id') ∧ ci < c.graph.n ∧ id' < 2 ^ 64 - 1 := by
    intro id' ci hid'
    unfold Graph.ids at hid'
    cases hh : c.graph.heads[ci]? with
    | none => simp [hh] at hid'
    | some hd =>
      simp only [hh, Option.map_some, Option.getD_some] at hid'
      rw [hheads] at hh
      have hmemhd : hd ∈ heads s.cfg.proj s.registry.classes := List.mem_of_getElem? hh
      have hk := Ids.heads_idsOk s.cfg.proj s.registry.classes hd hmemhd id' hid'
      obtain ⟨r, hr, hrid⟩ := Ids.heads_idsFrom s.cfg.proj s.registry.classes hd hmemhd id' hid'
      refine ⟨?_, ?_, by rw [← hrid]; exact hword r hr⟩
      · show keyAt s.cfg.proj s.registry.classes ci = some (s.cfg.proj id')
        unfold keyAt keysOf
        rw [List.getElem?_map, hh, hk]; rfl
      · rw [hn]; exact (List.getElem?_eq_some_iff.mp hh).1
  have hwordids : ∀ l ∈ ids, ∀ id' ∈ l, id' < 2 ^ 64 - 1 := by
    intro l hl id' hid'
    obtain ⟨ci, hci⟩ := List.getElem?_of_mem hl
    rw [(hidsget' ci l hci).1] at hid'
    exact (hidkey id' ci hid').2.2
  have hlook : ∀ (ci : Nat) (l : List Nat) (id' : Nat), ids[ci]? = some l → id' ∈ l →
      lookupVptr s'.cfg s'.pub id' = .ok (.cur ci) := by
    intro ci l id' hl hid'
    rw [hcfg]
    apply lookup_published s.cfg ids s.budget mults s.pub s'.pub att rest hpub _ hwordids ci l id' hl hid'
    intro ci cj l l' x hl hl' hx hx'
    rw [(hidsget' ci l hl).1] at hx
    rw [(hidsget' cj l' hl').1] at hx'
    exact Bridge.key_inj ctx ci cj _ (hidkey x ci hx).1 (hidkey x cj hx').1
  -- the unregistered id is rejected by the checked hash
  obtain ⟨st, buckets, hsearch, hhash, hctl⟩ := publish_checked s.cfg ids s.budget mults s.pub s'.pub att rest hchk hmap hpub
  have hsent : ∀ cl ∈ ids.map (fun l => l.map UInt64.ofNat), ∀ t ∈ cl, t ≠ sentinel := by
    intro cl hcl t ht
    obtain ⟨l', hl', rfl⟩ := List.mem_map.mp hcl
    obtain ⟨id', hid', rfl⟩ := List.mem_map.mp ht
    exact ofNat_ne_sentinel (hwordids l' hl' id' hid')
  have hrej : checkedIdx s'.pub.hash s'.pub.control (UInt64.ofNat id) = none := by
    rw [hhash, hctl]
    apply C05.C05_checked_rejects_unregistered _ s.budget mults s.pub.hash st buckets att rest hsent hsearch _
      (ofNat_ne_sentinel hid)
    intro cl hcl hmem
    obtain ⟨l', hl', rfl⟩ := List.mem_map.mp hcl
    obtain ⟨id', hid', he⟩ := List.mem_map.mp hmem
    have hb := hwordids l' hl' id' hid'
    have : id' = id := ofNat_inj (by omega) (by omega) he
    subst this
    obtain ⟨ci, hci⟩ := List.getElem?_of_mem hl'
    rw [(hidsget' ci l' hci).1] at hid'
    exact hunreg ci hid'
  have hunk : lookupVptr s'.cfg s'.pub id = .error (.unknownClass id) :=
    lookup_unknown s'.cfg s'.pub id (by rw [hcfg]; exact hchk) (by rw [hcfg]; exact hmap) hrej
  -- the lookups stop at that argument
  have hkeys : ∀ (ci : Nat) (l : List Nat) (id' : Nat), ids[ci]? = some l → id' ∈ l →
      classIdx c.graph.heads (s'.cfg.proj id') = some ci := by
    intro ci l id' hl hid'
    rw [(hidsget' ci l hl).1] at hid'
    rw [hcfg, hheads]
    exact classIdx_of_get (heads_keys s.cfg.proj s.registry.classes).1 (hidkey id' ci hid').1
  have hmapM : (List.zipIdx (pre ++ (Kind.virt, id) :: post)).mapM (s'.argLookup inst .ref []) = .error (.unknownClass id) := by
    rw [List.zipIdx_append, List.zipIdx_cons]
    apply mapM_prefix_error
    · -- the arguments before it are registered: their lookups succeed (`lookups_ok`)
      have heach : ∀ x ∈ virtIds pre, ∃ ci : Nat, ∃ l : List Nat, ids[ci]? = some l ∧ x ∈ l := by
        intro x hx
        obtain ⟨a, ha, rfl⟩ := List.mem_map.mp hx
        obtain ⟨hain, hav⟩ := List.mem_filter.mp ha
        obtain ⟨ci, hci⟩ := hpre a hain hav
        exact ⟨ci, c.graph.ids ci, by
          simp only [ids, List.getElem?_map, List.getElem?_range (hidkey a.2 ci hci).2.1, Option.map_some], hci⟩
      obtain ⟨cs, hcs⟩ := forall₂_of_each (virtIds pre) heach
      obtain ⟨vargs, hv, _⟩ := lookups_ok s' inst c hc ids hlook hkeys
        (by intro _; rw [hcfg, hmap]; simp) pre cs 0 hcs
      exact mapM_ok_each _ _ _ hv
    · simp only [PState.argLookup, hunk, bind, Except.bind]
  unfold PState.callWith
  simp only [hc, hi', hfind, hmapM]

end Yomm2.Props.C15
