import Yomm2.Props.C18
import Yomm2.Proofs.SrcStaticList
/-!
# C18 for the text of `static_list.hpp`

`Props/C18.lean` proves the property for the hand-written model of the list. Here the same statements
are made about the bodies of `push_back`, `remove`, `clear` and the iterators' `operator++` *as clang parsed
them from the header on this run* (`Generated/StaticListSrc.lean`), executed by `Mini.exec`: under the
representation invariant and the caller's obligations, the translated code neither dereferences a null
pointer nor fails an assertion nor runs out of fuel, and leaves exactly the list the model computes — so
after any history of registrations, unregistrations and clears the catalog represents the abstract list.
-/
namespace Yomm2.Props.C18src
open Yomm2 Yomm2.Mini Yomm2.Generated Yomm2.Props.C18 Yomm2.Proofs.SrcStaticList

/-- `push_back(node)` on a represented list, for a node that is not in it -/
theorem push_back_ok {l : SList} {xs : List Nat} (h : Repr l xs) (n : Nat) (hn : n ∉ xs) (fuel : Nat) :
    run fuel StaticListSrc.push_back l [("node", some n)] = .done (l.pushBack n) := by
  rw [push_back_src fuel l n (h.unlinked n hn)]
  cases xs with
  | nil => have := h.first; simp at this; simp [this]
  | cons a rest =>
    have hf : l.first = some a := by rw [h.first]; rfl
    have hp := first_prev h
    unfold prevOf at hp
    obtain ⟨z, hz⟩ : ∃ z, (a :: rest).getLast? = some z := ⟨_, List.getLast?_eq_some_getLast (by simp)⟩
    simp [hf, hp, hz]

/-- `remove(node)` on a represented list, for a node that is in it -/
theorem remove_ok {l : SList} {xs : List Nat} (h : Repr l xs) (n : Nat) (hn : n ∈ xs) (fuel : Nat) :
    run fuel StaticListSrc.remove l [("node", some n)] = .done (l.remove n) := by
  rw [remove_src]
  obtain ⟨pre, post, rfl⟩ := List.mem_iff_append.mp hn
  obtain ⟨anext, aprev, -, -, -, -⟩ := around h
  obtain ⟨f, rest, hxs⟩ : ∃ f rest, pre ++ n :: post = f :: rest := by
    cases pre with
    | nil => exact ⟨n, post, rfl⟩
    | cons a as => exact ⟨a, as ++ n :: post, rfl⟩
  have hlf : l.first = some f := by rw [h.first, hxs]; rfl
  have hlast : (l.links f).prev = (pre ++ n :: post).getLast? := by
    have := first_prev (l := l) (a := f) (rest := rest) (by rw [← hxs]; exact h)
    unfold prevOf at this; rw [this, hxs]
  obtain ⟨z, hz⟩ : ∃ z, (pre ++ n :: post).getLast? = some z :=
    ⟨_, List.getLast?_eq_some_getLast (by simp)⟩
  have hprev : ∃ p, (l.links n).prev = some p := by
    have : (l.links n).prev = (pre.getLast?).or (pre ++ n :: post).getLast? := aprev
    rw [this, hz]; cases pre.getLast? <;> simp
  obtain ⟨p, hp⟩ := hprev
  have hnext : (l.links n).next = post.head? := anext
  simp only [hlf, hlast, hp]
  by_cases h1 : some n = (pre ++ n :: post).getLast?
  · simp [h1]
  · have hpost : post ≠ [] := by
      intro e; subst e; apply h1; simp
    obtain ⟨q, rest', rfl⟩ : ∃ q rest', post = q :: rest' := by
      cases post with
      | nil => exact absurd rfl hpost
      | cons q r => exact ⟨q, r, rfl⟩
    simp [h1, hnext]

/-- the loop of `clear` terminates within the fuel when the `next` chain is a list without repetition -/
theorem clearLoop_total : ∀ (xs : List Nat) (fuel : Nat) (st : St),
    Chain (nextOf st.list) xs none → xs.Nodup → xs.length < fuel → lookupVar st.env "next" = some xs.head? →
    exec fuel clearLoop st ≠ .outOfFuel
  | [], fuel, st, _, _, hf, hnx => by
    cases fuel with
    | zero => simp at hf
    | succ f =>
      simp at hnx
      simp [clearLoop, exec, evalB, evalP, hnx]
  | a :: rest, fuel, st, hc, hnd, hf, hnx => by
    cases fuel with
    | zero => simp at hf
    | succ f =>
      have hu := chain_uncons _ a rest none hc
      have hnext : (st.list.links a).next = rest.head? := by
        have := hu.1; unfold nextOf at this; rw [this]; cases rest.head? <;> rfl
      have hanr : a ∉ rest := (List.nodup_cons.mp hnd).1
      simp only [List.head?_cons] at hnx
      have hc1 : lookupVar (bindVar st.env "cur" (some a)) "cur" = some (some a) := lookupVar_bindVar_same _ _ _
      have hc2 : lookupVar (bindVar (bindVar st.env "cur" (some a)) "next" (st.list.links a).next) "cur" = some (some a) := by
        rw [lookupVar_bindVar_other _ _ _ _ (by decide)]; exact hc1
      let st1 : St := { env := bindVar (bindVar st.env "cur" (some a)) "next" (st.list.links a).next,
                        list := (st.list.setPrev a none).setNext a none }
      have hbody : exec (f + 1) clearLoop st = exec f clearLoop st1 := by
        conv => lhs; unfold clearLoop
        simp [exec, evalB, evalP, hnx, hc1, hc2, getFld, putFld, st1]
        rfl
      rw [hbody]
      apply clearLoop_total rest f st1
      · apply chain_congr (nextOf st.list) _ _ _ _ hu.2
        intro x hx
        have : x ≠ a := fun e => hanr (e ▸ hx)
        simp [st1, next_setNext, this]
      · exact (List.nodup_cons.mp hnd).2
      · simp at hf; omega
      · simp only [st1]; rw [lookupVar_bindVar_same, hnext]

/-- `clear()` on a represented list -/
theorem clear_ok {l : SList} {xs : List Nat} (h : Repr l xs) (fuel : Nat) (hf : xs.length < fuel) :
    run fuel StaticListSrc.clear l [] = .done (l.clear fuel) := by
  rcases clear_src fuel l with h1 | h1
  · exact h1
  · exfalso
    have hb : exec fuel StaticListSrc.clear { env := [], list := l } =
        exec fuel clearLoop { env := bindVar [] "next" l.first, list := { l with first := none } } := by
      conv => lhs; unfold StaticListSrc.clear
      simp [exec, evalP]
      rfl
    have ht := clearLoop_total xs fuel { env := bindVar [] "next" l.first, list := { l with first := none } }
      h.next h.nodup hf (by rw [lookupVar_bindVar_same, h.first])
    unfold run at h1
    rw [hb] at h1
    cases he : exec fuel clearLoop { env := bindVar [] "next" l.first, list := { l with first := none } } with
    | outOfFuel => exact ht he
    | normal s => rw [he] at h1; simp at h1
    | returned s => rw [he] at h1; simp at h1
    | fault w => rw [he] at h1; simp at h1
    | assertFailed => rw [he] at h1; simp at h1

/-- one step of an iteration (`++it`) from a node of the list: the iterator moves to the node's successor -/
theorem iterator_incr_ok (l : SList) (n : Nat) (fuel : Nat) :
    exec fuel StaticListSrc.iterator_incr { env := [("ptr", some n)], list := l } =
      .normal { env := [("ptr", (l.links n).next)], list := l } ∧
    exec fuel StaticListSrc.const_iterator_incr { env := [("ptr", some n)], list := l } =
      .normal { env := [("ptr", (l.links n).next)], list := l } := by
  constructor <;>
  simp [StaticListSrc.iterator_incr, StaticListSrc.const_iterator_incr, exec, evalB, evalP, lookupVar, bindVar, getFld]

/-- the translated operation of a history step -/
def srcStep (fuel : Nat) (l : SList) : Op → Outcome
  | .push n => run fuel StaticListSrc.push_back l [("node", some n)]
  | .remove n => run fuel StaticListSrc.remove l [("node", some n)]
  | .clear => run fuel StaticListSrc.clear l []

/-- run a history on the translated code; `none` as soon as a step does not complete -/
def srcRun (fuel : Nat) : SList → List Op → Option SList
  | l, [] => some l
  | l, op :: rest =>
    match srcStep fuel l op with
    | .done l' => srcRun fuel l' rest
    | _ => none

/-- the caller's obligations (as in `C18.Valid`; the loop of `clear` needs one more unit of fuel than the
    model's, for the test that ends it) -/
def ValidSrc (fuel : Nat) : List Nat → List Op → Prop
  | _, [] => True
  | xs, op :: rest =>
    (match op with
      | .push n => n ∉ xs
      | .remove n => n ∈ xs
      | .clear => xs.length < fuel) ∧ ValidSrc fuel (absStep xs op) rest

theorem srcStep_eq (fuel : Nat) {l : SList} {xs : List Nat} (h : Repr l xs) (op : Op)
    (hv : match op with
      | .push n => n ∉ xs
      | .remove n => n ∈ xs
      | .clear => xs.length < fuel) : srcStep fuel l op = .done (step fuel l op) := by
  cases op with
  | push n => exact push_back_ok h n hv fuel
  | remove n => exact remove_ok h n hv fuel
  | clear => exact clear_ok h fuel hv

/-- **C18 for the source text**: after any valid history the translated code of the header has completed
    every operation (no null dereference, no failed assertion) and the catalog it leaves represents the
    abstract list obtained by replaying the history: each live item once, in registration order -/
theorem C18_source_histories (fuel : Nat) : ∀ (ops : List Op) (l : SList) (xs : List Nat), Repr l xs →
    ValidSrc fuel xs ops → ∃ l', srcRun fuel l ops = some l' ∧ Repr l' (ops.foldl absStep xs)
  | [], l, _, h, _ => ⟨l, rfl, h⟩
  | op :: rest, l, xs, h, hv => by
    have he := srcStep_eq fuel h op hv.1
    have hr : Repr (step fuel l op) (absStep xs op) := by
      apply step_refines fuel h op
      cases op with
      | push n => exact hv.1
      | remove n => exact hv.1
      | clear => exact Nat.le_of_lt hv.1
    obtain ⟨l', h1, h2⟩ := C18_source_histories fuel rest _ _ hr hv.2
    exact ⟨l', by simp [srcRun, he, h1], h2⟩

theorem C18_source_from_empty (fuel : Nat) (ops : List Op) (hv : ValidSrc fuel [] ops) :
    ∃ l', srcRun fuel {} ops = some l' ∧ Repr l' (ops.foldl absStep []) :=
  C18_source_histories fuel ops {} [] repr_empty hv

/-- the hypotheses are satisfiable by a non-trivial history -/
example : ValidSrc 10 [] [.push 1, .push 2, .push 3, .remove 2, .push 2, .remove 1, .clear, .push 2] := by
  simp [ValidSrc, absStep]

end Yomm2.Props.C18src
