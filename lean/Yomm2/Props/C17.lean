import Yomm2.Model.Dispatch
/-!
# C17 — the update report tells the truth about gaps and ambiguities
-/
namespace Yomm2.Props.C17
open Yomm2

/-- per method, the counters are counts of cells of each kind (the `concrete` variants count the
    cells built from groups that all contain a concrete class) -/
theorem method_counters (g : Graph) (m : MethodC) :
    let o := dispatchMethod g m
    o.report.notImplemented = (o.table.filter (fun c => c.1 == .ni)).length ∧
    o.report.ambiguous = (o.table.filter (fun c => c.1 == .amb)).length ∧
    o.report.concreteNotImplemented = (o.table.filter (fun c => c.1 == .ni && c.2)).length ∧
    o.report.concreteAmbiguous = (o.table.filter (fun c => c.1 == .amb && c.2)).length := by
  simp [dispatchMethod]

/-- a per-method flag is raised iff some cell of that kind exists -/
theorem flag_iff_cell (g : Graph) (m : MethodC) :
    (dispatchMethod g m).report.notImplemented ≠ 0 ↔ ∃ c ∈ (dispatchMethod g m).table, c.1 = .ni := by
  rw [(method_counters g m).1]
  constructor
  · intro h
    have : (List.filter (fun c => c.1 == Cell.ni) (dispatchMethod g m).table) ≠ [] := by
      intro he; rw [he] at h; exact h rfl
    obtain ⟨c, hc⟩ := List.exists_mem_of_ne_nil _ this
    have := List.mem_filter.mp hc
    exact ⟨c, this.1, by simpa using this.2⟩
  · rintro ⟨c, hc, hk⟩ h
    have : c ∈ List.filter (fun c => c.1 == Cell.ni) (dispatchMethod g m).table :=
      List.mem_filter.mpr ⟨hc, by simp [hk]⟩
    rw [List.length_eq_zero_iff.mp h] at this
    cases this

theorem flag_iff_cell_amb (g : Graph) (m : MethodC) :
    (dispatchMethod g m).report.ambiguous ≠ 0 ↔ ∃ c ∈ (dispatchMethod g m).table, c.1 = .amb := by
  rw [(method_counters g m).2.1]
  constructor
  · intro h
    have : (List.filter (fun c => c.1 == Cell.amb) (dispatchMethod g m).table) ≠ [] := by
      intro he; rw [he] at h; exact h rfl
    obtain ⟨c, hc⟩ := List.exists_mem_of_ne_nil _ this
    have := List.mem_filter.mp hc
    exact ⟨c, this.1, by simpa using this.2⟩
  · rintro ⟨c, hc, hk⟩ h
    have : c ∈ List.filter (fun c => c.1 == Cell.amb) (dispatchMethod g m).table :=
      List.mem_filter.mpr ⟨hc, by simp [hk]⟩
    rw [List.length_eq_zero_iff.mp h] at this
    cases this

/-- the aggregated report counts the methods that raise each flag and sums the cells -/
theorem aggregate_counts (rs : List Report) (r0 : Report) :
    (rs.foldl accumulate r0).notImplemented = r0.notImplemented + (rs.filter (fun r => r.notImplemented ≠ 0)).length ∧
    (rs.foldl accumulate r0).ambiguous = r0.ambiguous + (rs.filter (fun r => r.ambiguous ≠ 0)).length ∧
    (rs.foldl accumulate r0).concreteNotImplemented = r0.concreteNotImplemented + (rs.filter (fun r => r.concreteNotImplemented ≠ 0)).length ∧
    (rs.foldl accumulate r0).concreteAmbiguous = r0.concreteAmbiguous + (rs.filter (fun r => r.concreteAmbiguous ≠ 0)).length ∧
    (rs.foldl accumulate r0).cells = r0.cells + (rs.map (·.cells)).sum := by
  induction rs generalizing r0 with
  | nil => simp
  | cons r rs ih =>
    simp only [List.foldl_cons]
    obtain ⟨h1, h2, h3, h4, h5⟩ := ih (accumulate r0 r)
    rw [h1, h2, h3, h4, h5]
    simp only [accumulate, List.filter_cons, List.map_cons, List.sum_cons]
    refine ⟨?_, ?_, ?_, ?_, ?_⟩
    · by_cases h : r.notImplemented ≠ 0 <;> simp [h] <;> omega
    · by_cases h : r.ambiguous ≠ 0 <;> simp [h] <;> omega
    · by_cases h : r.concreteNotImplemented ≠ 0 <;> simp [h] <;> omega
    · by_cases h : r.concreteAmbiguous ≠ 0 <;> simp [h] <;> omega
    · omega

/-- the number of cells built by the recursive table builder is the product of the group counts -/
theorem tableGo_length {α} (cellOf : Bits → Bool → α) : ∀ (dims : List (List Group)) (cand : Bits) (conc : Bool),
    (tableGo cellOf dims cand conc).length = prodList (dims.map List.length)
  | [], _, _ => by simp [tableGo, prodList]
  | g :: rest, cand, conc => by
    simp only [tableGo, List.length_flatMap, List.map_cons, prodList]
    have : (g.map (fun gr => (tableGo cellOf rest (maskAnd cand gr.mask) (conc && gr.concrete)).length)) =
        g.map (fun _ => prodList (rest.map List.length)) := by
      apply List.map_congr_left; intro a _; exact tableGo_length cellOf rest _ _
    rw [this]
    clear this
    induction g with
    | nil => simp
    | cons a as ih => simp [List.map_cons, List.sum_cons, ih, Nat.succ_mul, Nat.add_comm]

theorem prodList_reverse (l : List Nat) : prodList l.reverse = prodList l := by
  induction l with
  | nil => rfl
  | cons a as ih =>
    simp only [List.reverse_cons, prodList]
    have : ∀ (xs : List Nat) (y : Nat), prodList (xs ++ [y]) = prodList xs * y := by
      intro xs y
      induction xs with
      | nil => simp [prodList]
      | cons z zs ihz => simp [prodList, ihz, Nat.mul_assoc]
    rw [this, ih, Nat.mul_comm]

/-- **`cells` is the number of multi-method dispatch cells actually built** -/
theorem cells_eq_table_size (g : Graph) (m : MethodC) (h : m.vp.length > 1) :
    (dispatchMethod g m).report.cells = (dispatchMethod g m).table.length := by
  simp only [dispatchMethod, h, if_true]
  rw [tableGo_length, List.map_reverse, prodList_reverse]

end Yomm2.Props.C17
