import Yomm2.Proofs.SrcHash
import Yomm2.Props.C05b
/-!
# C05 / C15: the call-time lookup, for the text of `fast_perfect_hash.hpp`

The bodies of `fast_perfect_hash<Policy>::hash_type_id` and `checked_perfect_hash<Policy>::hash_type_id` as clang
parsed them from the header on this run (`Generated/HashSrc.lean`), executed by `HashL.exec`.
-/
namespace Yomm2.Props.C05src
open Yomm2 Yomm2.HashL Yomm2.Generated

theorem resizeControl_size (buckets : Array UInt64) (len : Nat) : (resizeControl buckets len).size = len := by
  unfold resizeControl
  split
  · simp; omega
  · simp; omega

/-- the text of the plain lookup computes the index the hash theorems of C05 are about -/
theorem C05_source_lookup_is_the_model's (st : HashSt) (control : Array UInt64) (id : UInt64) (hs : st.shift < 64) :
    ∃ v, evalE { st, control, fast := HashSrc.fast, param := id } [] 2 HashSrc.fast = .ok v ∧
      v.toNat = hashIdx st.mult st.shift id :=
  Proofs.SrcHash.fast_src_is_hashIdx st control HashSrc.fast id hs

/-- **the text of the checked lookup**: with the control table as `hash_initialize` leaves it (resized to
    `hash_length`), it returns an index exactly when the model's `checkedIdx` does, reports `unknown_class(type)`
    otherwise, and never reads `control` outside its size -/
theorem C05_source_checked_lookup (st : HashSt) (buckets : Array UInt64) (id : UInt64) (hs : st.shift < 64)
    (hl : st.length < 2 ^ 64) :
    run st (resizeControl buckets st.length) HashSrc.fast HashSrc.checked id =
      match checkedIdx st (resizeControl buckets st.length) id with
      | some i => .returned (UInt64.ofNat i)
      | none => .reported id :=
  Proofs.SrcHash.checked_src st _ id hs hl (resizeControl_size buckets st.length)

/-- **C05 / C15 for the source text**: after a hash search that succeeded, the text of the checked lookup reports
    every id that is not registered (other than the reserved all-ones id) as an unknown class carrying that id —
    it returns no index, so no table is read (`hs`, `hl`: the installed shift is `64 - M` with `M ≥ 1` and the
    installed length at most `2^M`) -/
theorem C05_source_checked_lookup_rejects_unregistered (classes : List (List UInt64)) (budget : Nat) (mults : List UInt64)
    (st st' : HashSt) (buckets : Array UInt64) (att : Nat) (rest : List UInt64)
    (hsent : ∀ c ∈ classes, ∀ t ∈ c, t ≠ sentinel)
    (h : hashSearch classes budget mults st = .found st' buckets att rest)
    (hs : st'.shift < 64) (hl : st'.length < 2 ^ 64)
    (id : UInt64) (hid : id ≠ sentinel) (hunreg : ∀ c ∈ classes, id ∉ c) :
    run st' (resizeControl buckets st'.length) HashSrc.fast HashSrc.checked id = .reported id := by
  rw [C05_source_checked_lookup st' buckets id hs hl,
    Props.C05.C05_checked_rejects_unregistered classes budget mults st st' buckets att rest hsent h id hid hunreg]

end Yomm2.Props.C05src
