import Yomm2.Props.C01c
import Yomm2.Props.C13b
/-!
# A concrete instance of the end-to-end theorem (non-vacuity)

A three-class registry (Animal ← Dog, Animal ← Cat), one method `meet(virtual Animal&, int, virtual Animal&)`
with definitions (Dog, Cat) and (Animal, Animal): every hypothesis of `C01_C02_call_after_update` is met,
the theorem's conclusion can be read off, and the kernel evaluates the model to the same outcomes.
-/
namespace Yomm2.Props.Examples
open Yomm2 Yomm2.Spec Yomm2.GraphProofs Yomm2.Props.C01

def classes0 : List (Nat × ClassRec) := [(1, ⟨10, [10], false⟩), (2, ⟨20, [20, 10], false⟩), (3, ⟨30, [30, 10], false⟩)]
def methods0 : List MethodRec := [⟨7, [.virt, .nonvirt, .virt], [10, 10], [⟨100, [20, 30]⟩, ⟨101, [10, 10]⟩]⟩]
def s0 : PState := { cfg := {}, classes := classes0, methods := methods0 }
def s1 : PState := (s0.update []).1

def updOk : UpdateOut → Bool
  | .ok => true
  | .raised _ => false

/-- the kernel runs the whole pipeline of the model -/
example : updOk (s0.update []).2.1 = true := by decide +kernel
example : s1.callWith 7 [(.virt, 20), (.nonvirt, 0), (.virt, 30)] .ref [] = .ran 100 := by decide +kernel
example : s1.callWith 7 [(.virt, 30), (.nonvirt, 0), (.virt, 30)] .ref [] = .ran 101 := by decide +kernel

/-- no inheritance cycle: rank Animal below Dog and Cat -/
theorem wf0 : WF s0.cfg.proj s0.registry.classes s0.registry.methods := by
  refine ⟨fun k => if k = 10 then 0 else 1, ?_, ?_⟩
  · intro d m hl hne
    obtain ⟨r, hr, hd, b, hb, hm⟩ := hl
    have hproj : ∀ x, s0.cfg.proj x = x := fun x => rfl
    rw [hproj] at hd hm
    simp only [s0, PState.registry, classes0, List.map_cons, List.map_nil, List.mem_cons, List.not_mem_nil, or_false] at hr
    rcases hr with rfl | rfl | rfl <;> simp at hb <;> simp at hd <;> subst hd
    · subst hm hb; exact absurd rfl hne
    · rcases hb with rfl | rfl
      · subst hm; exact absurd rfl hne
      · subst hm; simp
    · rcases hb with rfl | rfl
      · subst hm; exact absurd rfl hne
      · subst hm; simp
  · intro c
    show (if c = 10 then 0 else 1) ≤ 3
    split <;> omega

end Yomm2.Props.Examples

namespace Yomm2.Props.Examples
open Yomm2 Yomm2.Spec Yomm2.GraphProofs Yomm2.Props.C01

theorem compiled_isSome : s1.compiled.isSome = true := by decide +kernel

def c0 : Compiled := s1.compiled.get compiled_isSome

theorem hc0 : s1.compiled = some c0 := by simp [c0]

def m0 : MethodC := { key := 7, shape := [.virt, .nonvirt, .virt], vp := [0, 0], specs := [(100, [1, 2]), (101, [0, 0])] }

theorem hup0 : s0.update [] = (s1, .ok, []) := by
  have h1 : updOk (s0.update []).2.1 = true := by decide +kernel
  have h2 : (s0.update []).2.2 = [] := by decide +kernel
  have h3 : (s0.update []).2.1 = .ok := by
    cases h : (s0.update []).2.1 with
    | ok => rfl
    | raised e => rw [h] at h1; cases h1
  have : s0.update [] = ((s0.update []).1, (s0.update []).2.1, (s0.update []).2.2) := rfl
  rw [this, h3, h2]
  rfl

/-- **the end-to-end theorem applies**: all its hypotheses hold for the call `meet(dog, 0, cat)`, and
    its conclusion, with the specification evaluated, says definition 100 runs -/
example : ∃ mr o, s0.registry.methods[0]? = some mr ∧
    Selects s0.cfg.proj s0.registry mr.defs ((virtIds [(.virt, 20), (.nonvirt, 0), (.virt, 30)]).map s0.cfg.proj) o ∧
    s1.callWith 7 [(.virt, 20), (.nonvirt, 0), (.virt, 30)] .ref [] = expected m0.vp.length [(.virt, 20), (.nonvirt, 0), (.virt, 30)] o := by
  apply C01_C02_call_after_update s0 s1 [] [] hup0 wf0 _ c0 hc0 7 0 m0 _ [(.virt, 20), (.nonvirt, 0), (.virt, 30)] [1, 2]
  · decide +kernel
  · exact Forall₂.cons (by decide +kernel) (Forall₂.cons (by decide +kernel) Forall₂.nil)
  · exact Forall₂.cons (by decide +kernel) (Forall₂.cons (by decide +kernel) Forall₂.nil)
  · decide
  · intro r hr
    simp only [s0, PState.registry, classes0, List.map_cons, List.map_nil, List.mem_cons, List.not_mem_nil, or_false] at hr
    rcases hr with rfl | rfl | rfl <;> decide
  · decide +kernel

end Yomm2.Props.Examples

namespace Yomm2.Props.Examples
open Yomm2

/-- C13 on the same registry: the kernel decodes what the encoder emits and finds the words `install` wrote -/
example : ((decode (encode c0) (RoundTrip.msOf c0) [0, 1, 2]).toOption.map (fun d => d.toInstalled.data.toList)) =
    s1.inst.map (fun i => i.data.toList) := by decide +kernel

end Yomm2.Props.Examples
