import Yomm2.Props.C01c
import Yomm2.Props.C13b
import Yomm2.Props.C09c
/-!
# A concrete instance of the end-to-end theorem (non-vacuity)

A three-class registry (Animal ← Dog, Animal ← Cat), one method `meet(virtual Animal&, int, virtual Animal&)`
with definitions (Dog, Cat) and (Animal, Animal): every hypothesis of `C01_C02_call_after_update` is met,
the theorem's conclusion can be read off, and the kernel evaluates the model to the same outcomes.
-/
namespace Yomm2.Props.Examples
open Yomm2 Yomm2.Spec Yomm2.GraphProofs Yomm2.Props.C01

def classes0 : List (Nat × ClassRec) := [(1, ⟨10, [10], false⟩), (2, ⟨20, [20, 10], false⟩), (3, ⟨30, [30, 10], false⟩)]
def methods0 : List MethodRec := [⟨7, [.virt, .nonvirt, .virt], [10, 10], [⟨100, [20, 30]⟩, ⟨101, [10, 10]⟩]⟩]
def s0 : PState := { cfg := {}, classes := classes0, methods := methods0 }
def s1 : PState := (s0.update []).1

def updOk : UpdateOut → Bool
  | .ok => true
  | .raised _ => false

/-- the kernel runs the whole pipeline of the model -/
example : updOk (s0.update []).2.1 = true := by decide +kernel
example : s1.callWith 7 [(.virt, 20), (.nonvirt, 0), (.virt, 30)] .ref [] = .ran 100 := by decide +kernel
example : s1.callWith 7 [(.virt, 30), (.nonvirt, 0), (.virt, 30)] .ref [] = .ran 101 := by decide +kernel

/-- no inheritance cycle: rank Animal below Dog and Cat -/
theorem wf0 : WF s0.cfg.proj s0.registry.classes s0.registry.methods := by
  refine ⟨fun k => if k = 10 then 0 else 1, ?_, ?_⟩
  · intro d m hl hne
    obtain ⟨r, hr, hd, b, hb, hm⟩ := hl
    have hproj : ∀ x, s0.cfg.proj x = x := fun x => rfl
    rw [hproj] at hd hm
    simp only [s0, PState.registry, classes0, List.map_cons, List.map_nil, List.mem_cons, List.not_mem_nil, or_false] at hr
    rcases hr with rfl | rfl | rfl <;> simp at hb <;> simp at hd <;> subst hd
    · subst hm hb; exact absurd rfl hne
    · rcases hb with rfl | rfl
      · subst hm; exact absurd rfl hne
      · subst hm; simp
    · rcases hb with rfl | rfl
      · subst hm; exact absurd rfl hne
      · subst hm; simp
  · intro c
    show (if c = 10 then 0 else 1) ≤ 3
    split <;> omega

end Yomm2.Props.Examples

namespace Yomm2.Props.Examples
open Yomm2 Yomm2.Spec Yomm2.GraphProofs Yomm2.Props.C01

theorem compiled_isSome : s1.compiled.isSome = true := by decide +kernel

def c0 : Compiled := s1.compiled.get compiled_isSome

theorem hc0 : s1.compiled = some c0 := by simp [c0]

def m0 : MethodC := { key := 7, shape := [.virt, .nonvirt, .virt], vp := [0, 0], specs := [(100, [1, 2]), (101, [0, 0])] }

theorem hup0 : s0.update [] = (s1, .ok, []) := by
  have h1 : updOk (s0.update []).2.1 = true := by decide +kernel
  have h2 : (s0.update []).2.2 = [] := by decide +kernel
  have h3 : (s0.update []).2.1 = .ok := by
    cases h : (s0.update []).2.1 with
    | ok => rfl
    | raised e => rw [h] at h1; cases h1
  have : s0.update [] = ((s0.update []).1, (s0.update []).2.1, (s0.update []).2.2) := rfl
  rw [this, h3, h2]
  rfl

/-- **the end-to-end theorem applies**: all its hypotheses hold for the call `meet(dog, 0, cat)`, and
    its conclusion, with the specification evaluated, says definition 100 runs -/
example : ∃ mr o, s0.registry.methods[0]? = some mr ∧
    Selects s0.cfg.proj s0.registry mr.defs ((virtIds [(.virt, 20), (.nonvirt, 0), (.virt, 30)]).map s0.cfg.proj) o ∧
    s1.callWith 7 [(.virt, 20), (.nonvirt, 0), (.virt, 30)] .ref [] = expected m0.vp.length [(.virt, 20), (.nonvirt, 0), (.virt, 30)] o := by
  apply C01_C02_call_after_update s0 s1 [] [] hup0 wf0 _ c0 hc0 7 0 m0 _ [(.virt, 20), (.nonvirt, 0), (.virt, 30)] [1, 2]
  · decide +kernel
  · exact Forall₂.cons (by decide +kernel) (Forall₂.cons (by decide +kernel) Forall₂.nil)
  · exact Forall₂.cons (by decide +kernel) (Forall₂.cons (by decide +kernel) Forall₂.nil)
  · decide
  · intro r hr
    simp only [s0, PState.registry, classes0, List.map_cons, List.map_nil, List.mem_cons, List.not_mem_nil, or_false] at hr
    rcases hr with rfl | rfl | rfl <;> decide
  · decide +kernel

end Yomm2.Props.Examples

namespace Yomm2.Props.Examples
open Yomm2

/-- C13 on the same registry: the kernel decodes what the encoder emits and finds the words `install` wrote -/
example : ((decode (encode c0) (RoundTrip.msOf c0) [0, 1, 2]).toOption.map (fun d => d.toInstalled.data.toList)) =
    s1.inst.map (fun i => i.data.toList) := by decide +kernel

end Yomm2.Props.Examples

namespace Yomm2.Props.Examples
open Yomm2 Yomm2.Spec Yomm2.GraphProofs Yomm2.Props.C01

/-! ## a pointer kept across an update (indirect policy): `C09_kept_pointers_follow_updates` applies -/

instance {ε α} [DecidableEq ε] [DecidableEq α] : DecidableEq (Except ε α)
  | .ok a, .ok b => if h : a = b then isTrue (by rw [h]) else isFalse (by intro h'; cases h'; exact h rfl)
  | .error a, .error b => if h : a = b then isTrue (by rw [h]) else isFalse (by intro h'; cases h'; exact h rfl)
  | .ok _, .error _ => isFalse (by intro h; cases h)
  | .error _, .ok _ => isFalse (by intro h; cases h)

def methodsP : List MethodRec := [⟨7, [.vptr, .nonvirt, .virt], [10, 10], [⟨100, [20, 30]⟩, ⟨101, [10, 10]⟩]⟩]
/-- the same method after a plugin added the definition (Dog, Animal) -/
def methodsP' : List MethodRec := [⟨7, [.vptr, .nonvirt, .virt], [10, 10], [⟨100, [20, 30]⟩, ⟨101, [10, 10]⟩, ⟨102, [20, 10]⟩]⟩]
def p0 : PState := { cfg := { indirect := true }, classes := classes0, methods := methodsP }
def p1 : PState := (p0.update []).1
/-- a `virtual_ptr<Animal>` to a Dog, made after the first update -/
def dogPtr : VPtr := { obj := 20, ref := .cell 20 }
example : p1.mkVPtr 20 = .ok dogPtr := by decide +kernel
def p1' : PState := { p1 with methods := methodsP' }
def p2 : PState := (p1'.update []).1

/-- through the kept pointer, `meet(dog, 0, dog)` ran (Animal, Animal) before the second update and runs
    the new (Dog, Animal) after it -/
example : p1.callWith 7 [(.vptr, 20), (.nonvirt, 0), (.virt, 20)] .ref [(0, dogPtr)] = .ran 101 := by decide +kernel
example : p2.callWith 7 [(.vptr, 20), (.nonvirt, 0), (.virt, 20)] .ref [(0, dogPtr)] = .ran 102 := by decide +kernel

theorem hupP : p1'.update [] = (p2, .ok, []) := by
  have h1 : updOk (p1'.update []).2.1 = true := by decide +kernel
  have h2 : (p1'.update []).2.2 = [] := by decide +kernel
  have h3 : (p1'.update []).2.1 = .ok := by
    cases h : (p1'.update []).2.1 with
    | ok => rfl
    | raised e => rw [h] at h1; cases h1
  have : p1'.update [] = ((p1'.update []).1, (p1'.update []).2.1, (p1'.update []).2.2) := rfl
  rw [this, h3, h2]
  rfl

theorem compiledP_isSome : p2.compiled.isSome = true := by decide +kernel
def cP : Compiled := p2.compiled.get compiledP_isSome
theorem hcP : p2.compiled = some cP := by simp [cP]
def mP : MethodC := { key := 7, shape := [.vptr, .nonvirt, .virt], vp := [0, 0], specs := [(100, [1, 2]), (101, [0, 0]), (102, [1, 0])] }

/-- all hypotheses of the theorem hold for the call through the pointer made before the second update -/
example : ∃ mr o, p1'.registry.methods[0]? = some mr ∧
    Selects p1'.cfg.proj p1'.registry mr.defs ((virtIds [(.vptr, 20), (.nonvirt, 0), (.virt, 20)]).map p1'.cfg.proj) o ∧
    p2.callWith 7 [(.vptr, 20), (.nonvirt, 0), (.virt, 20)] .ref [(0, dogPtr)] =
      expected mP.vp.length [(.vptr, 20), (.nonvirt, 0), (.virt, 20)] o := by
  apply C09.C09_kept_pointers_follow_updates p1' p2 [] [] hupP wf0 _ cP hcP 7 0 mP _ [(.vptr, 20), (.nonvirt, 0), (.virt, 20)] [1, 1]
  · decide +kernel
  · exact Forall₂.cons (by decide +kernel) (Forall₂.cons (by decide +kernel) Forall₂.nil)
  · exact Forall₂.cons (by decide +kernel) (Forall₂.cons (by decide +kernel) Forall₂.nil)
  · decide
  · decide +kernel
  · intro x hx id hm
    simp only [List.mem_cons, List.not_mem_nil, or_false] at hx
    subst hx
    have : id = 20 := by
      simp only [List.zipIdx_cons, List.zipIdx_nil, List.mem_cons, List.not_mem_nil, or_false, Prod.mk.injEq] at hm
      rcases hm with ⟨⟨_, h⟩, _⟩ | ⟨⟨h, _⟩, _⟩ | ⟨⟨h, _⟩, _⟩
      · exact h
      · cases h
      · cases h
    subst this
    exact ⟨p1, by decide +kernel, Or.inl (by decide +kernel)⟩
  · intro r hr
    have hcl : p1'.registry.classes = s0.registry.classes := by decide +kernel
    rw [hcl] at hr
    simp only [s0, PState.registry, classes0, List.map_cons, List.map_nil, List.mem_cons, List.not_mem_nil, or_false] at hr
    rcases hr with rfl | rfl | rfl <;> decide
  · decide +kernel

end Yomm2.Props.Examples
