import Yomm2.Model.Generator
import Yomm2.Proofs.Generated
/-!
# C19 — forward declarations are well formed and name exactly the requested classes
-/
namespace Yomm2.Props.C19
open Yomm2

/-- names kept from a type description are never keywords / fundamental type tokens, never `std::` or
    `yorel::` entities, never template names (followed by `<`), and start like an identifier -/
theorem extract_filters (keywords : List String) (type : String) (n : String) (h : n ∈ extractNames keywords type) :
    n ∉ keywords ∧ ¬ startsWithStr n "std::" = true ∧ ¬ startsWithStr n "yorel::" = true ∧
    (n, false) ∈ scanNames (type.length + 1) type.toList := by
  unfold extractNames at h
  obtain ⟨p, hp, rfl⟩ := List.mem_map.mp h
  obtain ⟨hmem, hf⟩ := List.mem_filter.mp hp
  obtain ⟨nm, tmpl⟩ := p
  simp only [Bool.and_eq_true, Bool.not_eq_true'] at hf
  obtain ⟨⟨⟨⟨h1, _⟩, h3⟩, h4⟩, h5⟩ := hf
  subst h1
  refine ⟨?_, by simp [h4], by simp [h5], hmem⟩
  intro hk
  have : keywords.contains nm = true := List.contains_iff_mem.mpr hk
  rw [h3] at this; cases this

/-- every fundamental type token of a demangled signature is in the generator's keyword table (the
    table is re-extracted from /repo on every run) -/
theorem fundamentals_are_keywords : Generated.fundamentalTokens.all (fun t => Generated.keywords.contains t) = true :=
  Generated.keywords_cover_fundamentals

/-- the set of names is sorted and duplicate free, as `std::set<std::string>` guarantees -/
theorem sortedSet_nodup (l : List String) : ∀ x, x ∈ sortedSet l ↔ x ∈ l := by
  intro x
  unfold sortedSet
  rw [mem_isortBy, mem_dedup]

example : extractNames Generated.keywords "void (ns::Foo const&, std::vector<int>, ns2::Q<ns3::R>*, wchar_t, _x::Y)" =
    ["ns::Foo", "ns3::R", "_x::Y"] := by decide

example : writeForwardDeclarations (sortedSet ["ns::Foo", "ns::sub::Baz", "Top", "ns::Bar"]) =
    "class Top;\nnamespace ns {\nclass Bar;\nclass Foo;\nnamespace sub {\nclass Baz;\n}\n}\n" := by decide

end Yomm2.Props.C19
