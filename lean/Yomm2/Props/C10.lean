import Yomm2.Model.World
/-!
# C10 — dispatch is the same under every RTTI flavour
-/
namespace Yomm2.Props.C10
open Yomm2

/-- deferred ids, once resolved by `update`, are the ids: the deferred flavour compiles exactly like
    custom ids with the identity projection -/
theorem deferred_compiles_like_identity (c c' : Cfg) (h : c.rtti = .deferred) (h' : c'.rtti = .identity)
    (reg : Registry) : compile c.proj reg = compile c'.proj reg := by
  have : c.proj = c'.proj := by unfold Cfg.proj; rw [h, h']
  rw [this]

/-- with a many-to-one projection every id of a class (same `type_index`) names the same class in
    every table of the compiler -/
theorem alias_ids_same_class (proj : Nat → Nat) (hs : List Head) (a a' : Nat) (h : proj a = proj a') :
    classIdx hs (proj a) = classIdx hs (proj a') := by rw [h]

/-- every id seen in a class record is collected into its class (first loop of `augment_classes`):
    `publish_vptrs` then writes one v-table pointer per collected id -/
theorem addRec_collects (proj : Nat → Nat) (acc : List Head) (r : ClassRec) :
    ∃ h ∈ addRec proj acc r, h.key = proj r.id ∧ r.id ∈ h.ids := by
  unfold addRec
  split
  · rename_i hany
    obtain ⟨h0, hm, hk⟩ := List.any_eq_true.mp hany
    have hk' : h0.key = proj r.id := by simpa using hk
    cases hc : h0.ids.contains r.id with
    | true =>
      refine ⟨h0, ?_, hk', by simpa using hc⟩
      apply List.mem_map.mpr
      refine ⟨h0, hm, ?_⟩
      simp only [hk, hc, Bool.not_true, Bool.and_false, Bool.false_eq_true, if_false]
    | false =>
      refine ⟨{ h0 with ids := h0.ids ++ [r.id] }, ?_, hk', by simp⟩
      apply List.mem_map.mpr
      refine ⟨h0, hm, ?_⟩
      simp only [hk, hc, Bool.not_false, Bool.and_self, if_true]
  · exact ⟨{ key := proj r.id, ids := [r.id], abstract := r.abstract }, by simp, rfl, by simp⟩

end Yomm2.Props.C10
