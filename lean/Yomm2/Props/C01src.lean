import Yomm2.Proofs.SrcCompare
import Yomm2.Proofs.SrcBest
import Yomm2.Props.C03
import Yomm2.Proofs.Specificity
/-!
# C01 / C02 / C06: the ordering `best` uses, for the text of `compiler.hpp`

Which definition a call selects, whether it is ambiguous, and whether that depends on the order of
registration all hang on one function, `compiler<Policy>::is_more_specific`, which `best` asks about every
pair of applicable definitions. The end-to-end theorem (`Props/C01c.lean`) is about the hand-written
`isMoreSpecific`. Here the same is said about the body of `is_more_specific` *as clang parsed it from the header on
this run* (`Generated/CompareSrc.lean`), executed by `Sel.exec`: for every covariance relation without cycles and
every two definitions of a method it returns exactly the documented ordering — at no virtual position is the
other's class a proper descendant of this one's, and at some position this one's class is a proper descendant of
the other's.
-/
namespace Yomm2.Props.C01src
open Yomm2 Yomm2.Sel Yomm2.Generated Yomm2.Spec

/-- the translated `is_more_specific` computes the function the end-to-end theorem is about -/
theorem is_more_specific_source_is_model (der : Nat → Nat → Bool) (a b : List Nat) (h : a.length = b.length) :
    run der (a.length + 1) CompareSrc.is_more_specific a b = .returned (isMoreSpecific der a b) :=
  Proofs.SrcCompare.is_more_specific_src der a b (Nat.le_of_eq h) _ (Nat.lt_succ_self _)

/-- **the text of `is_more_specific` decides the documented ordering** -/
theorem C01_source_ordering_is_the_documented_one (der : Nat → Nat → Bool)
    (anti : ∀ x y, der x y = true → der y x = true → x = y) (a b : List Nat) (h : a.length = b.length) :
    run der (a.length + 1) CompareSrc.is_more_specific a b =
      .returned (all₂ (fun x y => !(der y x && y != x)) a b && any₂ (fun x y => der x y && x != y) a b) := by
  rw [is_more_specific_source_is_model der a b h, Specificity.isMoreSpecific_eq der anti a b h]

/-- it never reads past the end of either parameter list, and never runs out of fuel: the result is a value -/
theorem is_more_specific_source_total (der : Nat → Nat → Bool) (a b : List Nat) (h : a.length = b.length) :
    ∃ v, run der (a.length + 1) CompareSrc.is_more_specific a b = .returned v :=
  ⟨_, is_more_specific_source_is_model der a b h⟩

/-- a concrete instance: (Dog, Cat) against (Animal, Cat) with Dog, Cat deriving from Animal (0) -/
example : run (fun x y => x == y || y == 0) 3 CompareSrc.is_more_specific [1, 2] [0, 2] = .returned true := by
  have h := is_more_specific_source_is_model (fun x y => x == y || y == 0) [1, 2] [0, 2] rfl
  rw [show [1, 2].length + 1 = 3 from rfl] at h
  rw [h]; congr 1


/-- the translated `best` computes the function the end-to-end theorem is about -/
theorem best_source_is_model {α : Type} [DecidableEq α] (ms : α → α → Bool) (cands : List α) :
    Pick.run ms BestSrc.best cands = .returned (Yomm2.best ms cands) :=
  Proofs.SrcBest.best_src ms cands

/-- **the text of `best`**: for any asymmetric ordering, if one candidate is more specific than every other one
    the body of `best` as it stands in the header returns exactly that candidate — whatever the order of the
    candidates (no incremental elimination: the defect D2 cannot come back unnoticed) -/
theorem C01_source_best_returns_the_dominating {α : Type} [DecidableEq α] (ms : α → α → Bool)
    (asym : ∀ a b, ms a b = true → ms b a = false) (cands : List α) (d : α)
    (h : Props.C03.Dominates ms cands d) : Pick.run ms BestSrc.best cands = .returned [d] := by
  rw [best_source_is_model, Props.C03.best_of_dominates ms asym cands d h]

/-- and when it returns a single candidate, that candidate is more specific than every other one -/
theorem C01_source_best_single_dominates {α : Type} [DecidableEq α] (ms : α → α → Bool) (cands : List α) (d : α)
    (h : Pick.run ms BestSrc.best cands = .returned [d]) : Props.C03.Dominates ms cands d ∨ cands = [d] := by
  rw [best_source_is_model] at h
  have : Yomm2.best ms cands = [d] := by injection h
  exact Props.C03.dominates_of_best ms cands d this

end Yomm2.Props.C01src
