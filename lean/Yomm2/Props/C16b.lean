import Yomm2.Props.C16
import Yomm2.Props.C14b
/-!
# C16 — with the end-to-end theorem: under any schedule every call does what the specification prescribes
-/
namespace Yomm2.Props.C16
open Yomm2 Yomm2.Spec Yomm2.GraphProofs Yomm2.Props.C01

/-- every result collected by a schedule is the sequential one (`C16_any_schedule`), and the sequential
    one is the specification's (`C01_C02_call_after_update`): so, for every interleaving in which the
    other threads only operate on other policies, a call on policy `k` by any thread returns exactly
    what the specification prescribes for `k`'s registry -/
theorem C16_scheduled_calls_follow_the_specification (k : String) (w : World) (sched : List SOp)
    (hother : ∀ t k' op, SOp.other t k' op ∈ sched → k' ≠ k)
    (s s' : PState) (mults rest : List UInt64) (hup : s.update mults = (s', .ok, rest))
    (hget : w.get k = some s')
    (hwf : WF s.cfg.proj s.registry.classes s.registry.methods)
    (hword : ∀ r ∈ s.registry.classes, r.id < 2 ^ 64 - 1)
    (hnomap : s.cfg.hash = .checked → ¬ s.cfg.vptrMap = true)
    (c : Compiled) (hc : s'.compiled = some c)
    (t key mi : Nat) (m : MethodC) (hfind : (List.zipIdx c.methods).find? (fun e => e.1.key == key) = some (m, mi))
    (args : List (Kind × Nat)) (cs : List Nat)
    (hreg : Forall₂ (fun (id ci : Nat) => id ∈ c.graph.ids ci) (virtIds args) cs)
    (hacc : Forall₂ (fun cl v => cl ∈ c.graph.cov.get v) cs m.vp) (hpos : 0 < m.vp.length) :
    ∃ o, (∀ mr, s.registry.methods[mi]? = some mr →
        Selects s.cfg.proj s.registry mr.defs ((virtIds args).map s.cfg.proj) o) ∧
      (t, some (expected m.vp.length args o)) ∈ runSched k w (sched ++ [SOp.call t key args]) := by
  obtain ⟨mr, o, hmr, hsel, hcall⟩ := C01_C02_call_after_update s s' mults rest hup hwf hword c hc key mi m hfind
    args cs hnomap hreg hacc hpos
  refine ⟨o, fun mr' hmr' => by rw [hmr] at hmr'; cases hmr'; exact hsel, ?_⟩
  have hoth : ∀ (t' : Nat) (k' : String) (op : POp), SOp.other t' k' op ∈ sched ++ [SOp.call t key args] → k' ≠ k := by
    intro t' k' op hm
    rcases List.mem_append.mp hm with h | h
    · exact hother t' k' op h
    · simp at h
  rw [C16_any_schedule k w _ hoth]
  -- the sequential run answers the last call from the initial state
  have : ∀ (l : List SOp), (t, (w.get k).map (fun st => st.call key args)) ∈ sequential k w (l ++ [SOp.call t key args]) := by
    intro l
    induction l with
    | nil => simp [sequential]
    | cons x xs ih =>
      cases x with
      | call t' key' args' => simp only [List.cons_append, sequential, List.mem_cons]; exact Or.inr ih
      | other t' k' op => simp only [List.cons_append, sequential]; exact ih
  have h := this sched
  rw [hget] at h
  simp only [Option.map_some, PState.call, hcall] at h
  exact h

end Yomm2.Props.C16
