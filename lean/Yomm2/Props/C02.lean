import Yomm2.Model.World
/-!
# C02 — unresolvable calls are reported accurately, never dispatched silently
-/
namespace Yomm2.Props.C02
open Yomm2

/-- the type ids of a resolution error are the dynamic ids of exactly the virtual arguments, in
    order (at most `max_types` = 16 of them) -/
theorem errorTypes_virtual_only (args : List (Kind × Nat)) :
    errorTypes args = ((args.filter (fun a => a.1.isVirtual)).map (·.2)).take 16 := rfl

theorem errorTypes_length (args : List (Kind × Nat)) :
    (errorTypes args).length = min 16 (args.filter (fun a => a.1.isVirtual)).length := by
  simp [errorTypes, List.length_take]

/-- a non-virtual argument contributes nothing, wherever it stands -/
theorem errorTypes_skip_nonvirtual (pre post : List (Kind × Nat)) (x : Nat) :
    errorTypes (pre ++ (Kind.nonvirt, x) :: post) = errorTypes (pre ++ post) := by
  simp [errorTypes, List.filter_append, Kind.isVirtual]

/-- a call that lands on an error cell raises and runs no definition: the outcome of `callWith` is
    `ran` only through a `defn` cell -/
theorem error_cell_never_runs (s : PState) (key : Nat) (args : List (Kind × Nat)) (r : Route)
    (pre : List (Nat × VPtr)) (st : Cell) (ar : Nat) (tys : List Nat)
    (h : s.callWith key args r pre = .raised (.resolution st ar tys)) :
    ∀ d, s.callWith key args r pre ≠ .ran d := by
  intro d hd; rw [h] at hd; cases hd

/-- the status distinguishes the two cases: `ni` only for an empty candidate list, `amb` only for
    two or more -/
theorem status_of_cell (bs : List Nat) :
    (cellOfBest bs = .ni ↔ bs = []) ∧ (cellOfBest bs = .amb ↔ 2 ≤ bs.length) := by
  constructor
  · cases bs with
    | nil => simp [cellOfBest]
    | cons x xs => cases xs <;> simp [cellOfBest]
  · cases bs with
    | nil => simp [cellOfBest]
    | cons x xs => cases xs <;> simp [cellOfBest]

example : errorTypes [(.nonvirt, 7), (.virt, 10), (.nonvirt, 8), (.vptr, 11)] = [10, 11] := by decide

end Yomm2.Props.C02
