import Yomm2.Model.StaticList
/-!
# C18 — registration catalogs hold exactly the live registrations, in order

Refinement of the intrusive list to an abstract list: `Repr l xs` says the heap and `first`
represent the duplicate-free list `xs`: `next` links consecutive elements and ends in null; `prev`
links them backwards, the first element pointing to the last; other nodes are unlinked.
-/
namespace Yomm2.Props.C18
open Yomm2

/-- `xs` is linked through the pointer field `f`, the last element pointing to `t` -/
def Chain (f : Nat → Option Nat) : List Nat → Option Nat → Prop
  | [], _ => True
  | [a], t => f a = t
  | a :: b :: rest, t => f a = some b ∧ Chain f (b :: rest) t

theorem chain_append (f : Nat → Option Nat) (pre : List Nat) (b : Nat) (post : List Nat) (t : Option Nat) :
    Chain f (pre ++ b :: post) t ↔ Chain f pre (some b) ∧ Chain f (b :: post) t := by
  induction pre with
  | nil => simp [Chain]
  | cons a pre ih =>
    cases pre with
    | nil => simp [Chain]
    | cons c pre' =>
      simp only [List.cons_append, Chain] at ih ⊢
      rw [ih]
      constructor
      · rintro ⟨h1, h2, h3⟩; exact ⟨⟨h1, h2⟩, h3⟩
      · rintro ⟨⟨h1, h2⟩, h3⟩; exact ⟨h1, h2, h3⟩

theorem chain_congr (f g : Nat → Option Nat) (xs : List Nat) (t : Option Nat)
    (h : ∀ x ∈ xs, g x = f x) : Chain f xs t → Chain g xs t := by
  induction xs with
  | nil => simp [Chain]
  | cons a xs ih =>
    cases xs with
    | nil => simp only [Chain]; intro hf; rw [h a (by simp)]; exact hf
    | cons b rest =>
      simp only [Chain]
      rintro ⟨h1, h2⟩
      exact ⟨by rw [h a (by simp)]; exact h1, ih (fun x hx => h x (by simp [hx])) h2⟩

/-- redirect the last element of a chain -/
theorem chain_retarget (f g : Nat → Option Nat) (xs : List Nat) (t t' : Option Nat) (hnd : xs.Nodup)
    (hlast : ∀ a, xs.getLast? = some a → g a = t')
    (hother : ∀ x ∈ xs, xs.getLast? ≠ some x → g x = f x) : Chain f xs t → Chain g xs t' := by
  induction xs with
  | nil => simp [Chain]
  | cons a xs ih =>
    cases xs with
    | nil => simp only [Chain]; intro _; exact hlast a (by simp)
    | cons b rest =>
      simp only [Chain]
      rintro ⟨h1, h2⟩
      have hnd' : (b :: rest).Nodup := (List.nodup_cons.mp hnd).2
      have hane : (a :: b :: rest).getLast? ≠ some a := by
        rw [List.getLast?_cons_cons]
        intro he
        have : a ∈ b :: rest := List.mem_of_getLast? he
        exact (List.nodup_cons.mp hnd).1 this
      refine ⟨by rw [hother a (by simp) hane]; exact h1, ih hnd' ?_ ?_ h2⟩
      · intro x hx; exact hlast x (by rw [List.getLast?_cons_cons]; exact hx)
      · intro x hx hne; exact hother x (by simp [hx]) (by rw [List.getLast?_cons_cons]; exact hne)

def nextOf (l : SList) (n : Nat) : Option Nat := (l.links n).next
def prevOf (l : SList) (n : Nat) : Option Nat := (l.links n).prev

structure Repr (l : SList) (xs : List Nat) : Prop where
  nodup : xs.Nodup
  first : l.first = xs.head?
  next : Chain (nextOf l) xs none
  /-- backwards through `prev`, the first element pointing to the last -/
  prev : Chain (prevOf l) xs.reverse xs.getLast?
  /-- nodes outside the list are unlinked (zero-initialised static storage / reset by remove) -/
  unlinked : ∀ n, n ∉ xs → l.links n = {}

theorem repr_empty : Repr {} [] := by
  refine ⟨List.nodup_nil, rfl, trivial, trivial, ?_⟩
  intro n _
  simp [SList.links]

/-! ### field updates -/

@[simp] theorem next_setPrev (l : SList) (n : Nat) (p : Option Nat) (m : Nat) :
    nextOf (l.setPrev n p) m = nextOf l m := by
  unfold nextOf SList.links SList.setPrev
  simp only [Tab.get_set]
  split
  · rename_i h; subst h; rfl
  · rfl

@[simp] theorem prev_setNext (l : SList) (n : Nat) (p : Option Nat) (m : Nat) :
    prevOf (l.setNext n p) m = prevOf l m := by
  unfold prevOf SList.links SList.setNext
  simp only [Tab.get_set]
  split
  · rename_i h; subst h; rfl
  · rfl

theorem next_setNext (l : SList) (n : Nat) (p : Option Nat) (m : Nat) :
    nextOf (l.setNext n p) m = if m = n then p else nextOf l m := by
  unfold nextOf SList.links SList.setNext
  simp only [Tab.get_set]
  split <;> rfl

theorem prev_setPrev (l : SList) (n : Nat) (p : Option Nat) (m : Nat) :
    prevOf (l.setPrev n p) m = if m = n then p else prevOf l m := by
  unfold prevOf SList.links SList.setPrev
  simp only [Tab.get_set]
  split <;> rfl

theorem links_eq (l : SList) (n : Nat) : l.links n = { prev := prevOf l n, next := nextOf l n } := rfl

theorem links_ext (l l' : SList) (n : Nat) (h1 : nextOf l' n = nextOf l n) (h2 : prevOf l' n = prevOf l n) :
    l'.links n = l.links n := by
  rw [links_eq l', links_eq l, h1, h2]

@[simp] theorem first_setPrev (l : SList) (n : Nat) (p : Option Nat) : (l.setPrev n p).first = l.first := rfl
@[simp] theorem first_setNext (l : SList) (n : Nat) (p : Option Nat) : (l.setNext n p).first = l.first := rfl

/-- iteration follows the chain -/
theorem walk_eq (l : SList) : ∀ (xs : List Nat) (fuel : Nat), Chain (nextOf l) xs none → xs.length ≤ fuel →
    l.walk fuel xs.head? = xs
  | [], fuel, _, _ => by cases fuel <;> simp [SList.walk]
  | [a], fuel, h, hf => by
    cases fuel with
    | zero => simp at hf
    | succ f =>
      simp only [List.head?_cons, SList.walk]
      simp only [Chain, nextOf] at h
      rw [h]
      cases f <;> simp [SList.walk]
  | a :: b :: rest, fuel, h, hf => by
    cases fuel with
    | zero => simp at hf
    | succ f =>
      simp only [List.head?_cons, SList.walk]
      obtain ⟨h1, h2⟩ := h
      simp only [nextOf] at h1
      rw [h1]
      have := walk_eq l (b :: rest) f h2 (by simp at hf ⊢; omega)
      simp only [List.head?_cons] at this
      rw [this]

/-- **enumeration, size and emptiness** of a represented list -/
theorem toList_eq {l : SList} {xs : List Nat} (h : Repr l xs) (fuel : Nat) (hf : xs.length ≤ fuel) :
    l.toList fuel = xs := by
  unfold SList.toList
  rw [h.first]
  exact walk_eq l xs fuel h.next hf

theorem size_eq {l : SList} {xs : List Nat} (h : Repr l xs) (fuel : Nat) (hf : xs.length ≤ fuel) :
    l.size fuel = xs.length := by
  unfold SList.size
  rw [toList_eq h fuel hf]

theorem empty_iff {l : SList} {xs : List Nat} (h : Repr l xs) : l.empty = true ↔ xs = [] := by
  unfold SList.empty
  rw [h.first]
  cases xs <;> simp

/-! ### auxiliary facts on chains -/

theorem nodup_reverse' {l : List Nat} (h : l.Nodup) : l.reverse.Nodup := by
  simpa [List.Nodup, List.pairwise_reverse, ne_comm] using h

theorem chain_last (f : Nat → Option Nat) : ∀ (xs : List Nat) (t : Option Nat) (a : Nat),
    Chain f xs t → xs.getLast? = some a → f a = t
  | [], _, _, _, h => by simp at h
  | [x], t, a, hc, h => by simp at h; subst h; exact hc
  | x :: y :: rest, t, a, hc, h => by
    rw [List.getLast?_cons_cons] at h
    exact chain_last f (y :: rest) t a hc.2 h

theorem chain_cons (f : Nat → Option Nat) (x : Nat) (ys : List Nat) (y : Nat) (t : Option Nat)
    (hy : ys.head? = some y) : Chain f (x :: ys) t ↔ f x = some y ∧ Chain f ys t := by
  cases ys with
  | nil => simp at hy
  | cons z zs => simp at hy; subst hy; simp [Chain]

@[simp] theorem next_withFirst (l : SList) (x : Option Nat) (m : Nat) :
    nextOf { l with first := x } m = nextOf l m := rfl
@[simp] theorem prev_withFirst (l : SList) (x : Option Nat) (m : Nat) :
    prevOf { l with first := x } m = prevOf l m := rfl

/-- `first->prev` is the last element -/
theorem first_prev {l : SList} {a : Nat} {rest : List Nat} (h : Repr l (a :: rest)) :
    prevOf l a = (a :: rest).getLast? :=
  chain_last (prevOf l) (a :: rest).reverse _ a h.prev (by rw [List.getLast?_reverse]; rfl)

theorem unlinked_next {l : SList} {xs : List Nat} (h : Repr l xs) {n : Nat} (hn : n ∉ xs) : nextOf l n = none := by
  unfold nextOf; rw [h.unlinked n hn]
theorem unlinked_prev {l : SList} {xs : List Nat} (h : Repr l xs) {n : Nat} (hn : n ∉ xs) : prevOf l n = none := by
  unfold prevOf; rw [h.unlinked n hn]

/-- **push_back refines append** (the node being pushed is unlinked: the two assertions of the C++) -/
theorem push_refines {l : SList} {xs : List Nat} (h : Repr l xs) (n : Nat) (hn : n ∉ xs) :
    Repr (l.pushBack n) (xs ++ [n]) := by
  cases xs with
  | nil =>
    have hf : l.first = none := h.first
    unfold SList.pushBack
    simp only [hf]
    refine ⟨by simp, rfl, ?_, ?_, ?_⟩
    · simp only [List.nil_append, Chain, next_withFirst, next_setPrev]
      exact unlinked_next h hn
    · simp only [List.nil_append, List.reverse_cons, List.reverse_nil, Chain, prev_withFirst, prev_setPrev]
      simp
    · intro m hm
      have hmn : m ≠ n := by simpa using hm
      apply (links_ext l _ m _ _).trans (h.unlinked m (by simp))
      · simp
      · simp [prev_setPrev, hmn]
  | cons a rest =>
    have hf : l.first = some a := h.first
    obtain ⟨last, hlast⟩ : ∃ last, (a :: rest).getLast? = some last := by
      cases hl : (a :: rest).getLast? with
      | none => simp at hl
      | some x => exact ⟨x, rfl⟩
    have hfp : (l.links a).prev = some last := by
      have := first_prev h; unfold prevOf at this; rw [this, hlast]
    have hlmem : last ∈ a :: rest := List.mem_of_getLast? hlast
    have hnl : n ≠ last := fun e => hn (e ▸ hlmem)
    have hna : n ≠ a := fun e => hn (by simp [e])
    unfold SList.pushBack
    simp only [hf, hfp]
    have hnext : ∀ m, nextOf (((l.setNext last (some n)).setPrev n (some last)).setPrev a (some n)) m =
        if m = last then some n else nextOf l m := by
      intro m; simp [next_setNext]
    have hprev : ∀ m, prevOf (((l.setNext last (some n)).setPrev n (some last)).setPrev a (some n)) m =
        if m = a then some n else if m = n then some last else prevOf l m := by
      intro m; simp [prev_setPrev]
    refine ⟨?_, ?_, ?_, ?_, ?_⟩
    · rw [List.nodup_append]
      exact ⟨h.nodup, by simp, fun x hx y hy => by simp at hy; subst hy; exact fun e => hn (e ▸ hx)⟩
    · simp [hf]
    · rw [chain_append]
      constructor
      · apply chain_retarget (nextOf l) _ (a :: rest) none (some n) h.nodup
        · intro x hx; rw [hlast] at hx; cases hx; rw [hnext]; simp
        · intro x _ hne; rw [hnext]
          have : x ≠ last := fun e => hne (by rw [hlast, e])
          simp [this]
        · exact h.next
      · simp only [Chain]; rw [hnext]; simp [hnl]; exact unlinked_next h hn
    · rw [List.reverse_append, List.getLast?_concat]
      simp only [List.reverse_cons, List.reverse_nil, List.nil_append, List.singleton_append]
      have hhead : ((a :: rest).reverse).head? = some last := by rw [List.head?_reverse]; exact hlast
      simp only [List.reverse_cons] at hhead
      rw [chain_cons _ n _ last _ hhead]
      constructor
      · rw [hprev]; simp [hna]
      · have hp := h.prev
        rw [hlast] at hp
        simp only [List.reverse_cons] at hp
        apply chain_retarget (prevOf l) _ _ (some last) (some n) (by
          have := nodup_reverse' h.nodup; simpa [List.reverse_cons] using this)
        · intro x hx
          have : x = a := by
            have h2 : ((a :: rest).reverse).getLast? = some a := by rw [List.getLast?_reverse]; rfl
            simp only [List.reverse_cons] at h2
            rw [h2] at hx; cases hx; rfl
          subst this; rw [hprev]; simp
        · intro x hx hne
          have hxa : x ≠ a := by
            intro e
            apply hne
            have h2 : ((a :: rest).reverse).getLast? = some a := by rw [List.getLast?_reverse]; rfl
            simp only [List.reverse_cons] at h2
            rw [h2, e]
          have hxn : x ≠ n := by
            intro e; apply hn; rw [← e]
            have : x ∈ (a :: rest).reverse := by simpa [List.reverse_cons] using hx
            exact List.mem_reverse.mp this
          rw [hprev]; simp [hxa, hxn]
        · exact hp
    · intro m hm
      have hm1 : m ∉ a :: rest := fun e => hm (List.mem_append_left _ e)
      have hmn : m ≠ n := fun e => hm (by simp [e])
      have hml : m ≠ last := fun e => hm1 (e ▸ hlmem)
      have hma : m ≠ a := fun e => hm1 (by simp [e])
      apply (links_ext l _ m _ _).trans (h.unlinked m hm1)
      · rw [hnext]; simp [hml]
      · rw [hprev]; simp [hma, hmn]

theorem chain_uncons (f : Nat → Option Nat) (x : Nat) (ys : List Nat) (t : Option Nat)
    (h : Chain f (x :: ys) t) : f x = (ys.head?).or t ∧ Chain f ys t := by
  cases ys with
  | nil => simp only [Chain] at h; simp [h, Chain]
  | cons y zs => simp only [Chain] at h; simp [h.1, h.2]

/-- what the representation says around an element `n` of the list -/
theorem around {l : SList} {pre post : List Nat} {n : Nat} (h : Repr l (pre ++ n :: post)) :
    nextOf l n = post.head? ∧
    prevOf l n = (pre.getLast?).or (pre ++ n :: post).getLast? ∧
    Chain (nextOf l) pre (some n) ∧ Chain (nextOf l) post none ∧
    Chain (prevOf l) post.reverse (some n) ∧ Chain (prevOf l) pre.reverse (pre ++ n :: post).getLast? := by
  have hn := (chain_append _ pre n post none).mp h.next
  have hn2 := chain_uncons _ n post none hn.2
  have hp := h.prev
  rw [List.reverse_append, List.reverse_cons, List.append_assoc, List.singleton_append] at hp
  have hp1 := (chain_append _ post.reverse n pre.reverse _).mp hp
  have hp2 := chain_uncons _ n pre.reverse _ hp1.2
  refine ⟨?_, ?_, hn.1, hn2.2, hp1.1, hp2.2⟩
  · rw [hn2.1]; cases post.head? <;> rfl
  · rw [hp2.1, List.head?_reverse]

theorem nodup_parts {pre post : List Nat} {n : Nat} (h : (pre ++ n :: post).Nodup) :
    pre.Nodup ∧ post.Nodup ∧ n ∉ pre ∧ n ∉ post ∧ ∀ x, x ∈ pre → x ∉ post := by
  rw [List.nodup_append] at h
  obtain ⟨h1, h2, h3⟩ := h
  rw [List.nodup_cons] at h2
  refine ⟨h1, h2.2, ?_, h2.1, ?_⟩
  · intro hx; exact h3 n hx n (by simp) rfl
  · intro x hx hxp; exact h3 x hx x (by simp [hxp]) rfl

theorem erase_mid {pre post : List Nat} {n : Nat} (h : n ∉ pre) : (pre ++ n :: post).erase n = pre ++ post := by
  rw [List.erase_append_right _ h]; simp

/-- **remove refines erase**, whatever the position of the node: only / last / first / middle -/
theorem remove_refines {l : SList} {xs : List Nat} (h : Repr l xs) (n : Nat) (hn : n ∈ xs) :
    Repr (l.remove n) (xs.erase n) := by
  obtain ⟨pre, post, rfl⟩ := List.mem_iff_append.mp hn
  obtain ⟨hndpre, hndpost, hnpre, hnpost, hdisj⟩ := nodup_parts h.nodup
  rw [erase_mid hnpre]
  obtain ⟨anext, aprev, cnpre, cnpost, cppost, cppre⟩ := around h
  -- the first element and what `first->prev` holds
  obtain ⟨f, hfirst⟩ : ∃ f, (pre ++ n :: post).head? = some f := by
    cases pre <;> simp
  have hlf : l.first = some f := by rw [h.first, hfirst]
  obtain ⟨f', rest', hxs⟩ : ∃ f' rest', pre ++ n :: post = f' :: rest' := by
    cases pre with
    | nil => exact ⟨n, post, rfl⟩
    | cons a as => exact ⟨a, as ++ n :: post, rfl⟩
  have hff : f' = f := by rw [hxs] at hfirst; simpa using hfirst
  subst hff
  have hlastf : (l.links f').prev = (pre ++ n :: post).getLast? := by
    have := first_prev (l := l) (a := f') (rest := rest') (by rw [← hxs]; exact h)
    unfold prevOf at this; rw [this, hxs]
  have hnextn : (l.links n).next = post.head? := anext
  have hprevn : (l.links n).prev = (pre.getLast?).or (pre ++ n :: post).getLast? := aprev
  have hunl := h.unlinked
  cases post with
  | nil =>
    -- n is the last element
    have hlast : (pre ++ [n]).getLast? = some n := List.getLast?_concat
    cases pre with
    | nil =>
      -- the only element
      have hfn : f' = n := by simp at hxs; exact hxs.1.symm
      subst hfn
      unfold SList.remove
      simp only [hlf, hlastf, hlast]
      simp only [List.nil_append, if_true]
      refine ⟨List.nodup_nil, rfl, trivial, trivial, ?_⟩
      intro m _
      by_cases hm : m = f'
      · subst hm
        rw [links_eq]
        simp [next_setNext, prev_setPrev]
      · apply (links_ext l _ m _ _).trans (hunl m (by simpa using hm))
        · simp [next_setNext, hm]
        · simp [prev_setPrev, hm]
    | cons a as =>
      have hfa : f' = a := by simp at hxs; exact hxs.1.symm
      subst hfa
      obtain ⟨p, hp⟩ : ∃ p, (f' :: as).getLast? = some p := by
        cases hl : (f' :: as).getLast? with
        | none => simp at hl
        | some x => exact ⟨x, rfl⟩
      have hpmem : p ∈ f' :: as := List.mem_of_getLast? hp
      have hnf : n ≠ f' := fun e => hnpre (by simp [e])
      have hnp : n ≠ p := fun e => hnpre (e ▸ hpmem)
      have hprevn' : (l.links n).prev = some p := by rw [hprevn, hp]; rfl
      have hlastf' : (l.links f').prev = some n := by rw [hlastf]; exact hlast
      unfold SList.remove
      simp only [hlf, hlastf', hprevn', hnextn, if_true, hnf, if_false]
      have hnext : ∀ m, nextOf ((((l.setNext n none).setPrev n none).setPrev f' (some p)).setNext p none) m =
          if m = p then none else if m = n then none else nextOf l m := by
        intro m; simp [next_setNext]
      have hprev : ∀ m, prevOf ((((l.setNext n none).setPrev n none).setPrev f' (some p)).setNext p none) m =
          if m = f' then some p else if m = n then none else prevOf l m := by
        intro m; simp [prev_setPrev]
      simp only [List.append_nil]
      refine ⟨hndpre, by simp [hlf], ?_, ?_, ?_⟩
      · apply chain_retarget (nextOf l) _ (f' :: as) (some n) none hndpre
        · intro x hx; rw [hp] at hx; cases hx; rw [hnext]; simp
        · intro x hx hne
          have h1 : x ≠ p := fun e => hne (by rw [hp, e])
          have h2 : x ≠ n := fun e => hnpre (e ▸ hx)
          rw [hnext]; simp [h1, h2]
        · exact cnpre
      · rw [hp]
        rw [hlast] at cppre
        apply chain_retarget (prevOf l) _ _ (some n) (some p) (nodup_reverse' hndpre)
        · intro x hx
          rw [List.getLast?_reverse] at hx; simp at hx; subst hx
          rw [hprev]; simp
        · intro x hx hne
          have h1 : x ≠ f' := by
            intro e; apply hne; rw [List.getLast?_reverse]; simp [e]
          have h2 : x ≠ n := fun e => hnpre (e ▸ (List.mem_reverse.mp hx))
          rw [hprev]; simp [h1, h2]
        · exact cppre
      · intro m hm
        by_cases hmn : m = n
        · subst hmn
          rw [links_eq, hnext, hprev]
          simp [hnf, hnp]
        · have hmx : m ∉ (f' :: as) ++ [n] := by
            intro hc
            rcases List.mem_append.mp hc with hc | hc
            · exact hm hc
            · simp at hc; exact hmn hc
          have hmp : m ≠ p := fun e => hm (e ▸ hpmem)
          have hmf : m ≠ f' := fun e => hm (by simp [e])
          apply (links_ext l _ m _ _).trans (hunl m hmx)
          · rw [hnext]; simp [hmp, hmn]
          · rw [hprev]; simp [hmf, hmn]
  | cons y ys =>
    obtain ⟨lst, hlst⟩ : ∃ lst, (y :: ys).getLast? = some lst := by
      cases hl : (y :: ys).getLast? with
      | none => simp at hl
      | some x => exact ⟨x, rfl⟩
    have hlstmem : lst ∈ y :: ys := List.mem_of_getLast? hlst
    have hnlst : n ≠ lst := fun e => hnpost (e ▸ hlstmem)
    have hny : n ≠ y := fun e => hnpost (by simp [e])
    have hlast : (pre ++ n :: y :: ys).getLast? = some lst := by
      rw [List.getLast?_append]
      have : (n :: y :: ys).getLast? = some lst := by rw [List.getLast?_cons_cons]; exact hlst
      rw [this]; rfl
    have hlastf' : (l.links f').prev = some lst := by rw [hlastf]; exact hlast
    have hnextn' : (l.links n).next = some y := by rw [hnextn]; rfl
    have hne : ¬ (some n = some lst) := fun e => hnlst (Option.some.inj e)
    cases pre with
    | nil =>
      have hfn : f' = n := by simp at hxs; exact hxs.1.symm
      subst hfn
      unfold SList.remove
      simp only [hlf, hlastf', hnextn', hne, if_false, if_true]
      have hnext : ∀ m, nextOf ({ ((l.setNext f' none).setPrev f' none).setPrev y (some lst) with first := some y } : SList) m =
          if m = f' then none else nextOf l m := by
        intro m; simp [next_setNext]
      have hprev : ∀ m, prevOf ({ ((l.setNext f' none).setPrev f' none).setPrev y (some lst) with first := some y } : SList) m =
          if m = y then some lst else if m = f' then none else prevOf l m := by
        intro m; simp [prev_setPrev]
      simp only [List.nil_append]
      refine ⟨hndpost, rfl, ?_, ?_, ?_⟩
      · apply chain_congr (nextOf l) _ _ _ _ cnpost
        intro x hx
        have : x ≠ f' := fun e => hnpost (e ▸ hx)
        rw [hnext]; simp [this]
      · rw [hlst]
        apply chain_retarget (prevOf l) _ _ (some f') (some lst) (nodup_reverse' hndpost)
        · intro x hx
          rw [List.getLast?_reverse] at hx; simp at hx; subst hx
          rw [hprev]; simp
        · intro x hx hne'
          have h1 : x ≠ y := by
            intro e; apply hne'; rw [List.getLast?_reverse]; simp [e]
          have h2 : x ≠ f' := fun e => hnpost (e ▸ (List.mem_reverse.mp hx))
          rw [hprev]; simp [h1, h2]
        · exact cppost
      · intro m hm
        by_cases hmn : m = f'
        · subst hmn
          rw [links_eq, hnext, hprev]
          simp [hny]
        · have hmx : m ∉ [] ++ f' :: y :: ys := by
            simp only [List.nil_append, List.mem_cons, not_or]
            exact ⟨hmn, by simpa using hm⟩
          have hmy : m ≠ y := fun e => hm (by simp [e])
          apply (links_ext l _ m _ _).trans (hunl m hmx)
          · rw [hnext]; simp [hmn]
          · rw [hprev]; simp [hmy, hmn]
    | cons a as =>
      have hfa : f' = a := by simp at hxs; exact hxs.1.symm
      subst hfa
      obtain ⟨p, hp⟩ : ∃ p, (f' :: as).getLast? = some p := by
        cases hl : (f' :: as).getLast? with
        | none => simp at hl
        | some x => exact ⟨x, rfl⟩
      have hpmem : p ∈ f' :: as := List.mem_of_getLast? hp
      have hnf : n ≠ f' := fun e => hnpre (by simp [e])
      have hnp : n ≠ p := fun e => hnpre (e ▸ hpmem)
      have hpy : p ≠ y := fun e => hdisj p hpmem (by simp [e])
      have hprevn' : (l.links n).prev = some p := by rw [hprevn, hp]; rfl
      unfold SList.remove
      simp only [hlf, hlastf', hprevn', hnextn', hne, if_false, hnf]
      have hnext : ∀ m, nextOf ((((l.setNext n none).setPrev n none).setNext p (some y)).setPrev y (some p)) m =
          if m = p then some y else if m = n then none else nextOf l m := by
        intro m; simp [next_setNext]
      have hprev : ∀ m, prevOf ((((l.setNext n none).setPrev n none).setNext p (some y)).setPrev y (some p)) m =
          if m = y then some p else if m = n then none else prevOf l m := by
        intro m; simp [prev_setPrev]
      refine ⟨?_, by simp [hlf], ?_, ?_, ?_⟩
      · rw [List.nodup_append]
        exact ⟨hndpre, hndpost, fun x hx z hz e => hdisj x hx (e ▸ hz)⟩
      · rw [chain_append]
        constructor
        · apply chain_retarget (nextOf l) _ (f' :: as) (some n) (some y) hndpre
          · intro x hx; rw [hp] at hx; cases hx; rw [hnext]; simp
          · intro x hx hne'
            have h1 : x ≠ p := fun e => hne' (by rw [hp, e])
            have h2 : x ≠ n := fun e => hnpre (e ▸ hx)
            rw [hnext]; simp [h1, h2]
          · exact cnpre
        · apply chain_congr (nextOf l) _ _ _ _ cnpost
          intro x hx
          have h1 : x ≠ p := fun e => hdisj p hpmem (e ▸ hx)
          have h2 : x ≠ n := fun e => hnpost (e ▸ hx)
          rw [hnext]; simp [h1, h2]
      · have hT : ((f' :: as) ++ y :: ys).getLast? = some lst := by
          rw [List.getLast?_append, hlst]; rfl
        rw [hT, List.reverse_append]
        obtain ⟨pr, hpr⟩ : ∃ pr, (f' :: as).reverse = p :: pr := by
          have hh : (f' :: as).reverse.head? = some p := by rw [List.head?_reverse]; exact hp
          cases hr : (f' :: as).reverse with
          | nil => rw [hr] at hh; simp at hh
          | cons q qs => rw [hr] at hh; simp at hh; subst hh; exact ⟨qs, rfl⟩
        rw [hpr, chain_append]
        rw [hlast, hpr] at cppre
        constructor
        · apply chain_retarget (prevOf l) _ _ (some n) (some p) (nodup_reverse' hndpost)
          · intro x hx
            rw [List.getLast?_reverse] at hx; simp at hx; subst hx
            rw [hprev]; simp
          · intro x hx hne'
            have h1 : x ≠ y := by
              intro e; apply hne'; rw [List.getLast?_reverse]; simp [e]
            have h2 : x ≠ n := fun e => hnpost (e ▸ (List.mem_reverse.mp hx))
            rw [hprev]; simp [h1, h2]
          · exact cppost
        · apply chain_congr (prevOf l) _ _ _ _ cppre
          intro x hx
          have hxpre : x ∈ f' :: as := by
            have : x ∈ (f' :: as).reverse := by rw [hpr]; exact hx
            exact List.mem_reverse.mp this
          have h1 : x ≠ y := fun e => hdisj x hxpre (by simp [e])
          have h2 : x ≠ n := fun e => hnpre (e ▸ hxpre)
          rw [hprev]; simp [h1, h2]
      · intro m hm
        have hm1 : m ∉ f' :: as := fun e => hm (List.mem_append_left _ e)
        have hm2 : m ∉ y :: ys := fun e => hm (List.mem_append_right _ e)
        by_cases hmn : m = n
        · subst hmn
          rw [links_eq, hnext, hprev]
          simp [hny, hnp]
        · have hmx : m ∉ (f' :: as) ++ n :: y :: ys := by
            intro hc
            rcases List.mem_append.mp hc with hc | hc
            · exact hm1 hc
            · rcases List.mem_cons.mp hc with hc | hc
              · exact hmn hc
              · exact hm2 hc
          have hmp : m ≠ p := fun e => hm1 (e ▸ hpmem)
          have hmy : m ≠ y := fun e => hm2 (by simp [e])
          apply (links_ext l _ m _ _).trans (hunl m hmx)
          · rw [hnext]; simp [hmp, hmn]
          · rw [hprev]; simp [hmy, hmn]

/-! ### clear -/

theorem clearGo_spec : ∀ (xs : List Nat) (l : SList) (fuel : Nat),
    Chain (nextOf l) xs none → xs.Nodup → xs.length ≤ fuel →
    (l.clearGo fuel xs.head?).first = l.first ∧
    (∀ n ∈ xs, (l.clearGo fuel xs.head?).links n = {}) ∧
    (∀ n, n ∉ xs → (l.clearGo fuel xs.head?).links n = l.links n)
  | [], l, fuel, _, _, _ => by
    cases fuel <;> simp [SList.clearGo]
  | a :: rest, l, fuel, hc, hnd, hf => by
    cases fuel with
    | zero => simp at hf
    | succ f =>
      simp only [List.head?_cons, SList.clearGo]
      have hu := chain_uncons _ a rest none hc
      have hnext : (l.links a).next = rest.head? := by
        have := hu.1; unfold nextOf at this; rw [this]; cases rest.head? <;> rfl
      rw [hnext]
      have hanr : a ∉ rest := (List.nodup_cons.mp hnd).1
      have hc' : Chain (nextOf ((l.setPrev a none).setNext a none)) rest none := by
        apply chain_congr (nextOf l) _ _ _ _ hu.2
        intro x hx
        have : x ≠ a := fun e => hanr (e ▸ hx)
        simp [next_setNext, this]
      obtain ⟨i1, i2, i3⟩ := clearGo_spec rest ((l.setPrev a none).setNext a none) f hc'
        (List.nodup_cons.mp hnd).2 (by simp at hf; omega)
      refine ⟨by rw [i1]; rfl, ?_, ?_⟩
      · intro n hn
        rcases List.mem_cons.mp hn with rfl | hn
        · rw [i3 n hanr, links_eq]
          simp [next_setNext, prev_setPrev]
        · exact i2 n hn
      · intro n hn
        have hna : n ≠ a := fun e => hn (by simp [e])
        have hnr : n ∉ rest := fun e => hn (by simp [e])
        rw [i3 n hnr]
        apply links_ext
        · simp [next_setNext, hna]
        · simp [prev_setPrev, hna]

/-- **clear refines the empty list**, leaving every node unlinked (so it can be registered again) -/
theorem clear_refines {l : SList} {xs : List Nat} (h : Repr l xs) (fuel : Nat) (hf : xs.length ≤ fuel) :
    Repr (l.clear fuel) [] := by
  unfold SList.clear
  rw [h.first]
  obtain ⟨i1, i2, i3⟩ := clearGo_spec xs ({ l with first := none } : SList) fuel h.next h.nodup hf
  refine ⟨List.nodup_nil, by rw [i1]; rfl, trivial, trivial, ?_⟩
  intro n _
  by_cases hn : n ∈ xs
  · exact i2 n hn
  · rw [i3 n hn]; exact h.unlinked n hn

/-! ### histories -/

inductive Op
  | push (n : Nat)
  | remove (n : Nat)
  | clear
deriving DecidableEq

/-- the operation on the abstract catalog -/
def absStep (xs : List Nat) : Op → List Nat
  | .push n => xs ++ [n]
  | .remove n => xs.erase n
  | .clear => []

/-- the operation on the intrusive list (`fuel` bounds the `while (next)` loop of `clear`) -/
def step (fuel : Nat) (l : SList) : Op → SList
  | .push n => l.pushBack n
  | .remove n => l.remove n
  | .clear => l.clear fuel

/-- what the C++ requires of its caller: a pushed node is not in the list, a removed one is -/
def Valid (fuel : Nat) (xs : List Nat) : Op → Prop
  | .push n => n ∉ xs
  | .remove n => n ∈ xs
  | .clear => xs.length ≤ fuel

def ValidSeq (fuel : Nat) : List Nat → List Op → Prop
  | _, [] => True
  | xs, op :: rest => Valid fuel xs op ∧ ValidSeq fuel (absStep xs op) rest

theorem step_refines (fuel : Nat) {l : SList} {xs : List Nat} (h : Repr l xs) (op : Op)
    (hv : Valid fuel xs op) : Repr (step fuel l op) (absStep xs op) := by
  cases op with
  | push n => exact push_refines h n hv
  | remove n => exact remove_refines h n hv
  | clear => exact clear_refines h fuel hv

/-- **C18**: after any valid sequence of registrations, unregistrations and clears the catalog
    represents exactly the abstract list obtained by replaying them: it enumerates the live items,
    each once, in registration order (see `toList_eq`, `size_eq`, `empty_iff`) -/
theorem C18_histories (fuel : Nat) : ∀ (ops : List Op) (l : SList) (xs : List Nat), Repr l xs →
    ValidSeq fuel xs ops → Repr (ops.foldl (step fuel) l) (ops.foldl absStep xs)
  | [], _, _, h, _ => h
  | op :: rest, _, _, h, hv =>
    C18_histories fuel rest _ _ (step_refines fuel h op hv.1) hv.2

/-- in particular from the zero-initialised catalog -/
theorem C18_from_empty (fuel : Nat) (ops : List Op) (hv : ValidSeq fuel [] ops) :
    Repr (ops.foldl (step fuel) {}) (ops.foldl absStep []) :=
  C18_histories fuel ops {} [] repr_empty hv

/-- an unregistered item can be registered again: removal (or clear) leaves it unlinked, which is the
    precondition of `push_back` -/
theorem reregister {l : SList} {xs : List Nat} (h : Repr l xs) (n : Nat) (hn : n ∈ xs) :
    Repr ((l.remove n).pushBack n) (xs.erase n ++ [n]) :=
  push_refines (remove_refines h n hn) n (fun hc => by
    have := (List.Nodup.mem_erase_iff h.nodup).mp hc
    exact this.1 rfl)

/-- the hypotheses are satisfiable by a non-trivial history: push 1 2 3, remove the middle one,
    push it again, remove the first, clear, push 2 -/
example : ValidSeq 10 [] [.push 1, .push 2, .push 3, .remove 2, .push 2, .remove 1, .clear, .push 2] := by
  simp [ValidSeq, Valid, absStep]

example : ([Op.push 1, .push 2, .push 3, .remove 2, .push 2, .remove 1].foldl absStep []) = [3, 2] := by
  decide

end Yomm2.Props.C18
