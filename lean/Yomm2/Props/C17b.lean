import Yomm2.Proofs.Report
import Yomm2.Proofs.ReportConcrete
/-!
# C17 (continued) — the flags of the report in terms of the specification
-/
namespace Yomm2.Props.C17
open Yomm2 Yomm2.Spec

/-- **C17**: `not_implemented` is flagged iff some tuple of registered classes acceptable to the method
    has no applicable definition — for every registry without inheritance cycles, every presentation
    and every assignment of abstract flags -/
theorem C17_not_implemented (c : Bridge.Ctx) (m : MethodC) (mr : MethodRec) (hm : Bridge.MethodMatches c m mr) :
    (dispatchMethod c.g m).report.notImplemented ≠ 0 ↔
      ∃ cs ks, Forall₂ (fun cl v => cl ∈ c.g.cov.get v) cs m.vp ∧ Forall₂ (fun i k => c.key i = some k) cs ks ∧
        Selects c.proj c.reg mr.defs ks .notImplemented :=
  Report.not_implemented_iff c m mr hm

/-- **C17**: `ambiguous` is flagged iff some tuple has applicable definitions but no most specific one -/
theorem C17_ambiguous (c : Bridge.Ctx) (m : MethodC) (mr : MethodRec) (hm : Bridge.MethodMatches c m mr) :
    (dispatchMethod c.g m).report.ambiguous ≠ 0 ↔
      ∃ cs ks, Forall₂ (fun cl v => cl ∈ c.g.cov.get v) cs m.vp ∧ Forall₂ (fun i k => c.key i = some k) cs ks ∧
        Selects c.proj c.reg mr.defs ks .ambiguous :=
  Report.ambiguous_iff c m mr hm

/-- every cell of a table is the cell of some tuple of acceptable classes: no cell, hence no flag, comes
    from nowhere -/
theorem every_cell_has_a_tuple (g : Graph) (m : MethodC) (k : Nat) (hk : k < (dispatchMethod g m).table.length) :
    ∃ cs gis, Cells.LocatedAll g m 0 m.vp cs gis ∧ Forall₂ (fun c v => c ∈ g.cov.get v) cs m.vp ∧
      TableProofs.offset (dispatchMethod g m).groups.reverse gis.reverse = k :=
  Report.cell_has_tuple g m k hk

/-- **C17, concrete-only**: `concrete_not_implemented` is flagged iff some tuple of *non-abstract*
    registered classes acceptable to the method has no applicable definition -/
theorem C17_concrete_not_implemented (c : Bridge.Ctx) (m : MethodC) (mr : MethodRec) (hm : Bridge.MethodMatches c m mr) :
    (dispatchMethod c.g m).report.concreteNotImplemented ≠ 0 ↔
      ∃ cs ks, Forall₂ (fun cl v => cl ∈ c.g.cov.get v) cs m.vp ∧ (∀ cl ∈ cs, c.g.abstract cl = false) ∧
        Forall₂ (fun i k => c.key i = some k) cs ks ∧ Selects c.proj c.reg mr.defs ks .notImplemented := by
  rw [(Report.concrete_flag_iff_cell c.g m).1]
  exact Report.concrete_cell_iff c m mr hm .ni (Or.inl rfl)

/-- **C17, concrete-only**: `concrete_ambiguous` is flagged iff some tuple of non-abstract classes has
    applicable definitions but no most specific one -/
theorem C17_concrete_ambiguous (c : Bridge.Ctx) (m : MethodC) (mr : MethodRec) (hm : Bridge.MethodMatches c m mr) :
    (dispatchMethod c.g m).report.concreteAmbiguous ≠ 0 ↔
      ∃ cs ks, Forall₂ (fun cl v => cl ∈ c.g.cov.get v) cs m.vp ∧ (∀ cl ∈ cs, c.g.abstract cl = false) ∧
        Forall₂ (fun i k => c.key i = some k) cs ks ∧ Selects c.proj c.reg mr.defs ks .ambiguous := by
  rw [(Report.concrete_flag_iff_cell c.g m).2]
  exact Report.concrete_cell_iff c m mr hm .amb (Or.inr rfl)

end Yomm2.Props.C17
