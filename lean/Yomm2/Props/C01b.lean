import Yomm2.Props.C01
import Yomm2.Proofs.CompileSlots
import Yomm2.Proofs.Resolve
import Yomm2.Proofs.Report
/-!
# C01 — from `update` to the call, end to end
-/
namespace Yomm2.Props.C01
open Yomm2 Yomm2.Spec

/-- the `q`-th component of a located tuple -/
theorem locatedAll_get (g : Graph) (m : MethodC) : ∀ (d : Nat) (vs cs gis : List Nat), Cells.LocatedAll g m d vs cs gis →
    ∀ q v cl gi, vs[q]? = some v → cs[q]? = some cl → gis[q]? = some gi → Cells.Located g m (d + q) v cl gi := by
  intro d vs cs gis h
  induction h with
  | nil d => intro q v cl gi hv; simp at hv
  | @cons d v0 c0 gi0 vs cs gis hl _ ih =>
    intro q v cl gi hv hc hg
    cases q with
    | zero => simp at hv hc hg; subst hv hc hg; exact hl
    | succ q =>
      simp only [List.getElem?_cons_succ] at hv hc hg
      have := ih q v cl gi hv hc hg
      rw [show d + (q + 1) = d + 1 + q by omega]
      exact this

/-- **C01, from `update` to the call**: for every registry without inheritance cycles that `update`
    accepts, every method of it, and every call whose virtual arguments carry the v-table pointers
    `update` published for their dynamic classes `cs` (each acceptable for its parameter): the walk of
    `method::resolve` over the installed dispatch data returns the function word of the cell the
    specification prescribes for the classes' keys — the definition more specific than every other
    applicable one, or the prescribed error. Composition of stage 1 (`cov_iff_derives`), the dispatch
    table (`dispatch_table_correct`), slot allocation (`compile_slots_exclusive`), v-table content
    (`vtbl_entry`), flattening (`install_spec`) and the walk (`resolve_correct`). What remains outside:
    how a v-table pointer is obtained from an object (policies; C05 for the hashed ones). -/
theorem C01_update_then_call (c : Bridge.Ctx) (cp : Compiled) (inst : Installed)
    (hcomp : compile c.proj c.reg = .ok cp) (hinst : install cp = .ok inst)
    (mi : Nat) (m : MethodC) (hm : cp.methods[mi]? = some m)
    (args : List (Kind × Int)) (cs ks : List Nat)
    (hk : Forall₂ (fun i k => c.key i = some k) cs ks)
    (hacc : Forall₂ (fun cl v => cl ∈ c.g.cov.get v) cs m.vp)
    (hptr : ∀ (p : Nat) (v : Int), (Walk.virtPtrs args)[p]? = some v → ∃ ci : Nat, cs[p]? = some ci ∧ v = inst.vptr.get ci)
    (hlen : (Walk.virtPtrs args).length = m.vp.length) (hpos : 0 < m.vp.length) :
    ∃ mr cell, c.reg.methods[mi]? = some mr ∧ Bridge.MethodMatches c m mr ∧
      resolve inst mi args = .ok (Word.fn mi cell) ∧
      Selects c.proj c.reg mr.defs ks (Bridge.outcomeOf mr.defs cell) ∧
      (∀ i, cell = .defn i → ∃ df, mr.defs[i]? = some df) := by
  obtain ⟨hg, hms, _, houts, _⟩ := VtblContent.compile_fields c.proj c.reg cp hcomp
  have hgraph : cp.graph = c.g := by
    have := c.hg; rw [hg] at this; injection this
  obtain ⟨_, _, hheads, _⟩ := GraphProofs.buildGraph_fields c.proj c.reg.classes cp.graph hg
  rw [hheads] at hms
  have hall := Resolve.resolveMethods_matches c c.reg.methods cp.methods hms
  have hmlt : mi < c.reg.methods.length := by
    rw [← forall₂_length hall]; exact (List.getElem?_eq_some_iff.mp hm).1
  have hmr : c.reg.methods[mi]? = some c.reg.methods[mi] := List.getElem?_eq_getElem hmlt
  have hmm := (forall₂_get hall mi m _ hm hmr).1
  have ho : cp.outs[mi]? = some (dispatchMethod cp.graph m) := by rw [houts, List.getElem?_map, hm]; rfl
  obtain ⟨gis, hloc⟩ := Report.locate c m 0 m.vp cs hacc
  obtain ⟨hcl, hgl⟩ := Cells.locatedAll_length c.g m 0 m.vp cs gis hloc
  obtain ⟨cell, hres, hsel, hdef⟩ := C01_walk_correct c cp inst hinst hgraph mi m c.reg.methods[mi] hmm hm ho args cs ks gis hk hloc hlen hpos
    (by
      intro p v gi hv hgi
      obtain ⟨ci, hci, hvp⟩ := hptr p v hv
      have hplt : p < m.vp.length := by rw [← hgl]; exact (List.getElem?_eq_some_iff.mp hgi).1
      have hvpp : m.vp[p]? = some m.vp[p] := List.getElem?_eq_getElem hplt
      have hl := locatedAll_get c.g m 0 m.vp cs gis hloc p _ ci gi hvpp hci hgi
      rw [Nat.zero_add, ← hgraph] at hl
      obtain ⟨row, h1, h2, h3⟩ := CompileSlots.vtbl_entry c.proj c.reg cp hcomp c.hwf mi m hm p _ ci gi hvpp hl
      exact ⟨⟨ci, row, hvp, h1, h2, h3⟩⟩)
  exact ⟨_, cell, hmr, hmm, hres, hsel, hdef⟩

end Yomm2.Props.C01
