import Yomm2.Model.Templates
import Yomm2.Generated.Constants
/-!
# C20 — `use_definitions` registers exactly the defined combinations
-/
namespace Yomm2.Props.C20
open Yomm2

/-- splitting never loses, duplicates or reorders an element, whatever the threshold and the size -/
theorem aggregate_flatten {α} (threshold : Nat) : ∀ (fuel : Nat) (xs : List α),
    (aggregate threshold fuel xs).flatten = xs
  | 0, xs => rfl
  | f + 1, xs => by
    unfold aggregate
    split
    · rfl
    · simp only [Agg.flatten, aggregate_flatten threshold f, List.take_append_drop]

/-- membership in the product: one element of each list, position by position -/
theorem mem_product {α} : ∀ (ls : List (List α)) (t : List α),
    t ∈ product ls ↔ t.length = ls.length ∧ ∀ (i : Nat) (x : α) (l : List α), t[i]? = some x → ls[i]? = some l → x ∈ l
  | [], t => by
    simp only [product, List.mem_singleton, List.length_nil]
    constructor
    · intro h; subst h; simp
    · intro h; exact List.length_eq_zero_iff.mp h.1
  | l :: ls, t => by
    simp only [product, List.mem_flatMap, List.mem_map]
    constructor
    · rintro ⟨x, hx, t', ht', rfl⟩
      obtain ⟨h1, h2⟩ := (mem_product ls t').mp ht'
      refine ⟨by simp [h1], ?_⟩
      intro i y l' hy hl'
      cases i with
      | zero => simp at hy hl'; subst hy; subst hl'; exact hx
      | succ i => simp at hy hl'; exact h2 i y l' hy hl'
    · rintro ⟨h1, h2⟩
      cases t with
      | nil => simp at h1
      | cons x t' =>
        refine ⟨x, h2 0 x l (by simp) (by simp), t', ?_, rfl⟩
        apply (mem_product ls t').mpr
        refine ⟨by simpa using h1, ?_⟩
        intro i y l' hy hl'
        exact h2 (i + 1) y l' (by simpa using hy) (by simpa using hl')

theorem length_product {α} : ∀ (ls : List (List α)), (product ls).length = (ls.map List.length).foldr (· * ·) 1
  | [] => rfl
  | l :: ls => by
    simp only [product, List.length_flatMap, List.length_map, List.map_cons, List.foldr_cons]
    rw [← length_product ls]
    induction l with
    | nil => simp
    | cons a as ih => simp [List.map_cons, List.sum_cons, ih, Nat.succ_mul, Nat.add_comm]

/-- **C20**: the definitions registered are exactly the combinations of the product that are defined,
    each once, in product order — for products of any size and any split threshold -/
theorem C20_registered {α} (defined : List α → Bool) (threshold : Nat) (lists : List (List α)) :
    (useDefinitions defined threshold (product lists)).flatten = (product lists).filter defined := by
  unfold useDefinitions
  exact aggregate_flatten threshold _ _

/-- none is registered for a combination marked `not_defined` -/
theorem C20_not_defined {α} (defined : List α → Bool) (threshold : Nat) (lists : List (List α)) (t : List α)
    (h : defined t = false) : t ∉ (useDefinitions defined threshold (product lists)).flatten := by
  rw [C20_registered]
  intro hm
  have := (List.mem_filter.mp hm).2
  rw [h] at this; cases this

/-- every tuple of the tree has at most `threshold` elements -/
def LeavesLe {α} (k : Nat) : Agg α → Prop
  | .leaf xs => xs.length ≤ k
  | .node l r => LeavesLe k l ∧ LeavesLe k r

/-- the split keeps every tuple under the limit (the reason for the split: compilers limit the number
    of base classes); this is also the termination argument of the template recursion -/
theorem leaves_bounded {α} (threshold : Nat) (ht : 0 < threshold) : ∀ (fuel : Nat) (xs : List α),
    xs.length ≤ threshold + fuel → LeavesLe threshold (aggregate threshold fuel xs)
  | 0, xs, h => by simpa [aggregate, LeavesLe] using h
  | f + 1, xs, h => by
    unfold aggregate
    split
    · rename_i hle; exact hle
    · rename_i hgt
      have h2 : 2 ≤ xs.length := by omega
      have hhalf : 1 ≤ xs.length / 2 := by omega
      constructor
      · apply leaves_bounded threshold ht f
        simp only [List.length_take]; omega
      · apply leaves_bounded threshold ht f
        simp only [List.length_drop]; omega

example : product [[1, 2], [10, 20, 30]] = [[1, 10], [1, 20], [1, 30], [2, 10], [2, 20], [2, 30]] := by decide
example : (useDefinitions (fun t => t != [2, 20]) 2 (product [[1, 2], [10, 20, 30]])).flatten =
    [[1, 10], [1, 20], [1, 30], [2, 10], [2, 30]] := by decide
example : 0 < Generated.aggregateThreshold := by decide

end Yomm2.Props.C20
