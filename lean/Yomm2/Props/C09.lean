import Yomm2.Model.World
/-!
# C09 — `virtual_ptr` dispatches like its pointee, however it was created
-/
namespace Yomm2.Props.C09
open Yomm2

/-- a `virtual_ptr` built from a reference (direct v-table pointers, dynamic type ≠ static type) and
    used before the next update yields the v-table pointer a plain reference yields -/
theorem deref_new_direct (s : PState) (inst : Installed) (id : Nat) (v : VPtr)
    (hind : s.cfg.indirect = false) (hmap : s.cfg.vptrMap = false) (hst : (id == s.staticId && s.staticId != 0) = false)
    (h : s.mkVPtr id = .ok v) :
    s.derefVPtr inst v = (lookupVptr s.cfg s.pub id).bind (slotVptr inst) := by
  unfold PState.mkVPtr at h
  simp only [hst, Bool.false_eq_true, if_false] at h
  unfold lookupForVptr at h
  simp only [hmap, Bool.false_eq_true, if_false] at h
  cases hl : lookupVptr s.cfg s.pub id with
  | error e => rw [hl] at h; cases h
  | ok sl =>
    rw [hl] at h
    simp only [hind, Bool.false_eq_true, if_false] at h
    cases h
    simp [PState.derefVPtr, Except.bind]

/-- copying or moving a `virtual_ptr` copies both fields: the copy dereferences like the original, in
    every state -/
theorem copy_same (s : PState) (inst : Installed) (v : VPtr) :
    s.derefVPtr inst { obj := v.obj, ref := v.ref } = s.derefVPtr inst v := rfl

/-- with indirect v-table pointers the `virtual_ptr` holds the address of the class's static cell: what
    it yields at call time is the cell's content *in the state of the call* — so a pointer made
    before a later update stays valid as long as its class is registered -/
theorem indirect_survives_update (s s' : PState) (inst' : Installed) (id : Nat) (v : VPtr)
    (hind : s.cfg.indirect = true) (hst : (id == s.staticId && s.staticId != 0) = false)
    (h : s.mkVPtr id = .ok v) :
    s'.derefVPtr inst' v = slotVptr inst' (s'.cellSlot (s.cfg.proj id)) := by
  unfold PState.mkVPtr at h
  simp only [hst, Bool.false_eq_true, if_false] at h
  cases hl : lookupForVptr s.cfg s.pub id with
  | error e => rw [hl] at h; cases h
  | ok sl =>
    rw [hl] at h
    simp only [hind, if_true] at h
    cases sl with
    | cur c => simp at h; subst h; rfl
    | null => simp at h
    | stale => simp at h

/-- with direct v-table pointers the `virtual_ptr` is valid until the next update only -/
theorem direct_until_update (s' : PState) (inst' : Installed) (sl : VSlot) (e obj : Nat) (he : e ≠ s'.epoch) :
    ∃ w, s'.derefVPtr inst' { obj := obj, ref := .direct sl e } = .error (.fault w) := by
  refine ⟨"virtual_ptr used after a later update (direct v-table pointer)", ?_⟩
  unfold PState.derefVPtr
  simp [he]

end Yomm2.Props.C09
