import Yomm2.Proofs.Lattice
import Yomm2.Proofs.Graph
import Yomm2.Model.World
/-!
# C04 — dispatch only reads table cells that update wrote for that class and parameter
-/
namespace Yomm2.Props.C04
open Yomm2

/-- every word a call reads lies inside the words written by the update it runs against: a read
    that succeeds is in range, and nothing else succeeds (`Fault` otherwise) -/
theorem read_in_bounds (inst : Installed) (i : Int) (w : Word) (h : readWord inst i = .ok w) :
    0 ≤ i ∧ i.toNat < inst.data.size ∧ inst.data[i.toNat]? = some w := by
  unfold readWord at h
  split at h
  · cases h
  · rename_i hneg
    split at h
    · rename_i w' hw
      cases h
      refine ⟨Int.not_lt.mp hneg, ?_, hw⟩
      exact (Array.getElem?_eq_some_iff.mp hw).1
    · cases h

/-- a call jumps only through a word that `install` tagged as a function of the *same* method: a
    group index or a table pointer is never used as a function pointer -/
theorem call_runs_only_functions (s : PState) (key : Nat) (args : List (Kind × Nat)) (r : Route)
    (pre : List (Nat × VPtr)) (d : Nat) (h : s.callWith key args r pre = .ran d) :
    ∃ c inst m mi, s.compiled = some c ∧ s.inst = some inst ∧
      (List.zipIdx c.methods).find? (fun e => e.1.key == key) = some (m, mi) ∧
      ∃ i : Nat, (m.specs[i]?).map (fun sp => sp.1) = some d := by
  unfold PState.callWith at h
  split at h
  · rename_i c inst hc hi
    split at h
    · cases h
    · rename_i m mi hfind
      refine ⟨c, inst, m, mi, hc, hi, hfind, ?_⟩
      simp only at h
      split at h
      · cases h
      · split at h
        · cases h
        · cases h
        · rename_i m' cell _
          split at h
          · cases h
          · split at h
            · rename_i i _
              split at h
              · rename_i sp hsp
                cases h
                exact ⟨i, by rw [hsp]; rfl⟩
              · cases h
            · cases h
        · cases h
  · cases h

/-- **no two parameters applicable to one class share a v-table cell** (lattice allocation, any
    order of allocation, transitively complete base lists): see `Lattice.allocAll_disjoint` -/
theorem lattice_slots_disjoint (tb cov : Nat → List Nat) (hc : Lattice.Complete tb cov)
    (todo : List ((Nat × Nat) × Nat)) :
    (Lattice.allocAll tb cov (Tab.const []) (Tab.const []) todo []).2.Pairwise
      (fun e e' => ∀ x, x ∈ cov e.2.1 → x ∈ cov e'.2.1 → e.2.2 ≠ e'.2.2) :=
  Lattice.allocAll_disjoint tb cov hc _ _ todo [] (by simp) List.Pairwise.nil

/-- the graph `augment_classes` builds satisfies the allocator's requirement for EVERY presentation of
    the base lists (complete, direct-only, redundant, split): this is what the repair of D4 provides -/
theorem graph_complete (proj : Nat → Nat) (recs : List ClassRec) (g : Graph) (hg : buildGraph proj recs = .ok g) :
    Lattice.Complete g.tb.get g.cov.get :=
  ⟨fun c d h hne => GraphProofs.tb_complete proj recs g hg c d h hne⟩

/-- hence, on the graph of any registry, lattice allocation in any order keeps the cells of parameters
    that share a descendant apart -/
theorem lattice_slots_disjoint_graph (proj : Nat → Nat) (recs : List ClassRec) (g : Graph)
    (hg : buildGraph proj recs = .ok g) (todo : List ((Nat × Nat) × Nat)) :
    (Lattice.allocAll g.tb.get g.cov.get (Tab.const []) (Tab.const []) todo []).2.Pairwise
      (fun e e' => ∀ x, x ∈ g.cov.get e.2.1 → x ∈ g.cov.get e'.2.1 → e.2.2 ≠ e'.2.2) :=
  lattice_slots_disjoint g.tb.get g.cov.get (graph_complete proj recs g hg) todo

/-- non-vacuity: a diamond (0; 1,2 : 0; 3 : 1,2) with parameters rooted at 1, 2 and 0 -/
example :
    ((Lattice.allocAll (fun c => [[], [0], [0], [1, 2, 0]].getD c []) (fun c => [[0, 1, 2, 3], [1, 3], [2, 3], [3]].getD c [])
      (Tab.const []) (Tab.const []) [((0, 0), 1), ((1, 0), 2), ((2, 0), 0)] []).2.map (fun e => e.2.2)) = [2, 1, 0] := by
  decide

end Yomm2.Props.C04
