import Yomm2.Model.Multi
/-!
# C14 — policies are isolated from one another
-/
namespace Yomm2.Props.C14
open Yomm2

/-- **frame**: an operation on policy `k` leaves the whole state of every other policy unchanged:
    its catalogs, installed tables, hash parameters, `vptrs`, hence every call, every `virtual_ptr`
    and the error handler -/
theorem frame (w : World) (k k' : String) (op : POp) (h : k' ≠ k) :
    (w.apply k op).get k' = w.get k' := by
  unfold World.apply World.get
  simp only
  induction w.pols with
  | nil => rfl
  | cons e es ih =>
    simp only [List.map_cons, List.find?_cons]
    by_cases hek : e.1 = k
    · have hne : (e.1 == k') = false := by
        simp only [beq_eq_false_iff_ne, ne_eq]; rw [hek]; exact fun e' => h e'.symm
      have hkk : (e.1 == k) = true := by simp [hek]
      simp only [hkk, if_true, hne]
      exact ih
    · have hkk : (e.1 == k) = false := by simp [hek]
      simp only [hkk, Bool.false_eq_true, if_false]
      cases hk' : (e.1 == k')
      · simp only; exact ih
      · simp

/-- so any interleaving of operations on other policies is invisible to `k'` -/
theorem frame_seq (w : World) (k' : String) (ops : List (String × POp)) (h : ∀ o ∈ ops, o.1 ≠ k') :
    (ops.foldl (fun w o => w.apply o.1 o.2) w).get k' = w.get k' := by
  induction ops generalizing w with
  | nil => rfl
  | cons o os ih =>
    simp only [List.foldl_cons]
    rw [ih _ (fun o' ho' => h o' (by simp [ho'])), frame w o.1 k' o.2 (fun e => h o (by simp) e.symm)]

/-- in particular calls of `k'` are unchanged -/
theorem calls_unchanged (w : World) (k k' : String) (op : POp) (h : k' ≠ k) (key : Nat)
    (args : List (Kind × Nat)) :
    ((w.apply k op).get k').map (fun s => s.call key args) = (w.get k').map (fun s => s.call key args) := by
  rw [frame w k k' op h]

example : (World.apply ⟨[("a", { cfg := {} }), ("b", { cfg := {} })]⟩ "a" (.setBudget 3)).get "b" =
    (World.get ⟨[("a", { cfg := {} }), ("b", { cfg := {} })]⟩ "b") := frame _ _ _ _ (by decide)

end Yomm2.Props.C14
