import Yomm2.Props.C03b
/-!
# C03 (continued) — following `next` again and again

Inside a definition `next(...)` calls the definition `next` refers to, which may call its own `next`, and so
on. For the `next` cells every update installs: each hop goes to a *strictly more general* definition
(`Spec.MoreGeneral`), that relation is transitive and irreflexive for registries without inheritance cycles, so
a chain never visits a definition twice, is at most as long as the method has definitions, and ends in one of the
two error handlers — whatever the registry.
-/
namespace Yomm2.Props.C03
open Yomm2 Yomm2.Spec

theorem forall₂_trans {α} {R : α → α → Prop} (htr : ∀ a b c, R a b → R b c → R a c) :
    ∀ {l₁ l₂ l₃ : List α}, Forall₂ R l₁ l₂ → Forall₂ R l₂ l₃ → Forall₂ R l₁ l₃
  | _, _, _, .nil, .nil => .nil
  | _, _, _, .cons h1 t1, .cons h2 t2 => .cons (htr _ _ _ h1 h2) (forall₂_trans htr t1 t2)

theorem forall₂_antisymm_map {proj : Nat → Nat} {reg : Registry} (hac : Acyclic proj reg) :
    ∀ {l₁ l₂ : List Nat}, Forall₂ (fun a b => Derives proj reg (proj a) (proj b)) l₁ l₂ →
      Forall₂ (fun a b => Derives proj reg (proj a) (proj b)) l₂ l₁ → l₁.map proj = l₂.map proj
  | _, _, .nil, _ => rfl
  | _, _, .cons h1 t1, .cons h2 t2 => by
    simp only [List.map_cons]
    rw [hac _ _ h1 h2, forall₂_antisymm_map hac t1 t2]

/-- "strictly more general" is irreflexive … -/
theorem moreGeneral_irrefl (proj : Nat → Nat) (reg : Registry) (d : DefRec) : ¬ MoreGeneral proj reg d d :=
  fun h => h.2 rfl

/-- … and transitive, when inheritance has no cycles -/
theorem moreGeneral_trans {proj : Nat → Nat} {reg : Registry} (hac : Acyclic proj reg) {d e f : DefRec}
    (h1 : MoreGeneral proj reg e d) (h2 : MoreGeneral proj reg f e) : MoreGeneral proj reg f d := by
  refine ⟨forall₂_trans (R := fun a b => Derives proj reg (proj a) (proj b)) (fun a b c x y => Derives.trans x y) h1.1 h2.1, ?_⟩
  intro heq
  -- then `d ⊑ e ⊑ f = d` position-wise, so `e = d`
  apply h1.2
  have hfe : Forall₂ (fun a b => Derives proj reg (proj a) (proj b)) e.vp d.vp := by
    -- from e ⊑ f and f.vp.map proj = d.vp.map proj
    have hlen : e.vp.length = d.vp.length := (forall₂_length h1.1).symm
    apply forall₂_of_get hlen
    intro i a b ha hb
    have hlf : e.vp.length = f.vp.length := forall₂_length h2.1
    obtain ⟨c, hc⟩ : ∃ c, f.vp[i]? = some c := by
      have : i < f.vp.length := by
        have := (List.getElem?_eq_some_iff.mp ha).1; omega
      exact ⟨_, List.getElem?_eq_getElem this⟩
    have hec := forall₂_get h2.1 i a c ha hc
    have : proj c = proj b := by
      have h := congrArg (fun l => l[i]?) heq
      simp only [List.getElem?_map, hc, hb, Option.map_some] at h
      exact Option.some.inj h
    rw [← this]; exact hec
  exact (forall₂_antisymm_map hac h1.1 hfe).symm

/-- the definitions visited by following `next` from definition `i`, and whether the walk ended at an
    error handler (`true`) or ran out of fuel (`false`) -/
def chain (nexts : List Cell) : Nat → Nat → List Nat × Bool
  | 0, _ => ([], false)
  | fuel + 1, i =>
    match nexts[i]? with
    | some (.defn j) => (i :: (chain nexts fuel j).1, (chain nexts fuel j).2)
    | _ => ([i], true)

theorem chain_length (nexts : List Cell) : ∀ fuel i, (chain nexts fuel i).1.length ≤ fuel ∧
    ((chain nexts fuel i).2 = false → (chain nexts fuel i).1.length = fuel)
  | 0, _ => by simp [chain]
  | fuel + 1, i => by
    unfold chain
    split
    · have := chain_length nexts fuel ‹Nat›
      simp only [List.length_cons]
      exact ⟨by omega, fun h => by have := this.2 h; omega⟩
    · simp

theorem chain_head (nexts : List Cell) (fuel i : Nat) :
    (chain nexts (fuel + 1) i).1 = i :: ((chain nexts (fuel + 1) i).1).drop 1 := by
  unfold chain; split <;> simp

/-- a list of distinct numbers below `n` has at most `n` elements -/
theorem nodup_bounded : ∀ (n : Nat) (l : List Nat), l.Nodup → (∀ x ∈ l, x < n) → l.length ≤ n
  | 0, l, _, hb => by
    cases l with
    | nil => simp
    | cons a _ => exact absurd (hb a (by simp)) (Nat.not_lt_zero _)
  | n + 1, l, hnd, hb => by
    by_cases hn : n ∈ l
    · have h1 := nodup_bounded n (l.erase n) (hnd.erase n) (by
        intro x hx
        have := (List.Nodup.mem_erase_iff hnd).mp hx
        have := hb x this.2
        have := this
        omega)
      rw [List.length_erase_of_mem hn] at h1
      omega
    · have h1 := nodup_bounded n l hnd (by
        intro x hx
        have := hb x hx
        have : x ≠ n := fun e => hn (e ▸ hx)
        omega)
      omega

section
variable (c : Bridge.Ctx) (m : MethodC) (mr : MethodRec) (hm : Bridge.MethodMatches c m mr)
include hm

/-- one hop: `next` of definition `i` is a definition `j` only if `j` is strictly more general than `i` -/
theorem next_hop_more_general (i j : Nat) (d : DefRec) (hd : mr.defs[i]? = some d)
    (hn : (dispatchMethod c.g m).nexts[i]? = some (.defn j)) :
    ∃ e, mr.defs[j]? = some e ∧ MoreGeneral c.proj c.reg e d := by
  obtain ⟨cell, cands, h1, h2, h3⟩ := next_refers_to_most_specific_more_general c m mr hm i d hd
  rw [hn] at h1
  have hc : cell = .defn j := (Option.some.inj h1).symm
  subst hc
  rcases h3 with ⟨h, _⟩ | ⟨d', hd', hdom⟩ | ⟨h, _⟩
  · cases h
  · cases hd'
    exact (h2 j).mp hdom.1
  · cases h

/-- every definition on the walk is strictly more general than the one the walk started from (and is one
    of the method's definitions) -/
theorem chain_more_general (hac : Acyclic c.proj c.reg) : ∀ (fuel i : Nat) (d : DefRec), mr.defs[i]? = some d →
    ∀ k ∈ ((chain (dispatchMethod c.g m).nexts fuel i).1).drop 1,
      ∃ e, mr.defs[k]? = some e ∧ MoreGeneral c.proj c.reg e d
  | 0, _, _, _ => by simp [chain]
  | fuel + 1, i, d, hd => by
    intro k hk
    unfold chain at hk
    split at hk
    · rename_i j hn
      simp only [List.drop_succ_cons, List.drop_zero] at hk
      obtain ⟨e, he, hge⟩ := next_hop_more_general c m mr hm i j d hd hn
      -- `k` is `j` itself or further along the walk from `j`
      cases fuel with
      | zero => simp [chain] at hk
      | succ f =>
        rw [chain_head] at hk
        rcases List.mem_cons.mp hk with rfl | hk'
        · exact ⟨e, he, hge⟩
        · obtain ⟨e', he', hge'⟩ := chain_more_general hac (f + 1) j e he k hk'
          exact ⟨e', he', moreGeneral_trans hac hge hge'⟩
    · simp at hk

/-- the walk never visits a definition twice -/
theorem chain_nodup (hac : Acyclic c.proj c.reg) : ∀ (fuel i : Nat) (d : DefRec), mr.defs[i]? = some d →
    ((chain (dispatchMethod c.g m).nexts fuel i).1).Nodup
  | 0, _, _, _ => by simp [chain]
  | fuel + 1, i, d, hd => by
    have hmg := chain_more_general c m mr hm hac (fuel + 1) i d hd
    unfold chain at hmg ⊢
    split
    · rename_i j hn
      simp only [hn, List.drop_succ_cons, List.drop_zero] at hmg
      obtain ⟨e, he, _⟩ := next_hop_more_general c m mr hm i j d hd hn
      refine List.nodup_cons.mpr ⟨?_, chain_nodup hac fuel j e he⟩
      intro hi
      obtain ⟨e', he', hge'⟩ := hmg i hi
      rw [hd] at he'
      cases he'
      exact moreGeneral_irrefl _ _ _ hge'
    · simp

/-- **C03, chains**: following `next` from any definition of any method, after any update, visits each
    definition at most once, only definitions strictly more general than the starting one, at most as many
    as the method has, and ends at an error handler (with fuel for one more hop than there are definitions
    the walk never runs out) -/
theorem C03_next_chain_ends (hac : Acyclic c.proj c.reg) (i : Nat) (d : DefRec) (hd : mr.defs[i]? = some d) :
    (chain (dispatchMethod c.g m).nexts (mr.defs.length + 1) i).1.Nodup ∧
    (chain (dispatchMethod c.g m).nexts (mr.defs.length + 1) i).1.length ≤ mr.defs.length ∧
    (chain (dispatchMethod c.g m).nexts (mr.defs.length + 1) i).2 = true ∧
    ∀ k ∈ (chain (dispatchMethod c.g m).nexts (mr.defs.length + 1) i).1.drop 1,
      ∃ e, mr.defs[k]? = some e ∧ MoreGeneral c.proj c.reg e d := by
  have hnd := chain_nodup c m mr hm hac (mr.defs.length + 1) i d hd
  have hmg := chain_more_general c m mr hm hac (mr.defs.length + 1) i d hd
  have hbound : ∀ x ∈ (chain (dispatchMethod c.g m).nexts (mr.defs.length + 1) i).1, x < mr.defs.length := by
    intro x hx
    have hi : i < mr.defs.length := (List.getElem?_eq_some_iff.mp hd).1
    rw [chain_head] at hx
    rcases List.mem_cons.mp hx with rfl | hx'
    · exact hi
    · obtain ⟨e, he, _⟩ := hmg x hx'
      exact (List.getElem?_eq_some_iff.mp he).1
  have hlen := nodup_bounded mr.defs.length _ hnd hbound
  refine ⟨hnd, hlen, ?_, hmg⟩
  cases hw2 : (chain (dispatchMethod c.g m).nexts (mr.defs.length + 1) i).2 with
  | true => rfl
  | false =>
    have := (chain_length (dispatchMethod c.g m).nexts (mr.defs.length + 1) i).2 hw2
    omega

end

end Yomm2.Props.C03
