import Yomm2.Props.C09
import Yomm2.Props.C01c
/-!
# C09 — a call through `virtual_ptr`s does what the same call through references does
-/
namespace Yomm2.Props.C09
open Yomm2 Yomm2.Spec Yomm2.Heads Yomm2.GraphProofs Yomm2.Props.C01

/-- **whatever way the v-table pointers were obtained** — looked up from a reference, carried by a
    `virtual_ptr` made earlier, copied, moved, made with `final`, read through the class's static cell
    by an indirect pointer — if every virtual argument arrives with the v-table pointer the latest update
    published for its dynamic class, the call does what the specification prescribes for those classes:
    exactly what the same call with plain references does (`C01_C02_call_after_update`). -/
theorem C09_call_given_vptrs (s s' : PState) (mults rest : List UInt64)
    (hup : s.update mults = (s', .ok, rest))
    (hwf : WF s.cfg.proj s.registry.classes s.registry.methods)
    (c : Compiled) (hc : s'.compiled = some c) (inst : Installed) (hi : s'.inst = some inst)
    (key mi : Nat) (m : MethodC) (hfind : (List.zipIdx c.methods).find? (fun e => e.1.key == key) = some (m, mi))
    (args : List (Kind × Nat)) (cs : List Nat) (route : Route) (pre : List (Nat × VPtr))
    (vargs : List (Kind × Int))
    (hvargs : (List.zipIdx args).mapM (s'.argLookup inst route pre) = .ok vargs)
    (hptrs : Walk.virtPtrs vargs = cs.map inst.vptr.get)
    (hreg : Forall₂ (fun (id ci : Nat) => id ∈ c.graph.ids ci) (virtIds args) cs)
    (hacc : Forall₂ (fun cl v => cl ∈ c.graph.cov.get v) cs m.vp) (hpos : 0 < m.vp.length) :
    ∃ mr o, s.registry.methods[mi]? = some mr ∧
      Selects s.cfg.proj s.registry mr.defs ((virtIds args).map s.cfg.proj) o ∧
      s'.callWith key args route pre = expected m.vp.length args o := by
  obtain ⟨c', inst', att, hcomp, hinst, hpub, hc', hi', hcfg⟩ := update_ok s s' mults rest hup
  rw [hc] at hc'; cases hc'
  rw [hi] at hi'; cases hi'
  obtain ⟨hg, _, _, _, _⟩ := VtblContent.compile_fields s.cfg.proj s.registry c hcomp
  let ctx : Bridge.Ctx := ⟨s.cfg.proj, s.registry, c.graph, hg, hwf⟩
  obtain ⟨_, hn, hheads, _⟩ := buildGraph_fields s.cfg.proj s.registry.classes c.graph hg
  have hm : c.methods[mi]? = some m := List.mk_mem_zipIdx_iff_getElem?.mp (List.mem_of_find?_eq_some hfind)
  have hidkey : ∀ (id ci : Nat), id ∈ c.graph.ids ci → ctx.key ci = some (s.cfg.proj id) := by
    intro id ci hid
    unfold Graph.ids at hid
    cases hh : c.graph.heads[ci]? with
    | none => simp [hh] at hid
    | some hd =>
      simp only [hh, Option.map_some, Option.getD_some] at hid
      rw [hheads] at hh
      have hk := Ids.heads_idsOk s.cfg.proj s.registry.classes hd (List.mem_of_getElem? hh) id hid
      show keyAt s.cfg.proj s.registry.classes ci = some (s.cfg.proj id)
      unfold keyAt keysOf
      rw [List.getElem?_map, hh, hk]; rfl
  have hk : Forall₂ (fun i k => ctx.key i = some k) cs ((virtIds args).map s.cfg.proj) :=
    forall₂_flip_map hreg s.cfg.proj (fun id ci h => hidkey id ci h)
  have hlen : (Walk.virtPtrs vargs).length = m.vp.length := by
    rw [hptrs, List.length_map]; exact forall₂_length hacc
  obtain ⟨mr, cell, hmr, hmm, hres, hsel, hdef⟩ := C01_update_then_call ctx c inst hcomp hinst mi m hm vargs cs
    ((virtIds args).map s.cfg.proj) hk hacc
    (by
      intro p v hv
      rw [hptrs, List.getElem?_map] at hv
      cases hcp : cs[p]? with
      | none => simp [hcp] at hv
      | some ci => simp [hcp] at hv; exact ⟨ci, rfl, hv.symm⟩)
    hlen hpos
  refine ⟨mr, Bridge.outcomeOf mr.defs cell, hmr, hsel, ?_⟩
  unfold PState.callWith
  simp only [hc, hi, hfind, hvargs, hres, ne_eq, not_true_eq_false, if_false]
  cases cell with
  | ni => rfl
  | amb => rfl
  | defn i =>
    obtain ⟨df, hdf⟩ := hdef i rfl
    obtain ⟨sp, hsp, hspid, _⟩ := (Bridge.spec_get ctx m mr hmm i).2 df hdf
    simp only [hsp, Bridge.outcomeOf, hdf, expected, hspid]

/-- `virtual_ptr<C>::final(obj)` for an object of exactly the static class: the pointer reads the class's
    own static cell, which the latest update set to the class's v-table — with direct and with indirect
    v-table pointers -/
theorem deref_final_exact (s' : PState) (c : Compiled) (hc : s'.compiled = some c) (inst : Installed) (id ci : Nat)
    (hid : id = s'.staticId) (h0 : s'.staticId ≠ 0) (hci : classIdx c.graph.heads (s'.cfg.proj id) = some ci) :
    ∃ vp, s'.mkFinal id = .ok vp ∧ s'.derefVPtr inst vp = .ok (inst.vptr.get ci) := by
  unfold PState.mkFinal
  have hne : (id != s'.staticId) = false := by simp [hid]
  have h0' : (s'.staticId == 0) = false := by simpa using h0
  simp only [h0', hne, Bool.and_false, Bool.false_eq_true, if_false]
  by_cases hind : s'.cfg.indirect = true
  · simp only [hind, if_true]
    refine ⟨_, rfl, ?_⟩
    simp only [PState.derefVPtr, PState.cellSlot, hc, ← hid, hci, slotVptr]
  · simp only [hind, Bool.false_eq_true, if_false]
    refine ⟨_, rfl, ?_⟩
    simp only [PState.derefVPtr, bne_self_eq_false, Bool.false_eq_true, if_false, PState.cellSlot, hc, ← hid, hci, slotVptr]

/-- an indirect `virtual_ptr` made before later updates still yields, after them, the v-table pointer of
    its class *as the latest update published it* — as long as the class is still registered -/
theorem indirect_valid_after_updates (s s' : PState) (c' : Compiled) (hc' : s'.compiled = some c') (inst' : Installed)
    (id ci' : Nat) (v : VPtr) (hind : s.cfg.indirect = true) (hproj : s.cfg.proj = s'.cfg.proj)
    (hst : (id == s.staticId && s.staticId != 0) = false) (h : s.mkVPtr id = .ok v)
    (hci : classIdx c'.graph.heads (s'.cfg.proj id) = some ci') :
    s'.derefVPtr inst' v = .ok (inst'.vptr.get ci') := by
  rw [indirect_survives_update s s' inst' id v hind hst h, hproj]
  simp only [PState.cellSlot, hc', hci, slotVptr]

end Yomm2.Props.C09
