import Yomm2.Props.C01b
import Yomm2.Proofs.Publish
import Yomm2.Proofs.Ids
/-!
# C01 / C02 — a call after a successful `update`, at the outermost level of the model

`PState.update` compiles, installs and publishes; `PState.callWith` looks the v-table pointers up
through the policy (plain vector, fast or checked perfect hash, map), walks the dispatch data and
either runs a definition or hands a resolution error to the policy's handler. The theorem below says
what that call does, in terms of the specification alone.
-/
namespace Yomm2.Props.C01
open Yomm2 Yomm2.Spec Yomm2.Heads Yomm2.GraphProofs

/-- the dynamic type ids of the virtual arguments, in order -/
def virtIds (args : List (Kind × Nat)) : List Nat := (args.filter (fun a => a.1.isVirtual)).map (·.2)

/-- what a call must do for each outcome of the specification: run the selected definition, or hand
    the handler a resolution error with the right status, the method's arity and the dynamic type ids
    of exactly the virtual arguments -/
def expected (arity : Nat) (args : List (Kind × Nat)) : Outcome → CallOut
  | .ran d => .ran d
  | .ambiguous => .raised (.resolution .amb arity (errorTypes args))
  | .notImplemented => .raised (.resolution .ni arity (errorTypes args))

theorem forall₂_imp {α β} {R S : α → β → Prop} {l₁ : List α} {l₂ : List β} (h : Forall₂ R l₁ l₂)
    (himp : ∀ a b, R a b → S a b) : Forall₂ S l₁ l₂ := by
  induction h with
  | nil => exact Forall₂.nil
  | cons hr _ ih => exact Forall₂.cons (himp _ _ hr) ih

theorem forall₂_flip_map {α β γ} {R : α → β → Prop} {S : β → γ → Prop} {l₁ : List α} {l₂ : List β}
    (h : Forall₂ R l₁ l₂) (f : α → γ) (himp : ∀ a b, R a b → S b (f a)) : Forall₂ S l₂ (l₁.map f) := by
  induction h with
  | nil => exact Forall₂.nil
  | cons hr _ ih => exact Forall₂.cons (himp _ _ hr) ih

theorem update_ok (s s' : PState) (mults rest : List UInt64) (h : s.update mults = (s', .ok, rest)) :
    ∃ c inst att, compile s.cfg.proj s.registry = .ok c ∧ install c = .ok inst ∧
      publish s.cfg ((List.range c.graph.n).map c.graph.ids) s.budget mults s.pub = .ok s'.pub att rest ∧
      s'.compiled = some c ∧ s'.inst = some inst ∧ s'.cfg = s.cfg := by
  unfold PState.update at h
  split at h
  · injection h with _ h2; injection h2 with h3 _; cases h3
  · rename_i c hc
    split at h
    · injection h with _ h2; injection h2 with h3 _; cases h3
    · rename_i inst hi
      simp only at h
      split at h
      · injection h with _ h2; injection h2 with h3 _; cases h3
      · injection h with _ h2; injection h2 with h3 _; cases h3
      · rename_i p att rest' hp
        injection h with h1 h2
        injection h2 with _ h4
        subst h1 h4
        exact ⟨c, inst, att, hc, hi, hp, rfl, rfl, rfl⟩

theorem lookupForVptr_of_lookup (cfg : Cfg) (p : Pub) (id : Nat) (sl : VSlot) (h : lookupVptr cfg p id = .ok sl) :
    lookupForVptr cfg p id = .ok sl := by
  unfold lookupForVptr
  unfold lookupVptr at h
  by_cases hm : cfg.vptrMap = true
  · simp only [hm, if_true] at h ⊢
    split at h
    · exact h
    · cases h
  · simp only [hm, Bool.false_eq_true, if_false] at h ⊢
    unfold lookupVptr
    simp only [hm, Bool.false_eq_true, if_false]
    exact h

/-- the arguments passed by reference, and the `virtual_ptr`s made on the spot from a reference (whether
    or not its class is the pointer's static class), get the v-table pointers of their registered classes -/
theorem lookups_ok_pre (s' : PState) (inst : Installed) (c : Compiled) (hc : s'.compiled = some c)
    (ids : List (List Nat))
    (hlook : ∀ (ci : Nat) (l : List Nat) (id : Nat), ids[ci]? = some l → id ∈ l → lookupVptr s'.cfg s'.pub id = .ok (.cur ci))
    (hkeys : ∀ (ci : Nat) (l : List Nat) (id : Nat), ids[ci]? = some l → id ∈ l → classIdx c.graph.heads (s'.cfg.proj id) = some ci)
    (hnomap : s'.cfg.hash = .checked → ¬ s'.cfg.vptrMap = true) (pre : List (Nat × VPtr)) :
    ∀ (args : List (Kind × Nat)) (cs : List Nat) (k : Nat),
      (∀ x ∈ pre, ∀ (id ci : Nat) (l : List Nat), ((Kind.vptr, id), x.1) ∈ List.zipIdx args k → ids[ci]? = some l → id ∈ l →
        s'.derefVPtr inst x.2 = .ok (inst.vptr.get ci)) →
      Forall₂ (fun (id ci : Nat) => ∃ l, ids[ci]? = some l ∧ id ∈ l) (virtIds args) cs →
      ∃ vargs, (List.zipIdx args k).mapM (s'.argLookup inst .ref pre) = .ok vargs ∧
        Walk.virtPtrs vargs = cs.map inst.vptr.get
  | [], cs, k, _, h => by
    cases h
    exact ⟨[], by simp [List.mapM_nil, pure, Except.pure], rfl⟩
  | (kd, id) :: rest, cs, k, hpre, h => by
    have hpre' : ∀ x ∈ pre, ∀ (id' ci : Nat) (l : List Nat), ((Kind.vptr, id'), x.1) ∈ List.zipIdx rest (k + 1) → ids[ci]? = some l → id' ∈ l →
        s'.derefVPtr inst x.2 = .ok (inst.vptr.get ci) := by
      intro x hx id' ci l hm
      exact hpre x hx id' ci l (by rw [List.zipIdx_cons]; exact List.mem_cons_of_mem _ hm)
    rw [List.zipIdx_cons, List.mapM_cons]
    cases kd with
    | nonvirt =>
      have h' : Forall₂ (fun (id ci : Nat) => ∃ l, ids[ci]? = some l ∧ id ∈ l) (virtIds rest) cs := by
        simpa [virtIds, Kind.isVirtual] using h
      obtain ⟨vr, hvr, hptrs⟩ := lookups_ok_pre s' inst c hc ids hlook hkeys hnomap pre rest cs (k + 1) hpre' h'
      refine ⟨(Kind.nonvirt, 0) :: vr, ?_, ?_⟩
      · simp only [PState.argLookup, hvr, bind, Except.bind, pure, Except.pure]
      · simpa [Walk.virtPtrs, Kind.isVirtual] using hptrs
    | virt =>
      have hv : virtIds ((Kind.virt, id) :: rest) = id :: virtIds rest := by simp [virtIds, Kind.isVirtual]
      rw [hv] at h
      cases h with
      | @cons _ ci _ cs' hhead htail =>
        obtain ⟨l, hl, hid⟩ := hhead
        obtain ⟨vr, hvr, hptrs⟩ := lookups_ok_pre s' inst c hc ids hlook hkeys hnomap pre rest cs' (k + 1) hpre' htail
        refine ⟨(Kind.virt, inst.vptr.get ci) :: vr, ?_, ?_⟩
        · simp only [PState.argLookup, hlook ci l id hl hid, slotVptr, hvr, bind, Except.bind, pure, Except.pure]
        · simp only [Walk.virtPtrs, Kind.isVirtual, List.filter_cons_of_pos, List.map_cons] at hptrs ⊢
          rw [hptrs]
    | vptr =>
      have hv : virtIds ((Kind.vptr, id) :: rest) = id :: virtIds rest := by simp [virtIds, Kind.isVirtual]
      rw [hv] at h
      cases h with
      | @cons _ ci _ cs' hhead htail =>
        obtain ⟨l, hl, hid⟩ := hhead
        obtain ⟨vr, hvr, hptrs⟩ := lookups_ok_pre s' inst c hc ids hlook hkeys hnomap pre rest cs' (k + 1) hpre' htail
        refine ⟨(Kind.vptr, inst.vptr.get ci) :: vr, ?_, ?_⟩
        · have hfv := lookupForVptr_of_lookup _ _ _ _ (hlook ci l id hl hid)
          have hmk : ∃ vp, s'.mkVPtr id = .ok vp ∧ s'.derefVPtr inst vp = .ok (inst.vptr.get ci) := by
            unfold PState.mkVPtr
            by_cases hst : (id == s'.staticId && s'.staticId != 0) = true
            · -- the static class: its own cell, after the registered-class check of checked policies
              rw [if_pos hst]
              -- the registered-class check passes
              have hpass : s'.cfg.hash = .checked → ∃ i, checkedIdx s'.pub.hash s'.pub.control (UInt64.ofNat id) = some i := by
                intro hck
                have hl' := hlook ci l id hl hid
                unfold lookupVptr at hl'
                have hm : ¬ s'.cfg.vptrMap = true := hnomap hck
                simp only [hm, Bool.false_eq_true, if_false, hck] at hl'
                cases hcx : checkedIdx s'.pub.hash s'.pub.control (UInt64.ofNat id) with
                | some i => exact ⟨i, rfl⟩
                | none => simp [hcx] at hl'
              have hcell := hkeys ci l id hl hid
              by_cases hck : s'.cfg.hash = .checked
              · obtain ⟨i, hi⟩ := hpass hck
                simp only [hck, beq_self_eq_true, if_true, hi]
                by_cases hind : s'.cfg.indirect = true
                · simp only [hind, if_true]
                  exact ⟨_, rfl, by simp only [PState.derefVPtr, PState.cellSlot, hc, hcell, slotVptr]⟩
                · simp only [hind, Bool.false_eq_true, if_false]
                  exact ⟨_, rfl, by simp only [PState.derefVPtr, bne_self_eq_false, Bool.false_eq_true, if_false,
                    PState.cellSlot, hc, hcell, slotVptr]⟩
              · have hck' : (s'.cfg.hash == HashKind.checked) = false := by simpa using hck
                simp only [hck', Bool.false_eq_true, if_false]
                by_cases hind : s'.cfg.indirect = true
                · simp only [hind, if_true]
                  exact ⟨_, rfl, by simp only [PState.derefVPtr, PState.cellSlot, hc, hcell, slotVptr]⟩
                · simp only [hind, Bool.false_eq_true, if_false]
                  exact ⟨_, rfl, by simp only [PState.derefVPtr, bne_self_eq_false, Bool.false_eq_true, if_false,
                    PState.cellSlot, hc, hcell, slotVptr]⟩
            · have hst' : (id == s'.staticId && s'.staticId != 0) = false := by simpa using hst
              simp only [hst', Bool.false_eq_true, if_false, hfv]
              by_cases hind : s'.cfg.indirect = true
              · simp only [hind, if_true]
                refine ⟨_, rfl, ?_⟩
                simp only [PState.derefVPtr, PState.cellSlot, hc, hkeys ci l id hl hid, slotVptr]
              · simp only [hind, Bool.false_eq_true, if_false]
                refine ⟨_, rfl, ?_⟩
                simp only [PState.derefVPtr, bne_self_eq_false, Bool.false_eq_true, if_false, slotVptr]
          obtain ⟨vp, hvp, hd⟩ := hmk
          cases hf : pre.find? (fun x => x.1 == k) with
          | none =>
            simp only [PState.argLookup, hf, hvp, hd, hvr, bind, Except.bind, pure, Except.pure]
            rfl
          | some x =>
            -- a pointer made earlier: it dereferences to the published pointer of its class
            have hxm : x ∈ pre := List.mem_of_find?_eq_some hf
            have hxk : x.1 = k := by simpa using List.find?_some hf
            have hdx := hpre x hxm id ci l (by rw [hxk, List.zipIdx_cons]; exact List.mem_cons_self) hl hid
            simp only [PState.argLookup, hf, hdx, hvr, bind, Except.bind, pure, Except.pure]
        · simp only [Walk.virtPtrs, Kind.isVirtual, List.filter_cons_of_pos, List.map_cons] at hptrs ⊢
          rw [hptrs]

theorem lookups_ok (s' : PState) (inst : Installed) (c : Compiled) (hc : s'.compiled = some c)
    (ids : List (List Nat))
    (hlook : ∀ (ci : Nat) (l : List Nat) (id : Nat), ids[ci]? = some l → id ∈ l → lookupVptr s'.cfg s'.pub id = .ok (.cur ci))
    (hkeys : ∀ (ci : Nat) (l : List Nat) (id : Nat), ids[ci]? = some l → id ∈ l → classIdx c.graph.heads (s'.cfg.proj id) = some ci)
    (hnomap : s'.cfg.hash = .checked → ¬ s'.cfg.vptrMap = true)
    (args : List (Kind × Nat)) (cs : List Nat) (k : Nat)
    (h : Forall₂ (fun (id ci : Nat) => ∃ l, ids[ci]? = some l ∧ id ∈ l) (virtIds args) cs) :
    ∃ vargs, (List.zipIdx args k).mapM (s'.argLookup inst .ref []) = .ok vargs ∧
      Walk.virtPtrs vargs = cs.map inst.vptr.get :=
  lookups_ok_pre s' inst c hc ids hlook hkeys hnomap [] args cs k (fun x hx => by cases hx) h

/-- **every id of every registered class is published**: after an `update` that succeeded, the policy's
    lookup of the id yields the v-table pointer slot written for the id's class by this update, and the
    class's static cell is the one of that class — for the vector, both hashes and the map -/
theorem registered_ids_published (s s' : PState) (mults rest : List UInt64)
    (hup : s.update mults = (s', .ok, rest))
    (hwf : WF s.cfg.proj s.registry.classes s.registry.methods)
    (hword : ∀ r ∈ s.registry.classes, r.id < 2 ^ 64 - 1)
    (c : Compiled) (hc : s'.compiled = some c) (id ci : Nat) (hid : id ∈ c.graph.ids ci) :
    ci < c.graph.n ∧ lookupVptr s'.cfg s'.pub id = .ok (.cur ci) ∧
      classIdx c.graph.heads (s'.cfg.proj id) = some ci := by
  obtain ⟨c', inst, att, hcomp, hinst, hpub, hc', hi', hcfg⟩ := update_ok s s' mults rest hup
  rw [hc] at hc'; cases hc'
  obtain ⟨hg, _, _, _, _⟩ := VtblContent.compile_fields s.cfg.proj s.registry c hcomp
  let ctx : Bridge.Ctx := ⟨s.cfg.proj, s.registry, c.graph, hg, hwf⟩
  obtain ⟨_, hn, hheads, _⟩ := buildGraph_fields s.cfg.proj s.registry.classes c.graph hg
  have hidkey : ∀ (id ci : Nat), id ∈ c.graph.ids ci → ctx.key ci = some (s.cfg.proj id) ∧ ci < c.graph.n := by
    intro id ci hid
    unfold Graph.ids at hid
    cases hh : c.graph.heads[ci]? with
    | none => simp [hh] at hid
    | some hd =>
      simp only [hh, Option.map_some, Option.getD_some] at hid
      rw [hheads] at hh
      have hmemhd : hd ∈ heads s.cfg.proj s.registry.classes := List.mem_of_getElem? hh
      have hk := Ids.heads_idsOk s.cfg.proj s.registry.classes hd hmemhd id hid
      constructor
      · show keyAt s.cfg.proj s.registry.classes ci = some (s.cfg.proj id)
        unfold keyAt keysOf
        rw [List.getElem?_map, hh, hk]; rfl
      · rw [hn]; exact (List.getElem?_eq_some_iff.mp hh).1
  let ids := (List.range c.graph.n).map c.graph.ids
  have hidsget : ∀ ci, ci < c.graph.n → ids[ci]? = some (c.graph.ids ci) := by
    intro ci hlt
    simp only [ids, List.getElem?_map, List.getElem?_range hlt, Option.map_some]
  have hidsget' : ∀ (ci : Nat) (l : List Nat), ids[ci]? = some l → l = c.graph.ids ci := by
    intro ci l hl
    have hlt : ci < c.graph.n := by
      have := (List.getElem?_eq_some_iff.mp hl).1
      simpa [ids] using this
    rw [hidsget ci hlt] at hl
    exact (Option.some.inj hl).symm
  refine ⟨(hidkey id ci hid).2, ?_, ?_⟩
  · rw [hcfg]
    apply Publish.lookup_published s.cfg ids s.budget mults s.pub s'.pub att rest hpub _ _ ci _ id (hidsget ci (hidkey id ci hid).2) hid
    · intro ci cj l l' id hl hl' hid hid'
      rw [hidsget' ci l hl] at hid
      rw [hidsget' cj l' hl'] at hid'
      exact Bridge.key_inj ctx ci cj _ (hidkey id ci hid).1 (hidkey id cj hid').1
    · intro l hl id hid
      obtain ⟨ci, hci⟩ := List.getElem?_of_mem hl
      rw [hidsget' ci l hci] at hid
      unfold Graph.ids at hid
      cases hh : c.graph.heads[ci]? with
      | none => simp [hh] at hid
      | some hd =>
        simp only [hh, Option.map_some, Option.getD_some] at hid
        rw [hheads] at hh
        obtain ⟨r, hr, hrid⟩ := Ids.heads_idsFrom s.cfg.proj s.registry.classes hd (List.mem_of_getElem? hh) id hid
        rw [← hrid]; exact hword r hr
  · rw [hcfg, hheads]
    exact classIdx_of_get (heads_keys s.cfg.proj s.registry.classes).1 (hidkey id ci hid).1

/-- a `virtual_ptr` made earlier that may be passed for an argument of dynamic type `id`: it holds the
    address of the class's static v-table pointer cell (what an indirect policy makes, at any time), or
    the v-table pointer of the class as the latest update published it (a pointer made since) -/
def StoredFor (s' : PState) (c : Compiled) (vp : VPtr) (id : Nat) : Prop :=
  vp.ref = .cell (s'.cfg.proj id) ∨ ∃ ci, id ∈ c.graph.ids ci ∧ vp.ref = .direct (.cur ci) s'.epoch

/-- **C01 + C02 at the outermost level of the model.** After an `update` that succeeded, on a registry
    without inheritance cycles whose ids are machine words: a call of a registered method, with
    arguments passed by reference or as `virtual_ptr`s made from a reference (whether or not the class is the
    pointer's static class) whose dynamic types are registered classes acceptable for the parameters, does exactly what the specification prescribes for the keys of those classes —
    it runs the definition more specific than every other applicable one; or, when there is none or
    several incomparable ones, runs nothing and raises a resolution error whose status tells the two
    cases apart, whose arity is the number of virtual parameters and whose type ids are the dynamic
    types of the virtual arguments, in order — for every policy flavour (vector, fast hash, checked
    hash, map), every arity and every placement of non-virtual parameters. -/
theorem call_after_update_stored (s s' : PState) (mults rest : List UInt64)
    (hup : s.update mults = (s', .ok, rest))
    (hwf : WF s.cfg.proj s.registry.classes s.registry.methods)
    (hword : ∀ r ∈ s.registry.classes, r.id < 2 ^ 64 - 1)
    (c : Compiled) (hc : s'.compiled = some c)
    (key mi : Nat) (m : MethodC) (hfind : (List.zipIdx c.methods).find? (fun e => e.1.key == key) = some (m, mi))
    (args : List (Kind × Nat)) (cs : List Nat)
    (hnomap : s.cfg.hash = .checked → ¬ s.cfg.vptrMap = true)
    (hreg : Forall₂ (fun (id ci : Nat) => id ∈ c.graph.ids ci) (virtIds args) cs)
    (hacc : Forall₂ (fun cl v => cl ∈ c.graph.cov.get v) cs m.vp) (hpos : 0 < m.vp.length)
    (pre : List (Nat × VPtr))
    (hpre : ∀ x ∈ pre, ∀ id, ((Kind.vptr, id), x.1) ∈ List.zipIdx args → StoredFor s' c x.2 id) :
    ∃ mr o, s.registry.methods[mi]? = some mr ∧
      Selects s.cfg.proj s.registry mr.defs ((virtIds args).map s.cfg.proj) o ∧
      s'.callWith key args .ref pre = expected m.vp.length args o := by
  obtain ⟨c', inst, att, hcomp, hinst, hpub, hc', hi', hcfg⟩ := update_ok s s' mults rest hup
  rw [hc] at hc'; cases hc'
  obtain ⟨hg, _, _, _, _⟩ := VtblContent.compile_fields s.cfg.proj s.registry c hcomp
  let ctx : Bridge.Ctx := ⟨s.cfg.proj, s.registry, c.graph, hg, hwf⟩
  obtain ⟨_, hn, hheads, _⟩ := buildGraph_fields s.cfg.proj s.registry.classes c.graph hg
  -- the method found by its key is the `mi`-th compiled method
  have hm : c.methods[mi]? = some m := by
    have := List.find?_some hfind
    have hmem := List.mem_of_find?_eq_some hfind
    exact List.mk_mem_zipIdx_iff_getElem?.mp hmem
  -- ids of a class project to its key
  have hidkey : ∀ (id ci : Nat), id ∈ c.graph.ids ci → ctx.key ci = some (s.cfg.proj id) ∧ ci < c.graph.n := by
    intro id ci hid
    unfold Graph.ids at hid
    cases hh : c.graph.heads[ci]? with
    | none => simp [hh] at hid
    | some hd =>
      simp only [hh, Option.map_some, Option.getD_some] at hid
      rw [hheads] at hh
      have hmemhd : hd ∈ heads s.cfg.proj s.registry.classes := List.mem_of_getElem? hh
      have hk := Ids.heads_idsOk s.cfg.proj s.registry.classes hd hmemhd id hid
      constructor
      · show keyAt s.cfg.proj s.registry.classes ci = some (s.cfg.proj id)
        unfold keyAt keysOf
        rw [List.getElem?_map, hh, hk]; rfl
      · rw [hn]; exact (List.getElem?_eq_some_iff.mp hh).1
  have hk : Forall₂ (fun i k => ctx.key i = some k) cs ((virtIds args).map s.cfg.proj) :=
    forall₂_flip_map hreg s.cfg.proj (fun id ci h => (hidkey id ci h).1)
  -- the published v-table pointers
  let ids := (List.range c.graph.n).map c.graph.ids
  have hidsget : ∀ ci, ci < c.graph.n → ids[ci]? = some (c.graph.ids ci) := by
    intro ci hlt
    simp only [ids, List.getElem?_map, List.getElem?_range hlt, Option.map_some]
  have hidsget' : ∀ (ci : Nat) (l : List Nat), ids[ci]? = some l → l = c.graph.ids ci := by
    intro ci l hl
    have hlt : ci < c.graph.n := by
      have := (List.getElem?_eq_some_iff.mp hl).1
      simpa [ids] using this
    rw [hidsget ci hlt] at hl
    exact (Option.some.inj hl).symm
  have hlook : ∀ (ci : Nat) (l : List Nat) (id : Nat), ids[ci]? = some l → id ∈ l → lookupVptr s'.cfg s'.pub id = .ok (.cur ci) := by
    intro ci l id hl hid
    rw [hidsget' ci l hl] at hid
    exact (registered_ids_published s s' mults rest hup hwf hword c hc id ci hid).2.1
  have hreg' : Forall₂ (fun (id ci : Nat) => ∃ l, ids[ci]? = some l ∧ id ∈ l) (virtIds args) cs :=
    forall₂_imp hreg (fun id ci h => ⟨_, hidsget ci (hidkey id ci h).2, h⟩)
  have hkeys : ∀ (ci : Nat) (l : List Nat) (id : Nat), ids[ci]? = some l → id ∈ l →
      classIdx c.graph.heads (s'.cfg.proj id) = some ci := by
    intro ci l id hl hid
    rw [hidsget' ci l hl] at hid
    exact (registered_ids_published s s' mults rest hup hwf hword c hc id ci hid).2.2
  have hpre' : ∀ x ∈ pre, ∀ (id ci : Nat) (l : List Nat), ((Kind.vptr, id), x.1) ∈ List.zipIdx args 0 → ids[ci]? = some l → id ∈ l →
      s'.derefVPtr inst x.2 = .ok (inst.vptr.get ci) := by
    intro x hx id ci l hm hl hid
    rcases hpre x hx id hm with hcell | ⟨ci', hci', hdir⟩
    · -- the address of the class's static cell: read now, it holds what this update published
      simp only [PState.derefVPtr, hcell, PState.cellSlot, hc, hkeys ci l id hl hid, slotVptr]
    · -- a pointer value copied since this update
      have hci : id ∈ c.graph.ids ci := by rw [← hidsget' ci l hl]; exact hid
      have : ci' = ci := Bridge.key_inj ctx ci' ci _ (hidkey id ci' hci').1 (hidkey id ci hci).1
      subst this
      simp only [PState.derefVPtr, hdir, bne_self_eq_false, Bool.false_eq_true, if_false, slotVptr]
  obtain ⟨vargs, hvargs, hptrs⟩ := lookups_ok_pre s' inst c hc ids hlook hkeys (by rw [hcfg]; exact hnomap) pre args cs 0 hpre' hreg'
  -- the walk
  have hlen : (Walk.virtPtrs vargs).length = m.vp.length := by
    rw [hptrs, List.length_map]; exact forall₂_length hacc
  obtain ⟨mr, cell, hmr, hmm, hres, hsel, hdef⟩ := C01_update_then_call ctx c inst hcomp hinst mi m hm vargs cs
    ((virtIds args).map s.cfg.proj) hk hacc
    (by
      intro p v hv
      rw [hptrs, List.getElem?_map] at hv
      cases hcp : cs[p]? with
      | none => simp [hcp] at hv
      | some ci => simp [hcp] at hv; exact ⟨ci, rfl, hv.symm⟩)
    hlen hpos
  refine ⟨mr, Bridge.outcomeOf mr.defs cell, hmr, hsel, ?_⟩
  -- what the call does with the word
  unfold PState.callWith
  simp only [hc, hi', hfind, hvargs, hres, ne_eq, not_true_eq_false, if_false]
  cases cell with
  | ni => rfl
  | amb => rfl
  | defn i =>
    obtain ⟨df, hdf⟩ := hdef i rfl
    obtain ⟨sp, hsp, hspid, _⟩ := (Bridge.spec_get ctx m mr hmm i).2 df hdf
    simp only [hsp, Bridge.outcomeOf, hdf, expected, hspid]

/-- the statement for calls whose `virtual_ptr` arguments are all made on the spot -/
theorem C01_C02_call_after_update (s s' : PState) (mults rest : List UInt64)
    (hup : s.update mults = (s', .ok, rest))
    (hwf : WF s.cfg.proj s.registry.classes s.registry.methods)
    (hword : ∀ r ∈ s.registry.classes, r.id < 2 ^ 64 - 1)
    (c : Compiled) (hc : s'.compiled = some c)
    (key mi : Nat) (m : MethodC) (hfind : (List.zipIdx c.methods).find? (fun e => e.1.key == key) = some (m, mi))
    (args : List (Kind × Nat)) (cs : List Nat)
    (hnomap : s.cfg.hash = .checked → ¬ s.cfg.vptrMap = true)
    (hreg : Forall₂ (fun (id ci : Nat) => id ∈ c.graph.ids ci) (virtIds args) cs)
    (hacc : Forall₂ (fun cl v => cl ∈ c.graph.cov.get v) cs m.vp) (hpos : 0 < m.vp.length) :
    ∃ mr o, s.registry.methods[mi]? = some mr ∧
      Selects s.cfg.proj s.registry mr.defs ((virtIds args).map s.cfg.proj) o ∧
      s'.callWith key args .ref [] = expected m.vp.length args o :=
  call_after_update_stored s s' mults rest hup hwf hword c hc key mi m hfind args cs hnomap hreg hacc hpos []
    (fun x hx => by cases hx)

/-- the same statement read for C02: when the specification finds no definition, or several
    incomparable ones, nothing runs and the handler gets status, arity and the virtual arguments' ids -/
theorem C02_unresolvable_calls_are_reported (s s' : PState) (mults rest : List UInt64)
    (hup : s.update mults = (s', .ok, rest))
    (hwf : WF s.cfg.proj s.registry.classes s.registry.methods)
    (hword : ∀ r ∈ s.registry.classes, r.id < 2 ^ 64 - 1)
    (c : Compiled) (hc : s'.compiled = some c)
    (key mi : Nat) (m : MethodC) (hfind : (List.zipIdx c.methods).find? (fun e => e.1.key == key) = some (m, mi))
    (args : List (Kind × Nat)) (cs : List Nat)
    (hnomap : s.cfg.hash = .checked → ¬ s.cfg.vptrMap = true)
    (hreg : Forall₂ (fun (id ci : Nat) => id ∈ c.graph.ids ci) (virtIds args) cs)
    (hacc : Forall₂ (fun cl v => cl ∈ c.graph.cov.get v) cs m.vp) (hpos : 0 < m.vp.length)
    (mr : MethodRec) (hmr : s.registry.methods[mi]? = some mr) (o : Outcome) (ho : ∀ d, o ≠ .ran d)
    (hsel : Selects s.cfg.proj s.registry mr.defs ((virtIds args).map s.cfg.proj) o) :
    s'.callWith key args .ref [] =
      .raised (.resolution (if o = .ambiguous then .amb else .ni) m.vp.length (errorTypes args)) := by
  obtain ⟨mr', o', hmr', hsel', hcall⟩ := C01_C02_call_after_update s s' mults rest hup hwf hword c hc key mi m hfind
    args cs hnomap hreg hacc hpos
  rw [hmr] at hmr'; cases hmr'
  have hr : Ranked s.cfg.proj s.registry s.registry.classes.length := by
    have := hwf; unfold WF at this
    cases hs : s.registry with
    | mk cl ms => rw [hs] at this; exact this
  have : o' = o := spec_functional hr hsel' hsel
  subst this
  rw [hcall]
  cases o' with
  | ran d => exact absurd rfl (ho d)
  | ambiguous => simp [expected]
  | notImplemented => simp [expected]

end Yomm2.Props.C01
