import Yomm2.Model.Multi
/-!
# C07 — update after any load / unload history behaves like a fresh update
-/
namespace Yomm2.Props.C07
open Yomm2

/-- **a completed update installs exactly the tables a fresh compilation of the current catalogs
    produces**: nothing of the previous tables, v-table pointers, slots or `next` cells survives -/
theorem update_installs_fresh (s : PState) (m : List UInt64) (c : Compiled) (inst : Installed)
    (hc : (s.update m).1.compiled = some c) (hi : (s.update m).1.inst = some inst) :
    (∃ c', compile s.cfg.proj s.registry = .ok c' ∧ install c' = .ok inst) := by
  unfold PState.update at hc hi
  cases hcomp : compile s.cfg.proj s.registry with
  | error e => simp [hcomp] at hc
  | ok c' =>
    simp only [hcomp] at hc hi
    cases hinst : install c' with
    | error e => simp [hinst] at hc
    | ok inst' =>
      simp only [hinst] at hc hi
      cases hp : publish s.cfg ((List.range c'.graph.n).map c'.graph.ids) s.budget m s.pub with
      | fault w => simp [hp] at hc
      | hashFailed p a b r => simp [hp] at hc
      | ok p a r =>
        simp only [hp] at hc hi
        refine ⟨c', rfl, ?_⟩
        simp at hi
        rw [← hi]; exact hinst

/-- the installed tables of two states with the same configuration and the same catalogs are the
    same, whatever their histories (previous updates, removed classes, stale `vptrs` …) -/
theorem tables_depend_on_catalogs_only (s s' : PState) (m m' : List UInt64)
    (hcfg : s.cfg = s'.cfg) (hreg : s.registry = s'.registry) (inst inst' : Installed)
    (hi : (s.update m).1.inst = some inst) (hi' : (s'.update m').1.inst = some inst')
    (hc : ((s.update m).1.compiled).isSome) (hc' : ((s'.update m').1.compiled).isSome) :
    inst.data = inst'.data ∧ inst.ss = inst'.ss ∧ inst.vptr.arr = inst'.vptr.arr := by
  obtain ⟨c, hcs⟩ := Option.isSome_iff_exists.mp hc
  obtain ⟨c', hcs'⟩ := Option.isSome_iff_exists.mp hc'
  obtain ⟨c1, h1, h2⟩ := update_installs_fresh s m c inst hcs hi
  obtain ⟨c2, h3, h4⟩ := update_installs_fresh s' m' c' inst' hcs' hi'
  rw [hcfg, hreg, h3] at h1
  cases h1
  rw [h2] at h4
  cases h4
  exact ⟨rfl, rfl, rfl⟩

/-- registering and unregistering are list operations on the catalogs: an item removed is gone, an
    item added is last -/
theorem removeDef_gone (s : PState) (k id : Nat) :
    ∀ m ∈ (s.apply (.removeDef k id)).methods, m.key = k → ∀ d ∈ m.defs, d.id ≠ id := by
  intro m hm hk d hd
  simp only [PState.apply, List.mem_map] at hm
  obtain ⟨m0, _, rfl⟩ := hm
  by_cases h : (m0.key == k) = true
  · simp only [h, if_true] at hd
    have := (List.mem_filter.mp hd).2
    simpa using this
  · simp only [h] at hk hd
    simp at h
    exact absurd hk h

theorem addDef_present (s : PState) (k : Nat) (d : DefRec) (m : MethodRec) (hm : m ∈ s.methods) (hk : m.key = k) :
    ∃ m' ∈ (s.apply (.addDef k d)).methods, m'.key = k ∧ d ∈ m'.defs := by
  refine ⟨{ m with defs := m.defs ++ [d] }, ?_, hk, by simp⟩
  simp only [PState.apply, List.mem_map]
  exact ⟨m, hm, by simp [hk]⟩

end Yomm2.Props.C07
