import Yomm2.Props.C13
import Yomm2.Proofs.RoundTrip
import Yomm2.Proofs.RoundTripInstall
import Yomm2.Proofs.RoundTripCompile
/-!
# C13 — the encoded v-tables decode, in place, to the v-tables update built
-/
namespace Yomm2.Props.C13
open Yomm2 Yomm2.RoundTrip

/-- **the v-table part of the round trip**, for every compiled registry whose entries fit the 16-bit
    fields (`EntryGood`: group indices below 2^14, method indices below 2^14, cell indices and first
    slots below 2^15) and whatever the dispatch tables decoded to (`starts`): decoding the emitted
    structure in place — with the head room the encoder computed by replaying the decoder's two cursors —
    never reads a code that a decoded word has already overwritten, never writes outside `vtbls[D]`,
    and produces exactly the v-table entries in class order (function of the cell for uni-methods, table
    position for the first parameter of multi-methods, group index for later parameters), each class's
    v-table pointer being its first word biased by its first slot — including classes whose v-table does
    not start at slot 0 and classes with no entries -/
theorem C13_vtables_round_trip (c : Compiled) (cells : List Nat) (dt : List DWord) (starts : List (Option Nat))
    (hdt : decodeDtbls (msOf c) (encode c).dtbls = .ok (dt, starts))
    (hcells : cells.length = c.vtbl.length) (hnd : cells.Nodup)
    (hgood : ∀ row ∈ c.vtbl, ∀ e ∈ row, EntryGood c starts e)
    (hfirst : ∀ k, k < c.vtbl.length → c.slots.first.get k < stopBit) :
    ∃ d, decode (encode c) (msOf c) cells = .ok d ∧ d.vtbls = c.vtbl.flatten.map (toD c starts) ∧
      d.vptrs = vpsFrom c 0 c.vtbl 0 ∧ d.dtbls = dt ∧ d.ss = ssOf (msOf c) (encode c).slots :=
  decode_encode c cells dt starts hdt hcells hnd hgood hfirst

/-- the head room is what the replay of the cursors needs: after every entry the write cursor (in
    16-bit units) has not passed the read cursor -/
theorem C13_headroom_suffices (S : Nat) (row : List Entry) (a : Cur) (e : Entry) :
    4 * ((stepCur S a e).dec) ≤ (rowCur S row (stepCur S a e)).hr + S + (stepCur S a e).enc := by
  have h1 := rowCur_hr_le S row (stepCur S a e)
  have h2 : 4 * (stepCur S a e).dec - (S + (stepCur S a e).enc) ≤ (stepCur S a e).hr := by
    simp only [stepCur]; omega
  omega

/-- **C13, the whole round trip**: for every compiled registry whose numbers fit the 16-bit fields of the
    emitted structure (group, method and cell indices, first slots) and that `install_gv` accepts: decoding
    the emitted data rebuilds exactly the words `install_gv` wrote into `dispatch_data` (dispatch tables of
    the multi-methods, then every v-table), the same v-table pointers (biased by the first slot, also when
    it is not 0, also for classes without entries) and the same `slots_strides` arrays — so every call
    resolves over the decoded tables as it does after `update` (`resolve` reads nothing else) -/
theorem C13_decode_encode_is_install (c : Compiled) (inst : Installed) (hinst : install c = .ok inst)
    (cells : List Nat) (hcells : cells.length = c.vtbl.length) (hnd : cells.Nodup)
    (hlen : c.methods.length = c.outs.length)
    (har : ∀ m ∈ c.methods, 1 ≤ m.vp.length)
    (hstr : ∀ mo ∈ c.methods.zip c.outs, mo.2.strides.length = mo.1.vp.length - 1)
    (hnx : ∀ mo ∈ c.methods.zip c.outs, mo.2.nexts.length = mo.1.specs.length)
    (htab : ∀ mo ∈ c.methods.zip c.outs, TableGood mo)
    (hgood : ∀ row ∈ c.vtbl, ∀ e ∈ row, EntryGood c (dtStarts (c.methods.zip c.outs) 0) e ∧ e.vp < arOf c e.method)
    (hfirst : ∀ k, k < c.vtbl.length → c.slots.first.get k < stopBit) :
    ∃ d, decode (encode c) (msOf c) cells = .ok d ∧ d.toInstalled.data = inst.data ∧
      d.toInstalled.vptr = inst.vptr ∧ d.toInstalled.ss = inst.ss :=
  decode_encode_eq_install c inst hinst cells hcells hnd hlen har hstr hnx htab hgood hfirst

/-- calls read the installed image through `data` and `ss` only: two images that agree there resolve
    every call alike -/
theorem resolve_depends_on_data_and_ss (a b : Installed) (hd : a.data = b.data) (hs : a.ss = b.ss)
    (mi : Nat) (args : List (Kind × Int)) : resolve a mi args = resolve b mi args := by
  have hread : ∀ i, readWord a i = readWord b i := by intro i; unfold readWord; rw [hd]
  have hnext : ∀ (ss : List Nat) (ar : Nat) (rest : List (Kind × Int)) (k d : Nat),
      resolveMultiNext a ss ar k rest d = resolveMultiNext b ss ar k rest d := by
    intro ss ar rest
    induction rest with
    | nil => intro k d; rfl
    | cons x xs ih =>
      intro k d
      obtain ⟨kind, v⟩ := x
      simp only [resolveMultiNext, hread, ih]
  have hfirst : ∀ (ss : List Nat) (ar : Nat) (rest : List (Kind × Int)),
      resolveMultiFirst a ss ar rest = resolveMultiFirst b ss ar rest := by
    intro ss ar rest
    induction rest with
    | nil => rfl
    | cons x xs ih =>
      obtain ⟨kind, v⟩ := x
      simp only [resolveMultiFirst, hread, hnext, ih]
  have huni : ∀ (ss : List Nat) (rest : List (Kind × Int)), resolveUni a ss rest = resolveUni b ss rest := by
    intro ss rest
    induction rest with
    | nil => rfl
    | cons x xs ih =>
      obtain ⟨kind, v⟩ := x
      simp only [resolveUni, hread, ih]
  unfold resolve
  rw [hs]
  simp only [huni, hfirst]

/-- **C13 for every registry whose numbers fit** (`Fits16`, what the encoder checks value by value): after
    `update` (compile + install) on a registry without inheritance cycles whose methods all have a virtual
    parameter, the dispatch data emitted by the generator, once decoded, makes every call resolve exactly
    as after `update`: the decoded image has the same words, and `resolve` returns the same function for
    every method and every tuple of v-table pointers — uni- and multi-methods, error cells, classes whose
    v-table does not start at slot 0, classes without entries -/
theorem C13_calls_after_decode_as_after_update (proj : Nat → Nat) (reg : Registry)
    (hwf : GraphProofs.WF proj reg.classes reg.methods)
    (c : Compiled) (hc : compile proj reg = .ok c) (inst : Installed) (hinst : install c = .ok inst)
    (har : ∀ m ∈ c.methods, 1 ≤ m.vp.length) (hfit : Fits16 c)
    (cells : List Nat) (hcells : cells.length = c.vtbl.length) (hnd : cells.Nodup) :
    ∃ d, decode (encode c) (msOf c) cells = .ok d ∧ d.toInstalled.vptr = inst.vptr ∧
      ∀ (mi : Nat) (args : List (Kind × Int)), resolve d.toInstalled mi args = resolve inst mi args := by
  obtain ⟨d, hd, hdata, hvptr, hss⟩ := round_trip_after_compile proj reg hwf c hc inst hinst har hfit cells hcells hnd
  exact ⟨d, hd, hvptr, fun mi args => resolve_depends_on_data_and_ss _ _ hdata hss mi args⟩

/-- **C13 for every registry, without a size hypothesis**: whatever `encode_dispatch_data` emits for the
    result of an `update` (it emits nothing, and throws, exactly when some value does not fit its 16-bit
    field — `encodeChecked`, `fits16_iff`) decodes, in place and inside the emitted structure, to an image
    with the same words, v-table pointers and `slots_strides` as the one `update` installed, over which
    every call resolves as after `update` -/
theorem C13_whatever_is_emitted_decodes_to_what_update_built (proj : Nat → Nat) (reg : Registry)
    (hwf : GraphProofs.WF proj reg.classes reg.methods)
    (c : Compiled) (hc : compile proj reg = .ok c) (inst : Installed) (hinst : install c = .ok inst)
    (har : ∀ m ∈ c.methods, 1 ≤ m.vp.length)
    (em : Emitted) (hem : encodeChecked c = some em)
    (cells : List Nat) (hcells : cells.length = c.vtbl.length) (hnd : cells.Nodup) :
    ∃ d, decode em (msOf c) cells = .ok d ∧ d.toInstalled.vptr = inst.vptr ∧
      ∀ (mi : Nat) (args : List (Kind × Int)), resolve d.toInstalled mi args = resolve inst mi args := by
  unfold encodeChecked at hem
  by_cases hf : fits16 c = true
  · rw [if_pos hf] at hem
    cases hem
    exact C13_calls_after_decode_as_after_update proj reg hwf c hc inst hinst har ((fits16_iff c).mp hf) cells hcells hnd
  · rw [if_neg hf] at hem
    cases hem

/-- the refusal is exact: the encoder emits iff every value fits -/
theorem C13_emits_iff_fits (c : Compiled) : (encodeChecked c).isSome = true ↔ Fits16 c := by
  unfold encodeChecked
  rw [← fits16_iff]
  by_cases hf : fits16 c = true
  · simp [hf]
  · simp [hf]

end Yomm2.Props.C13
