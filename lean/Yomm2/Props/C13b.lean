import Yomm2.Props.C13
import Yomm2.Proofs.RoundTrip
/-!
# C13 — the encoded v-tables decode, in place, to the v-tables update built
-/
namespace Yomm2.Props.C13
open Yomm2 Yomm2.RoundTrip

/-- **the v-table part of the round trip**, for every compiled registry whose entries fit the 16-bit
    fields (`EntryGood`: group indices below 2^14, method indices below 2^14, cell indices and first
    slots below 2^15) and whatever the dispatch tables decoded to (`starts`): decoding the emitted
    structure in place — with the head room the encoder computed by replaying the decoder's two cursors —
    never reads a code that a decoded word has already overwritten, never writes outside `vtbls[D]`,
    and produces exactly the v-table entries in class order (function of the cell for uni-methods, table
    position for the first parameter of multi-methods, group index for later parameters), each class's
    v-table pointer being its first word biased by its first slot — including classes whose v-table does
    not start at slot 0 and classes with no entries -/
theorem C13_vtables_round_trip (c : Compiled) (cells : List Nat) (dt : List DWord) (starts : List (Option Nat))
    (hdt : decodeDtbls (msOf c) (encode c).dtbls = .ok (dt, starts))
    (hcells : cells.length = c.vtbl.length) (hnd : cells.Nodup)
    (hgood : ∀ row ∈ c.vtbl, ∀ e ∈ row, EntryGood c starts e)
    (hfirst : ∀ k, k < c.vtbl.length → c.slots.first.get k < stopBit) :
    ∃ d, decode (encode c) (msOf c) cells = .ok d ∧ d.vtbls = c.vtbl.flatten.map (toD c starts) ∧
      d.vptrs = vpsFrom c 0 c.vtbl 0 ∧ d.dtbls = dt :=
  decode_encode c cells dt starts hdt hcells hnd hgood hfirst

/-- the head room is what the replay of the cursors needs: after every entry the write cursor (in
    16-bit units) has not passed the read cursor -/
theorem C13_headroom_suffices (S : Nat) (row : List Entry) (a : Cur) (e : Entry) :
    4 * ((stepCur S a e).dec) ≤ (rowCur S row (stepCur S a e)).hr + S + (stepCur S a e).enc := by
  have h1 := rowCur_hr_le S row (stepCur S a e)
  have h2 : 4 * (stepCur S a e).dec - (S + (stepCur S a e).enc) ≤ (stepCur S a e).hr := by
    simp only [stepCur]; omega
  omega

end Yomm2.Props.C13
