import Yomm2.Model.World
/-!
# C05 — the type-id hash is perfect on registered ids; the checked variant rejects the rest

The fold invariant of one attempt of `hash_initialize` (per-class loop with its inner `break`, the
outer loop running on): when the attempt ends with `found`, every processed id sits in its own
bucket, the other buckets still hold the sentinel, and `hash_max` bounds every index seen.
The invariant holds for every index function `ix` (so for every multiplier and shift) and every
initial `hash_min` / `hash_max`.
-/
namespace Yomm2.Props.C05
open Yomm2

structure Inv (ix : UInt64 → Nat) (a : Att) (done : List UInt64) : Prop where
  nosent : ∀ t ∈ done, t ≠ sentinel
  stored : a.found = true → ∀ t ∈ done, a.buckets[ix t]? = some t
  others : a.found = true → ∀ j b, a.buckets[j]? = some b → b = sentinel ∨ (b ∈ done ∧ ix b = j)
  bound : ∀ t ∈ done, ix t ≤ a.mx

theorem classLoop_inv (ix : UInt64 → Nat)
    (a : Att) (done ts : List UInt64) (hs : ∀ t ∈ ts, t ≠ sentinel)
    (h : Inv ix a done) :
    ∃ done', (∀ t, t ∈ done' → t ∈ done ∨ t ∈ ts) ∧
      ((classLoop ix a ts).found = true → ∀ t, t ∈ done' ↔ (t ∈ done ∨ t ∈ ts)) ∧
      Inv ix (classLoop ix a ts) done' := by
  induction ts generalizing a done with
  | nil => exact ⟨done, by simp, by simp [classLoop], by simpa [classLoop] using h⟩
  | cons t ts ih =>
    simp only [classLoop]
    split
    · refine ⟨done, fun x hx => Or.inl hx, by simp, ?_⟩
      exact ⟨h.nosent, by simp, by simp,
        fun x hx => Nat.le_trans (h.bound x hx) (Nat.le_max_left _ _)⟩
    · rename_i b hb
      split
      · refine ⟨done, fun x hx => Or.inl hx, by simp, ?_⟩
        exact ⟨h.nosent, by simp, by simp,
          fun x hx => Nat.le_trans (h.bound x hx) (Nat.le_max_left _ _)⟩
      · rename_i hfree
        -- the bucket is free, or already holds this very id
        have hb' : b = sentinel ∨ b = t := by
          simp only [Bool.and_eq_true, bne_iff_ne, ne_eq, not_and, Decidable.not_not] at hfree
          by_cases hbs : b = sentinel
          · exact Or.inl hbs
          · exact Or.inr (hfree hbs)
        have htn : t ≠ sentinel := hs t (by simp)
        have hlt : ix t < a.buckets.size := (Array.getElem?_eq_some_iff.mp hb).1
        have hI : Inv ix { buckets := a.buckets.set! (ix t) t, found := a.found, mn := min a.mn (ix t), mx := max a.mx (ix t), fault := a.fault } (t :: done) := by
          refine ⟨?_, ?_, ?_, ?_⟩
          · intro x hx
            rcases List.mem_cons.mp hx with rfl | hx
            · exact htn
            · exact h.nosent x hx
          · intro hf x hx
            rcases List.mem_cons.mp hx with rfl | hx
            · simp [Array.set!, hlt]
            · have hxs := h.stored hf x hx
              by_cases hxe : ix t = ix x
              · -- same bucket: it held `x`, so `b = x`, hence `x = t`
                rw [← hxe, hb] at hxs
                have hbx : b = x := Option.some.inj hxs
                rcases hb' with hbs | hbt
                · exact absurd (hbx ▸ hbs) (h.nosent x hx)
                · have : x = t := by rw [← hbx, hbt]
                  subst this
                  simp [Array.set!, hlt]
              · simp [Array.set!, Array.getElem?_setIfInBounds_ne hxe, hxs]
          · intro hf j c hjc
            by_cases hj : ix t = j
            · subst hj
              simp only [Array.set!, Array.getElem?_setIfInBounds, hlt, if_true] at hjc
              cases hjc
              exact Or.inr ⟨by simp, rfl⟩
            · simp only [Array.set!, Array.getElem?_setIfInBounds_ne hj] at hjc
              rcases h.others hf j c hjc with hsn | ⟨hx, hxj⟩
              · exact Or.inl hsn
              · exact Or.inr ⟨by simp [hx], hxj⟩
          · intro x hx
            rcases List.mem_cons.mp hx with rfl | hx
            · exact Nat.le_max_right _ _
            · exact Nat.le_trans (h.bound x hx) (Nat.le_max_left _ _)
        obtain ⟨done', h1, h2, h3⟩ := ih _ (t :: done) (fun x hx => hs x (by simp [hx])) hI
        refine ⟨done', ?_, ?_, h3⟩
        · intro x hx
          rcases h1 x hx with hc | hc
          · rcases List.mem_cons.mp hc with rfl | hc
            · right; simp
            · left; exact hc
          · right; simp [hc]
        · intro hf x
          rw [h2 hf x]
          simp only [List.mem_cons]
          constructor
          · rintro ((rfl | h) | h)
            · right; left; rfl
            · left; exact h
            · right; right; exact h
          · rintro (h | rfl | h)
            · left; right; exact h
            · left; left; rfl
            · right; exact h

/-- the whole attempt: all classes -/
theorem attempt_inv (ix : UInt64 → Nat) (size mn mx : Nat) (classes : List (List UInt64))
    (hs : ∀ c ∈ classes, ∀ t ∈ c, t ≠ sentinel) :
    ∃ done, ((attempt ix size mn mx classes).found = true → ∀ t, t ∈ done ↔ ∃ c ∈ classes, t ∈ c) ∧
      Inv ix (attempt ix size mn mx classes) done := by
  unfold attempt
  suffices H : ∀ (cls : List (List UInt64)) (a : Att) (done : List UInt64),
      (∀ c ∈ cls, ∀ t ∈ c, t ≠ sentinel) → Inv ix a done →
      ∃ done', ((cls.foldl (classLoop ix) a).found = true → ∀ t, t ∈ done' ↔ (t ∈ done ∨ ∃ c ∈ cls, t ∈ c)) ∧
        Inv ix (cls.foldl (classLoop ix) a) done' by
    have h0 : Inv ix { buckets := Array.replicate size sentinel, found := true, mn := mn, mx := mx } [] := by
      refine ⟨by simp, by simp, ?_, by simp⟩
      intro _ j b hjb
      left
      simp only [Array.getElem?_replicate] at hjb
      split at hjb
      · exact (Option.some.inj hjb).symm
      · cases hjb
    obtain ⟨d, h1, h2⟩ := H classes { buckets := Array.replicate size sentinel, found := true, mn := mn, mx := mx } [] hs h0
    exact ⟨d, fun hf t => by simpa using h1 hf t, h2⟩
  intro cls
  induction cls with
  | nil => intro a done _ h; exact ⟨done, by simp, h⟩
  | cons c cs ih =>
    intro a done hs h
    obtain ⟨d1, _, k2, k3⟩ := classLoop_inv ix a done c (hs c (by simp)) h
    obtain ⟨d2, m1, m2⟩ := ih (classLoop ix a c) d1 (fun c' hc' => hs c' (by simp [hc'])) k3
    refine ⟨d2, ?_, m2⟩
    intro hf t
    simp only [List.foldl_cons] at hf
    -- `found` never goes back to true: if the final state is found, the intermediate one was
    have hmid : (classLoop ix a c).found = true := by
      cases hv : (classLoop ix a c).found with
      | true => rfl
      | false =>
      exfalso
      have hfalse : (classLoop ix a c).found = false := hv
      have : ∀ (l : List (List UInt64)) (b : Att), b.found = false → (l.foldl (classLoop ix) b).found = false := by
        intro l
        induction l with
        | nil => intro b hb; exact hb
        | cons x xs ihx =>
          intro b hb
          simp only [List.foldl_cons]
          apply ihx
          -- one class loop keeps `found = false`
          have : ∀ (ts : List UInt64) (b : Att), b.found = false → (classLoop ix b ts).found = false := by
            intro ts
            induction ts with
            | nil => intro b hb; exact hb
            | cons y ys ihy =>
              intro b hb
              simp only [classLoop]
              split
              · rfl
              · split
                · rfl
                · exact ihy _ hb
          exact this x b hb
      rw [this cs _ hfalse] at hf
      cases hf
    rw [m1 hf t, k2 hmid t]
    simp only [List.mem_cons, exists_eq_or_imp]
    constructor
    · rintro ((h | h) | h)
      · exact Or.inl h
      · exact Or.inr (Or.inl h)
      · exact Or.inr (Or.inr h)
    · rintro (h | h | h)
      · exact Or.inl (Or.inl h)
      · exact Or.inl (Or.inr h)
      · exact Or.inr h

/-- **a successful attempt is a perfect hash**: registered ids get distinct indices below
    `hash_max + 1`, and the bucket at each index holds the id itself -/
theorem found_is_perfect (ix : UInt64 → Nat) (size mn mx : Nat) (classes : List (List UInt64))
    (hs : ∀ c ∈ classes, ∀ t ∈ c, t ≠ sentinel)
    (hf : (attempt ix size mn mx classes).found = true) :
    let a := attempt ix size mn mx classes
    (∀ c ∈ classes, ∀ t ∈ c, ix t ≤ a.mx ∧ a.buckets[ix t]? = some t) ∧
    (∀ c ∈ classes, ∀ t ∈ c, ∀ c' ∈ classes, ∀ t' ∈ c', ix t = ix t' → t = t') := by
  obtain ⟨done, h1, h2⟩ := attempt_inv ix size mn mx classes hs
  have hmem := h1 hf
  constructor
  · intro c hc t ht
    have : t ∈ done := (hmem t).mpr ⟨c, hc, ht⟩
    exact ⟨h2.bound t this, h2.stored hf t this⟩
  · intro c hc t ht c' hc' t' ht' he
    have m1 : t ∈ done := (hmem t).mpr ⟨c, hc, ht⟩
    have m2 : t' ∈ done := (hmem t').mpr ⟨c', hc', ht'⟩
    have s1 := h2.stored hf t m1
    have s2 := h2.stored hf t' m2
    rw [he, s2] at s1
    exact (Option.some.inj s1).symm

/-- **the checked hash rejects unregistered ids**: an id accepted by `checked_perfect_hash::hash_type_id`
    is the id stored in the control table at its index -/
theorem checked_accepts_only_stored (st : HashSt) (control : Array UInt64) (id : UInt64) (i : Nat)
    (h : checkedIdx st control id = some i) :
    i = hashIdx st.mult st.shift id ∧ i < st.length ∧ control[i]? = some id := by
  unfold checkedIdx at h
  simp only at h
  split at h
  · cases h
  · rename_i hlt
    split at h
    · rename_i c hc
      split at h
      · rename_i hcid
        cases h
        exact ⟨rfl, Nat.lt_of_not_ge hlt, by rw [hc]; simp at hcid; rw [hcid]⟩
      · cases h
    · cases h

/-- after a successful attempt every bucket holds the sentinel or a registered id: an id that is
    neither registered nor the sentinel (`invalid_type`, reserved by the library) is not in the table -/
theorem unregistered_not_in_buckets (ix : UInt64 → Nat) (size mn mx : Nat) (classes : List (List UInt64))
    (hs : ∀ c ∈ classes, ∀ t ∈ c, t ≠ sentinel)
    (hf : (attempt ix size mn mx classes).found = true)
    (id : UInt64) (hid : id ≠ sentinel) (hunreg : ∀ c ∈ classes, id ∉ c) (j : Nat) :
    (attempt ix size mn mx classes).buckets[j]? ≠ some id := by
  obtain ⟨done, h1, h2⟩ := attempt_inv ix size mn mx classes hs
  intro hj
  rcases h2.others hf j id hj with h | ⟨h, _⟩
  · exact hid h
  · obtain ⟨c, hc, hm⟩ := (h1 hf id).mp h
    exact hunreg c hc hm

/-- a concrete successful attempt: two classes, three ids, modulo-8 buckets -/
example : (attempt (fun t => t.toNat % 8) 8 0 0 [[3, 12], [6]]).found = true := by decide

end Yomm2.Props.C05
