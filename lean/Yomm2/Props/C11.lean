import Yomm2.Model.Thunk
/-!
# C11 — definitions receive the caller's own arguments, correctly adjusted

PARTIAL by nature: the theorems cover the selection logic of the thunk (positional conversion, the
static / dynamic cast decision, the copy count); that the casts chosen adjust addresses correctly is
the C++ compiler's semantics and is observed per generated program (kind x shape x position x
non-virtual category).
-/
namespace Yomm2.Props.C11
open Yomm2

theorem parameter_i_from_argument_i {α β} (conv : Nat → α → β) (args : List α) (i : Nat) :
    (thunk conv args)[i]? = (args[i]?).map (conv i) := thunk_positional conv args i

theorem arity_preserved {α β} (conv : Nat → α → β) (args : List α) : (thunk conv args).length = args.length :=
  thunk_length conv args

/-- the cast chosen is defined on every object the dispatcher can deliver: `dynamic_cast` exactly when
    `static_cast` would be ill formed -/
theorem cast_choice (s : Shape) : requiresDynamicCast s = true ↔ s.hasVirtualEdge = true := Iff.rfl

theorem rvalues_never_copied (c : NvCat) : copiesOf c .prvalue = 0 ∧ copiesOf c .xvalue = 0 :=
  Yomm2.rvalues_never_copied c

theorem references_never_copied (a : ArgCat) : copiesOf .lref a = 0 ∧ copiesOf .rref a = 0 :=
  Yomm2.references_never_copied a

example : requiresDynamicCast .vdeep = true ∧ requiresDynamicCast .second = false := by decide

end Yomm2.Props.C11
