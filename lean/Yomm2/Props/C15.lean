import Yomm2.Model.World
/-!
# C15 — checked policies diagnose every use of an unregistered class
-/
namespace Yomm2.Props.C15
open Yomm2

/-- call time, reference route: under the checked hash an id the control table does not hold is
    reported as an unknown class carrying that id, before any table is read -/
theorem lookup_unknown (cfg : Cfg) (p : Pub) (id : Nat) (hc : cfg.hash = .checked) (hm : cfg.vptrMap = false)
    (h : checkedIdx p.hash p.control (UInt64.ofNat id) = none) :
    lookupVptr cfg p id = .error (.unknownClass id) := by
  unfold lookupVptr
  simp [hc, hm, h]

/-- `virtual_ptr` from a reference of another static type goes through the same lookup -/
theorem mkVPtr_unknown (s : PState) (id : Nat) (hc : s.cfg.hash = .checked) (hm : s.cfg.vptrMap = false)
    (hs : id ≠ s.staticId)
    (h : checkedIdx s.pub.hash s.pub.control (UInt64.ofNat id) = none) :
    s.mkVPtr id = .error (.unknownClass id) := by
  unfold PState.mkVPtr
  have : (id == s.staticId) = false := by simp [hs]
  simp only [this, Bool.false_and, Bool.false_eq_true, if_false]
  unfold lookupForVptr
  simp only [hm, Bool.false_eq_true, if_false]
  rw [lookup_unknown s.cfg s.pub id hc hm h]

/-- `virtual_ptr` of exactly the static type (the shortcut that takes the class's own v-table pointer
    cell) is checked as well (repair of D8) -/
theorem mkVPtr_exact_unknown (s : PState) (id : Nat) (hc : s.cfg.hash = .checked)
    (hs : id = s.staticId) (h0 : s.staticId ≠ 0)
    (h : checkedIdx s.pub.hash s.pub.control (UInt64.ofNat id) = none) :
    s.mkVPtr id = .error (.unknownClass id) := by
  unfold PState.mkVPtr
  have h1 : (id == s.staticId) = true := by simp [hs]
  have h2 : (s.staticId != 0) = true := by simp [h0]
  simp [h1, h2, hc, h]

/-- `final` with an object of another dynamic type is a method-table error carrying that type -/
theorem final_mismatch (s : PState) (id : Nat) (hc : s.cfg.hash = .checked) (hs : id ≠ s.staticId) :
    s.mkFinal id = .error (.methodTable id) := by
  unfold PState.mkFinal Cfg.checks
  simp [hc, hs]

/-- update time: an id used as a method or definition parameter that no class record registers makes
    `resolveIds` report it -/
theorem resolveIds_unknown (proj : Nat → Nat) (hs : List Head) (pre : List Nat) (id : Nat) (post : List Nat)
    (hpre : ∀ t ∈ pre, (classIdx hs (proj t)).isSome) (h : classIdx hs (proj id) = none) :
    resolveIds proj hs (pre ++ id :: post) = .error (.unknownClass id) := by
  induction pre with
  | nil => simp [resolveIds, h]
  | cons t ts ih =>
    have ht := hpre t (by simp)
    cases hc : classIdx hs (proj t) with
    | none => rw [hc] at ht; cases ht
    | some c =>
      simp only [List.cons_append, resolveIds, hc]
      rw [ih (fun x hx => hpre x (by simp [hx]))]
      rfl

/-- update time: a listed base that is not registered is reported by `buildGraph` -/
theorem buildGraph_unknown_base (proj : Nat → Nat) (recs : List ClassRec) (b : Nat)
    (h : firstUnknownBase proj (heads proj recs) recs = some b) :
    ∃ e, buildGraph proj recs = .error e ∧ e = .unknownClass b := by
  unfold buildGraph
  simp [h]

end Yomm2.Props.C15
