import Yomm2.Props.C08
import Yomm2.Props.C06b
/-!
# C08 / C07 — at the level of the model
-/
namespace Yomm2.Props.C08
open Yomm2 Yomm2.Spec Yomm2.GraphProofs

/-- **C08 at the level of the model**: two programs that describe the same inheritance relation —
    complete base lists, direct bases only, redundant lists, records split or merged, any order — and
    register the same definitions for a method make the same call do the same thing -/
theorem C08_call_presentation_independent (s₁ s₁' s₂ s₂' : PState) (mults₁ rest₁ mults₂ rest₂ : List UInt64)
    (hup₁ : s₁.update mults₁ = (s₁', .ok, rest₁)) (hup₂ : s₂.update mults₂ = (s₂', .ok, rest₂))
    (hproj : s₁.cfg.proj = s₂.cfg.proj)
    (hwf₁ : WF s₁.cfg.proj s₁.registry.classes s₁.registry.methods)
    (hwf₂ : WF s₂.cfg.proj s₂.registry.classes s₂.registry.methods)
    (hword₁ : ∀ r ∈ s₁.registry.classes, r.id < 2 ^ 64 - 1) (hword₂ : ∀ r ∈ s₂.registry.classes, r.id < 2 ^ 64 - 1)
    (hgraph : SameGraph s₁.cfg.proj s₁.registry s₂.registry)
    (c₁ c₂ : Compiled) (hc₁ : s₁'.compiled = some c₁) (hc₂ : s₂'.compiled = some c₂)
    (key mi₁ mi₂ : Nat) (m₁ m₂ : MethodC)
    (hfind₁ : (List.zipIdx c₁.methods).find? (fun e => e.1.key == key) = some (m₁, mi₁))
    (hfind₂ : (List.zipIdx c₂.methods).find? (fun e => e.1.key == key) = some (m₂, mi₂))
    (mr₁ mr₂ : MethodRec) (hmr₁ : s₁.registry.methods[mi₁]? = some mr₁) (hmr₂ : s₂.registry.methods[mi₂]? = some mr₂)
    (hdefs : mr₁.defs = mr₂.defs)
    (args : List (Kind × Nat)) (cs₁ cs₂ : List Nat)
    (hnm₁ : s₁.cfg.hash = .checked → ¬ s₁.cfg.vptrMap = true) (hnm₂ : s₂.cfg.hash = .checked → ¬ s₂.cfg.vptrMap = true)
    (hreg₁ : Forall₂ (fun (id ci : Nat) => id ∈ c₁.graph.ids ci) (Props.C01.virtIds args) cs₁)
    (hreg₂ : Forall₂ (fun (id ci : Nat) => id ∈ c₂.graph.ids ci) (Props.C01.virtIds args) cs₂)
    (hacc₁ : Forall₂ (fun cl v => cl ∈ c₁.graph.cov.get v) cs₁ m₁.vp)
    (hacc₂ : Forall₂ (fun cl v => cl ∈ c₂.graph.cov.get v) cs₂ m₂.vp)
    (hpos : 0 < m₁.vp.length) :
    s₁'.callWith key args .ref [] = s₂'.callWith key args .ref [] := by
  have hlen₁ : m₁.vp.length = (Props.C01.virtIds args).length := by
    rw [← forall₂_length hacc₁, ← forall₂_length hreg₁]
  have hlen₂ : m₂.vp.length = (Props.C01.virtIds args).length := by
    rw [← forall₂_length hacc₂, ← forall₂_length hreg₂]
  obtain ⟨mr₁', o₁, hm₁, hsel₁, hcall₁⟩ := Props.C01.C01_C02_call_after_update s₁ s₁' mults₁ rest₁ hup₁ hwf₁ hword₁ c₁ hc₁
    key mi₁ m₁ hfind₁ args cs₁ hnm₁ hreg₁ hacc₁ hpos
  obtain ⟨mr₂', o₂, hm₂, hsel₂, hcall₂⟩ := Props.C01.C01_C02_call_after_update s₂ s₂' mults₂ rest₂ hup₂ hwf₂ hword₂ c₂ hc₂
    key mi₂ m₂ hfind₂ args cs₂ hnm₂ hreg₂ hacc₂ (by omega)
  rw [hmr₁] at hm₁; cases hm₁
  rw [hmr₂] at hm₂; cases hm₂
  rw [← hproj, ← hdefs] at hsel₂
  have : o₁ = o₂ := Props.C01.spec_functional (Props.C06.ranked_of_wf (hproj ▸ hwf₂))
    (C08_selects_congr hgraph _ _ o₁ hsel₁) hsel₂
  rw [hcall₁, hcall₂, this, hlen₁, hlen₂]

end Yomm2.Props.C08

namespace Yomm2.Props.C07
open Yomm2 Yomm2.Spec Yomm2.GraphProofs

/-- **C07 at the level of the model**: whatever happened before — any history of registrations,
    removals, updates and calls, leaving any persistent tables, hash parameters, stale v-table
    pointers and epoch in the state `s` — after an `update` that succeeded, a call does what the
    specification prescribes for the registrations that are live *now*. (This is the end-to-end
    theorem of C01, read with `s` universally quantified: nothing about the history enters.) -/
theorem C07_after_any_history (s s' : PState) (mults rest : List UInt64)
    (hup : s.update mults = (s', .ok, rest))
    (hwf : WF s.cfg.proj s.registry.classes s.registry.methods)
    (hword : ∀ r ∈ s.registry.classes, r.id < 2 ^ 64 - 1)
    (c : Compiled) (hc : s'.compiled = some c)
    (key mi : Nat) (m : MethodC) (hfind : (List.zipIdx c.methods).find? (fun e => e.1.key == key) = some (m, mi))
    (args : List (Kind × Nat)) (cs : List Nat) (hnomap : s.cfg.hash = .checked → ¬ s.cfg.vptrMap = true)
    (hreg : Forall₂ (fun (id ci : Nat) => id ∈ c.graph.ids ci) (Props.C01.virtIds args) cs)
    (hacc : Forall₂ (fun cl v => cl ∈ c.graph.cov.get v) cs m.vp) (hpos : 0 < m.vp.length) :
    ∃ mr o, s.registry.methods[mi]? = some mr ∧
      Selects s.cfg.proj s.registry mr.defs ((Props.C01.virtIds args).map s.cfg.proj) o ∧
      s'.callWith key args .ref [] = Props.C01.expected m.vp.length args o :=
  Props.C01.C01_C02_call_after_update s s' mults rest hup hwf hword c hc key mi m hfind args cs hnomap hreg hacc hpos

end Yomm2.Props.C07
