import Yomm2.Props.C09b
/-!
# C09 — `virtual_ptr`s made earlier, at the outermost level of the model

A call may receive `virtual_ptr`s that were made before (kept in variables, copied). The general form of
the end-to-end theorem (`C01.call_after_update_stored`) covers them through `StoredFor`. Here: what the
constructors of an **indirect** policy make satisfies `StoredFor` whenever it was made — before or after
any number of updates — so such pointers dispatch, after every later successful `update`, exactly as the
specification prescribes for the registry of *that* update.
-/
namespace Yomm2.Props.C09
open Yomm2 Yomm2.Spec Yomm2.Heads Yomm2.GraphProofs Yomm2.Props.C01

/-- under an indirect policy the constructor from a reference stores the address of the class's cell -/
theorem mkVPtr_indirect_cell (s0 : PState) (hind : s0.cfg.indirect = true) (id : Nat) (v : VPtr)
    (h : s0.mkVPtr id = .ok v) : v.ref = .cell (s0.cfg.proj id) := by
  unfold PState.mkVPtr at h
  simp only [hind, if_true] at h
  split at h
  · split at h
    · cases h
    · cases h; rfl
  · split at h
    · cases h
    · split at h
      · cases h; rfl
      · cases h

/-- and so does `final`, which succeeds only for the static class -/
theorem mkFinal_indirect_cell (s0 : PState) (hind : s0.cfg.indirect = true) (hchecks : s0.cfg.checks = true)
    (id : Nat) (v : VPtr) (h : s0.mkFinal id = .ok v) : v.ref = .cell (s0.cfg.proj id) := by
  unfold PState.mkFinal at h
  simp only [hind, hchecks, if_true, Bool.true_and] at h
  split at h
  · cases h
  · split at h
    · cases h
    · rename_i h0 hne
      have : id = s0.staticId := by simpa using hne
      cases h; rw [this]

/-- **C09, pointers kept across updates (indirect policies).** Pointers made at any earlier time `s0` of
    the same policy — by the constructor from a reference, or by `final` in a build with run-time checks —
    for objects whose classes are registered at the latest update, passed to a call after that update
    (alone or mixed with arguments passed by reference and pointers made on the spot): the call does what
    the specification prescribes for the registry of the latest update. -/
theorem C09_kept_pointers_follow_updates (s s' : PState) (mults rest : List UInt64)
    (hup : s.update mults = (s', .ok, rest))
    (hwf : WF s.cfg.proj s.registry.classes s.registry.methods)
    (hword : ∀ r ∈ s.registry.classes, r.id < 2 ^ 64 - 1)
    (c : Compiled) (hc : s'.compiled = some c)
    (key mi : Nat) (m : MethodC) (hfind : (List.zipIdx c.methods).find? (fun e => e.1.key == key) = some (m, mi))
    (args : List (Kind × Nat)) (cs : List Nat)
    (hnomap : s.cfg.hash = .checked → ¬ s.cfg.vptrMap = true)
    (hreg : Forall₂ (fun (id ci : Nat) => id ∈ c.graph.ids ci) (virtIds args) cs)
    (hacc : Forall₂ (fun cl v => cl ∈ c.graph.cov.get v) cs m.vp) (hpos : 0 < m.vp.length)
    (hind : s.cfg.indirect = true)
    (pre : List (Nat × VPtr))
    (hpre : ∀ x ∈ pre, ∀ id, ((Kind.vptr, id), x.1) ∈ List.zipIdx args →
      ∃ s0 : PState, s0.cfg = s.cfg ∧ (s0.mkVPtr id = .ok x.2 ∨ (s0.cfg.checks = true ∧ s0.mkFinal id = .ok x.2))) :
    ∃ mr o, s.registry.methods[mi]? = some mr ∧
      Selects s.cfg.proj s.registry mr.defs ((virtIds args).map s.cfg.proj) o ∧
      s'.callWith key args .ref pre = expected m.vp.length args o := by
  obtain ⟨_, _, _, _, _, _, _, _, hcfg⟩ := update_ok s s' mults rest hup
  apply call_after_update_stored s s' mults rest hup hwf hword c hc key mi m hfind args cs hnomap hreg hacc hpos pre
  intro x hx id hm
  obtain ⟨s0, hcfg0, hmade⟩ := hpre x hx id hm
  left
  have hind0 : s0.cfg.indirect = true := by rw [hcfg0]; exact hind
  rcases hmade with h | ⟨hck, h⟩
  · rw [mkVPtr_indirect_cell s0 hind0 id x.2 h, hcfg0, hcfg]
  · rw [mkFinal_indirect_cell s0 hind0 hck id x.2 h, hcfg0, hcfg]

end Yomm2.Props.C09
