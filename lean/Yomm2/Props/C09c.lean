import Yomm2.Props.C09b
/-!
# C09 — `virtual_ptr`s made earlier, at the outermost level of the model

A call may receive `virtual_ptr`s that were made before (kept in variables, copied). The general form of
the end-to-end theorem (`C01.call_after_update_stored`) covers them through `StoredFor`. Here: what the
constructors of an **indirect** policy make satisfies `StoredFor` whenever it was made — before or after
any number of updates — so such pointers dispatch, after every later successful `update`, exactly as the
specification prescribes for the registry of *that* update.
-/
namespace Yomm2.Props.C09
open Yomm2 Yomm2.Spec Yomm2.Heads Yomm2.GraphProofs Yomm2.Props.C01

theorem forall₂_left_mem {α β} {R : α → β → Prop} {l₁ : List α} {l₂ : List β} (h : Forall₂ R l₁ l₂) :
    ∀ a ∈ l₁, ∃ b, R a b := by
  induction h with
  | nil => intro a ha; cases ha
  | cons hab _ ih =>
    intro a ha
    cases ha with
    | head => exact ⟨_, hab⟩
    | tail _ ha' => exact ih a ha'

/-- under an indirect policy the constructor from a reference stores the address of the class's cell -/
theorem mkVPtr_indirect_cell (s0 : PState) (hind : s0.cfg.indirect = true) (id : Nat) (v : VPtr)
    (h : s0.mkVPtr id = .ok v) : v.ref = .cell (s0.cfg.proj id) := by
  unfold PState.mkVPtr at h
  simp only [hind, if_true] at h
  split at h
  · split at h
    · cases h
    · cases h; rfl
  · split at h
    · cases h
    · split at h
      · cases h; rfl
      · cases h

/-- and so does `final`, which succeeds only for the static class -/
theorem mkFinal_indirect_cell (s0 : PState) (hind : s0.cfg.indirect = true) (hchecks : s0.cfg.checks = true)
    (id : Nat) (v : VPtr) (h : s0.mkFinal id = .ok v) : v.ref = .cell (s0.cfg.proj id) := by
  unfold PState.mkFinal at h
  simp only [hind, hchecks, if_true, Bool.true_and] at h
  split at h
  · cases h
  · split at h
    · cases h
    · rename_i h0 hne
      have : id = s0.staticId := by simpa using hne
      cases h; rw [this]

/-- **C09, pointers kept across updates (indirect policies).** Pointers made at any earlier time `s0` of
    the same policy — by the constructor from a reference, or by `final` in a build with run-time checks —
    for objects whose classes are registered at the latest update, passed to a call after that update
    (alone or mixed with arguments passed by reference and pointers made on the spot): the call does what
    the specification prescribes for the registry of the latest update. -/
theorem C09_kept_pointers_follow_updates (s s' : PState) (mults rest : List UInt64)
    (hup : s.update mults = (s', .ok, rest))
    (hwf : WF s.cfg.proj s.registry.classes s.registry.methods)
    (hword : ∀ r ∈ s.registry.classes, r.id < 2 ^ 64 - 1)
    (c : Compiled) (hc : s'.compiled = some c)
    (key mi : Nat) (m : MethodC) (hfind : (List.zipIdx c.methods).find? (fun e => e.1.key == key) = some (m, mi))
    (args : List (Kind × Nat)) (cs : List Nat)
    (hnomap : s.cfg.hash = .checked → ¬ s.cfg.vptrMap = true)
    (hreg : Forall₂ (fun (id ci : Nat) => id ∈ c.graph.ids ci) (virtIds args) cs)
    (hacc : Forall₂ (fun cl v => cl ∈ c.graph.cov.get v) cs m.vp) (hpos : 0 < m.vp.length)
    (hind : s.cfg.indirect = true)
    (pre : List (Nat × VPtr))
    (hpre : ∀ x ∈ pre, ∀ id, ((Kind.vptr, id), x.1) ∈ List.zipIdx args →
      ∃ s0 : PState, s0.cfg = s.cfg ∧ (s0.mkVPtr id = .ok x.2 ∨ (s0.cfg.checks = true ∧ s0.mkFinal id = .ok x.2))) :
    ∃ mr o, s.registry.methods[mi]? = some mr ∧
      Selects s.cfg.proj s.registry mr.defs ((virtIds args).map s.cfg.proj) o ∧
      s'.callWith key args .ref pre = expected m.vp.length args o := by
  obtain ⟨_, _, _, _, _, _, _, _, hcfg⟩ := update_ok s s' mults rest hup
  apply call_after_update_stored s s' mults rest hup hwf hword c hc key mi m hfind args cs hnomap hreg hacc hpos pre
  intro x hx id hm
  obtain ⟨s0, hcfg0, hmade⟩ := hpre x hx id hm
  left
  have hind0 : s0.cfg.indirect = true := by rw [hcfg0]; exact hind
  rcases hmade with h | ⟨hck, h⟩
  · rw [mkVPtr_indirect_cell s0 hind0 id x.2 h, hcfg0, hcfg]
  · rw [mkFinal_indirect_cell s0 hind0 hck id x.2 h, hcfg0, hcfg]

/-- what the constructor from a reference makes after an `update`, for an object of a registered class,
    under any policy: a pointer that may be kept and passed to calls until the next update -/
theorem mkVPtr_current (s s' : PState) (mults rest : List UInt64)
    (hup : s.update mults = (s', .ok, rest))
    (hwf : WF s.cfg.proj s.registry.classes s.registry.methods)
    (hword : ∀ r ∈ s.registry.classes, r.id < 2 ^ 64 - 1)
    (c : Compiled) (hc : s'.compiled = some c)
    (hnomap : s.cfg.hash = .checked → ¬ s.cfg.vptrMap = true)
    (id ci : Nat) (hid : id ∈ c.graph.ids ci) :
    ∃ v, s'.mkVPtr id = .ok v ∧ StoredFor s' c v id := by
  obtain ⟨_, _, _, _, _, _, _, _, hcfg⟩ := update_ok s s' mults rest hup
  obtain ⟨_, hlook, hcell⟩ := registered_ids_published s s' mults rest hup hwf hword c hc id ci hid
  have hfv := lookupForVptr_of_lookup _ _ _ _ hlook
  unfold PState.mkVPtr
  by_cases hst : (id == s'.staticId && s'.staticId != 0) = true
  · rw [if_pos hst]
    have hpass : s'.cfg.hash = .checked → ∃ i, checkedIdx s'.pub.hash s'.pub.control (UInt64.ofNat id) = some i := by
      intro hck
      have hl' := hlook
      unfold lookupVptr at hl'
      have hm : ¬ s'.cfg.vptrMap = true := by rw [hcfg] at hck ⊢; exact hnomap hck
      simp only [hm, Bool.false_eq_true, if_false, hck] at hl'
      cases hcx : checkedIdx s'.pub.hash s'.pub.control (UInt64.ofNat id) with
      | some i => exact ⟨i, rfl⟩
      | none => simp [hcx] at hl'
    have hshape : ∀ (chk : Except CallErr Unit), chk = .ok () →
        ∃ v, (match chk with
          | .error e => (.error e : Except CallErr VPtr)
          | .ok _ => if s'.cfg.indirect then .ok { obj := id, ref := .cell (s'.cfg.proj id) }
              else .ok { obj := id, ref := .direct (s'.cellSlot (s'.cfg.proj id)) s'.epoch }) = .ok v ∧ StoredFor s' c v id := by
      intro chk hchk
      subst hchk
      by_cases hind : s'.cfg.indirect = true
      · simp only [hind, if_true]
        exact ⟨_, rfl, Or.inl rfl⟩
      · simp only [hind, Bool.false_eq_true, if_false]
        refine ⟨_, rfl, Or.inr ⟨ci, hid, ?_⟩⟩
        simp only [PState.cellSlot, hc, hcell]
    apply hshape
    by_cases hck : s'.cfg.hash = .checked
    · obtain ⟨i, hi⟩ := hpass hck
      simp only [hck, beq_self_eq_true, if_true, hi]
    · have hck' : (s'.cfg.hash == HashKind.checked) = false := by simpa using hck
      simp only [hck', Bool.false_eq_true, if_false]
  · have hst' : (id == s'.staticId && s'.staticId != 0) = false := by simpa using hst
    simp only [hst', Bool.false_eq_true, if_false, hfv]
    by_cases hind : s'.cfg.indirect = true
    · simp only [hind, if_true]
      exact ⟨_, rfl, Or.inl rfl⟩
    · simp only [hind, Bool.false_eq_true, if_false]
      exact ⟨_, rfl, Or.inr ⟨ci, hid, rfl⟩⟩

/-- **C09, pointers made since the latest update (every policy).** `virtual_ptr`s made after the update
    by the constructor from a reference, kept (copied, stored) and passed to a call before the next
    update: the call does what the specification prescribes — what the same call with plain references
    does. -/
theorem C09_kept_pointers_until_next_update (s s' : PState) (mults rest : List UInt64)
    (hup : s.update mults = (s', .ok, rest))
    (hwf : WF s.cfg.proj s.registry.classes s.registry.methods)
    (hword : ∀ r ∈ s.registry.classes, r.id < 2 ^ 64 - 1)
    (c : Compiled) (hc : s'.compiled = some c)
    (key mi : Nat) (m : MethodC) (hfind : (List.zipIdx c.methods).find? (fun e => e.1.key == key) = some (m, mi))
    (args : List (Kind × Nat)) (cs : List Nat)
    (hnomap : s.cfg.hash = .checked → ¬ s.cfg.vptrMap = true)
    (hreg : Forall₂ (fun (id ci : Nat) => id ∈ c.graph.ids ci) (virtIds args) cs)
    (hacc : Forall₂ (fun cl v => cl ∈ c.graph.cov.get v) cs m.vp) (hpos : 0 < m.vp.length)
    (pre : List (Nat × VPtr))
    (hpre : ∀ x ∈ pre, ∀ id, ((Kind.vptr, id), x.1) ∈ List.zipIdx args → s'.mkVPtr id = .ok x.2) :
    ∃ mr o, s.registry.methods[mi]? = some mr ∧
      Selects s.cfg.proj s.registry mr.defs ((virtIds args).map s.cfg.proj) o ∧
      s'.callWith key args .ref pre = expected m.vp.length args o := by
  apply call_after_update_stored s s' mults rest hup hwf hword c hc key mi m hfind args cs hnomap hreg hacc hpos pre
  intro x hx id hm
  -- the argument at that position is one of the virtual ones: its class is registered
  have hv : id ∈ virtIds args := by
    have hmem : (Kind.vptr, id) ∈ args := by
      have := List.mem_zipIdx_iff_getElem?.mp hm
      exact List.mem_of_getElem? (by simpa using this)
    exact List.mem_map.mpr ⟨(Kind.vptr, id), List.mem_filter.mpr ⟨hmem, rfl⟩, rfl⟩
  obtain ⟨ci, hci⟩ := forall₂_left_mem hreg id hv
  obtain ⟨v, hv', hst⟩ := mkVPtr_current s s' mults rest hup hwf hword c hc hnomap id ci hci
  rw [hpre x hx id hm] at hv'
  cases hv'
  exact hst

end Yomm2.Props.C09
