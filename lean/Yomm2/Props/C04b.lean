import Yomm2.Props.C04
import Yomm2.Proofs.InstallTotal
import Yomm2.Proofs.CompileSlots
import Yomm2.Proofs.InstallSize
/-!
# C04 — the cells of a class's v-table are exclusive, hold what the walk expects, and lie in range
-/
namespace Yomm2.Props.C04
open Yomm2 Yomm2.GraphProofs

/-- **no other pair applicable to the same class shares the cell**: after `update` on any registry
    without inheritance cycles — trees, diamonds, several roots, classes with many bases, any
    presentation of the base lists — two different (method, virtual parameter) pairs whose parameter
    classes both cover a class never share a slot -/
theorem C04_cells_exclusive (proj : Nat → Nat) (reg : Registry) (c : Compiled)
    (hc : compile proj reg = .ok c) (hwf : WF proj reg.classes reg.methods) : VtblContent.SlotsExclusive c :=
  CompileSlots.compile_slots_exclusive proj reg c hc hwf

/-- **the class's v-table holds a cell reserved for exactly that pair**: at the method's slot for the
    parameter (relative to the class's first slot, inside the v-table) it holds the entry (method,
    parameter, group of the class), whatever else `update` wrote -/
theorem C04_cell_holds_entry (proj : Nat → Nat) (reg : Registry) (c : Compiled) (hc : compile proj reg = .ok c)
    (hwf : WF proj reg.classes reg.methods) (mi : Nat) (m : MethodC) (hm : c.methods[mi]? = some m)
    (p v ci gi : Nat) (hv : m.vp[p]? = some v) (hloc : Cells.Located c.graph m p v ci gi) :
    ∃ row, c.vtbl[ci]? = some row ∧ c.slots.first.get ci ≤ c.slots.slots (mi, p) ∧
      row[c.slots.slots (mi, p) - c.slots.first.get ci]? = some ⟨mi, p, gi⟩ :=
  CompileSlots.vtbl_entry proj reg c hc hwf mi m hm p v ci gi hv hloc

/-- **every slot lies inside the v-table of every class it can be read through**: first slot ≤ slot <
    first slot + size, for trees (windows stacked along the chain of ancestors) and lattices (the
    v-table spans the first to the last bit set) -/
theorem C04_slot_inside_vtable {g : Graph} (ms : List MethodC) (hg : GraphFacts.Good g) (mp : Nat × Nat) (v ci : Nat)
    (hv : UsedBy.paramClass ms mp = some v) (hvn : v < g.n) (hci : ci ∈ g.cov.get v) :
    (assignSlots g ms).first.get ci ≤ (assignSlots g ms).slots mp ∧
    (assignSlots g ms).slots mp - (assignSlots g ms).first.get ci < (assignSlots g ms).vsize.get ci :=
  CompileTotal.slot_in_range ms hg mp v ci hv hvn hci

/-- **`update` itself never writes or reads outside its tables**: on a registry without inheritance
    cycles `compile` and `install` (whose every out-of-range access is a fault in the model) succeed,
    or `compile` stops for a documented reason (unknown class; a definition of the wrong arity) -/
theorem C04_update_stays_in_bounds (proj : Nat → Nat) (reg : Registry) (hwf : WF proj reg.classes reg.methods) :
    (∃ c inst, compile proj reg = .ok c ∧ install c = .ok inst) ∨
      ∃ e, compile proj reg = .error e ∧ CompileTotal.Documented e :=
  InstallTotal.compile_install_total proj reg hwf

/-- **every address a call reads lies inside the policy's dispatch data as sized by that update**: a
    read that succeeds is below the number of words written, which is at most `dispatch_data.size()`;
    any other read is a fault, and `C01_update_then_call` shows that the walk of a legal call returns a
    function word, so none of its reads is one -/
theorem C04_reads_inside_dispatch_data (c : Compiled) (inst : Installed) (hinst : install c = .ok inst)
    (i : Int) (w : Word) (h : readWord inst i = .ok w) : 0 ≤ i ∧ i.toNat < inst.dataSize := by
  obtain ⟨h0, h1, _⟩ := read_in_bounds inst i w h
  exact ⟨h0, Nat.lt_of_lt_of_le h1 (InstallSize.install_size c inst hinst)⟩

end Yomm2.Props.C04
