import Yomm2.Proofs.SrcCompare
import Yomm2.Proofs.Specificity
/-!
# C03: the candidates for `next`, for the text of `compiler.hpp`

`next` of a definition is `best` of the definitions that `compiler<Policy>::is_base` accepts as strictly more
general. For the body of `is_base` as clang parsed it from the header on this run: it returns exactly "at every
virtual position `a`'s class is `b`'s or a base of it, and at some position they differ".
-/
namespace Yomm2.Props.C03src
open Yomm2 Yomm2.Sel Yomm2.Generated Yomm2.Spec

theorem is_base_source_is_model (der : Nat → Nat → Bool) (a b : List Nat) (h : a.length = b.length) :
    run der (a.length + 1) CompareSrc.is_base a b = .returned (isBase der a b) :=
  Proofs.SrcCompare.is_base_src der a b (Nat.le_of_eq h) _ (Nat.lt_succ_self _)

/-- **the text of `is_base` decides "strictly more general"** -/
theorem C03_source_candidates_are_the_strictly_more_general (der : Nat → Nat → Bool) (a b : List Nat)
    (h : a.length = b.length) :
    run der (a.length + 1) CompareSrc.is_base a b =
      .returned (all₂ (fun x y => x == y || der y x) a b && any₂ (fun x y => x != y) a b) := by
  rw [is_base_source_is_model der a b h, Specificity.isBase_eq der a b h]

example : run (fun x y => x == y || y == 0) 3 CompareSrc.is_base [0, 2] [1, 2] = .returned true := by
  have h := is_base_source_is_model (fun x y => x == y || y == 0) [0, 2] [1, 2] rfl
  rw [show [0, 2].length + 1 = 3 from rfl] at h
  rw [h]; congr 1

end Yomm2.Props.C03src
