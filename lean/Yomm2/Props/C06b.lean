import Yomm2.Props.C06
import Yomm2.Props.C01c
/-!
# C06 — at the level of the model: the order of registration does not change what a call does
-/
namespace Yomm2.Props.C06
open Yomm2 Yomm2.Spec Yomm2.GraphProofs

theorem selects_ran_perm {proj} {reg reg' : Registry} {defs defs' : List DefRec} {args : List Nat}
    (hc : ∀ r, r ∈ reg.classes ↔ r ∈ reg'.classes) (hd : ∀ d, d ∈ defs ↔ d ∈ defs')
    (hnd : defs.Nodup) (hnd' : defs'.Nodup) (d : Nat) :
    Selects proj reg defs args (.ran d) → Selects proj reg' defs' args (.ran d) := by
  rintro ⟨i, df, hi, hid, hap, hms⟩
  have h1 : SelectsRan proj reg defs args df := (selects_ran_iff hnd df).mpr ⟨i, hi, hap, hms⟩
  obtain ⟨i', hi', hap', hms'⟩ := (selects_ran_iff hnd' df).mp (C06_selected_perm hc hd df h1)
  exact ⟨i', df, hi', hid, hap', hms'⟩

/-- the whole outcome — selected definition, not implemented, ambiguous — is independent of the order
    of the class records and of the definitions -/
theorem C06_outcome_perm {proj} {reg reg' : Registry} {defs defs' : List DefRec} {args : List Nat}
    (hr : Ranked proj reg reg.classes.length) (hr' : Ranked proj reg' reg'.classes.length)
    (hc : ∀ r, r ∈ reg.classes ↔ r ∈ reg'.classes) (hd : ∀ d, d ∈ defs ↔ d ∈ defs')
    (hnd : defs.Nodup) (hnd' : defs'.Nodup) (o o' : Outcome)
    (h : Selects proj reg defs args o) (h' : Selects proj reg' defs' args o') : o = o' := by
  have hc' : ∀ r, r ∈ reg'.classes ↔ r ∈ reg.classes := fun r => (hc r).symm
  have hd' : ∀ d, d ∈ defs' ↔ d ∈ defs := fun d => (hd d).symm
  cases o with
  | ran d => exact Props.C01.spec_functional hr' (selects_ran_perm hc hd hnd hnd' d h) h'
  | notImplemented => exact Props.C01.spec_functional hr' (C06_not_implemented_perm hc hd h) h'
  | ambiguous =>
    cases o' with
    | ambiguous => rfl
    | ran d => exact Props.C01.spec_functional hr h (selects_ran_perm hc' hd' hnd' hnd d h')
    | notImplemented => exact Props.C01.spec_functional hr h (C06_not_implemented_perm hc' hd' h')

theorem ranked_of_wf {proj : Nat → Nat} {reg : Registry} (h : WF proj reg.classes reg.methods) :
    Ranked proj reg reg.classes.length := by
  cases reg with
  | mk cl ms => exact h

/-- **C06 at the level of the model**: two programs whose class records and definitions differ only in
    the order of registration (and of the methods: the method is found by its key) make the same call
    do the same thing — run the same definition or raise the same error -/
theorem C06_call_order_independent (s₁ s₁' s₂ s₂' : PState) (mults₁ rest₁ mults₂ rest₂ : List UInt64)
    (hup₁ : s₁.update mults₁ = (s₁', .ok, rest₁)) (hup₂ : s₂.update mults₂ = (s₂', .ok, rest₂))
    (hproj : s₁.cfg.proj = s₂.cfg.proj)
    (hwf₁ : WF s₁.cfg.proj s₁.registry.classes s₁.registry.methods)
    (hwf₂ : WF s₂.cfg.proj s₂.registry.classes s₂.registry.methods)
    (hword₁ : ∀ r ∈ s₁.registry.classes, r.id < 2 ^ 64 - 1) (hword₂ : ∀ r ∈ s₂.registry.classes, r.id < 2 ^ 64 - 1)
    (hclasses : ∀ r, r ∈ s₁.registry.classes ↔ r ∈ s₂.registry.classes)
    (c₁ c₂ : Compiled) (hc₁ : s₁'.compiled = some c₁) (hc₂ : s₂'.compiled = some c₂)
    (key mi₁ mi₂ : Nat) (m₁ m₂ : MethodC)
    (hfind₁ : (List.zipIdx c₁.methods).find? (fun e => e.1.key == key) = some (m₁, mi₁))
    (hfind₂ : (List.zipIdx c₂.methods).find? (fun e => e.1.key == key) = some (m₂, mi₂))
    (mr₁ mr₂ : MethodRec) (hmr₁ : s₁.registry.methods[mi₁]? = some mr₁) (hmr₂ : s₂.registry.methods[mi₂]? = some mr₂)
    (hdefs : ∀ d, d ∈ mr₁.defs ↔ d ∈ mr₂.defs) (hnd₁ : mr₁.defs.Nodup) (hnd₂ : mr₂.defs.Nodup)
    (args : List (Kind × Nat)) (cs₁ cs₂ : List Nat)
    (hnm₁ : s₁.cfg.hash = .checked → ¬ s₁.cfg.vptrMap = true) (hnm₂ : s₂.cfg.hash = .checked → ¬ s₂.cfg.vptrMap = true)
    (hreg₁ : Forall₂ (fun (id ci : Nat) => id ∈ c₁.graph.ids ci) (Props.C01.virtIds args) cs₁)
    (hreg₂ : Forall₂ (fun (id ci : Nat) => id ∈ c₂.graph.ids ci) (Props.C01.virtIds args) cs₂)
    (hacc₁ : Forall₂ (fun cl v => cl ∈ c₁.graph.cov.get v) cs₁ m₁.vp)
    (hacc₂ : Forall₂ (fun cl v => cl ∈ c₂.graph.cov.get v) cs₂ m₂.vp)
    (hpos : 0 < m₁.vp.length) :
    s₁'.callWith key args .ref [] = s₂'.callWith key args .ref [] := by
  have hlen₁ : m₁.vp.length = (Props.C01.virtIds args).length := by
    rw [← forall₂_length hacc₁, ← forall₂_length hreg₁]
  have hlen₂ : m₂.vp.length = (Props.C01.virtIds args).length := by
    rw [← forall₂_length hacc₂, ← forall₂_length hreg₂]
  obtain ⟨mr₁', o₁, hm₁, hsel₁, hcall₁⟩ := Props.C01.C01_C02_call_after_update s₁ s₁' mults₁ rest₁ hup₁ hwf₁ hword₁ c₁ hc₁
    key mi₁ m₁ hfind₁ args cs₁ hnm₁ hreg₁ hacc₁ hpos
  obtain ⟨mr₂', o₂, hm₂, hsel₂, hcall₂⟩ := Props.C01.C01_C02_call_after_update s₂ s₂' mults₂ rest₂ hup₂ hwf₂ hword₂ c₂ hc₂
    key mi₂ m₂ hfind₂ args cs₂ hnm₂ hreg₂ hacc₂ (by omega)
  rw [hmr₁] at hm₁; cases hm₁
  rw [hmr₂] at hm₂; cases hm₂
  rw [← hproj] at hsel₂
  have : o₁ = o₂ := C06_outcome_perm (ranked_of_wf hwf₁) (ranked_of_wf (hproj ▸ hwf₂)) hclasses hdefs hnd₁ hnd₂ o₁ o₂ hsel₁ hsel₂
  rw [hcall₁, hcall₂, this, hlen₁, hlen₂]

end Yomm2.Props.C06
