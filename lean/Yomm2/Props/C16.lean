import Yomm2.Model.Multi
import Yomm2.Props.C14
import Yomm2.Generated.CallPath
/-!
# C16 — concurrent calls are race-free and give the sequential answers

Two parts. (1) *What the call path does to memory* is re-extracted from clang's AST of the
instantiated functions on every run (`Generated/CallPath.lean`); the obligation `callpath_effects_allowed`
says every side effect found there targets a local variable, the object the function runs on
(a `virtual_ptr` under construction, owned by its thread) or is `vptrs[id]` on the map — which inserts
only for an unregistered id. A counter, cache or lazily initialised static added to the call path makes
this obligation fail. (2) *Any interleaving*: in the model a call reads the state of its policy and
nothing else changes that state while other threads call or update another policy.
-/
namespace Yomm2.Props.C16
open Yomm2

def allowedKind (k : String) : Bool := k == "local" || k == "this" || k == "insert"

/-- every write found in the instantiated call path is thread-local (re-checked on every run) -/
theorem callpath_effects_allowed : Generated.callPathEffects.all (fun e => allowedKind e.2.1) = true := by
  decide

/-- the extraction did see the functions of the call path (a guard against an empty table) -/
theorem callpath_functions_seen :
    ["resolve", "resolve_uni", "resolve_multi_first", "resolve_multi_next", "operator()", "dynamic_vptr",
     "hash_type_id", "virtual_ptr", "_vptr", "final", "dynamic_type"].all
      (fun f => Generated.callPathFunctions.contains f) = true := by
  decide

/-! ## abstract accesses: reads of shared state never conflict -/

structure Access where
  thread : Nat
  loc : Nat
  write : Bool
deriving DecidableEq, Repr

def Conflict (a b : Access) : Prop := a.thread ≠ b.thread ∧ a.loc = b.loc ∧ (a.write = true ∨ b.write = true)

/-- `owner loc = some t`: a location only thread `t` touches (its stack, the objects it created) -/
def WellBehaved (owner : Nat → Option Nat) (a : Access) : Prop :=
  (a.write = true → owner a.loc = some a.thread) ∧ (∀ t, owner a.loc = some t → a.thread = t)

/-- in any multiset of accesses that are reads of shared locations or accesses to thread-owned
    locations, no two conflict — whatever the order in which a scheduler interleaves them -/
theorem no_conflict (owner : Nat → Option Nat) (accs : List Access) (h : ∀ a ∈ accs, WellBehaved owner a) :
    ∀ a ∈ accs, ∀ b ∈ accs, ¬ Conflict a b := by
  intro a ha b hb ⟨hne, hloc, hw⟩
  have wa := h a ha
  have wb := h b hb
  rcases hw with hw | hw
  · have ho := wa.1 hw
    have := wb.2 a.thread (by rw [← hloc]; exact ho)
    exact hne this.symm
  · have ho := wb.1 hw
    have := wa.2 b.thread (by rw [hloc]; exact ho)
    exact hne this

/-! ## any schedule gives the sequential answers -/

/-- what the threads do: calls on policy `k`, and updates (or any other operation) of other policies -/
inductive SOp
  | call (thread : Nat) (key : Nat) (args : List (Kind × Nat))
  | other (thread : Nat) (k' : String) (op : POp)

/-- run a schedule (an arbitrary interleaving of the threads' operations) on the world, collecting
    the result of every call on policy `k` -/
def runSched (k : String) : World → List SOp → List (Nat × Option CallOut)
  | _, [] => []
  | w, .call t key args :: rest => (t, (w.get k).map (fun s => s.call key args)) :: runSched k w rest
  | w, .other _ k' op :: rest => runSched k (w.apply k' op) rest

/-- the same calls answered by the initial state, one after the other -/
def sequential (k : String) (w : World) : List SOp → List (Nat × Option CallOut)
  | [] => []
  | .call t key args :: rest => (t, (w.get k).map (fun s => s.call key args)) :: sequential k w rest
  | .other _ _ _ :: rest => sequential k w rest

/-- **C16**: for every schedule in which other threads only operate on other policies, every call
    returns what it returns single-threaded -/
theorem C16_any_schedule (k : String) : ∀ (w : World) (sched : List SOp),
    (∀ t k' op, SOp.other t k' op ∈ sched → k' ≠ k) → runSched k w sched = sequential k w sched
  | _, [], _ => rfl
  | w, .call t key args :: rest, h => by
    simp only [runSched, sequential]
    rw [C16_any_schedule k w rest (fun t k' op hm => h t k' op (by simp [hm]))]
  | w, .other t k' op :: rest, h => by
    simp only [runSched, sequential]
    have hk : k' ≠ k := h t k' op (by simp)
    rw [C16_any_schedule k (w.apply k' op) rest (fun t k'' op' hm => h t k'' op' (by simp [hm]))]
    -- the other policy's operation is invisible to `k` (C14.frame)
    have hframe : (w.apply k' op).get k = w.get k := C14.frame w k' k op (fun e => hk e.symm)
    clear h
    induction rest with
    | nil => rfl
    | cons o os ih =>
      cases o with
      | call t2 key2 args2 => simp only [sequential, hframe, ih]
      | other t2 k2 op2 => simp only [sequential, ih]

/-- per-thread view: the results a thread sees are those of its own calls in program order -/
theorem per_thread (k : String) (w : World) (sched : List SOp) (t : Nat)
    (h : ∀ t k' op, SOp.other t k' op ∈ sched → k' ≠ k) :
    (runSched k w sched).filter (fun r => r.1 == t) = (sequential k w sched).filter (fun r => r.1 == t) := by
  rw [C16_any_schedule k w sched h]

end Yomm2.Props.C16
