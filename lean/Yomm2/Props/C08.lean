import Yomm2.Props.C06
import Yomm2.Proofs.Graph
/-!
# C08 — inheritance is inferred correctly however registrations are split

Two presentations of the same inheritance graph (complete base lists, direct bases only, redundant or
duplicated entries, several records per class) have the same `Derives` relation; everything the
specification says about calls and `next` depends on the registry through `Derives` only.
-/
namespace Yomm2.Props.C08
open Yomm2 Yomm2.Spec Yomm2.Props.C06

/-- two presentations describe the same inheritance graph -/
def SameGraph (proj : Nat → Nat) (r₁ r₂ : Registry) : Prop :=
  ∀ a b, Derives proj r₁ a b ↔ Derives proj r₂ a b

theorem applicable_congr {proj} {r₁ r₂ : Registry} (h : SameGraph proj r₁ r₂) (d : DefRec) (args : List Nat) :
    Applicable proj r₁ d args ↔ Applicable proj r₂ d args :=
  ⟨forall₂_imp (fun a b => (h a (proj b)).mp), forall₂_imp (fun a b => (h a (proj b)).mpr)⟩

theorem moreSpecific_congr {proj} {r₁ r₂ : Registry} (h : SameGraph proj r₁ r₂) (d e : DefRec) :
    MoreSpecific proj r₁ d e → MoreSpecific proj r₂ d e := by
  rintro ⟨h1, i, dp, ep, hd, he, hp⟩
  refine ⟨forall₂_imp (fun a b hn hpd => hn ⟨(h _ _).mpr hpd.1, hpd.2⟩) h1, i, dp, ep, hd, he,
    ⟨(h _ _).mp hp.1, hp.2⟩⟩

theorem sameGraph_symm {proj} {r₁ r₂ : Registry} (h : SameGraph proj r₁ r₂) : SameGraph proj r₂ r₁ :=
  fun a b => (h a b).symm

/-- **C08 (specification level)**: every outcome of every call is the same under both presentations -/
theorem C08_selects_congr {proj} {r₁ r₂ : Registry} (h : SameGraph proj r₁ r₂) (defs : List DefRec)
    (args : List Nat) (o : Outcome) : Selects proj r₁ defs args o → Selects proj r₂ defs args o := by
  intro hs
  cases o with
  | ran d =>
    obtain ⟨i, df, hi, hid, hap, hdom⟩ := hs
    exact ⟨i, df, hi, hid, (applicable_congr h df args).mp hap,
      fun j e hj hne hape => moreSpecific_congr h df e (hdom j e hj hne ((applicable_congr h e args).mpr hape))⟩
  | notImplemented =>
    intro e he hap
    exact hs e he ((applicable_congr h e args).mpr hap)
  | ambiguous =>
    obtain ⟨⟨e, he, hap⟩, hall⟩ := hs
    refine ⟨⟨e, he, (applicable_congr h e args).mp hap⟩, ?_⟩
    intro i df hi hapd
    obtain ⟨j, e', hj, hne, hape, hnot⟩ := hall i df hi ((applicable_congr h df args).mpr hapd)
    exact ⟨j, e', hj, hne, (applicable_congr h e' args).mp hape,
      fun hms => hnot (moreSpecific_congr (sameGraph_symm h) df e' hms)⟩

/-- and so is the candidate set of `next` -/
theorem C08_moreGeneral_congr {proj} {r₁ r₂ : Registry} (h : SameGraph proj r₁ r₂) (e d : DefRec) :
    MoreGeneral proj r₁ e d ↔ MoreGeneral proj r₂ e d := by
  unfold MoreGeneral
  constructor
  · rintro ⟨h1, h2⟩; exact ⟨forall₂_imp (fun a b => (h _ _).mp) h1, h2⟩
  · rintro ⟨h1, h2⟩; exact ⟨forall₂_imp (fun a b => (h _ _).mpr) h1, h2⟩

/-- **C08 (model level)**: whatever the presentation — per class any superset of the direct bases within
    the transitive bases, with or without the class itself, duplicated entries, several records — the
    covariant set `augment_classes` computes for a class is exactly the set of classes deriving from it.
    Everything downstream (acceptable classes, masks, groups, specificity) is computed from these sets. -/
theorem model_infers_inheritance (proj : Nat → Nat) (recs : List ClassRec) (ms : List MethodRec) (g : Graph)
    (hg : buildGraph proj recs = .ok g) (hwf : GraphProofs.WF proj recs ms) (c d kc kd : Nat)
    (hc : GraphProofs.keyAt proj recs c = some kc) (hd : GraphProofs.keyAt proj recs d = some kd) :
    d ∈ g.cov.get c ↔ Derives proj ⟨recs, ms⟩ kd kc :=
  GraphProofs.cov_iff_derives proj recs ms g hg hwf c d kc kd hc hd

/-- listing a base redundantly (a transitive base next to the direct ones) does not change the graph -/
theorem redundant_base_same_graph {proj} (classes : List ClassRec) (methods : List MethodRec)
    (r : ClassRec) (b : Nat)
    (hb : Derives proj ⟨r :: classes, methods⟩ (proj r.id) (proj b)) :
    SameGraph proj ⟨r :: classes, methods⟩ ⟨{ r with bases := b :: r.bases } :: classes, methods⟩ := by
  intro x y
  constructor
  · intro hd
    induction hd with
    | refl c => exact Derives.refl c
    | step hl _ ih =>
      obtain ⟨r', hr', hk, b', hb', hp⟩ := hl
      rcases List.mem_cons.mp hr' with rfl | hr'
      · exact Derives.step ⟨{ r' with bases := b :: r'.bases }, by simp, hk, b', by simp [hb'], hp⟩ ih
      · exact Derives.step ⟨r', by simp [hr'], hk, b', hb', hp⟩ ih
  · intro hd
    induction hd with
    | refl c => exact Derives.refl c
    | step hl _ ih =>
      obtain ⟨r', hr', hk, b', hb', hp⟩ := hl
      rcases List.mem_cons.mp hr' with rfl | hr'
      · simp only [List.mem_cons] at hb'
        rcases hb' with rfl | hb'
        · -- the added (redundant) edge is already derivable
          simp only at hk
          subst hk; subst hp
          exact Derives.trans hb ih
        · exact Derives.step ⟨r, by simp, hk, b', hb', hp⟩ ih
      · exact Derives.step ⟨r', by simp [hr'], hk, b', hb', hp⟩ ih

end Yomm2.Props.C08
