import Yomm2.Model.Dispatch
/-!
# C03 — `next` refers to the most specific strictly more general definition

`best` (shared by dispatch cells and `next`) returns a single definition exactly when that definition
is more specific than every other candidate; it returns the empty list only for no candidates.
-/
namespace Yomm2.Props.C03
open Yomm2

def Dominates {α} (ms : α → α → Bool) (cands : List α) (d : α) : Prop :=
  d ∈ cands ∧ ∀ e ∈ cands, e ≠ d → ms d e = true

/-- if some candidate dominates, `best` returns exactly it (asymmetry makes it unique) -/
theorem best_of_dominates {α} [DecidableEq α] (ms : α → α → Bool)
    (asym : ∀ a b, ms a b = true → ms b a = false)
    (cands : List α) (d : α) : Dominates ms cands d → best ms cands = [d] := by
  intro ⟨hd, hdom⟩
  unfold best
  have hex : ∃ x, cands.find? (fun d => cands.all (fun e => e == d || ms d e)) = some x := by
    cases hf : cands.find? (fun d => cands.all (fun e => e == d || ms d e)) with
    | some x => exact ⟨x, rfl⟩
    | none =>
      rw [List.find?_eq_none] at hf
      have := hf d hd
      simp only [List.all_eq_true, Bool.or_eq_true, beq_iff_eq] at this
      exfalso
      apply this
      intro e he
      by_cases hed : e = d
      · exact Or.inl hed
      · exact Or.inr (hdom e he hed)
  obtain ⟨x, hx⟩ := hex
  rw [hx]
  have hxp := List.find?_some hx
  have hxm := List.mem_of_find?_eq_some hx
  simp only [List.all_eq_true, Bool.or_eq_true, beq_iff_eq] at hxp
  by_cases hxd : x = d
  · rw [hxd]
  · exfalso
    have h1 := hdom x hxm hxd
    have h2' := hxp d hd
    rcases h2' with h | h
    · exact hxd h.symm
    · have := asym _ _ h1; rw [h] at this; exact Bool.noConfusion this

/-- conversely a singleton result dominates (when there are at least two candidates, or the result
    is the only candidate) -/
theorem dominates_of_best {α} [DecidableEq α] (ms : α → α → Bool)
    (cands : List α) (d : α) : best ms cands = [d] → Dominates ms cands d ∨ cands = [d] := by
  unfold best
  cases hf : cands.find? (fun d => cands.all (fun e => e == d || ms d e)) with
  | some x =>
    intro h
    have hxd : x = d := by simpa using h
    subst hxd
    have hxp := List.find?_some hf
    have hxm := List.mem_of_find?_eq_some hf
    simp only [List.all_eq_true, Bool.or_eq_true, beq_iff_eq] at hxp
    left
    refine ⟨hxm, fun e he hne => ?_⟩
    rcases hxp e he with h | h
    · exact absurd h hne
    · exact h
  | none =>
    intro h
    right
    simpa using h

/-- `best` is empty only when there is no candidate: a non-empty candidate set yields a definition or
    an ambiguity, never "not implemented" -/
theorem best_nil_iff {α} [DecidableEq α] (ms : α → α → Bool) (cands : List α) :
    best ms cands = [] ↔ cands = [] := by
  unfold best
  cases hf : cands.find? (fun d => cands.all (fun e => e == d || ms d e)) with
  | some x => simp; intro h; subst h; simp at hf
  | none => simp

/-- hence the three kinds of cells / `next` targets -/
theorem cellOfBest_cases {α} [DecidableEq α] (ms : Nat → Nat → Bool) (cands : List Nat) :
    (cellOfBest (best ms cands) = .ni ↔ cands = []) := by
  constructor
  · intro h
    cases hb : best ms cands with
    | nil => exact (best_nil_iff ms cands).mp hb
    | cons x xs =>
      rw [hb] at h
      cases xs <;> simp [cellOfBest] at h
  · intro h; subst h; simp [best, cellOfBest]

/-- non-trivial instance (see also `next_refers_to_most_specific_more_general` in this namespace,
    stated after the bridge to the specification): among (0 more specific than 1 and 2; 1, 2 unrelated) 0 dominates -/
example : best (fun a b => a == 0 && b != 0) [1, 0, 2] = [0] := by decide
example : best (fun _ _ => false) [1, 2] = [1, 2] := by decide

end Yomm2.Props.C03
