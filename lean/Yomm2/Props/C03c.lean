import Yomm2.Props.C03b
/-!
# C03 — `next`, in the words of the specification
-/
namespace Yomm2.Props.C03
open Yomm2 Yomm2.Spec Yomm2.Bridge Yomm2.Cells

theorem filterMap_get {α β} (f : α → Option β) : ∀ (l : List α), (∀ a ∈ l, ∃ b, f a = some b) →
    ∀ (k : Nat), (l.filterMap f)[k]? = (l[k]?).bind f
  | [], _, k => by simp
  | a :: l, h, k => by
    obtain ⟨b, hb⟩ := h a (by simp)
    rw [List.filterMap_cons_some hb]
    cases k with
    | zero => simp [hb]
    | succ k =>
      simp only [List.getElem?_cons_succ]
      exact filterMap_get f l (fun x hx => h x (by simp [hx])) k

theorem applicable_of_moreGeneral {proj : Nat → Nat} {reg : Registry} {e d : DefRec} (h : MoreGeneral proj reg e d) :
    Applicable proj reg e (d.vp.map proj) := by
  have := h.1
  unfold Applicable
  generalize d.vp = dv at this
  generalize e.vp = ev at this
  induction this with
  | nil => exact Forall₂.nil
  | cons hr _ ih => exact Forall₂.cons hr ih

/-- **C03 in the words of the specification**: inside definition `d`, `next` is what the method would
    select for arguments whose classes are exactly `d`'s parameter classes if only the definitions
    strictly more general than `d` were considered — the most specific of them, the not-implemented
    error when there is none, the ambiguity error when none of them is more specific than all the
    others. `gs` is the list of those definitions, in registration order. -/
theorem C03_next_is_selection_among_more_general (c : Ctx) (m : MethodC) (mr : MethodRec)
    (hm : MethodMatches c m mr) (i : Nat) (d : DefRec) (hd : mr.defs[i]? = some d) :
    ∃ cell gs, (dispatchMethod c.g m).nexts[i]? = some cell ∧
      (∀ e, e ∈ gs ↔ ∃ o : Nat, mr.defs[o]? = some e ∧ MoreGeneral c.proj c.reg e d) ∧
      Selects c.proj c.reg gs (d.vp.map c.proj) (outcomeOf mr.defs cell) := by
  obtain ⟨cell, cands, hnext, hcands, hcell⟩ := next_correct c m mr hm i d hd
  -- `cands` may list an index several times only if it was built so: make it duplicate free
  have hsome : ∀ o ∈ dedup cands, ∃ e, mr.defs[o]? = some e := by
    intro o ho
    obtain ⟨e, he, _⟩ := (hcands o).mp ((mem_dedup cands o).mp ho)
    exact ⟨e, he⟩
  let cs := dedup cands
  have hcs : ∀ o, o ∈ cs ↔ ∃ e, mr.defs[o]? = some e ∧ MoreGeneral c.proj c.reg e d := by
    intro o; rw [mem_dedup]; exact hcands o
  have hnd : cs.Nodup := nodup_dedup cands
  have hget := filterMap_get (fun o => mr.defs[o]?) cs hsome
  refine ⟨cell, cs.filterMap (fun o => mr.defs[o]?), hnext, ?_, ?_⟩
  · intro e
    rw [List.mem_filterMap]
    constructor
    · rintro ⟨o, ho, he⟩
      obtain ⟨e', he', hmg⟩ := (hcs o).mp ho
      rw [he'] at he; cases he
      exact ⟨o, he', hmg⟩
    · rintro ⟨o, he, hmg⟩
      exact ⟨o, (hcs o).mpr ⟨e, he, hmg⟩, he⟩
  · -- facts about positions
    have hpos : ∀ (k : Nat) (e : DefRec), (cs.filterMap (fun o => mr.defs[o]?))[k]? = some e →
        ∃ o : Nat, cs[k]? = some o ∧ mr.defs[o]? = some e ∧ MoreGeneral c.proj c.reg e d := by
      intro k e hk
      rw [hget k] at hk
      cases hck : cs[k]? with
      | none => simp [hck] at hk
      | some o =>
        simp only [hck, Option.bind_some] at hk
        obtain ⟨e', he', hmg⟩ := (hcs o).mp (List.mem_of_getElem? hck)
        rw [he'] at hk; cases hk
        exact ⟨o, rfl, he', hmg⟩
    have hidx : ∀ (o : Nat), o ∈ cs → ∃ (k : Nat) (e : DefRec), cs[k]? = some o ∧ (cs.filterMap (fun o => mr.defs[o]?))[k]? = some e ∧
        mr.defs[o]? = some e ∧ MoreGeneral c.proj c.reg e d := by
      intro o ho
      obtain ⟨k, hk⟩ := List.getElem?_of_mem ho
      obtain ⟨e, he, hmg⟩ := (hcs o).mp ho
      exact ⟨k, e, hk, by rw [hget k, hk]; exact he, he, hmg⟩
    have hinj : ∀ (k k' o : Nat), cs[k]? = some o → cs[k']? = some o → k = k' := by
      intro k k' o h1 h2
      have e1 := List.getElem?_eq_some_iff.mp h1
      have e2 := List.getElem?_eq_some_iff.mp h2
      exact (List.getElem_inj (h₀ := e1.1) (h₁ := e2.1) hnd).mp (e1.2.trans e2.2.symm)
    -- the cell, read for the duplicate-free list
    have hmemc : ∀ o, o ∈ cands ↔ o ∈ cs := fun o => (mem_dedup cands o).symm
    rcases hcell with ⟨rfl, hnil⟩ | ⟨j, rfl, hdom⟩ | ⟨rfl, hne, hnodom⟩
    · -- no more general definition
      have : cs = [] := by
        cases hcsl : cs with
        | nil => rfl
        | cons x xs => exact absurd ((hmemc x).mpr (by rw [hcsl]; simp)) (by rw [hnil]; simp)
      simp only [this, List.filterMap_nil, outcomeOf]
      intro e he; cases he
    · -- one of them is more specific than all the others
      obtain ⟨hj, hall⟩ := hdom
      obtain ⟨k, dj, hk, hgk, hdj, hmgj⟩ := hidx j ((hmemc j).mp hj)
      simp only [outcomeOf, hdj]
      refine ⟨k, dj, hgk, rfl, applicable_of_moreGeneral hmgj, ?_⟩
      intro k' e hk' hne _
      obtain ⟨o, hok', hoe, _⟩ := hpos k' e hk'
      have hoj : o ≠ j := by
        intro e'; subst e'
        exact hne (hinj k' k o hok' hk)
      have := hall o ((hmemc o).mpr (List.mem_of_getElem? hok')) hoj
      exact (msOf_iff c m mr hm j o dj e hdj hoe).mp this
    · -- several, none more specific than all the others
      simp only [outcomeOf]
      constructor
      · obtain ⟨o, ho⟩ := List.exists_mem_of_ne_nil cands hne
        obtain ⟨k, e, _, hgk, _, hmg⟩ := hidx o ((hmemc o).mp ho)
        exact ⟨e, List.mem_of_getElem? hgk, applicable_of_moreGeneral hmg⟩
      · intro k df hk _
        obtain ⟨o, hok, hodf, _⟩ := hpos k df hk
        -- `o` does not dominate: some other candidate is not beaten by it
        have hnd' : ¬ Dominates (msOf c.g m) cands o := fun h => hnodom ⟨o, h⟩
        unfold Dominates at hnd'
        have ho : o ∈ cands := (hmemc o).mpr (List.mem_of_getElem? hok)
        have : ∃ o' ∈ cands, o' ≠ o ∧ msOf c.g m o o' = false := by
          apply Classical.byContradiction
          intro hno
          apply hnd'
          refine ⟨ho, ?_⟩
          intro o' ho' hne'
          cases hms : msOf c.g m o o' with
          | true => rfl
          | false => exact absurd ⟨o', ho', hne', hms⟩ hno
        obtain ⟨o', ho', hne', hms⟩ := this
        obtain ⟨k', e', hk'o, hgk', hoe', hmg'⟩ := hidx o' ((hmemc o').mp ho')
        refine ⟨k', e', hgk', ?_, applicable_of_moreGeneral hmg', ?_⟩
        · intro ekk; subst ekk
          rw [hok] at hk'o; cases hk'o
          exact hne' rfl
        · intro hmsp
          have := (msOf_iff c m mr hm o o' df e' hodf hoe').mpr hmsp
          rw [hms] at this; cases this

end Yomm2.Props.C03
