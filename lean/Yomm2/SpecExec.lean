import Yomm2.Spec
/-!
# Executable oracle for `Spec`, proved equivalent to it

`derivesB` is reachability by iterated closure; `selectB` evaluates `Spec.Selects`. The driver's
`--oracle` mode and the failing-input search use these; the theorems below make them trustworthy.
-/
namespace Yomm2.Spec
open Yomm2

/-- the bases class `d` lists, as keys, itself excluded -/
def listsOf (proj : Nat → Nat) (reg : Registry) (d : Nat) : List Nat :=
  ((reg.classes.filter (fun r => proj r.id == d)).flatMap (fun r => r.bases.map proj)).filter (fun b => b != d)

theorem mem_listsOf {proj reg d b} : b ∈ listsOf proj reg d ↔ Lists proj reg d b ∧ b ≠ d := by
  unfold listsOf Lists
  simp only [List.mem_filter, List.mem_flatMap, List.mem_map, bne_iff_ne, ne_eq, beq_iff_eq]
  constructor
  · rintro ⟨⟨r, ⟨hr, hk⟩, b', hb', rfl⟩, hne⟩
    exact ⟨⟨r, hr, hk, b', hb', rfl⟩, hne⟩
  · rintro ⟨⟨r, hr, hk, b', hb', rfl⟩, hne⟩
    exact ⟨⟨r, ⟨hr, hk⟩, b', hb', rfl⟩, hne⟩

def close (succ : Nat → List Nat) : Nat → List Nat → List Nat
  | 0, s => s
  | f + 1, s => close succ f (dedup (s ++ s.flatMap succ))

theorem subset_close (succ : Nat → List Nat) (f : Nat) (s : List Nat) (x : Nat) (h : x ∈ s) :
    x ∈ close succ f s := by
  induction f generalizing s with
  | zero => exact h
  | succ f ih => exact ih _ ((mem_dedup _ _).mpr (List.mem_append_left _ h))

def derivesB (proj : Nat → Nat) (reg : Registry) (d b : Nat) : Bool :=
  (close (listsOf proj reg) reg.classes.length [d]).contains b

theorem close_sound (proj : Nat → Nat) (reg : Registry) (f : Nat) (s : List Nat) (x : Nat)
    (h : x ∈ close (listsOf proj reg) f s) : ∃ a ∈ s, Derives proj reg a x := by
  induction f generalizing s with
  | zero => exact ⟨x, h, Derives.refl x⟩
  | succ f ih =>
    obtain ⟨a, ha, hd⟩ := ih _ h
    rw [mem_dedup, List.mem_append] at ha
    rcases ha with ha | ha
    · exact ⟨a, ha, hd⟩
    · rw [List.mem_flatMap] at ha
      obtain ⟨a0, ha0, hm⟩ := ha
      exact ⟨a0, ha0, Derives.step (mem_listsOf.mp hm).1 hd⟩

/-- the listed-base relation is well founded with a rank bounded by `bound` -/
def Ranked (proj : Nat → Nat) (reg : Registry) (bound : Nat) : Prop :=
  ∃ rank : Nat → Nat, (∀ d m, Lists proj reg d m → m ≠ d → rank m < rank d) ∧ ∀ c, rank c ≤ bound

theorem close_complete (proj : Nat → Nat) (reg : Registry) (rank : Nat → Nat)
    (hr : ∀ d m, Lists proj reg d m → m ≠ d → rank m < rank d) {a b : Nat}
    (hd : Derives proj reg a b) :
    ∀ (f : Nat) (s : List Nat), a ∈ s → rank a ≤ f → b ∈ close (listsOf proj reg) f s := by
  induction hd with
  | refl c => intro f s hs _; exact subset_close _ f s c hs
  | @step d m b hl _ ih =>
    intro f s hs hf
    by_cases hmd : m = d
    · subst hmd; exact ih f s hs hf
    · have hlt := hr d m hl hmd
      cases f with
      | zero => omega
      | succ f' =>
        apply ih f'
        · rw [mem_dedup, List.mem_append]
          right
          rw [List.mem_flatMap]
          exact ⟨d, hs, mem_listsOf.mpr ⟨hl, hmd⟩⟩
        · omega

theorem derivesB_iff {proj reg} (hr : Ranked proj reg reg.classes.length) (d b : Nat) :
    derivesB proj reg d b = true ↔ Derives proj reg d b := by
  unfold derivesB
  rw [List.contains_iff_mem]
  constructor
  · intro h
    obtain ⟨a, ha, hd⟩ := close_sound proj reg _ _ _ h
    simp at ha; subst ha; exact hd
  · intro h
    obtain ⟨rank, h1, h2⟩ := hr
    exact close_complete proj reg rank h1 h _ _ (by simp) (h2 d)

theorem ranked_le {proj reg} {rank : Nat → Nat}
    (hr : ∀ d m, Lists proj reg d m → m ≠ d → rank m < rank d) {a b}
    (h : Derives proj reg a b) : a = b ∨ rank b < rank a := by
  induction h with
  | refl => exact Or.inl rfl
  | @step d m b hl _ ih =>
    by_cases hmd : m = d
    · subst hmd; exact ih
    · have := hr d m hl hmd
      rcases ih with rfl | h
      · exact Or.inr this
      · exact Or.inr (by omega)

theorem ranked_acyclic {proj reg bound} (hr : Ranked proj reg bound) : Acyclic proj reg := by
  obtain ⟨rank, h1, _⟩ := hr
  intro a b hab hba
  rcases ranked_le h1 hab with h | h
  · exact h
  · rcases ranked_le h1 hba with h' | h'
    · exact h'.symm
    · omega

/-! ## applicability, specificity, selection -/

def all₂ {α β} (p : α → β → Bool) : List α → List β → Bool
  | [], [] => true
  | a :: as, b :: bs => p a b && all₂ p as bs
  | _, _ => false

theorem all₂_iff {α β} (p : α → β → Bool) (R : α → β → Prop) (h : ∀ a b, p a b = true ↔ R a b) :
    ∀ l₁ l₂, all₂ p l₁ l₂ = true ↔ Forall₂ R l₁ l₂
  | [], [] => by simp [all₂]; exact Forall₂.nil
  | [], _ :: _ => by simp [all₂]; intro h; cases h
  | _ :: _, [] => by simp [all₂]; intro h; cases h
  | a :: as, b :: bs => by
    simp only [all₂, Bool.and_eq_true, h, all₂_iff p R h as bs]
    constructor
    · rintro ⟨h1, h2⟩; exact Forall₂.cons h1 h2
    · intro h; cases h with | cons h1 h2 => exact ⟨h1, h2⟩

def applicableB (proj : Nat → Nat) (reg : Registry) (d : DefRec) (args : List Nat) : Bool :=
  all₂ (fun a p => derivesB proj reg a (proj p)) args d.vp

def any₂ {α β} (p : α → β → Bool) : List α → List β → Bool
  | a :: as, b :: bs => p a b || any₂ p as bs
  | _, _ => false

theorem any₂_iff {α β} (p : α → β → Bool) : ∀ (l₁ : List α) (l₂ : List β),
    any₂ p l₁ l₂ = true ↔ ∃ (i : Nat) (a : α) (b : β), l₁[i]? = some a ∧ l₂[i]? = some b ∧ p a b = true
  | [], _ => by simp [any₂]
  | _ :: _, [] => by simp [any₂]
  | a :: as, b :: bs => by
    simp only [any₂, Bool.or_eq_true, any₂_iff p as bs]
    constructor
    · rintro (h | ⟨i, x, y, h1, h2, h3⟩)
      · exact ⟨0, a, b, by simp, by simp, h⟩
      · exact ⟨i + 1, x, y, by simpa using h1, by simpa using h2, h3⟩
    · rintro ⟨i, x, y, h1, h2, h3⟩
      cases i with
      | zero => simp at h1 h2; subst h1; subst h2; exact Or.inl h3
      | succ i => exact Or.inr ⟨i, x, y, by simpa using h1, by simpa using h2, h3⟩

def moreSpecificB (proj : Nat → Nat) (reg : Registry) (d e : DefRec) : Bool :=
  all₂ (fun dp ep => !(derivesB proj reg (proj ep) (proj dp) && proj ep != proj dp)) d.vp e.vp &&
  any₂ (fun dp ep => derivesB proj reg (proj dp) (proj ep) && proj dp != proj ep) d.vp e.vp

theorem applicableB_iff {proj reg} (hr : Ranked proj reg reg.classes.length) (d : DefRec) (args : List Nat) :
    applicableB proj reg d args = true ↔ Applicable proj reg d args :=
  all₂_iff _ _ (fun a p => derivesB_iff hr a (proj p)) _ _

theorem moreSpecificB_iff {proj reg} (hr : Ranked proj reg reg.classes.length) (d e : DefRec) :
    moreSpecificB proj reg d e = true ↔ MoreSpecific proj reg d e := by
  unfold moreSpecificB MoreSpecific
  rw [Bool.and_eq_true, any₂_iff]
  have h1 : ∀ dp ep, (!(derivesB proj reg (proj ep) (proj dp) && proj ep != proj dp)) = true ↔
      ¬ ProperDerives proj reg (proj ep) (proj dp) := by
    intro dp ep
    unfold ProperDerives
    rw [← derivesB_iff hr]
    cases derivesB proj reg (proj ep) (proj dp) <;> simp
  rw [all₂_iff _ _ h1]
  constructor
  · rintro ⟨ha, i, dp, ep, hd, he, hp⟩
    refine ⟨ha, i, dp, ep, hd, he, ?_⟩
    simp only [Bool.and_eq_true, bne_iff_ne, ne_eq] at hp
    exact ⟨(derivesB_iff hr _ _).mp hp.1, hp.2⟩
  · rintro ⟨ha, i, dp, ep, hd, he, hp⟩
    refine ⟨ha, i, dp, ep, hd, he, ?_⟩
    simp only [Bool.and_eq_true, bne_iff_ne, ne_eq]
    exact ⟨(derivesB_iff hr _ _).mpr hp.1, hp.2⟩

/-- indices of the applicable definitions -/
def applicableIdx (proj : Nat → Nat) (reg : Registry) (defs : List DefRec) (args : List Nat) : List Nat :=
  (List.range defs.length).filter (fun i =>
    match defs[i]? with
    | some d => applicableB proj reg d args
    | none => false)

def msIdx (proj : Nat → Nat) (reg : Registry) (defs : List DefRec) (i j : Nat) : Bool :=
  match defs[i]?, defs[j]? with
  | some d, some e => moreSpecificB proj reg d e
  | _, _ => false

/-- the oracle: which outcome `Spec.Selects` holds for -/
def selectB (proj : Nat → Nat) (reg : Registry) (defs : List DefRec) (args : List Nat) : Outcome :=
  let app := applicableIdx proj reg defs args
  match app.find? (fun i => app.all (fun j => j == i || msIdx proj reg defs i j)) with
  | some i => match defs[i]? with
    | some d => .ran d.id
    | none => .ambiguous
  | none => if app.isEmpty then .notImplemented else .ambiguous

theorem mem_applicableIdx {proj reg} (hr : Ranked proj reg reg.classes.length) (defs : List DefRec)
    (args : List Nat) (i : Nat) :
    i ∈ applicableIdx proj reg defs args ↔ ∃ d, defs[i]? = some d ∧ Applicable proj reg d args := by
  unfold applicableIdx
  simp only [List.mem_filter, List.mem_range]
  constructor
  · rintro ⟨hlt, h⟩
    cases hd : defs[i]? with
    | none => simp [hd] at h
    | some d => simp only [hd] at h; exact ⟨d, rfl, (applicableB_iff hr d args).mp h⟩
  · rintro ⟨d, hd, ha⟩
    have hlt : i < defs.length := by
      by_cases h : i < defs.length
      · exact h
      · rw [List.getElem?_eq_none (Nat.le_of_not_lt h)] at hd; cases hd
    exact ⟨hlt, by simp only [hd]; exact (applicableB_iff hr d args).mpr ha⟩

/-- **the oracle decides the specification** -/
theorem selectB_spec {proj reg} (hr : Ranked proj reg reg.classes.length) (defs : List DefRec)
    (args : List Nat) : Selects proj reg defs args (selectB proj reg defs args) := by
  unfold selectB
  simp only
  split
  · rename_i i hf
    have hmem := List.mem_of_find?_eq_some hf
    have hp := List.find?_some hf
    obtain ⟨d, hd, hap⟩ := (mem_applicableIdx hr defs args i).mp hmem
    simp only [hd]
    refine ⟨i, d, hd, rfl, hap, ?_⟩
    intro j e hj hne hape
    have hjm : j ∈ applicableIdx proj reg defs args := (mem_applicableIdx hr defs args j).mpr ⟨e, hj, hape⟩
    simp only [List.all_eq_true, Bool.or_eq_true, beq_iff_eq] at hp
    rcases hp j hjm with h | h
    · exact absurd h hne
    · unfold msIdx at h
      simp only [hd, hj] at h
      exact (moreSpecificB_iff hr d e).mp h
  · rename_i hf
    rw [List.find?_eq_none] at hf
    split
    · rename_i hemp
      intro e he hape
      obtain ⟨i, hi⟩ := List.getElem?_of_mem he
      have : i ∈ applicableIdx proj reg defs args := (mem_applicableIdx hr defs args i).mpr ⟨e, hi, hape⟩
      rw [List.isEmpty_iff] at hemp
      rw [hemp] at this; cases this
    · rename_i hne
      constructor
      · cases happ : applicableIdx proj reg defs args with
        | nil => simp [happ] at hne
        | cons i rest =>
          have : i ∈ applicableIdx proj reg defs args := by rw [happ]; simp
          obtain ⟨d, hd, hap⟩ := (mem_applicableIdx hr defs args i).mp this
          exact ⟨d, List.mem_of_getElem? hd, hap⟩
      · intro i df hi hap
        have him : i ∈ applicableIdx proj reg defs args := (mem_applicableIdx hr defs args i).mpr ⟨df, hi, hap⟩
        have := hf i him
        rw [Bool.not_eq_true, List.all_eq_false] at this
        obtain ⟨j, hjm, hnot⟩ := this
        simp only [Bool.or_eq_true, beq_iff_eq] at hnot
        obtain ⟨e, he, hape⟩ := (mem_applicableIdx hr defs args j).mp hjm
        have hji : j ≠ i := fun h => hnot (Or.inl h)
        refine ⟨j, e, he, hji, hape, ?_⟩
        intro hms
        apply hnot
        right
        unfold msIdx
        simp only [hi, he]
        exact (moreSpecificB_iff hr df e).mpr hms

/-- since the outcomes exclude one another, `selectB` is *the* outcome -/
theorem selects_iff_selectB {proj reg} (hr : Ranked proj reg reg.classes.length) (defs : List DefRec)
    (args : List Nat) (o : Outcome) : Selects proj reg defs args o ↔ o = selectB proj reg defs args := by
  have hs := selectB_spec hr defs args
  constructor
  · intro ho
    cases o with
    | ran d =>
      cases hsel : selectB proj reg defs args with
      | ran d' => rw [hsel] at hs; rw [selects_ran_unique ho hs]
      | notImplemented => rw [hsel] at hs; exact absurd hs (selects_exclusive_ran_ni ho)
      | ambiguous => rw [hsel] at hs; exact absurd hs (selects_exclusive_ran_ambiguous ho)
    | notImplemented =>
      cases hsel : selectB proj reg defs args with
      | ran d' => rw [hsel] at hs; exact absurd ho (selects_exclusive_ran_ni hs)
      | notImplemented => rfl
      | ambiguous => rw [hsel] at hs; exact absurd ho (selects_exclusive_amb_ni hs)
    | ambiguous =>
      cases hsel : selectB proj reg defs args with
      | ran d' => rw [hsel] at hs; exact absurd ho (selects_exclusive_ran_ambiguous hs)
      | notImplemented => rw [hsel] at hs; exact absurd hs (selects_exclusive_amb_ni ho)
      | ambiguous => rfl
  · intro h; rw [h]; exact hs

/-- `next` of definition `i`: selection among the strictly more general definitions, at `d`'s own
    parameter classes -/
def moreGeneralB (proj : Nat → Nat) (reg : Registry) (e d : DefRec) : Bool :=
  all₂ (fun dp ep => derivesB proj reg (proj dp) (proj ep)) d.vp e.vp && (e.vp.map proj != d.vp.map proj)

def nextB (proj : Nat → Nat) (reg : Registry) (defs : List DefRec) (d : DefRec) : Outcome :=
  selectB proj reg (defs.filter (fun e => moreGeneralB proj reg e d)) (d.vp.map proj)

theorem moreGeneralB_iff {proj reg} (hr : Ranked proj reg reg.classes.length) (e d : DefRec) :
    moreGeneralB proj reg e d = true ↔ MoreGeneral proj reg e d := by
  unfold moreGeneralB MoreGeneral
  rw [Bool.and_eq_true, all₂_iff _ _ (fun dp ep => derivesB_iff hr (proj dp) (proj ep))]
  simp

end Yomm2.Spec
