import Yomm2.Model.Classes
/-!
# Reachability lemmas: direct-base extraction and the covariant closure

* `extract` (the marking loop of `augment_classes`) keeps the closure of the listed base relation, for
  ANY processing order and ANY presentation (complete, direct-only, redundant);
* `covF` (the closure through `direct_derived`) is reachability, given enough fuel.
-/
namespace Yomm2.Reach
open Yomm2

/-- reachability through a relation given as successor lists -/
inductive Reach (succ : Nat → List Nat) : Nat → Nat → Prop
  | refl (c) : Reach succ c c
  | step {a m b} : m ∈ succ a → Reach succ m b → Reach succ a b

theorem Reach.trans {succ a b c} (h1 : Reach succ a b) (h2 : Reach succ b c) : Reach succ a c := by
  induction h1 with
  | refl => exact h2
  | step hm _ ih => exact Reach.step hm (ih h2)

theorem Reach.single {succ a b} (h : b ∈ succ a) : Reach succ a b := Reach.step h (Reach.refl b)

/-- reverse the edges -/
theorem Reach.reverse {succ pred : Nat → List Nat} (h : ∀ a b, b ∈ succ a → a ∈ pred b) {a b} :
    Reach succ a b → Reach pred b a := by
  intro hr
  induction hr with
  | refl => exact Reach.refl _
  | step hm _ ih => exact ih.trans (Reach.single (h _ _ hm))

theorem Reach.mono {s t : Nat → List Nat} (h : ∀ a b, b ∈ s a → b ∈ t a) {a b} : Reach s a b → Reach t a b := by
  intro hr
  induction hr with
  | refl => exact Reach.refl _
  | step hm _ ih => exact Reach.step (h _ _ hm) ih

/-! ## the marking loop -/

theorem extract_spec (tb : Nat → List Nat) (l direct marks : List Nat) :
    let r := extract tb l direct marks
    (∀ d ∈ r.1, d ∈ direct ∨ d ∈ l) ∧
    (∀ b ∈ l, b ∈ r.1 ∨ b ∈ marks ∨ ∃ k ∈ r.1, b ∈ tb k) ∧
    (∀ d ∈ direct, d ∈ r.1) := by
  induction l generalizing direct marks with
  | nil => simp only [extract]; exact ⟨fun d hd => Or.inl hd, by simp, fun d hd => hd⟩
  | cons b rest ih =>
    simp only [extract]
    split
    · rename_i hm
      obtain ⟨h2, h4, h5⟩ := ih direct marks
      refine ⟨?_, ?_, h5⟩
      · intro d hd; rcases h2 d hd with h | h
        · exact Or.inl h
        · exact Or.inr (by simp [h])
      · intro x hx
        rcases List.mem_cons.mp hx with rfl | hx
        · exact Or.inr (Or.inl hm)
        · exact h4 x hx
    · rename_i hm
      obtain ⟨h2, h4, h5⟩ := ih (direct ++ [b]) (marks ++ tb b)
      have hb : b ∈ (extract tb rest (direct ++ [b]) (marks ++ tb b)).1 := h5 b (by simp)
      refine ⟨?_, ?_, ?_⟩
      · intro d hd; rcases h2 d hd with h | h
        · rcases List.mem_append.mp h with h | h
          · exact Or.inl h
          · simp at h; subst h; exact Or.inr (by simp)
        · exact Or.inr (by simp [h])
      · intro x hx
        rcases List.mem_cons.mp hx with rfl | hx
        · exact Or.inl hb
        · rcases h4 x hx with h | h | h
          · exact Or.inl h
          · rcases List.mem_append.mp h with h | h
            · exact Or.inr (Or.inl h)
            · exact Or.inr (Or.inr ⟨b, hb, h⟩)
          · exact Or.inr (Or.inr h)
      · intro d hd; exact h5 d (by simp [hd])

/-- `direct c` for any processing order `sorted c` with the same members as `tb c` -/
def directOf (tb : Nat → List Nat) (sorted : Nat → List Nat) (c : Nat) : List Nat :=
  (extract tb (sorted c) [] []).1

theorem direct_subset (tb sorted : Nat → List Nat) (hs : ∀ c b, b ∈ sorted c ↔ b ∈ tb c) (c b : Nat)
    (h : b ∈ directOf tb sorted c) : b ∈ tb c := by
  have := (extract_spec tb (sorted c) [] []).1 b h
  simpa [hs] using this

/-- every listed base stays reachable through kept direct edges (strong induction on rank) -/
theorem listed_reach_direct (tb sorted : Nat → List Nat) (hs : ∀ c b, b ∈ sorted c ↔ b ∈ tb c)
    (rank : Nat → Nat) (hrank : ∀ c b, b ∈ tb c → rank b < rank c) :
    ∀ n c, rank c ≤ n → ∀ b ∈ tb c, Reach (directOf tb sorted) c b := by
  intro n
  induction n with
  | zero =>
    intro c hc b hb
    have := hrank c b hb; omega
  | succ n ih =>
    intro c hc b hb
    have h4 := (extract_spec tb (sorted c) [] []).2.1 b ((hs c b).mpr hb)
    rcases h4 with h | h | ⟨k, hk, hbk⟩
    · exact Reach.single h
    · simp at h
    · have hkc : k ∈ tb c := direct_subset tb sorted hs c k hk
      have hrk : rank k ≤ n := by have := hrank c k hkc; omega
      exact Reach.step hk (ih k hrk b hbk)

/-- closure of listed edges = closure of kept direct edges -/
theorem reach_listed_iff_direct (tb sorted : Nat → List Nat) (hs : ∀ c b, b ∈ sorted c ↔ b ∈ tb c)
    (rank : Nat → Nat) (hrank : ∀ c b, b ∈ tb c → rank b < rank c) (c b : Nat) :
    Reach tb c b ↔ Reach (directOf tb sorted) c b := by
  constructor
  · intro h
    induction h with
    | refl => exact Reach.refl _
    | step hm _ ih => exact (listed_reach_direct tb sorted hs rank hrank _ _ (Nat.le_refl _) _ hm).trans ih
  · intro h
    exact Reach.mono (fun a b hb => direct_subset tb sorted hs a b hb) h

/-! ## the covariant closure -/

theorem covF_sound (derived : Nat → List Nat) : ∀ (f c d : Nat), d ∈ covF derived f c → Reach derived c d
  | 0, c, d, h => by simp [covF] at h; subst h; exact Reach.refl _
  | f + 1, c, d, h => by
    simp only [covF, mem_dedup, List.mem_cons, List.mem_flatMap] at h
    rcases h with rfl | ⟨m, hm, hd⟩
    · exact Reach.refl _
    · exact Reach.step hm (covF_sound derived f m d hd)

theorem self_mem_covF (derived : Nat → List Nat) : ∀ (f c : Nat), c ∈ covF derived f c
  | 0, c => by simp [covF]
  | f + 1, c => by simp [covF, mem_dedup]

/-- `height` bounds the length of derivation chains below a class -/
theorem covF_complete (derived : Nat → List Nat) (height : Nat → Nat)
    (hh : ∀ a m, m ∈ derived a → height m < height a) {c d : Nat} (h : Reach derived c d) :
    ∀ f, height c ≤ f → d ∈ covF derived f c := by
  induction h with
  | refl c => intro f _; exact self_mem_covF derived f c
  | @step a m b hm _ ih =>
    intro f hf
    have := hh a m hm
    cases f with
    | zero => omega
    | succ f' =>
      simp only [covF, mem_dedup, List.mem_cons, List.mem_flatMap]
      right
      exact ⟨m, hm, ih f' (by omega)⟩

end Yomm2.Reach
