import Yomm2.Proofs.Layout
import Yomm2.Proofs.Table
/-!
# The call's walk through v-tables reaches the cell of the argument classes' group tuple
-/
namespace Yomm2.Walk
open Yomm2 Yomm2.Layout Yomm2.TableProofs

/-- the v-table pointers of the virtual arguments, in order -/
def virtPtrs (args : List (Kind × Int)) : List Int := (args.filter (fun a => a.1.isVirtual)).map (·.2)

/-- `resolve_multi_next` over the virtual arguments only -/
def walkNext (inst : Installed) (ss : List Nat) (arity : Nat) : Nat → List Int → Nat → Except Err Word
  | _, [], _ => .error (.fault "resolve: ran out of arguments")
  | k, v :: rest, d =>
    match (ss[k]? : Option Nat), (ss[arity + k - 1]? : Option Nat) with
    | some slot, some stride =>
      match readWord inst (v + (slot : Int)) with
      | .ok (.num g) =>
        if k + 1 == arity then readWord inst ((d + g * stride : Nat) : Int) else walkNext inst ss arity (k + 1) rest (d + g * stride)
      | .ok _ => .error (.fault "resolve: v-table cell of a later parameter is not a group index")
      | .error e => .error e
    | _, _ => .error (.fault "resolve: slots_strides out of range")

theorem resolveMultiNext_eq (inst : Installed) (ss : List Nat) (arity : Nat) :
    ∀ (args : List (Kind × Int)) (k d : Nat),
      resolveMultiNext inst ss arity k args d = walkNext inst ss arity k (virtPtrs args) d
  | [], k, d => by simp [resolveMultiNext, walkNext, virtPtrs]
  | (kind, v) :: rest, k, d => by
    simp only [resolveMultiNext]
    by_cases hv : kind.isVirtual = true
    · simp only [hv, if_true, virtPtrs, List.filter_cons, List.map_cons, walkNext]
      cases hs1 : (ss[k]? : Option Nat) with
      | none => simp
      | some slot =>
        cases hs2 : (ss[arity + k - 1]? : Option Nat) with
        | none => simp
        | some stride =>
          simp only
          cases hr : readWord inst (v + (slot : Int)) with
          | error e => simp [bind, Except.bind]
          | ok w =>
            simp only [bind, Except.bind]
            cases w with
            | num g =>
              simp only
              split
              · rfl
              · exact resolveMultiNext_eq inst ss arity rest (k + 1) _
            | fn _ _ => rfl
            | ptr _ => rfl
    · have hv' : kind.isVirtual = false := by simpa using hv
      simp only [hv', Bool.false_eq_true, if_false, virtPtrs, List.filter_cons]
      exact resolveMultiNext_eq inst ss arity rest k d

/-- `leSum sizes p gis`: Σ gis[q] * Π sizes[0..p+q) — the little-endian mixed-radix number -/
def leSum (sizes : List Nat) : Nat → List Nat → Nat
  | _, [] => 0
  | p, g :: gs => g * prodList (sizes.take p) + leSum sizes (p + 1) gs

/-- facts about one virtual argument: its class's v-table has, at the method's slot for this parameter,
    the entry (method, parameter, group) -/
structure ArgFact (c : Compiled) (inst : Installed) (mi p : Nat) (v : Int) (g : Nat) : Prop where
  ex : ∃ ci row, v = inst.vptr.get ci ∧ c.vtbl[ci]? = some row ∧ c.slots.first.get ci ≤ c.slots.slots (mi, p) ∧
    row[c.slots.slots (mi, p) - c.slots.first.get ci]? = some ⟨mi, p, g⟩

theorem read_arg (c : Compiled) (inst : Installed) (rows : List (List Word)) (hi : Installs c inst rows)
    (mi p : Nat) (v : Int) (g : Nat) (h : ArgFact c inst mi p v g) :
    ∃ w, entryWord c (prefixSums ((tableWordsOf c).map List.length) 0) ⟨mi, p, g⟩ = .ok w ∧
      readWord inst (v + ((c.slots.slots (mi, p) : Nat) : Int)) = .ok w := by
  obtain ⟨ci, row, hv, hrow, hle, he⟩ := h.ex
  obtain ⟨w, hw, hr⟩ := read_vtbl c inst rows hi ci _ row _ hrow he
  refine ⟨w, hw, ?_⟩
  rw [hv]
  have : c.slots.first.get ci + (c.slots.slots (mi, p) - c.slots.first.get ci) = c.slots.slots (mi, p) := by omega
  rw [this] at hr
  exact hr

/-- the later parameters of a multi-method: each v-table cell is a group index, and the walk ends on
    the table cell at the accumulated offset -/
theorem walkNext_correct (c : Compiled) (inst : Installed) (rows : List (List Word)) (hi : Installs c inst rows)
    (mi : Nat) (m : MethodC) (o : MethodOut) (hm : c.methods[mi]? = some m) (ho : c.outs[mi]? = some o)
    (hmulti : (m.vp.length == 1) = false) (sizes : List Nat)
    (hss : ∀ p, p < m.vp.length → (slotsOf c.slots mi m.vp.length ++ o.strides)[p]? = some (c.slots.slots (mi, p)))
    (hstr : ∀ p, 1 ≤ p → p < m.vp.length → (slotsOf c.slots mi m.vp.length ++ o.strides)[m.vp.length + p - 1]? = some (prodList (sizes.take p)))
    (b : Nat) (hb : (prefixSums ((tableWordsOf c).map List.length) 0)[mi]? = some b) :
    ∀ (vs : List Int) (gs : List Nat) (k : Nat) (d : Nat), 1 ≤ k → k + vs.length = m.vp.length → vs.length = gs.length → vs ≠ [] →
      (∀ q v g, vs[q]? = some v → gs[q]? = some g → ArgFact c inst mi (k + q) v g) →
      ∀ cell, o.table[d - b + leSum sizes k gs]? = some cell → b ≤ d →
      walkNext inst (slotsOf c.slots mi m.vp.length ++ o.strides) m.vp.length k vs d = .ok (Word.fn mi cell.1)
  | [], _, _, _, _, _, _, hne, _, _, _, _ => absurd rfl hne
  | v :: rest, [], _, _, _, _, hl, _, _, _, _, _ => by simp at hl
  | v :: rest, g :: gs, k, d, hk, hlen, hl, _, hf, cell, hcell, hbd => by
    have hkl : k < m.vp.length := by simp at hlen; omega
    simp only [walkNext, hss k hkl, hstr k hk hkl]
    obtain ⟨w, hw, hr⟩ := read_arg c inst rows hi mi k v g (by simpa using hf 0 v g (by simp) (by simp))
    -- the entry of a later parameter is a number
    have hwnum : w = Word.num g := by
      unfold entryWord at hw
      simp only [ho, hm, hmulti, Bool.false_eq_true, if_false] at hw
      have hk0 : (k == 0) = false := by simp; omega
      simp only [hk0, Bool.false_eq_true, if_false] at hw
      cases hw; rfl
    rw [hr, hwnum]
    simp only
    by_cases hlast : (k + 1 == m.vp.length) = true
    · simp only [hlast, if_true]
      -- no argument left
      have hrest : rest = [] := by
        have : k + 1 = m.vp.length := by simpa using hlast
        simp at hlen
        have : rest.length = 0 := by omega
        exact List.length_eq_zero_iff.mp this
      subst hrest
      have hgs : gs = [] := by simp at hl; exact hl
      subst hgs
      simp only [leSum, Nat.add_zero] at hcell
      obtain ⟨b', hb', hread⟩ := read_table c inst rows hi mi m o hm ho hmulti _ cell hcell
      rw [hb] at hb'; cases hb'
      have : b + (d - b + g * prodList (sizes.take k)) = d + g * prodList (sizes.take k) := by omega
      rw [this] at hread
      exact hread
    · simp only [hlast, Bool.false_eq_true, if_false]
      have hne' : rest ≠ [] := by
        intro e
        subst e
        simp at hlen
        have : (k + 1 == m.vp.length) = true := by simp; omega
        exact hlast this
      apply walkNext_correct c inst rows hi mi m o hm ho hmulti sizes hss hstr b hb rest gs (k + 1) _ (by omega)
        (by simp at hlen; omega) (by simpa using hl) hne'
      · intro q v' g' hv' hg'
        have := hf (q + 1) v' g' (by simpa using hv') (by simpa using hg')
        have e : k + (q + 1) = k + 1 + q := by omega
        rw [e] at this
        exact this
      · simp only [leSum] at hcell
        have : d + g * prodList (sizes.take k) - b + leSum sizes (k + 1) gs = d - b + (g * prodList (sizes.take k) + leSum sizes (k + 1) gs) := by omega
        rw [this]
        exact hcell
      · omega

/-- the little-endian sum is the offset the recursive table builder uses -/
theorem prodList_append (xs ys : List Nat) : prodList (xs ++ ys) = prodList xs * prodList ys := by
  induction xs with
  | nil => simp [prodList]
  | cons x xs ih => simp [prodList, ih, Nat.mul_assoc]

theorem size_reverse (dims : List (List Group)) : size dims.reverse = prodList (dims.map List.length) := by
  rw [size_eq_prodList, List.map_reverse]
  induction dims with
  | nil => rfl
  | cons g rest ih =>
    simp only [List.map_cons, List.reverse_cons, prodList_append, ih, prodList]
    rw [Nat.mul_one, Nat.mul_comm]

theorem leSum_eq_offset : ∀ (dims : List (List Group)) (gis : List Nat) (pre : List (List Group)), gis.length = dims.length →
    leSum ((pre ++ dims).map List.length) pre.length gis = offset dims.reverse gis.reverse * prodList (pre.map List.length)
  | [], gis, pre, h => by
    have : gis = [] := List.length_eq_zero_iff.mp (by simpa using h)
    subst this; simp [leSum, offset]
  | g :: rest, [], pre, h => by simp at h
  | g :: rest, i :: is, pre, h => by
    have hl : is.length = rest.length := by simpa using h
    simp only [leSum]
    have ih := leSum_eq_offset rest is (pre ++ [g]) hl
    simp only [List.append_assoc, List.singleton_append, List.length_append, List.length_singleton] at ih
    rw [ih]
    -- take of the sizes up to `pre`
    have htake : ((pre ++ g :: rest).map List.length).take pre.length = pre.map List.length := by
      rw [List.map_append, List.take_left' (by simp)]
    rw [htake]
    -- offset of the reversed lists: the last dimension (here `g`) is the innermost
    have hoff : offset (g :: rest).reverse (i :: is).reverse = offset rest.reverse is.reverse * g.length + i := by
      simp only [List.reverse_cons]
      -- append one dimension at the inner end
      have app : ∀ (ds : List (List Group)) (js : List Nat), js.length = ds.length →
          offset (ds ++ [g]) (js ++ [i]) = offset ds js * g.length + i := by
        intro ds
        induction ds with
        | nil => intro js hj; have : js = [] := List.length_eq_zero_iff.mp (by simpa using hj); subst this; simp [offset, size]
        | cons d ds ihd =>
          intro js hj
          cases js with
          | nil => simp at hj
          | cons j js =>
            simp only [List.cons_append, offset]
            rw [ihd js (by simpa using hj)]
            have hs : size (ds ++ [g]) = size ds * g.length := by
              rw [size_eq_prodList, size_eq_prodList, List.map_append, prodList_append]; simp [prodList]
            rw [hs, Nat.add_mul, Nat.mul_assoc, Nat.add_assoc]
      exact app rest.reverse is.reverse (by simp [hl])
    rw [hoff, List.map_append, prodList_append]
    simp only [List.map_cons, List.map_nil, prodList, Nat.mul_one]
    rw [Nat.add_mul, Nat.mul_assoc, Nat.mul_comm (g.length), Nat.add_comm]

theorem leSum_zero_eq_offset (dims : List (List Group)) (gis : List Nat) (h : gis.length = dims.length) :
    leSum (dims.map List.length) 0 gis = offset dims.reverse gis.reverse := by
  have := leSum_eq_offset dims gis [] h
  simpa [prodList] using this

theorem resolveUni_eq (inst : Installed) (ss : List Nat) : ∀ (args : List (Kind × Int)),
    resolveUni inst ss args =
      match virtPtrs args with
      | [] => .error (.fault "resolve: no virtual argument")
      | v :: _ => (match (ss[0]? : Option Nat) with
        | some slot => readWord inst (v + (slot : Int))
        | none => .error (.fault "resolve: slots_strides out of range"))
  | [] => by simp [resolveUni, virtPtrs]
  | (kind, v) :: rest => by
    simp only [resolveUni]
    by_cases hv : kind.isVirtual = true
    · simp only [hv, if_true, virtPtrs, List.filter_cons, List.map_cons]
      cases (ss[0]? : Option Nat) <;> rfl
    · have hv' : kind.isVirtual = false := by simpa using hv
      simp only [hv', Bool.false_eq_true, if_false, virtPtrs, List.filter_cons]
      exact resolveUni_eq inst ss rest

theorem resolveMultiFirst_eq (inst : Installed) (ss : List Nat) (arity : Nat) : ∀ (args : List (Kind × Int)),
    resolveMultiFirst inst ss arity args =
      match virtPtrs args with
      | [] => .error (.fault "resolve: no virtual argument")
      | v :: rest => (match (ss[0]? : Option Nat) with
        | some slot =>
          (match readWord inst (v + (slot : Int)) with
           | .ok (.ptr d) => walkNext inst ss arity 1 rest d
           | .ok _ => .error (.fault "resolve: v-table cell of the first parameter is not a table pointer")
           | .error e => .error e)
        | none => .error (.fault "resolve: slots_strides out of range"))
  | [] => by simp [resolveMultiFirst, virtPtrs]
  | (kind, v) :: rest => by
    simp only [resolveMultiFirst]
    by_cases hv : kind.isVirtual = true
    · simp only [hv, if_true, virtPtrs, List.filter_cons, List.map_cons]
      cases hs : (ss[0]? : Option Nat) with
      | none => rfl
      | some slot =>
        simp only
        cases hr : readWord inst (v + (slot : Int)) with
        | error e => simp [bind, Except.bind]
        | ok w =>
          simp only [bind, Except.bind]
          cases w with
          | ptr d => exact resolveMultiNext_eq inst ss arity rest 1 d
          | fn _ _ => rfl
          | num _ => rfl
    · have hv' : kind.isVirtual = false := by simpa using hv
      simp only [hv', Bool.false_eq_true, if_false, virtPtrs, List.filter_cons]
      exact resolveMultiFirst_eq inst ss arity rest

theorem slotsOf_get (st : SlotSt) (mi a p : Nat) (h : p < a) : (slotsOf st mi a)[p]? = some (st.slots (mi, p)) := by
  unfold slotsOf
  rw [List.getElem?_map, List.getElem?_range h]; rfl

theorem slotsOf_length (st : SlotSt) (mi a : Nat) : (slotsOf st mi a).length = a := by simp [slotsOf]

/-- **the walk is correct**: if the v-table of each virtual argument's class holds, at the method's slot
    for that parameter, the entry (method, parameter, group of the class), then `resolve` returns the
    function word of the table cell at the mixed-radix offset of those groups — for every arity and
    every placement of non-virtual parameters -/
theorem resolve_correct (c : Compiled) (inst : Installed) (hinst : install c = .ok inst)
    (mi : Nat) (m : MethodC) (hm : c.methods[mi]? = some m) (ho : c.outs[mi]? = some (dispatchMethod c.graph m))
    (args : List (Kind × Int)) (gis : List Nat)
    (hlen : (virtPtrs args).length = m.vp.length) (hgl : gis.length = m.vp.length) (hpos : 0 < m.vp.length)
    (hf : ∀ p v g, (virtPtrs args)[p]? = some v → gis[p]? = some g → ArgFact c inst mi p v g)
    (cell : Cell × Bool)
    (hcell : (dispatchMethod c.graph m).table[offset (dispatchMethod c.graph m).groups.reverse gis.reverse]? = some cell) :
    resolve inst mi args = .ok (Word.fn mi cell.1) := by
  obtain ⟨rows, hi⟩ := install_spec c inst hinst
  have hzip : (c.methods.zip c.outs)[mi]? = some (m, dispatchMethod c.graph m) := by
    rw [List.getElem?_zip_eq_some]; exact ⟨hm, ho⟩
  have hss : inst.ss[mi]? = some (if m.vp.length == 1 then [c.slots.slots (mi, 0)]
      else slotsOf c.slots mi m.vp.length ++ (dispatchMethod c.graph m).strides) := by
    rw [hi.ss, List.getElem?_map, List.getElem?_zipIdx, hzip]; simp
  have harity : (args.filter (fun a => a.1.isVirtual)).length = m.vp.length := by
    simpa [virtPtrs] using hlen
  have hglen : (dispatchMethod c.graph m).groups.length = m.vp.length := by simp [dispatchMethod]
  unfold resolve
  simp only [hss, harity]
  -- the first virtual argument
  cases hvs : virtPtrs args with
  | nil => rw [hvs] at hlen; simp at hlen; omega
  | cons v0 vrest =>
    cases hgis : gis with
    | nil => rw [hgis] at hgl; simp at hgl; omega
    | cons g0 grest =>
      have hf0 := hf 0 v0 g0 (by rw [hvs]; simp) (by rw [hgis]; simp)
      obtain ⟨w0, hw0, hr0⟩ := read_arg c inst rows hi mi 0 v0 g0 hf0
      by_cases h1 : (m.vp.length == 1) = true
      · -- uni-method: the v-table cell is the function itself
        simp only [h1, if_true]
        rw [resolveUni_eq, hvs]
        simp only [List.getElem?_cons_zero]
        rw [hr0]
        unfold entryWord at hw0
        simp only [ho, hm, h1, if_true] at hw0
        -- the offset of a single group index is the index
        have hone : m.vp.length = 1 := by simpa using h1
        have hgrest : grest = [] := by
          rw [hgis] at hgl; simp [hone] at hgl; exact hgl
        subst hgrest
        obtain ⟨gl, hgl1⟩ : ∃ gl, (dispatchMethod c.graph m).groups = [gl] := by
          cases hg : (dispatchMethod c.graph m).groups with
          | nil => rw [hg] at hglen; simp [hone] at hglen
          | cons x xs => cases xs with
            | nil => exact ⟨x, rfl⟩
            | cons y ys => rw [hg] at hglen; simp [hone] at hglen
        rw [hgis, hgl1] at hcell
        simp only [List.reverse_cons, List.reverse_nil, List.nil_append, offset, size, Nat.mul_one, Nat.add_zero] at hcell
        rw [hcell] at hw0
        cases hw0; rfl
      · have h1' : (m.vp.length == 1) = false := by simpa using h1
        simp only [h1', Bool.false_eq_true, if_false]
        rw [resolveMultiFirst_eq, hvs]
        have h0 : (slotsOf c.slots mi m.vp.length ++ (dispatchMethod c.graph m).strides)[0]? = some (c.slots.slots (mi, 0)) := by
          rw [List.getElem?_append_left (by rw [slotsOf_length]; exact hpos)]
          exact slotsOf_get c.slots mi m.vp.length 0 hpos
        simp only [h0]
        rw [hr0]
        -- the entry of the first parameter is a pointer into the method's table
        obtain ⟨b, hb⟩ : ∃ b, (prefixSums ((tableWordsOf c).map List.length) 0)[mi]? = some b := by
          have htw : mi < ((tableWordsOf c).map List.length).length := by
            simp only [tableWordsOf, List.length_map, List.length_zipIdx]
            exact (List.getElem?_eq_some_iff.mp hzip).1
          exact ⟨_, prefixSums_get _ 0 mi htw⟩
        have hw0' : w0 = Word.ptr (b + g0) := by
          unfold entryWord at hw0
          simp only [ho, hm, h1', Bool.false_eq_true, if_false, beq_self_eq_true, if_true, hb, Option.getD_some] at hw0
          cases hw0; rfl
        rw [hw0']
        simp only
        -- the rest of the walk
        have hal : vrest.length + 1 = m.vp.length := by rw [hvs] at hlen; simpa using hlen
        have hgrl : grest.length = vrest.length := by rw [hgis] at hgl; simp at hgl; omega
        have hne : vrest ≠ [] := by
          intro e; subst e
          simp at hal
          have : (m.vp.length == 1) = true := by simp; omega
          exact h1 this
        apply walkNext_correct c inst rows hi mi m (dispatchMethod c.graph m) hm ho h1'
          ((dispatchMethod c.graph m).groups.map List.length)
          (fun p hp => by rw [List.getElem?_append_left (by rw [slotsOf_length]; exact hp)]; exact slotsOf_get _ _ _ _ hp)
          (fun p hp1 hp => by
            rw [List.getElem?_append_right (by rw [slotsOf_length]; omega), slotsOf_length]
            have : m.vp.length + p - 1 - m.vp.length = p - 1 := by omega
            rw [this]
            simp only [dispatchMethod, List.getElem?_map]
            rw [List.getElem?_range (by omega)]
            simp only [Option.map_some]
            have : p - 1 + 1 = p := by omega
            rw [this])
          b hb vrest grest 1 (b + g0) (Nat.le_refl 1) (by omega) hgrl.symm hne
        · intro q v' g' hv' hg'
          have := hf (q + 1) v' g' (by rw [hvs]; simpa using hv') (by rw [hgis]; simpa using hg')
          have e : q + 1 = 1 + q := by omega
          rw [e] at this; exact this
        · have hsum : b + g0 - b + leSum ((dispatchMethod c.graph m).groups.map List.length) 1 grest =
              leSum ((dispatchMethod c.graph m).groups.map List.length) 0 (g0 :: grest) := by
            simp only [leSum, List.take_zero, prodList, Nat.mul_one, Nat.zero_add]; omega
          rw [hsum, leSum_zero_eq_offset _ _ (by rw [hglen, ← hgl, hgis])]
          rw [hgis] at hcell
          exact hcell
        · omega

end Yomm2.Walk
