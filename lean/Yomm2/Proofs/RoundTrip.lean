import Yomm2.Model.Codec
/-!
# Decoding the encoded v-tables in place gives back the v-tables

The encoder replays the two cursors of the decoder (read cursor in 16-bit codes, write cursor in
machine words) and emits `headroom` = the largest lead of the write cursor; the decoder refuses to
read a code the write cursor has passed. Here: with that head room no read is refused, every write is
inside `vtbls[D]`, and the decoded words are the entries of the v-tables, class by class, each class's
v-table pointer biased by its first slot.
-/
namespace Yomm2.RoundTrip
open Yomm2

/-! ## the encoder's cursors, as plain recursion -/

theorem stepCur_hr_le (S : Nat) (a : Cur) (e : Entry) : a.hr ≤ (stepCur S a e).hr := by
  simp only [stepCur]; omega

theorem rowCur_hr_le (S : Nat) : ∀ (row : List Entry) (a : Cur), a.hr ≤ (rowCur S row a).hr
  | [], a => Nat.le_refl _
  | e :: row, a => by
    simp only [rowCur, List.foldl_cons]
    exact Nat.le_trans (stepCur_hr_le S a e) (rowCur_hr_le S row _)

theorem clsCur_hr_le (S : Nat) : ∀ (rows : List (List Entry)) (a : Cur), a.hr ≤ (clsCur S rows a).hr
  | [], a => Nat.le_refl _
  | row :: rows, a => by
    simp only [clsCur, List.foldl_cons]
    exact Nat.le_trans (rowCur_hr_le S row { a with enc := a.enc + 1 }) (clsCur_hr_le S rows _)

theorem rowCur_enc_dec (S : Nat) : ∀ (row : List Entry) (a : Cur),
    (rowCur S row a).enc = a.enc + (row.map (fun e => if e.vp ≠ 0 then 1 else 2)).sum ∧
    (rowCur S row a).dec = a.dec + row.length
  | [], a => by simp [rowCur]
  | e :: row, a => by
    simp only [rowCur, List.foldl_cons]
    obtain ⟨h1, h2⟩ := rowCur_enc_dec S row (stepCur S a e)
    simp only [rowCur] at h1 h2
    rw [h1, h2]
    simp only [stepCur, List.map_cons, List.sum_cons, List.length_cons]
    omega

/-! ## what a v-table entry decodes to -/

def arOf (c : Compiled) (mi : Nat) : Nat := ((c.methods[mi]?).map (fun m => m.vp.length)).getD 0
def nsOf (c : Compiled) (mi : Nat) : Nat := ((c.methods[mi]?).map (fun m => m.specs.length)).getD 0
def cellAt (c : Compiled) (e : Entry) : Cell :=
  (((c.outs[e.method]?).bind (fun o => o.table[e.group]?)).map (·.1)).getD .ni

def toD (c : Compiled) (starts : List (Option Nat)) (e : Entry) : DWord :=
  if e.vp ≠ 0 then .num e.group
  else if arOf c e.method == 1 then .fn e.method (cellAt c e)
  else .tbl (((starts[e.method]?).bind id).getD 0 + e.group)

def msOf (c : Compiled) : List (Nat × Nat) := c.methods.map (fun m => (m.vp.length, m.specs.length))

/-- the 16-bit fields are wide enough for this entry, and it refers to things that exist -/
structure EntryGood (c : Compiled) (starts : List (Option Nat)) (e : Entry) : Prop where
  later : e.vp ≠ 0 → e.group + indexBit < stopBit
  meth : e.vp = 0 → e.method < indexBit ∧ e.method < c.methods.length
  uni : e.vp = 0 → arOf c e.method = 1 →
    cellIndex (nsOf c e.method) (cellAt c e) < stopBit ∧ ∀ i, cellAt c e = .defn i → i < nsOf c e.method
  multi : e.vp = 0 → arOf c e.method ≠ 1 → e.group < stopBit ∧ ∃ b, starts[e.method]? = some (some b)

theorem defOfIndex_cellIndex (ns : Nat) (cell : Cell) (h : ∀ i, cell = .defn i → i < ns) :
    defOfIndex ns (cellIndex ns cell) = some cell := by
  cases cell with
  | defn i => simp [defOfIndex, cellIndex, h i rfl]
  | amb => simp [defOfIndex, cellIndex]
  | ni => simp [defOfIndex, cellIndex]

theorem entryCodes_eq (c : Compiled) (e : Entry) :
    entryCodes c e = if e.vp ≠ 0 then [e.group + indexBit]
      else if arOf c e.method == 1 then [e.method, cellIndex (nsOf c e.method) (cellAt c e)]
      else [e.method, e.group] := rfl

theorem entryCodes_length (c : Compiled) (e : Entry) : (entryCodes c e).length = if e.vp ≠ 0 then 1 else 2 := by
  rw [entryCodes_eq]
  split
  · rfl
  · split <;> rfl

/-- every code of a good entry is below the stop bit -/
theorem entryCodes_lt (c : Compiled) (starts : List (Option Nat)) (e : Entry) (hg : EntryGood c starts e) :
    ∀ x ∈ entryCodes c e, x < stopBit := by
  intro x hx
  rw [entryCodes_eq] at hx
  by_cases hvp : e.vp ≠ 0
  · simp only [hvp, ne_eq, not_false_eq_true, if_true, List.mem_singleton] at hx
    subst hx; exact hg.later hvp
  · have hvp0 : e.vp = 0 := by simpa using hvp
    simp only [hvp, if_false] at hx
    have hm := (hg.meth hvp0).1
    have hib : indexBit < stopBit := by unfold indexBit stopBit; omega
    by_cases har : (arOf c e.method == 1) = true
    · simp only [har, if_true, List.mem_cons, List.not_mem_nil, or_false] at hx
      rcases hx with rfl | rfl
      · omega
      · exact (hg.uni hvp0 (by simpa using har)).1
    · simp only [har, Bool.false_eq_true, if_false, List.mem_cons, List.not_mem_nil, or_false] at hx
      rcases hx with rfl | rfl
      · omega
      · exact (hg.multi hvp0 (by simpa using har)).1

/-! ## the decoder -/

variable (em : Emitted)

theorem fetch_nostop (st : DecSt) (cd : Nat) (hcd : em.vtbls[st.enc]? = some cd) (hlt : cd < stopBit)
    (hg : 4 * st.dec.length ≤ em.headroom + em.slotsN + st.enc) :
    fetch em st = .ok (cd, { st with enc := st.enc + 1, last := false }) := by
  unfold fetch
  rw [if_neg (by omega)]
  simp only [hcd]
  have hn : ¬ (cd ≥ stopBit) := by omega
  rw [if_neg hn, decide_eq_false hn]

theorem fetch_stop (st : DecSt) (x : Nat) (hcd : em.vtbls[st.enc]? = some (x + stopBit))
    (hg : 4 * st.dec.length ≤ em.headroom + em.slotsN + st.enc) :
    fetch em st = .ok (x, { st with enc := st.enc + 1, last := true }) := by
  unfold fetch
  rw [if_neg (by omega)]
  simp only [hcd]
  have hp : x + stopBit ≥ stopBit := by omega
  rw [if_pos hp, decide_eq_true hp, Nat.add_sub_cancel]

theorem putWord_ok (st : DecSt) (w : DWord) (h : st.dec.length < em.decN) :
    putWord em st w = .ok { st with dec := st.dec ++ [w] } := by
  unfold putWord
  rw [if_neg (by omega)]

/-- the codes of a row's entries, the last code of the last entry carrying the stop bit -/
def bodyRec (c : Compiled) : List Entry → List Nat
  | [] => []
  | [e] => markLast (entryCodes c e)
  | e :: rest => entryCodes c e ++ bodyRec c rest

theorem bodyRec_cons (c : Compiled) (e e' : Entry) (rest : List Entry) :
    bodyRec c (e :: e' :: rest) = entryCodes c e ++ bodyRec c (e' :: rest) := rfl

/-- one turn of the `do … while (!last)` loop: the codes of one entry are read, its word is written -/
theorem entry_turn (c : Compiled) (starts : List (Option Nat)) (e : Entry) (hgood : EntryGood c starts e)
    (codes : List Nat) (marked : Bool)
    (hcodes : codes = if marked then markLast (entryCodes c e) else entryCodes c e)
    (st : DecSt) (hstream : ∀ i x, codes[i]? = some x → em.vtbls[st.enc + i]? = some x)
    (hguard : 4 * st.dec.length ≤ em.headroom + em.slotsN + st.enc) (hroom : st.dec.length < em.decN)
    (k : DecSt → Except Err DecSt) :
    (do
      let (code, st) ← fetch em st
      let st ←
        if code ≥ indexBit then putWord em st (.num (code - indexBit))
        else do
          match (msOf c)[code]? with
          | none => .error (.fault "decode: method index out of range")
          | some (ar, ns) =>
            let (g, st) ← fetch em st
            if ar == 1 then
              match defOfIndex ns g with
              | some cell => putWord em st (.fn code cell)
              | none => .error (.fault "decode: spec index out of range")
            else
              match starts[code]? with
              | some (some b) => putWord em st (.tbl (b + g))
              | _ => .error (.fault "decode: no dispatch table for this method")
      if st.last then .ok st else k st) =
    (if marked then .ok { enc := st.enc + codes.length, dec := st.dec ++ [toD c starts e], last := true }
     else k { enc := st.enc + codes.length, dec := st.dec ++ [toD c starts e], last := false }) := by
  have hib : indexBit < stopBit := by unfold indexBit stopBit; omega
  by_cases hvp : e.vp ≠ 0
  · -- one code: a group index
    have hec : entryCodes c e = [e.group + indexBit] := by rw [entryCodes_eq]; simp [hvp]
    have hx := hgood.later hvp
    have hge : e.group + indexBit ≥ indexBit := by omega
    cases marked with
    | false =>
      simp only [Bool.false_eq_true, if_false] at hcodes ⊢
      rw [hec] at hcodes
      subst hcodes
      have h0 := hstream 0 _ rfl
      simp only [Nat.add_zero] at h0
      rw [fetch_nostop em st _ h0 hx hguard]
      simp only [bind, Except.bind, hge, if_true]
      rw [putWord_ok em _ _ (by simpa using hroom)]
      simp [toD, hvp]
    | true =>
      simp only [if_true] at hcodes ⊢
      rw [hec] at hcodes
      simp only [markLast] at hcodes
      subst hcodes
      have h0 := hstream 0 _ rfl
      simp only [Nat.add_zero] at h0
      rw [fetch_stop em st _ h0 hguard]
      simp only [bind, Except.bind, hge, if_true]
      rw [putWord_ok em _ _ (by simpa using hroom)]
      simp [toD, hvp]
  · -- two codes: method, then cell or group
    have hvp0 : e.vp = 0 := by simpa using hvp
    obtain ⟨hmib, hmlt⟩ := hgood.meth hvp0
    have hms : (msOf c)[e.method]? = some (arOf c e.method, nsOf c e.method) := by
      unfold msOf arOf nsOf
      rw [List.getElem?_map, List.getElem?_eq_getElem hmlt]
      simp
    have hnib : ¬ (e.method ≥ indexBit) := by omega
    have hmsb : e.method < stopBit := by omega
    have hguard1 : 4 * st.dec.length ≤ em.headroom + em.slotsN + (st.enc + 1) := by omega
    by_cases har : (arOf c e.method == 1) = true
    · have hec : entryCodes c e = [e.method, cellIndex (nsOf c e.method) (cellAt c e)] := by
        rw [entryCodes_eq]; simp [hvp0, har]
      obtain ⟨hci, hdef⟩ := hgood.uni hvp0 (by simpa using har)
      have hdo := defOfIndex_cellIndex _ _ hdef
      cases marked with
      | false =>
        simp only [Bool.false_eq_true, if_false] at hcodes ⊢
        rw [hec] at hcodes
        subst hcodes
        have h0 := hstream 0 _ rfl
        have h1 := hstream 1 _ rfl
        simp only [Nat.add_zero] at h0
        rw [fetch_nostop em st _ h0 hmsb hguard]
        simp only [bind, Except.bind, hnib, if_false, hms]
        rw [fetch_nostop em _ _ h1 hci hguard1]
        simp only [har, if_true, hdo]
        rw [putWord_ok em _ _ (by simpa using hroom)]
        simp [toD, hvp0, har]
      | true =>
        simp only [if_true] at hcodes ⊢
        rw [hec] at hcodes
        simp only [markLast] at hcodes
        subst hcodes
        have h0 := hstream 0 _ rfl
        have h1 := hstream 1 _ rfl
        simp only [Nat.add_zero] at h0
        rw [fetch_nostop em st _ h0 hmsb hguard]
        simp only [bind, Except.bind, hnib, if_false, hms]
        rw [fetch_stop em _ _ h1 hguard1]
        simp only [har, if_true, hdo]
        rw [putWord_ok em _ _ (by simpa using hroom)]
        simp [toD, hvp0, har]
    · have har' : (arOf c e.method == 1) = false := by simpa using har
      have hec : entryCodes c e = [e.method, e.group] := by
        rw [entryCodes_eq]; simp [hvp0, har']
      obtain ⟨hgl, b, hb⟩ := hgood.multi hvp0 (by simpa using har)
      cases marked with
      | false =>
        simp only [Bool.false_eq_true, if_false] at hcodes ⊢
        rw [hec] at hcodes
        subst hcodes
        have h0 := hstream 0 _ rfl
        have h1 := hstream 1 _ rfl
        simp only [Nat.add_zero] at h0
        rw [fetch_nostop em st _ h0 hmsb hguard]
        simp only [bind, Except.bind, hnib, if_false, hms]
        rw [fetch_nostop em _ _ h1 hgl hguard1]
        simp only [har', Bool.false_eq_true, if_false, hb]
        rw [putWord_ok em _ _ (by simpa using hroom)]
        simp [toD, hvp0, har', hb]
      | true =>
        simp only [if_true] at hcodes ⊢
        rw [hec] at hcodes
        simp only [markLast] at hcodes
        subst hcodes
        have h0 := hstream 0 _ rfl
        have h1 := hstream 1 _ rfl
        simp only [Nat.add_zero] at h0
        rw [fetch_nostop em st _ h0 hmsb hguard]
        simp only [bind, Except.bind, hnib, if_false, hms]
        rw [fetch_stop em _ _ h1 hguard1]
        simp only [har', Bool.false_eq_true, if_false, hb]
        rw [putWord_ok em _ _ (by simpa using hroom)]
        simp [toD, hvp0, har', hb]


theorem decodeEntries_succ (ms : List (Nat × Nat)) (starts : List (Option Nat)) (f : Nat) (st : DecSt) :
    decodeEntries em ms starts (f + 1) st =
    (do
      let (code, st) ← fetch em st
      let st ←
        if code ≥ indexBit then putWord em st (.num (code - indexBit))
        else do
          match ms[code]? with
          | none => .error (.fault "decode: method index out of range")
          | some (ar, ns) =>
            let (g, st) ← fetch em st
            if ar == 1 then
              match defOfIndex ns g with
              | some cell => putWord em st (.fn code cell)
              | none => .error (.fault "decode: spec index out of range")
            else
              match starts[code]? with
              | some (some b) => putWord em st (.tbl (b + g))
              | _ => .error (.fault "decode: no dispatch table for this method")
      if st.last then .ok st else decodeEntries em ms starts f st) := rfl

theorem markLast_length : ∀ (l : List Nat), (markLast l).length = l.length
  | [] => rfl
  | [_] => rfl
  | x :: y :: rest => by simp [markLast, markLast_length (y :: rest)]

/-- the entries of one class, from the state reached after its first-slot code -/
theorem decodeEntries_row (c : Compiled) (starts : List (Option Nat)) (hr0 : Nat) :
    ∀ (row : List Entry) (st : DecSt) (f : Nat) (a : Cur), row ≠ [] → row.length ≤ f →
      (∀ e ∈ row, EntryGood c starts e) →
      (∀ i x, (bodyRec c row)[i]? = some x → em.vtbls[st.enc + i]? = some x) →
      a.enc = st.enc → a.dec = st.dec.length →
      4 * st.dec.length ≤ em.headroom + em.slotsN + st.enc →
      (rowCur em.slotsN row a).hr ≤ em.headroom →
      st.dec.length + row.length ≤ em.decN →
      decodeEntries em (msOf c) starts f st =
        .ok { enc := st.enc + (bodyRec c row).length, dec := st.dec ++ row.map (toD c starts), last := true } ∧
      4 * (st.dec.length + row.length) ≤ em.headroom + em.slotsN + (st.enc + (bodyRec c row).length)
  | [], _, _, _, hne, _, _, _, _, _, _, _, _ => absurd rfl hne
  | [e], st, f, a, _, hf, hgood, hstream, hae, had, hguard, hhr, hroom => by
    cases f with
    | zero => simp at hf
    | succ f =>
      rw [decodeEntries_succ]
      have hturn := entry_turn em c starts e (hgood e (by simp)) (markLast (entryCodes c e)) true rfl st
        (by intro i x hx; exact hstream i x (by simpa [bodyRec] using hx)) hguard (by simp at hroom; omega)
        (decodeEntries em (msOf c) starts f)
      rw [hturn]
      simp only [if_true, bodyRec, List.map_cons, List.map_nil, true_and]
      -- the head room covers the lead after this entry
      have hstep : (stepCur em.slotsN a e).hr ≤ em.headroom := by simpa [rowCur] using hhr
      simp only [stepCur] at hstep
      rw [markLast_length, entryCodes_length]
      simp only [List.length_singleton]
      rw [hae, had] at hstep
      omega
  | e :: e' :: rest, st, f, a, _, hf, hgood, hstream, hae, had, hguard, hhr, hroom => by
    cases f with
    | zero => simp at hf
    | succ f =>
      rw [decodeEntries_succ]
      have hturn := entry_turn em c starts e (hgood e (by simp)) (entryCodes c e) false rfl st
        (by
          intro i x hx
          apply hstream i x
          rw [bodyRec_cons, List.getElem?_append_left (List.getElem?_eq_some_iff.mp hx).1]
          exact hx)
        hguard (by simp at hroom; omega) (decodeEntries em (msOf c) starts f)
      rw [hturn]
      simp only [Bool.false_eq_true, if_false]
      have hstep : (stepCur em.slotsN a e).hr ≤ em.headroom :=
        Nat.le_trans (rowCur_hr_le em.slotsN (e' :: rest) (stepCur em.slotsN a e)) (by simpa [rowCur] using hhr)
      have hlen := entryCodes_length c e
      have hguard1 : 4 * (st.dec.length + 1) ≤ em.headroom + em.slotsN + (st.enc + (entryCodes c e).length) := by
        simp only [stepCur] at hstep
        rw [hae, had] at hstep
        rw [hlen]
        omega
      obtain ⟨ih1, ih2⟩ := decodeEntries_row c starts hr0 (e' :: rest)
        { enc := st.enc + (entryCodes c e).length, dec := st.dec ++ [toD c starts e], last := false } f
        (stepCur em.slotsN a e) (by simp) (by simp at hf ⊢; omega)
        (fun x hx => hgood x (by simp [hx]))
        (by
          intro i x hx
          simp only
          rw [Nat.add_assoc]
          apply hstream
          rw [bodyRec_cons, List.getElem?_append_right (by omega)]
          simpa using hx)
        (by simp only [stepCur]; rw [hae, hlen])
        (by simp only [stepCur]; rw [had]; simp)
        (by simpa using hguard1)
        (by simpa [rowCur] using hhr)
        (by simp at hroom ⊢; omega)
      rw [ih1]
      refine ⟨?_, ?_⟩
      · simp only [bodyRec_cons, List.length_append, List.map_cons, List.append_assoc, List.singleton_append, Nat.add_assoc]
      · simp only [List.length_append, List.length_cons, bodyRec_cons] at ih2 ⊢
        omega


/-! ## one class, all the classes -/

theorem body_eq_bodyRec (c : Compiled) : ∀ (row : List Entry) (k0 n : Nat), n = k0 + row.length →
    (List.zipIdx row k0).flatMap (fun (ek : Entry × Nat) =>
      if ek.2 + 1 == n then markLast (entryCodes c ek.1) else entryCodes c ek.1) = bodyRec c row
  | [], _, _, _ => rfl
  | [e], k0, n, hn => by
    simp only [List.length_singleton] at hn
    simp [List.zipIdx, bodyRec, hn]
  | e :: e' :: rest, k0, n, hn => by
    rw [List.zipIdx_cons, List.flatMap_cons, bodyRec_cons]
    have hne : (k0 + 1 == n) = false := by
      simp only [List.length_cons] at hn
      simp; omega
    simp only [hne, Bool.false_eq_true, if_false]
    rw [body_eq_bodyRec c (e' :: rest) (k0 + 1) n (by simp only [List.length_cons] at hn ⊢; omega)]

theorem encodeClass_eq (c : Compiled) (ci : Nat) (row : List Entry) :
    encodeClass c ci row = match row with
      | [] => [c.slots.first.get ci + stopBit]
      | _ :: _ => c.slots.first.get ci :: bodyRec c row := by
  unfold encodeClass
  cases row with
  | nil => rfl
  | cons e rest =>
    simp only
    congr 1
    have := body_eq_bodyRec c (e :: rest) 0 (e :: rest).length (by simp)
    simpa using this

theorem bodyRec_length_ge (c : Compiled) : ∀ (row : List Entry), row.length ≤ (bodyRec c row).length
  | [] => Nat.le_refl _
  | [e] => by
    simp only [bodyRec, markLast_length, entryCodes_length, List.length_singleton]
    split <;> omega
  | e :: e' :: rest => by
    rw [bodyRec_cons, List.length_append, entryCodes_length]
    have := bodyRec_length_ge c (e' :: rest)
    simp only [List.length_cons] at this ⊢
    split <;> omega

def codesFrom (c : Compiled) (ci0 : Nat) (rows : List (List Entry)) : List Nat :=
  (List.zipIdx rows ci0).flatMap (fun (rc : List Entry × Nat) => encodeClass c rc.2 rc.1)

/-- the v-table pointers the decoder hands out: write cursor at the class, biased by its first slot -/
def vpsFrom (c : Compiled) : Nat → List (List Entry) → Nat → List (Option Int)
  | _, [], _ => []
  | ci, row :: rest, base => some ((base : Int) - (c.slots.first.get ci : Int)) :: vpsFrom c (ci + 1) rest (base + row.length)

/-- one class record whose static cell has not been filled yet -/
theorem class_turn (c : Compiled) (starts : List (Option Nat)) (ci : Nat) (row : List Entry)
    (st : DecSt) (vps : List (Option Int)) (done : List Nat) (cell : Nat) (a : Cur)
    (hcell : done.contains cell = false)
    (hgood : ∀ e ∈ row, EntryGood c starts e) (hfirst : c.slots.first.get ci < stopBit)
    (hstream : ∀ i x, (encodeClass c ci row)[i]? = some x → em.vtbls[st.enc + i]? = some x)
    (hae : a.enc = st.enc) (had : a.dec = st.dec.length)
    (hguard : 4 * st.dec.length ≤ em.headroom + em.slotsN + st.enc)
    (hhr : (rowCur em.slotsN row { a with enc := a.enc + 1 }).hr ≤ em.headroom)
    (hroom : st.dec.length + row.length ≤ em.decN) :
    ∃ st', decodeClass em (msOf c) starts (st, vps, done) cell =
        .ok (st', vps ++ [some ((st.dec.length : Int) - (c.slots.first.get ci : Int))], done ++ [cell]) ∧
      st'.enc = st.enc + (encodeClass c ci row).length ∧ st'.dec = st.dec ++ row.map (toD c starts) ∧
      4 * st'.dec.length ≤ em.headroom + em.slotsN + st'.enc := by
  unfold decodeClass
  simp only [hcell, Bool.false_eq_true, if_false]
  rw [encodeClass_eq] at hstream ⊢
  cases row with
  | nil =>
    have h0 := hstream 0 _ rfl
    simp only [Nat.add_zero] at h0
    rw [fetch_stop em st _ h0 hguard]
    simp only [bind, Except.bind, if_true, pure, Except.pure]
    refine ⟨_, rfl, by simp, by simp, ?_⟩
    simp only
    omega
  | cons e rest =>
    have h0 := hstream 0 _ rfl
    simp only [Nat.add_zero] at h0
    rw [fetch_nostop em st _ h0 hfirst hguard]
    simp only [bind, Except.bind, Bool.false_eq_true, if_false]
    have hlen : (e :: rest).length ≤ em.vtbls.length + 1 := by
      -- the body of the class is part of the stream
      have hb := bodyRec_length_ge c (e :: rest)
      have hbpos : 0 < (bodyRec c (e :: rest)).length := by simp only [List.length_cons] at hb; omega
      have hlast := hstream (bodyRec c (e :: rest)).length ((bodyRec c (e :: rest))[(bodyRec c (e :: rest)).length - 1]'(by omega))
        (by
          rw [List.getElem?_cons]
          have : ¬ (bodyRec c (e :: rest)).length = 0 := by omega
          simp only [this, if_false]
          exact List.getElem?_eq_getElem (by omega))
      have := (List.getElem?_eq_some_iff.mp hlast).1
      omega
    obtain ⟨hrow, hg2⟩ := decodeEntries_row em c starts 0 (e :: rest)
      { enc := st.enc + 1, dec := st.dec, last := false } (em.vtbls.length + 1) { a with enc := a.enc + 1 }
      (by simp) hlen hgood
      (by
        intro i x hx
        simp only
        rw [Nat.add_assoc]
        apply hstream (1 + i) x
        rw [Nat.add_comm 1 i, List.getElem?_cons_succ]
        exact hx)
      (by simp only; rw [hae]) had (by simp only; omega) hhr hroom
    simp only at hrow
    rw [hrow]
    simp only [pure, Except.pure]
    refine ⟨_, rfl, ?_, rfl, ?_⟩
    · simp only [List.length_cons]; omega
    · simp only [List.length_append, List.length_map, List.length_cons] at hg2 ⊢
      omega

theorem codesFrom_cons (c : Compiled) (ci0 : Nat) (row : List Entry) (rows : List (List Entry)) :
    codesFrom c ci0 (row :: rows) = encodeClass c ci0 row ++ codesFrom c (ci0 + 1) rows := by
  simp [codesFrom, List.zipIdx_cons]

/-- all the classes: the decoded words are the entries of the v-tables in order -/
theorem decode_classes (c : Compiled) (starts : List (Option Nat)) :
    ∀ (rows : List (List Entry)) (ci0 : Nat) (cells : List Nat) (st : DecSt) (vps : List (Option Int)) (done : List Nat) (a : Cur),
      cells.length = rows.length → cells.Nodup → (∀ x ∈ cells, x ∉ done) →
      (∀ row ∈ rows, ∀ e ∈ row, EntryGood c starts e) →
      (∀ k, k < rows.length → c.slots.first.get (ci0 + k) < stopBit) →
      (∀ i x, (codesFrom c ci0 rows)[i]? = some x → em.vtbls[st.enc + i]? = some x) →
      a.enc = st.enc → a.dec = st.dec.length →
      4 * st.dec.length ≤ em.headroom + em.slotsN + st.enc →
      (clsCur em.slotsN rows a).hr ≤ em.headroom →
      st.dec.length + (rows.map List.length).sum ≤ em.decN →
      ∃ st', cells.foldlM (decodeClass em (msOf c) starts) (st, vps, done) =
          .ok (st', vps ++ vpsFrom c ci0 rows st.dec.length, done ++ cells) ∧
        st'.dec = st.dec ++ rows.flatten.map (toD c starts)
  | [], ci0, cells, st, vps, done, a, hlen, _, _, _, _, _, _, _, _, _, _ => by
    have : cells = [] := List.length_eq_zero_iff.mp hlen
    subst this
    exact ⟨st, by simp [List.foldlM_nil, pure, Except.pure, vpsFrom], by simp⟩
  | row :: rows, ci0, cells, st, vps, done, a, hlen, hnd, hfresh, hgood, hfirst, hstream, hae, had, hguard, hhr, hroom => by
    cases cells with
    | nil => simp at hlen
    | cons cell cells =>
      rw [List.foldlM_cons]
      obtain ⟨hcn, hnd'⟩ := List.nodup_cons.mp hnd
      have hhr1 : (rowCur em.slotsN row { a with enc := a.enc + 1 }).hr ≤ em.headroom :=
        Nat.le_trans (clsCur_hr_le em.slotsN rows _) (by simpa [clsCur] using hhr)
      obtain ⟨st1, hst1, henc1, hdec1, hg1⟩ := class_turn em c starts ci0 row st vps done cell a
        (by
          cases hc : done.contains cell with
          | false => rfl
          | true => exact absurd (List.contains_iff_mem.mp hc) (hfresh cell (by simp)))
        (hgood row (by simp)) (by simpa using hfirst 0 (by simp))
        (by
          intro i x hx
          apply hstream i x
          rw [codesFrom_cons, List.getElem?_append_left (List.getElem?_eq_some_iff.mp hx).1]
          exact hx)
        hae had hguard hhr1
        (by simp only [List.map_cons, List.sum_cons] at hroom; omega)
      rw [hst1]
      simp only [bind, Except.bind]
      obtain ⟨henc', hdec'⟩ := rowCur_enc_dec em.slotsN row { a with enc := a.enc + 1 }
      obtain ⟨st', hfold, hdec2⟩ := decode_classes c starts rows (ci0 + 1) cells st1
        (vps ++ [some ((st.dec.length : Int) - (c.slots.first.get ci0 : Int))]) (done ++ [cell])
        (rowCur em.slotsN row { a with enc := a.enc + 1 })
        (by simpa using hlen) hnd'
        (by
          intro x hx hmem
          rcases List.mem_append.mp hmem with h | h
          · exact hfresh x (by simp [hx]) h
          · simp at h; subst h; exact hcn hx)
        (fun r hr => hgood r (by simp [hr]))
        (by
          intro k hk
          have := hfirst (k + 1) (by simp; omega)
          rw [show ci0 + 1 + k = ci0 + (k + 1) by omega]
          exact this)
        (by
          intro i x hx
          rw [henc1, Nat.add_assoc]
          apply hstream
          rw [codesFrom_cons, List.getElem?_append_right (by omega)]
          simpa using hx)
        (by
          -- the read cursor after the class
          rw [henc', henc1, hae, encodeClass_eq]
          cases row with
          | nil => simp
          | cons e rest =>
            simp only [List.length_cons]
            have hsum : ∀ (r : List Entry), r ≠ [] → (bodyRec c r).length = (r.map (fun e => if e.vp ≠ 0 then 1 else 2)).sum := by
              intro r
              induction r with
              | nil => intro h; exact absurd rfl h
              | cons x xs ih =>
                intro _
                cases xs with
                | nil => simp [bodyRec, markLast_length, entryCodes_length]
                | cons y ys =>
                  rw [bodyRec_cons, List.length_append, entryCodes_length, ih (by simp)]
                  simp
            rw [hsum (e :: rest) (by simp)]
            simp only [List.length_cons] at *
            omega)
        (by rw [hdec', hdec1, had]; simp)
        hg1
        (by simpa [clsCur] using hhr)
        (by
          rw [hdec1]
          simp only [List.map_cons, List.sum_cons, List.length_append, List.length_map] at hroom ⊢
          omega)
      refine ⟨st', ?_, ?_⟩
      · rw [hfold]
        simp only [vpsFrom, List.append_assoc, List.singleton_append, hdec1, List.length_append, List.length_map]
      · rw [hdec2, hdec1]
        simp



/-! ## `decode (encode c)` -/

/-- **the v-table part of the round trip**: decoding in place what the encoder emitted — with the head
    room the encoder computed — never reads a code the write cursor has passed, never writes outside
    `vtbls[D]`, and yields the entries of the v-tables in class order; each class's v-table pointer is
    the position of its first word biased by its first slot (as `install_gv` sets it) -/
theorem decode_encode (c : Compiled) (cells : List Nat) (dt : List DWord) (starts : List (Option Nat))
    (hdt : decodeDtbls (msOf c) (encode c).dtbls = .ok (dt, starts))
    (hcells : cells.length = c.vtbl.length) (hnd : cells.Nodup)
    (hgood : ∀ row ∈ c.vtbl, ∀ e ∈ row, EntryGood c starts e)
    (hfirst : ∀ k, k < c.vtbl.length → c.slots.first.get k < stopBit) :
    ∃ d, decode (encode c) (msOf c) cells = .ok d ∧ d.vtbls = c.vtbl.flatten.map (toD c starts) ∧
      d.vptrs = vpsFrom c 0 c.vtbl 0 ∧ d.dtbls = dt ∧ d.ss = ssOf (msOf c) (encode c).slots := by
  obtain ⟨st', hfold, hdec⟩ := decode_classes (encode c) c starts c.vtbl 0 cells
    { enc := 0, dec := [], last := false } [] [] { enc := 0, dec := 0, hr := 0 }
    hcells hnd (by simp) hgood (by simpa using hfirst)
    (by
      intro i x hx
      simp only [Nat.zero_add]
      exact hx)
    rfl rfl (by simp) (Nat.le_refl _)
    (by simp [encode])
  unfold decode
  simp only [hdt, bind, Except.bind]
  simp only [List.nil_append, List.length_nil] at hfold
  rw [hfold]
  exact ⟨_, rfl, by simpa using hdec, rfl, rfl, rfl⟩

end Yomm2.RoundTrip
