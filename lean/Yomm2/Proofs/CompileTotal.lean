import Yomm2.Proofs.SlotsSizes
import Yomm2.Proofs.CompileSlots
/-!
# `update` never writes outside a v-table

Every write `cls->vtbl[slot - first_slot]` of `build_dispatch_tables` is in range: for a class of a
tree because its v-table has `B c + |used_by c|` cells and the windows of its ancestors end before; for
a class of a lattice because the "MI v-tables" loop sizes the v-table from the first to the last bit
set in `used`, and every slot of a parameter that accepts the class is set there. Hence `compile`
fails only for the documented reasons (an unknown class; a definition whose arity differs).
-/
namespace Yomm2.CompileTotal
open Yomm2 Yomm2.Reach Yomm2.GraphFacts Yomm2.TreeFacts Yomm2.UsedBy Yomm2.SlotsInv Yomm2.SlotsExcl Yomm2.SlotsSizes
open Yomm2.Lattice Yomm2.Entries Yomm2.VtblContent Yomm2.GraphProofs Yomm2.Heads

variable {g : Graph} (ms : List MethodC)

/-! ## the "MI v-tables" loop -/

def phaseBStep (st : SlotSt) (c : Nat) : SlotSt :=
  if (st.used.get c).isEmpty then st
  else
    let fs := ((st.used.get c).findFirst).getD 0
    { st with first := st.first.set c fs, vsize := st.vsize.set c ((st.used.get c).length - fs) }

theorem assignSlots_eq : assignSlots g ms = (List.range g.n).foldl phaseBStep (phaseA g ms).1 := rfl

theorem phaseBStep_get (st : SlotSt) (c x : Nat) :
    ((phaseBStep st c).first.get x, (phaseBStep st c).vsize.get x) =
      if x = c ∧ (st.used.get x).isEmpty = false then
        (((st.used.get x).findFirst).getD 0, (st.used.get x).length - ((st.used.get x).findFirst).getD 0)
      else (st.first.get x, st.vsize.get x) := by
  unfold phaseBStep
  by_cases hxc : x = c
  · subst hxc
    by_cases he : (st.used.get x).isEmpty = true
    · simp [he]
    · have he' : (st.used.get x).isEmpty = false := by simpa using he
      simp [he']
  · simp only [hxc, false_and, if_false]
    split
    · rfl
    · simp [Tab.get_set, hxc]

theorem phaseB_fold : ∀ (l : List Nat) (st : SlotSt), l.Nodup →
    (l.foldl phaseBStep st).used = st.used ∧ (l.foldl phaseBStep st).slotList = st.slotList ∧
    ∀ x, ((l.foldl phaseBStep st).first.get x, (l.foldl phaseBStep st).vsize.get x) =
      if x ∈ l ∧ (st.used.get x).isEmpty = false then
        (((st.used.get x).findFirst).getD 0, (st.used.get x).length - ((st.used.get x).findFirst).getD 0)
      else (st.first.get x, st.vsize.get x)
  | [], st, _ => ⟨rfl, rfl, fun x => by simp⟩
  | c :: l, st, hnd => by
    simp only [List.foldl_cons]
    obtain ⟨hc, hl⟩ := List.nodup_cons.mp hnd
    have hused1 : (phaseBStep st c).used = st.used := by unfold phaseBStep; split <;> rfl
    have hsl1 : (phaseBStep st c).slotList = st.slotList := by unfold phaseBStep; split <;> rfl
    obtain ⟨i1, i2, i3⟩ := phaseB_fold l (phaseBStep st c) hl
    refine ⟨i1.trans hused1, i2.trans hsl1, ?_⟩
    intro x
    rw [i3 x, hused1, phaseBStep_get]
    by_cases hxl : x ∈ l
    · have hxc : x ≠ c := fun e => hc (e ▸ hxl)
      simp only [hxl, true_and, hxc, false_and, if_false, List.mem_cons, or_true]
    · simp only [hxl, false_and, if_false, List.mem_cons, or_false]

theorem findFirst_le_of_mem (b : Bits) (s : Nat) (h : b.mem s = true) :
    ∃ ff, b.findFirst = some ff ∧ ff ≤ s ∧ s < b.length ∧ b.isEmpty = false := by
  have hlt := Bits.mem_lt_length b s h
  have hbs : b[s] = true := by
    unfold Bits.mem at h
    rw [List.getElem?_eq_getElem hlt] at h
    simpa using h
  have hle : b.findIdx (fun x => x) ≤ s := by
    apply Decidable.byContradiction
    intro hn
    have := List.not_of_lt_findIdx (p := fun x => x) (xs := b) (Nat.not_le.mp hn)
    rw [hbs] at this
    cases this
  refine ⟨b.findIdx (fun x => x), ?_, hle, hlt, ?_⟩
  · unfold Bits.findFirst
    simp only
    rw [if_pos (by omega)]
  · cases b with
    | nil => simp at hlt
    | cons _ _ => rfl

/-! ## every slot read or written through a class lies inside the class's v-table -/

theorem slot_in_range (hg : Good g) (mp : Nat × Nat) (v ci : Nat) (hv : paramClass ms mp = some v) (hvn : v < g.n)
    (hci : ci ∈ g.cov.get v) :
    (assignSlots g ms).first.get ci ≤ (assignSlots g ms).slots mp ∧
    (assignSlots g ms).slots mp - (assignSlots g ms).first.get ci < (assignSlots g ms).vsize.get ci := by
  obtain ⟨K, hinv, hall⟩ := phaseA_inv ms hg
  obtain ⟨husedT, hsizesT⟩ := phaseA_sizes ms hg
  have hcin : ci < g.n := reach_lt hg (reach_of_cov hg hci) hvn
  obtain ⟨hBused, hBsl, hBget⟩ := phaseB_fold (List.range g.n) (phaseA g ms).1 List.nodup_range
  -- the binding
  obtain ⟨e, he, he1⟩ := List.mem_map.mp ((hinv.keys mp).mpr (hall mp v hv hvn))
  have hslot : (assignSlots g ms).slots mp = e.2 := by
    unfold SlotSt.slots
    rw [assignSlots_slotList]
    exact alGet_of_mem _ 0 mp e.2 hinv.nodup (by rw [← he1]; exact he)
  rw [hslot, assignSlots_eq]
  have hget := hBget ci
  by_cases hvt : InTree g v
  · -- a tree: bit sets empty, sizes as assigned
    have hcit : InTree g ci := inTree_down hvt (reach_of_cov hg hci)
    have hempty : ((phaseA g ms).1.used.get ci).isEmpty = true := by rw [husedT ci hcit]; rfl
    simp only [hempty, Bool.true_eq_false, and_false, if_false, Prod.mk.injEq] at hget
    rw [hget.1, hget.2]
    obtain ⟨hf, hvs⟩ := hsizesT ci hcit
    obtain ⟨hlo, hhi⟩ := hinv.tree e he v (by rw [he1]; exact hv) hvt
    rw [hf, hvs]
    refine ⟨Nat.zero_le _, ?_⟩
    by_cases hvc : v = ci
    · subst hvc; omega
    · have := B_mono ms hg hcit (reach_of_cov hg hci) hvc
      omega
  · -- a lattice: the slot is set in `used ci`
    have hcov := hinv.lat e he v (by rw [he1]; exact hv) hvt
    have hbit := hcov.1 ci hci
    obtain ⟨ff, hff, hle, hlen, hne⟩ := findFirst_le_of_mem _ _ hbit
    have hmem : ci ∈ List.range g.n := List.mem_range.mpr hcin
    simp only [hmem, hne, and_self, if_true, Prod.mk.injEq] at hget
    rw [hget.1, hget.2, hff]
    simp only [Option.getD_some]
    omega

/-! ## a sequence of writes that are all in range succeeds -/

theorem foldlM_ok (st : SlotSt) : ∀ (ws : List (Nat × Nat × Entry)) (vt : List (List Entry)),
    (∀ w ∈ ws, ∃ row, vt[w.1]? = some row ∧ st.first.get w.1 ≤ w.2.1 ∧ w.2.1 - st.first.get w.1 < row.length) →
    ∃ vt', ws.foldlM (stepWrite st) vt = .ok vt'
  | [], vt, _ => ⟨vt, rfl⟩
  | w :: ws, vt, h => by
    rw [List.foldlM_cons]
    obtain ⟨row, hrow, h1, h2⟩ := h w (by simp)
    have hstep : ∃ vt1, stepWrite st vt w = .ok vt1 := by
      unfold stepWrite
      simp only [hrow]
      rw [if_neg (by omega)]
      exact ⟨_, rfl⟩
    obtain ⟨vt1, hvt1⟩ := hstep
    simp only [hvt1, bind, Except.bind]
    apply foldlM_ok st ws vt1
    intro w' hw'
    obtain ⟨row', hrow', h1', h2'⟩ := h w' (by simp [hw'])
    have hsh := (stepWrite_shape st vt vt1 w hvt1).2 w'.1
    rw [hrow'] at hsh
    cases hv : vt1[w'.1]? with
    | none => rw [hv] at hsh; simp at hsh
    | some r1 =>
      rw [hv] at hsh
      simp at hsh
      exact ⟨r1, rfl, h1', by omega⟩

def Documented (e : Err) : Prop :=
  (∃ id, e = .unknownClass id) ∨ e = .fault "definition arity differs from method arity"

theorem resolveIds_error (proj : Nat → Nat) (hs : List Head) : ∀ (ts : List Nat) (e : Err),
    resolveIds proj hs ts = .error e → ∃ id, e = .unknownClass id
  | [], e, h => by simp [resolveIds] at h
  | t :: ts, e, h => by
    simp only [resolveIds] at h
    cases hc : classIdx hs (proj t) with
    | none => simp only [hc] at h; cases h; exact ⟨t, rfl⟩
    | some c =>
      simp only [hc] at h
      cases hr : resolveIds proj hs ts with
      | error e' =>
        simp only [hr, bind, Except.bind] at h
        cases h
        exact resolveIds_error proj hs ts _ hr
      | ok rest => simp [hr, bind, Except.bind] at h

theorem resolveDefs_error (proj : Nat → Nat) (hs : List Head) (arity : Nat) : ∀ (ds : List DefRec) (e : Err),
    resolveDefs proj hs arity ds = .error e → Documented e
  | [], e, h => by simp [resolveDefs] at h
  | d :: ds, e, h => by
    simp only [resolveDefs] at h
    cases hvp : resolveIds proj hs d.vp with
    | error e' =>
      simp only [hvp, bind, Except.bind] at h
      cases h
      exact Or.inl (resolveIds_error proj hs d.vp _ hvp)
    | ok vp =>
      simp only [hvp, bind, Except.bind] at h
      split at h
      · cases h; exact Or.inr rfl
      · cases hr : resolveDefs proj hs arity ds with
        | error e' =>
          simp only [hr] at h
          cases h
          exact resolveDefs_error proj hs arity ds _ hr
        | ok rest => simp [hr] at h

theorem resolveMethods_error (proj : Nat → Nat) (hs : List Head) : ∀ (mrs : List MethodRec) (e : Err),
    resolveMethods proj hs mrs = .error e → Documented e
  | [], e, h => by simp [resolveMethods] at h
  | mr :: mrs, e, h => by
    simp only [resolveMethods] at h
    cases hvp : resolveIds proj hs mr.vp with
    | error e' =>
      simp only [hvp, bind, Except.bind] at h
      cases h
      exact Or.inl (resolveIds_error proj hs mr.vp _ hvp)
    | ok vp =>
      simp only [hvp, bind, Except.bind] at h
      cases hsp : resolveDefs proj hs vp.length mr.defs with
      | error e' =>
        simp only [hsp] at h
        cases h
        exact resolveDefs_error proj hs vp.length mr.defs _ hsp
      | ok specs =>
        simp only [hsp] at h
        cases hr : resolveMethods proj hs mrs with
        | error e' =>
          simp only [hr] at h
          cases h
          exact resolveMethods_error proj hs mrs _ hr
        | ok rest => simp [hr] at h

/-- **`compile` never faults on a v-table write**: it fails only with `unknown class`, or because a
    definition's arity differs from its method's (ruled out by the C++ type system) -/
theorem compile_total (proj : Nat → Nat) (reg : Registry) (hwf : WF proj reg.classes reg.methods)
    (e : Err) (h : compile proj reg = .error e) : Documented e := by
  unfold compile at h
  cases hg : buildGraph proj reg.classes with
  | error e' =>
    simp only [hg, bind, Except.bind] at h
    cases h
    unfold buildGraph at hg
    simp only at hg
    split at hg
    · cases hg; exact Or.inl ⟨_, rfl⟩
    · cases hg
  | ok g =>
    simp only [hg, bind, Except.bind] at h
    cases hms : resolveMethods proj g.heads reg.methods with
    | error e' =>
      simp only [hms] at h
      cases h
      exact resolveMethods_error proj g.heads reg.methods _ hms
    | ok ms =>
      simp only [hms] at h
      exfalso
      have hgood := good_of_buildGraph proj reg.classes reg.methods g hg hwf
      obtain ⟨_, hn, hheads, _⟩ := buildGraph_fields proj reg.classes g hg
      -- all the writes are in range
      have hok := foldlM_ok (assignSlots g ms) (allWrites (assignSlots g ms) (ms.map (dispatchMethod g)))
        (vt0 g (assignSlots g ms))
        (by
          intro w hw
          obtain ⟨mi, o, dim, gs, gi, gr, ho, hgs, hgr, hci, hslot, _⟩ := (mem_allWrites _ _ _).mp hw
          rw [List.getElem?_map] at ho
          cases hm : ms[mi]? with
          | none => simp [hm] at ho
          | some m =>
            simp [hm] at ho
            subst ho
            obtain ⟨v, hv, hgseq⟩ := groups_get g m dim gs hgs
            subst hgseq
            have hmem := (TableProofs.group_classes _ _ _ gr (List.mem_of_getElem? hgr) w.1).mp hci
            have hvn : v < g.n := by
              have := CompileSlots.resolveMethods_vp_lt proj g.heads reg.methods ms hms m (List.mem_of_getElem? hm) v
                (List.mem_of_getElem? hv)
              rw [hn, ← hheads]; exact this
            have hcin : w.1 < g.n := reach_lt hgood (reach_of_cov hgood hmem.1) hvn
            have hpc : paramClass ms (mi, dim) = some v := by simp [paramClass, hm, hv]
            obtain ⟨h1, h2⟩ := slot_in_range ms hgood (mi, dim) v w.1 hpc hvn hmem.1
            refine ⟨List.replicate ((assignSlots g ms).vsize.get w.1) { method := 0, vp := 0, group := 0 }, ?_, ?_, ?_⟩
            · unfold vt0
              rw [List.getElem?_map, List.getElem?_range hcin]
              rfl
            · rw [hslot]; exact h1
            · rw [hslot, List.length_replicate]; exact h2)
      obtain ⟨vt', hvt'⟩ := hok
      have heq : (List.zipIdx (ms.map (dispatchMethod g))).foldlM
          (fun vt (om : MethodOut × Nat) => writeEntries (assignSlots g ms) om.2 om.1.groups vt) (vt0 g (assignSlots g ms)) = .ok vt' := by
        unfold allWrites at hvt'
        rw [foldlM_flatMap] at hvt'
        exact hvt'
      unfold vt0 at heq
      rw [heq] at h
      cases h

end Yomm2.CompileTotal
