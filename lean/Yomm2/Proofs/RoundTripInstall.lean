import Yomm2.Proofs.RoundTripTables
import Yomm2.Proofs.InstallSize
/-!
# `decode (encode c)` is the image `install c` builds

Same words in `dispatch_data` (tables of the multi-methods, then the v-tables), same v-table pointers,
same `slots_strides` arrays — hence every call resolves the same way.
-/
namespace Yomm2.RoundTrip
open Yomm2 Yomm2.Layout Yomm2.InstallSize

def conv : DWord → Word
  | .fn m c => Word.fn m c
  | .tbl i => Word.ptr i
  | .num n => Word.num n

theorem toInstalled_data (d : Decoded) : d.toInstalled.data = ((d.dtbls ++ d.vtbls).map conv).toArray := by
  unfold Decoded.toInstalled
  simp only
  congr 1

/-- what `install_gv` stores for the tables, from method index `mi` on -/
def twFrom : List (MethodC × MethodOut) → Nat → List (List Word)
  | [], _ => []
  | (m, o) :: rest, mi =>
    (if m.vp.length == 1 then [] else o.table.map (fun cell => Word.fn mi cell.1)) :: twFrom rest (mi + 1)

theorem tableWordsOf_eq (c : Compiled) : tableWordsOf c = twFrom (c.methods.zip c.outs) 0 := by
  unfold tableWordsOf
  have : ∀ (mos : List (MethodC × MethodOut)) (k : Nat),
      (List.zipIdx mos k).map (fun (x : (MethodC × MethodOut) × Nat) =>
        if x.1.1.vp.length == 1 then [] else x.1.2.table.map (fun cell => Word.fn x.2 cell.1)) = twFrom mos k := by
    intro mos
    induction mos with
    | nil => intro k; rfl
    | cons mo rest ih =>
      intro k
      obtain ⟨m, o⟩ := mo
      rw [List.zipIdx_cons, List.map_cons, twFrom, ih (k + 1)]
  exact this _ 0

theorem dtWords_conv : ∀ (mos : List (MethodC × MethodOut)) (mi : Nat), (∀ mo ∈ mos, 1 ≤ mo.1.vp.length) →
    (dtWords mos mi).map conv = (twFrom mos mi).flatten
  | [], _, _ => rfl
  | (m, o) :: rest, mi, h => by
    have h1 : 1 ≤ m.vp.length := h (m, o) (by simp)
    rw [dtWords, twFrom, List.map_append, List.flatten_cons, dtWords_conv rest (mi + 1) (fun mo hmo => h mo (by simp [hmo]))]
    congr 1
    by_cases hu : m.vp.length = 1
    · simp [hu]
    · have h2 : ¬ m.vp.length < 2 := by omega
      simp [hu, h2, conv]

/-- table bases as `install_gv` computes them and as the decoder records them -/
theorem starts_bases : ∀ (mos : List (MethodC × MethodOut)) (mi base : Nat), (∀ mo ∈ mos, 1 ≤ mo.1.vp.length) →
    ∀ (k : Nat) (m : MethodC) (o : MethodOut), mos[k]? = some (m, o) → m.vp.length ≠ 1 →
      ((dtStarts mos base)[k]?.bind id).getD 0 = ((prefixSums ((twFrom mos mi).map List.length) base)[k]?).getD 0
  | [], _, _, _, k, m, o, hk, _ => by simp at hk
  | (m0, o0) :: rest, mi, base, h, k, m, o, hk, hm => by
    have h1 : 1 ≤ m0.vp.length := h (m0, o0) (by simp)
    cases k with
    | zero =>
      simp at hk
      obtain ⟨rfl, rfl⟩ := hk
      have h2 : ¬ m0.vp.length < 2 := by omega
      simp [dtStarts, h2, twFrom, prefixSums]
    | succ k =>
      simp only [List.getElem?_cons_succ] at hk
      rw [twFrom, List.map_cons, prefixSums]
      simp only [List.getElem?_cons_succ]
      by_cases hu : m0.vp.length = 1
      · have h2 : m0.vp.length < 2 := by omega
        simp only [dtStarts, if_true, hu, beq_self_eq_true, List.length_nil, Nat.add_zero]
        exact starts_bases rest (mi + 1) base (fun mo hmo => h mo (by simp [hmo])) k m o hk hm
      · have h2 : ¬ m0.vp.length < 2 := by omega
        have h3 : (m0.vp.length == 1) = false := by simpa using hu
        simp only [dtStarts, h2, if_false, List.getElem?_cons_succ, h3, Bool.false_eq_true, List.length_map]
        exact starts_bases rest (mi + 1) (base + o0.table.length) (fun mo hmo => h mo (by simp [hmo])) k m o hk hm

theorem mapM_eq_map {α β ε} (f : α → Except ε β) (g : α → β) : ∀ (l : List α), (∀ a ∈ l, f a = .ok (g a)) →
    l.mapM f = .ok (l.map g)
  | [], _ => by simp [List.mapM_nil, pure, Except.pure]
  | a :: as, h => by
    rw [List.mapM_cons, h a (by simp), mapM_eq_map f g as (fun a' ha' => h a' (by simp [ha']))]
    rfl

/-- the entry the decoder produces is the word `install_gv` writes -/
theorem entryWord_eq (c : Compiled)
    (har : ∀ m ∈ c.methods, 1 ≤ m.vp.length) (e : Entry) (hvp : e.vp < arOf c e.method) (w : Word)
    (hw : entryWord c (prefixSums ((tableWordsOf c).map List.length) 0) e = .ok w) :
    w = conv (toD c (dtStarts (c.methods.zip c.outs) 0) e) := by
  unfold entryWord at hw
  cases ho : c.outs[e.method]? with
  | none => simp [ho] at hw
  | some o =>
    cases hm : c.methods[e.method]? with
    | none => simp [ho, hm] at hw
    | some m =>
      simp only [ho, hm] at hw
      have harm : arOf c e.method = m.vp.length := by simp [arOf, hm]
      unfold toD
      by_cases hu : (m.vp.length == 1) = true
      · simp only [hu, if_true] at hw
        have hvp0 : e.vp = 0 := by
          have : m.vp.length = 1 := by simpa using hu
          omega
        cases hc : o.table[e.group]? with
        | none => simp [hc] at hw
        | some cell =>
          simp only [hc] at hw
          cases hw
          simp [hvp0, harm, hu, cellAt, ho, hc, conv]
      · simp only [hu, Bool.false_eq_true, if_false] at hw
        by_cases hv : (e.vp == 0) = true
        · simp only [hv, if_true] at hw
          cases hw
          have hvp0 : e.vp = 0 := by simpa using hv
          have hu' : (m.vp.length == 1) = false := by simpa using hu
          simp only [hvp0, ne_eq, not_true_eq_false, if_false, harm, hu', Bool.false_eq_true, conv]
          congr 2
          have hzip : (c.methods.zip c.outs)[e.method]? = some (m, o) := by
            rw [List.getElem?_zip_eq_some]; exact ⟨hm, ho⟩
          rw [tableWordsOf_eq]
          exact (starts_bases (c.methods.zip c.outs) 0 0
            (by
              intro mo hmo
              exact har mo.1 (List.of_mem_zip hmo).1)
            e.method m o hzip (by simpa using hu)).symm
        · simp only [hv, Bool.false_eq_true, if_false] at hw
          cases hw
          have hvpn : e.vp ≠ 0 := by simpa using hv
          simp [hvpn, conv]

theorem ssOf_chunks : ∀ (mos : List (MethodC × MethodOut)) (mi : Nat) (acc : List (List Nat)) (st : SlotSt) (post : List Nat),
    (∀ mo ∈ mos, 1 ≤ mo.1.vp.length ∧ mo.2.strides.length = mo.1.vp.length - 1 ∧ mo.2.nexts.length = mo.1.specs.length) →
    ((mos.map (fun mo => (mo.1.vp.length, mo.1.specs.length))).foldl
      (fun (acc : List (List Nat) × List Nat) (m : Nat × Nat) =>
        let n := 2 * m.1 - 1
        (acc.1 ++ [acc.2.take n], acc.2.drop (n + m.2)))
      (acc, (List.zipIdx mos mi).flatMap (fun (x : (MethodC × MethodOut) × Nat) =>
        slotsOf st x.2 x.1.1.vp.length ++ x.1.2.strides ++ x.1.2.nexts.map (cellIndex x.1.1.specs.length)) ++ post)).1 =
    acc ++ (List.zipIdx mos mi).map (fun (x : (MethodC × MethodOut) × Nat) =>
      if x.1.1.vp.length == 1 then [st.slots (x.2, 0)] else slotsOf st x.2 x.1.1.vp.length ++ x.1.2.strides)
  | [], _, acc, _, _, _ => by simp
  | (m, o) :: rest, mi, acc, st, post, h => by
    obtain ⟨h1, h2, h3⟩ := h (m, o) (by simp)
    simp only [List.map_cons, List.foldl_cons, List.zipIdx_cons, List.flatMap_cons]
    have hchunk : (slotsOf st mi m.vp.length ++ o.strides).length = 2 * m.vp.length - 1 := by
      simp only [List.length_append, slotsOf, List.length_map, List.length_range]
      simp only at h2
      omega
    have hnl : (o.nexts.map (cellIndex m.specs.length)).length = m.specs.length := by
      simp only [List.length_map]; exact h3
    -- the chunk of this method is `(slots ++ strides) ++ nexts`; the rest follows
    have htake : ((slotsOf st mi m.vp.length ++ o.strides ++ o.nexts.map (cellIndex m.specs.length)) ++
        ((List.zipIdx rest (mi + 1)).flatMap (fun (x : (MethodC × MethodOut) × Nat) =>
          slotsOf st x.2 x.1.1.vp.length ++ x.1.2.strides ++ x.1.2.nexts.map (cellIndex x.1.1.specs.length))) ++ post).take
        (2 * m.vp.length - 1) = slotsOf st mi m.vp.length ++ o.strides := by
      rw [List.append_assoc, List.append_assoc, List.take_append_of_le_length (by omega),
        List.take_of_length_le (by omega)]
    have hdrop : ((slotsOf st mi m.vp.length ++ o.strides ++ o.nexts.map (cellIndex m.specs.length)) ++
        ((List.zipIdx rest (mi + 1)).flatMap (fun (x : (MethodC × MethodOut) × Nat) =>
          slotsOf st x.2 x.1.1.vp.length ++ x.1.2.strides ++ x.1.2.nexts.map (cellIndex x.1.1.specs.length))) ++ post).drop
        (2 * m.vp.length - 1 + m.specs.length) =
        ((List.zipIdx rest (mi + 1)).flatMap (fun (x : (MethodC × MethodOut) × Nat) =>
          slotsOf st x.2 x.1.1.vp.length ++ x.1.2.strides ++ x.1.2.nexts.map (cellIndex x.1.1.specs.length))) ++ post := by
      rw [List.append_assoc]
      have hl : (slotsOf st mi m.vp.length ++ o.strides ++ o.nexts.map (cellIndex m.specs.length)).length =
          2 * m.vp.length - 1 + m.specs.length := by
        rw [List.length_append, hchunk, hnl]
      rw [← hl, List.drop_left]
    rw [htake, hdrop]
    rw [ssOf_chunks rest (mi + 1) _ st post (fun mo hmo => h mo (by simp [hmo]))]
    simp only [List.append_assoc, List.singleton_append]
    congr 2
    by_cases hu : m.vp.length = 1
    · have hs : o.strides = [] := List.length_eq_zero_iff.mp (by simp only at h2; omega)
      simp [hu, hs, slotsOf]
    · simp [hu]


theorem vps_eq (c : Compiled) (base : Nat) : ∀ (rows : List (List Entry)) (ci0 b0 : Nat),
    (vpsFrom c ci0 rows b0).filterMap (fun v => v.map (fun x => x + (base : Int))) =
    (List.range rows.length).map (fun k =>
      ((base + (b0 + ((rows.take k).map List.length).sum) : Nat) : Int) - (c.slots.first.get (ci0 + k) : Int))
  | [], _, _ => rfl
  | row :: rows, ci0, b0 => by
    rw [vpsFrom, List.filterMap_cons]
    simp only [Option.map_some, List.length_cons, List.range_succ_eq_map, List.map_cons, List.map_map]
    rw [vps_eq c base rows (ci0 + 1) (b0 + row.length)]
    congr 1
    · simp; omega
    · apply List.map_congr_left
      intro k _
      simp only [Function.comp, List.take_succ_cons, List.map_cons, List.sum_cons]
      rw [show ci0 + 1 + k = ci0 + (k + 1) by omega]
      congr 2
      omega

/-- **C13, the whole round trip**: what `decode_dispatch_data` rebuilds from the emitted structure is the
    image `install_gv` built — same words in `dispatch_data`, same v-table pointers, same
    `slots_strides` — for every compiled registry whose numbers fit the 16-bit fields -/
theorem decode_encode_eq_install (c : Compiled) (inst : Installed) (hinst : install c = .ok inst)
    (cells : List Nat) (hcells : cells.length = c.vtbl.length) (hnd : cells.Nodup)
    (hlen : c.methods.length = c.outs.length)
    (har : ∀ m ∈ c.methods, 1 ≤ m.vp.length)
    (hstr : ∀ mo ∈ c.methods.zip c.outs, mo.2.strides.length = mo.1.vp.length - 1)
    (hnx : ∀ mo ∈ c.methods.zip c.outs, mo.2.nexts.length = mo.1.specs.length)
    (htab : ∀ mo ∈ c.methods.zip c.outs, TableGood mo)
    (hgood : ∀ row ∈ c.vtbl, ∀ e ∈ row, EntryGood c (dtStarts (c.methods.zip c.outs) 0) e ∧ e.vp < arOf c e.method)
    (hfirst : ∀ k, k < c.vtbl.length → c.slots.first.get k < stopBit) :
    ∃ d, decode (encode c) (msOf c) cells = .ok d ∧ d.toInstalled.data = inst.data ∧
      d.toInstalled.vptr = inst.vptr ∧ d.toInstalled.ss = inst.ss := by
  have hdt := decodeDtbls_encode c (Nat.le_of_eq hlen) htab
  obtain ⟨d, hd, hvt, hvp, hdtb, hss⟩ := decode_encode c cells _ _ hdt hcells hnd
    (fun row hrow e he => (hgood row hrow e he).1) hfirst
  refine ⟨d, hd, ?_⟩
  have harz : ∀ mo ∈ c.methods.zip c.outs, 1 ≤ mo.1.vp.length := fun mo hmo => har mo.1 (List.of_mem_zip hmo).1
  -- the rows `install_gv` writes are the decoded entries
  let g := fun (e : Entry) => conv (toD c (dtStarts (c.methods.zip c.outs) 0) e)
  unfold install at hinst
  cases hr : c.vtbl.mapM (fun row => row.mapM (entryWord c (prefixSums ((tableWordsOf c).map List.length) 0))) with
  | error e => simp [hr, bind, Except.bind] at hinst
  | ok rows =>
    simp only [hr, bind, Except.bind] at hinst
    have hrows : rows = c.vtbl.map (fun row => row.map g) := by
      have hexp : c.vtbl.mapM (fun row => row.mapM (entryWord c (prefixSums ((tableWordsOf c).map List.length) 0))) =
          .ok (c.vtbl.map (fun row => row.map g)) := by
        apply mapM_eq_map
        intro row hrow
        apply mapM_eq_map
        intro e he
        -- this entry was translated successfully by install
        obtain ⟨i, hi⟩ := List.getElem?_of_mem hrow
        obtain ⟨_, hget⟩ := mapM_except_get _ _ _ hr
        obtain ⟨wrow, _, hwrow⟩ := hget i row hi
        obtain ⟨k, hk⟩ := List.getElem?_of_mem he
        obtain ⟨_, hget2⟩ := mapM_except_get _ _ _ hwrow
        obtain ⟨w, _, hw⟩ := hget2 k e hk
        rw [hw, entryWord_eq c har e (hgood row hrow e he).2 w hw]
      rw [hr] at hexp
      exact Except.ok.inj hexp
    cases hinst
    refine ⟨?_, ?_, ?_⟩
    · -- the words
      rw [toInstalled_data, hdtb, hvt]
      simp only
      congr 1
      rw [List.map_append, dtWords_conv _ 0 harz, tableWordsOf_eq, hrows, List.map_map]
      congr 1
      rw [List.map_flatten]
      simp [g, Function.comp_def]
    · -- the v-table pointers
      unfold Decoded.toInstalled
      simp only
      congr 2
      rw [hvp, hdtb, vps_eq c _ c.vtbl 0 0, hrows]
      apply List.map_congr_left
      intro k _
      have hl : (dtWords (c.methods.zip c.outs) 0).length = ((tableWordsOf c).map List.length).sum := by
        have := congrArg List.length (dtWords_conv (c.methods.zip c.outs) 0 harz)
        rw [List.length_map, List.length_flatten, ← tableWordsOf_eq] at this
        exact this
      rw [hl]
      simp only [Nat.zero_add, List.map_take, List.map_map, Function.comp_def, List.length_map]
    · -- slots and strides
      unfold Decoded.toInstalled
      simp only
      rw [hss]
      unfold ssOf
      rw [msOf_eq_zip c (Nat.le_of_eq hlen)]
      have := ssOf_chunks (c.methods.zip c.outs) 0 [] c.slots []
        (fun mo hmo => ⟨harz mo hmo, hstr mo hmo, hnx mo hmo⟩)
      simp only [List.append_nil, List.nil_append] at this
      have hsl : (encode c).slots = (List.zipIdx (c.methods.zip c.outs) 0).flatMap (fun (x : (MethodC × MethodOut) × Nat) =>
          slotsOf c.slots x.2 x.1.1.vp.length ++ x.1.2.strides ++ x.1.2.nexts.map (cellIndex x.1.1.specs.length)) := rfl
      rw [hsl, this]

end Yomm2.RoundTrip
