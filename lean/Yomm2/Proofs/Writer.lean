import Yomm2.Model.Generator
/-!
# The forward-declaration writer, component by component

A qualified name is a list of namespace components and a class component; components are non-empty and
contain no `':'`. The character-level writer, given the namespace part of the previous name and the next
name, closes the namespaces that are not a prefix of the new path, opens the missing ones, and declares
the class — exactly what the component-level reference below does.
-/
namespace Yomm2.Writer
open Yomm2

abbrev Comp := List Char

def WfComp (c : Comp) : Prop := c ≠ [] ∧ ':' ∉ c

/-- `"a::b::"` for `[a, b]` -/
def nsStr : List Comp → List Char
  | [] => []
  | c :: cs => c ++ ':' :: ':' :: nsStr cs

def nameStr (ns : List Comp) (cls : Comp) : List Char := nsStr ns ++ cls

theorem nsStr_append (a b : List Comp) : nsStr (a ++ b) = nsStr a ++ nsStr b := by
  induction a with
  | nil => rfl
  | cons c cs ih => simp [nsStr, ih]

/-- length of the longest common prefix -/
def lcp : List Comp → List Comp → Nat
  | a :: as, b :: bs => if a = b then lcp as bs + 1 else 0
  | _, _ => 0

theorem lcp_le_left : ∀ (a b : List Comp), lcp a b ≤ a.length
  | [], _ => by simp [lcp]
  | _ :: _, [] => by simp [lcp]
  | a :: as, b :: bs => by
    simp only [lcp]
    split
    · have := lcp_le_left as bs; simp; omega
    · omega

theorem lcp_take : ∀ (a b : List Comp), a.take (lcp a b) = b.take (lcp a b)
  | [], _ => by simp [lcp]
  | _ :: _, [] => by simp [lcp]
  | a :: as, b :: bs => by
    simp only [lcp]
    split
    · rename_i h; subst h; simp [lcp_take as bs]
    · simp

/-! ## the three loops on well-formed input -/

theorem closeRest_comp (s : List Char) (hs : ':' ∉ s) (X : List Char) :
    closeRest (s ++ ':' :: ':' :: X) = "}\n" :: closeRest X := by
  induction s with
  | nil => simp [closeRest]
  | cons c s ih =>
    have hc : c ≠ ':' := fun e => hs (by simp [e])
    have hs' : ':' ∉ s := fun h => hs (by simp [h])
    cases s with
    | nil => simp [closeRest, hc]
    | cons d s' =>
      simp only [List.cons_append] at ih ⊢
      rw [closeRest]
      simp only [hc, if_false]
      exact ih hs'

theorem closeRest_ns (P : List Comp) (hP : ∀ c ∈ P, WfComp c) : closeRest (nsStr P) = List.replicate P.length "}\n" := by
  induction P with
  | nil => simp [nsStr, closeRest]
  | cons c cs ih =>
    simp only [nsStr]
    rw [closeRest_comp c (hP c (by simp)).2, ih (fun x hx => hP x (by simp [hx]))]
    simp [List.replicate_succ]

theorem backUp_rev (t : List Char) (ht : ':' ∉ t) (rb : List Char) (hrb : rb = [] ∨ ∃ r, rb = ':' :: r) :
    ∀ (af : List Char), backUp (t ++ rb) af = (rb, t.reverse ++ af) := by
  induction t with
  | nil =>
    intro af
    rcases hrb with rfl | ⟨r, rfl⟩
    · simp [backUp]
    · simp [backUp]
  | cons x t ih =>
    intro af
    have hx : x ≠ ':' := fun e => ht (by simp [e])
    simp only [List.cons_append, backUp, hx, if_false]
    rw [ih (fun h => ht (by simp [h])) (x :: af)]
    simp

/-- backing up over characters that are not `':'` stops at the previous `"::"` (or at the beginning) -/
theorem backUp_comp (s : List Char) (hs : ':' ∉ s) (rb af : List Char) (hrb : rb = [] ∨ ∃ t, rb = ':' :: t) :
    backUp (s.reverse ++ rb) af = (rb, s ++ af) := by
  have := backUp_rev s.reverse (by simpa using hs) rb hrb af
  simpa using this

/-- comparing one component of the previous namespace part with the name -/
theorem matchNs_comp (u : List Char) (hu : ':' ∉ u) (X : List Char) :
    ∀ (v : List Char) (_ : ':' ∉ v) (T rb0 pre : List Char), (T = [] ∨ ∃ Y, T = ':' :: ':' :: Y) →
      (rb0 = [] ∨ ∃ t, rb0 = ':' :: t) → ':' ∉ pre →
      matchNs (u ++ ':' :: ':' :: X) (pre.reverse ++ rb0) (v ++ T) =
        if u = v ∧ T ≠ [] then matchNs X ((pre ++ u ++ [':', ':']).reverse ++ rb0) (T.drop 2)
        else ("}\n" :: closeRest X, rb0, pre ++ v ++ T) := by
  induction u generalizing X with
  | nil =>
    intro v hv T rb0 pre hT hrb hpre
    cases v with
    | nil =>
      rcases hT with rfl | ⟨Y, rfl⟩
      · -- the name ends here
        simp only [List.nil_append, matchNs, List.append_nil, true_and, ne_eq, not_true_eq_false, if_false]
        rw [backUp_comp pre hpre rb0 [] hrb]
        simp [closeRest]
      · simp only [List.nil_append, matchNs, if_true, true_and, ne_eq, reduceCtorEq, not_false_eq_true, List.drop_succ_cons, List.drop_zero]
        simp
    | cons a v =>
      have ha : a ≠ ':' := fun e => hv (by simp [e])
      have : ¬ (':' = a) := fun e => ha e.symm
      simp only [List.nil_append, List.cons_append, matchNs, this, if_false, reduceCtorEq, false_and]
      rw [backUp_comp pre hpre rb0 _ hrb]
      simp [closeRest]
  | cons p u ih =>
    intro v hv T rb0 pre hT hrb hpre
    have hp : p ≠ ':' := fun e => hu (by simp [e])
    have hu' : ':' ∉ u := fun h => hu (by simp [h])
    have hclose : closeRest (p :: u ++ ':' :: ':' :: X) = "}\n" :: closeRest X := by
      have := closeRest_comp (p :: u) hu X
      simpa using this
    cases v with
    | nil =>
      -- the name's component is shorter
      rcases hT with rfl | ⟨Y, rfl⟩
      · simp only [List.cons_append, matchNs, reduceCtorEq, false_and, if_false, List.append_nil]
        rw [backUp_comp pre hpre rb0 [] hrb]
        simp only [List.cons_append] at hclose
        rw [hclose]
        simp
      · simp only [List.cons_append, List.nil_append, matchNs, hp, if_false, reduceCtorEq, false_and]
        rw [backUp_comp pre hpre rb0 _ hrb]
        simp only [List.cons_append] at hclose
        rw [hclose]
        simp
    | cons a v =>
      have ha : a ≠ ':' := fun e => hv (by simp [e])
      have hv' : ':' ∉ v := fun h => hv (by simp [h])
      by_cases hpa : p = a
      · subst hpa
        simp only [List.cons_append, matchNs, if_true]
        have hpre' : ':' ∉ pre ++ [p] := by
          intro h
          rcases List.mem_append.mp h with h | h
          · exact hpre h
          · simp at h; exact hp h.symm
        have := ih hu' X v hv' T rb0 (pre ++ [p]) hT hrb hpre'
        simp only [List.reverse_append, List.reverse_cons, List.reverse_nil, List.nil_append,
          List.cons_append, List.append_assoc] at this ⊢
        rw [this]
        simp only [List.cons.injEq, true_and]
      · simp only [List.cons_append, matchNs, hpa, if_false]
        have : ¬ (p :: u = a :: v ∧ T ≠ []) := by
          rintro ⟨h, _⟩; injection h with h1 _; exact hpa h1
        rw [if_neg this]
        rw [backUp_comp pre hpre rb0 _ hrb]
        simp only [List.cons_append] at hclose
        rw [hclose]
        simp


/-! ## whole namespace paths -/

theorem nsStr_rev_head (done : List Comp) : (nsStr done).reverse = [] ∨ ∃ t, (nsStr done).reverse = ':' :: t := by
  rcases List.eq_nil_or_concat done with rfl | ⟨d, c, rfl⟩
  · left; rfl
  · right
    rw [List.concat_eq_append, nsStr_append]
    simp [nsStr]

theorem matchNs_ns : ∀ (P ns : List Comp) (cls : Comp) (done : List Comp),
    (∀ c ∈ P, WfComp c) → (∀ c ∈ ns, WfComp c) → WfComp cls →
    matchNs (nsStr P) (nsStr done).reverse (nameStr ns cls) =
      (List.replicate (P.length - lcp P ns) "}\n", (nsStr (done ++ ns.take (lcp P ns))).reverse,
        nameStr (ns.drop (lcp P ns)) cls)
  | [], ns, cls, done, _, _, _ => by simp [nsStr, matchNs, lcp]
  | c :: P', ns, cls, done, hP, hns, hcls => by
    have hc := hP c (by simp)
    have hP' : ∀ x ∈ P', WfComp x := fun x hx => hP x (by simp [hx])
    cases ns with
    | nil =>
      have := matchNs_comp c hc.2 (nsStr P') cls hcls.2 [] (nsStr done).reverse [] (Or.inl rfl) (nsStr_rev_head done) (by simp)
      simp only [List.reverse_nil, List.nil_append, List.append_nil, ne_eq, not_true_eq_false, and_false, if_false] at this
      simp only [nsStr, nameStr, List.nil_append, lcp, Nat.sub_zero, List.take_nil, List.append_nil, List.drop_nil, List.length_cons]
      rw [this, closeRest_ns P' hP']
      simp [List.replicate_succ]
    | cons n ns' =>
      have hn := hns n (by simp)
      have hns' : ∀ x ∈ ns', WfComp x := fun x hx => hns x (by simp [hx])
      have := matchNs_comp c hc.2 (nsStr P') n hn.2 (':' :: ':' :: nameStr ns' cls) (nsStr done).reverse []
        (Or.inr ⟨_, rfl⟩) (nsStr_rev_head done) (by simp)
      simp only [List.reverse_nil, List.nil_append, ne_eq, reduceCtorEq, not_false_eq_true, and_true,
        List.drop_succ_cons, List.drop_zero] at this
      have hname : nameStr (n :: ns') cls = n ++ ':' :: ':' :: nameStr ns' cls := by simp [nameStr, nsStr]
      rw [hname]
      simp only [nsStr]
      rw [this]
      by_cases hcn : c = n
      · subst hcn
        simp only [if_true, lcp]
        have hrb : (c ++ [':', ':']).reverse ++ (nsStr done).reverse = (nsStr (done ++ [c])).reverse := by
          rw [nsStr_append]; simp [nsStr]
        rw [hrb, matchNs_ns P' ns' cls (done ++ [c]) hP' hns' hcls]
        simp [List.append_assoc]
      · simp only [hcn, if_false, lcp, Nat.sub_zero, List.take_zero, List.append_nil, List.drop_zero, List.length_cons]
        rw [closeRest_ns P' hP', hname]
        simp [List.replicate_succ]

def nsLine (c : Comp) : String := "namespace " ++ String.ofList c ++ " {\n"
def clsLine (c : Comp) : String := "class " ++ String.ofList c ++ ";\n"

theorem takeWhile_comp (c : Comp) (hc : ':' ∉ c) (Y : List Char) :
    (c ++ ':' :: Y).takeWhile (fun ch => ch != ':') = c ∧ (c ++ ':' :: Y).dropWhile (fun ch => ch != ':') = ':' :: Y := by
  have hall : ∀ a ∈ c, (a != ':') = true := by
    intro a ha
    simp only [bne_iff_ne, ne_eq]
    intro e; subst e; exact hc ha
  constructor
  · rw [List.takeWhile_append_of_pos hall]; simp
  · rw [List.dropWhile_append_of_pos hall]; simp

theorem takeWhile_cls (c : Comp) (hc : ':' ∉ c) :
    c.takeWhile (fun ch => ch != ':') = c ∧ c.dropWhile (fun ch => ch != ':') = [] := by
  have hall : ∀ a ∈ c, (a != ':') = true := by
    intro a ha
    simp only [bne_iff_ne, ne_eq]
    intro e; subst e; exact hc ha
  constructor
  · have := List.takeWhile_append_of_pos (l₂ := []) hall; simpa using this
  · have := List.dropWhile_append_of_pos (l₂ := []) hall; simpa using this

theorem openRest_ns : ∀ (ns : List Comp) (cls : Comp) (pre : List Char) (f : Nat), ns.length + 1 ≤ f →
    (∀ c ∈ ns, WfComp c) → WfComp cls →
    openRest f pre (nameStr ns cls) = (ns.map nsLine ++ [clsLine cls], pre ++ nsStr ns)
  | [], cls, pre, f, hf, _, hcls => by
    cases f with
    | zero => simp at hf
    | succ f =>
      simp only [nameStr, nsStr, List.nil_append, openRest, (takeWhile_cls cls hcls.2).1, (takeWhile_cls cls hcls.2).2]
      simp [clsLine]
  | c :: ns, cls, pre, f, hf, hns, hcls => by
    cases f with
    | zero => simp at hf
    | succ f =>
      have hc := hns c (by simp)
      have hname : nameStr (c :: ns) cls = c ++ ':' :: (':' :: nameStr ns cls) := by simp [nameStr, nsStr]
      rw [hname]
      simp only [openRest, (takeWhile_comp c hc.2 _).1, (takeWhile_comp c hc.2 _).2, List.take_succ_cons, List.take_zero,
        List.drop_succ_cons, List.drop_zero]
      rw [openRest_ns ns cls _ f (by simp at hf; omega) (fun x hx => hns x (by simp [hx])) hcls]
      simp [nsLine, nsStr, List.append_assoc]

/-! ## the reference writer and the step of the model -/

/-- what must be written for one name, given the namespaces that are open -/
def refLines (P ns : List Comp) (cls : Comp) : List String :=
  List.replicate (P.length - lcp P ns) "}\n" ++ (ns.drop (lcp P ns)).map nsLine ++ [clsLine cls]

theorem nsStr_length (ns : List Comp) : ns.length ≤ (nsStr ns).length := by
  induction ns with
  | nil => simp [nsStr]
  | cons c cs ih => simp only [nsStr, List.length_cons, List.length_append]; omega

theorem fwdStep_ref (lines : List String) (P ns : List Comp) (cls : Comp)
    (hP : ∀ c ∈ P, WfComp c) (hns : ∀ c ∈ ns, WfComp c) (hcls : WfComp cls) :
    fwdStep { lines := lines, prevNs := nsStr P } (String.ofList (nameStr ns cls)) =
      { lines := lines ++ refLines P ns cls, prevNs := nsStr ns } := by
  unfold fwdStep
  simp only [String.toList_ofList, String.length_ofList]
  have hm := matchNs_ns P ns cls [] hP hns hcls
  simp only [nsStr, List.reverse_nil, List.nil_append] at hm
  rw [hm]
  simp only [List.reverse_reverse]
  rw [openRest_ns (ns.drop (lcp P ns)) cls _ _ ?_ (fun x hx => hns x (List.mem_of_mem_drop hx)) hcls]
  · simp only [refLines, List.append_assoc]
    congr 1
    rw [← nsStr_append, List.take_append_drop]
  · have h1 := nsStr_length ns
    simp only [nameStr, List.length_append, List.length_drop]
    omega

/-- a qualified name: namespace path and class -/
structure QName where
  ns : List Comp
  cls : Comp

def QName.Wf (q : QName) : Prop := (∀ c ∈ q.ns, WfComp c) ∧ WfComp q.cls
def QName.str (q : QName) : String := String.ofList (nameStr q.ns q.cls)

/-- the reference writer: lines for a list of names, starting with the namespaces `P` open -/
def refAll : List Comp → List QName → List String
  | P, [] => List.replicate P.length "}\n"
  | P, q :: qs => refLines P q.ns q.cls ++ refAll q.ns qs

theorem fold_ref : ∀ (qs : List QName) (lines : List String) (P : List Comp), (∀ c ∈ P, WfComp c) → (∀ q ∈ qs, q.Wf) →
    (let st := (qs.map QName.str).foldl fwdStep { lines := lines, prevNs := nsStr P }
     st.lines ++ closeRest st.prevNs) = lines ++ refAll P qs
  | [], lines, P, hP, _ => by simp [refAll, closeRest_ns P hP]
  | q :: qs, lines, P, hP, hq => by
    simp only [List.map_cons, List.foldl_cons, QName.str]
    rw [fwdStep_ref lines P q.ns q.cls hP (hq q (by simp)).1 (hq q (by simp)).2]
    have := fold_ref qs (lines ++ refLines P q.ns q.cls) q.ns (hq q (by simp)).1 (fun x hx => hq x (by simp [hx]))
    rw [this]
    simp [refAll, List.append_assoc]

/-- **the character-level writer is the reference writer** on well-formed names, in any order -/
theorem fwdLines_ref (qs : List QName) (hq : ∀ q ∈ qs, q.Wf) : fwdLines (qs.map QName.str) = refAll [] qs := by
  have := fold_ref qs [] [] (by simp) hq
  simpa [fwdLines, nsStr] using this


/-! ## what the written text means -/

inductive Tok
  | close
  | opn (c : Comp)
  | cls (c : Comp)

def Tok.render : Tok → String
  | .close => "}\n"
  | .opn c => nsLine c
  | .cls c => clsLine c

def stepToks (P ns : List Comp) (cls : Comp) : List Tok :=
  List.replicate (P.length - lcp P ns) Tok.close ++ (ns.drop (lcp P ns)).map Tok.opn ++ [Tok.cls cls]

def refToks : List Comp → List QName → List Tok
  | P, [] => List.replicate P.length Tok.close
  | P, q :: qs => stepToks P q.ns q.cls ++ refToks q.ns qs

theorem refAll_render : ∀ (P : List Comp) (qs : List QName), refAll P qs = (refToks P qs).map Tok.render
  | P, [] => by simp [refAll, refToks, Tok.render]
  | P, q :: qs => by
    simp only [refAll, refToks, List.map_append, refAll_render q.ns qs, refLines, stepToks, List.map_replicate,
      List.map_map, List.map_cons, List.map_nil, Tok.render]
    congr 2

/-- read the tokens as C++: a stack of open namespaces (outermost first); every class is recorded
    with the namespaces open where it is declared; closing with nothing open is an error -/
def interp : List Tok → List Comp → List QName → Option (List QName × List Comp)
  | [], path, acc => some (acc, path)
  | .close :: ts, path, acc => if path = [] then none else interp ts path.dropLast acc
  | .opn c :: ts, path, acc => interp ts (path ++ [c]) acc
  | .cls c :: ts, path, acc => interp ts path (acc ++ [⟨path, c⟩])

theorem interp_closes : ∀ (n : Nat) (ts : List Tok) (path : List Comp) (acc : List QName), n ≤ path.length →
    interp (List.replicate n Tok.close ++ ts) path acc = interp ts (path.take (path.length - n)) acc
  | 0, ts, path, acc, _ => by simp
  | n + 1, ts, path, acc, h => by
    have hne : path ≠ [] := by intro e; subst e; simp at h
    simp only [List.replicate_succ, List.cons_append, interp, hne, if_false]
    rw [interp_closes n ts path.dropLast acc (by simp; omega)]
    congr 1
    have hl : path.dropLast.length = path.length - 1 := List.length_dropLast
    rw [hl, List.dropLast_eq_take, List.take_take]
    congr 1
    omega

theorem interp_opens : ∀ (cs : List Comp) (ts : List Tok) (path : List Comp) (acc : List QName),
    interp (cs.map Tok.opn ++ ts) path acc = interp ts (path ++ cs) acc
  | [], ts, path, acc => by simp
  | c :: cs, ts, path, acc => by
    simp only [List.map_cons, List.cons_append, interp]
    rw [interp_opens cs ts (path ++ [c]) acc]
    simp

/-- **the reference text declares exactly the requested classes, each where it belongs, and is balanced** -/
theorem interp_ref : ∀ (qs : List QName) (P : List Comp) (acc : List QName),
    interp (refToks P qs) P acc = some (acc ++ qs, [])
  | [], P, acc => by
    simp only [refToks]
    have := interp_closes P.length [] P acc (Nat.le_refl _)
    simp only [List.append_nil] at this
    rw [this]
    simp [interp]
  | q :: qs, P, acc => by
    simp only [refToks, stepToks, List.append_assoc]
    have hk := lcp_le_left P q.ns
    rw [interp_closes _ _ P acc (by omega), interp_opens]
    simp only [List.singleton_append, interp]
    have hpath : P.take (P.length - (P.length - lcp P q.ns)) ++ q.ns.drop (lcp P q.ns) = q.ns := by
      rw [show P.length - (P.length - lcp P q.ns) = lcp P q.ns by omega, lcp_take, List.take_append_drop]
    rw [hpath]
    have := interp_ref qs q.ns (acc ++ [⟨q.ns, q.cls⟩])
    rw [this]
    simp

end Yomm2.Writer


