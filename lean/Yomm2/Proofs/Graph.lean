import Yomm2.Proofs.Reach
import Yomm2.Proofs.Heads
import Yomm2.SpecExec
/-!
# Stage 1 is correct: the covariant classes computed by `augment_classes` are exactly the classes
# that derive from the class, whatever the presentation of the base lists
-/
namespace Yomm2.GraphProofs
open Yomm2 Yomm2.Reach Yomm2.Heads Yomm2.Spec

/-- the components of `buildGraph`, named -/
def tbD (proj : Nat → Nat) (recs : List ClassRec) (i : Nat) : List Nat :=
  if i < (heads proj recs).length then dedup (rawBases proj (heads proj recs) recs i) else []

def keyAt (proj : Nat → Nat) (recs : List ClassRec) (i : Nat) : Option Nat := (keysOf (heads proj recs))[i]?

theorem keyAt_lt {proj recs i k} (h : keyAt proj recs i = some k) : i < (heads proj recs).length := by
  have := (List.getElem?_eq_some_iff.mp h).1
  simpa [keysOf] using this

theorem heads_get {proj recs i k} (h : keyAt proj recs i = some k) :
    ∃ hd, (heads proj recs)[i]? = some hd ∧ hd.key = k := by
  unfold keyAt keysOf at h
  rw [List.getElem?_map] at h
  cases hh : (heads proj recs)[i]? with
  | none => rw [hh] at h; cases h
  | some hd => rw [hh] at h; exact ⟨hd, rfl, by simpa using h⟩

/-- no listed base is unknown -/
def NoUnknown (proj : Nat → Nat) (recs : List ClassRec) : Prop :=
  ∀ r ∈ recs, ∀ b ∈ r.bases, ∃ i, classIdx (heads proj recs) (proj b) = some i

theorem noUnknown_of (proj : Nat → Nat) (recs : List ClassRec)
    (h : firstUnknownBase proj (heads proj recs) recs = none) : NoUnknown proj recs := by
  intro r hr b hb
  unfold firstUnknownBase at h
  rw [List.findSome?_eq_none_iff] at h
  have := h r hr
  rw [List.find?_eq_none] at this
  have hb' := this b hb
  cases hc : classIdx (heads proj recs) (proj b) with
  | none => simp [hc] at hb'
  | some i => exact ⟨i, rfl⟩

/-- **the listed-base relation on class indices** -/
theorem mem_tbD (proj : Nat → Nat) (recs : List ClassRec) (ms : List MethodRec) (i b : Nat) (ki : Nat)
    (hki : keyAt proj recs i = some ki) :
    b ∈ tbD proj recs i ↔ b ≠ i ∧ ∃ kb, keyAt proj recs b = some kb ∧ Lists proj ⟨recs, ms⟩ ki kb := by
  have hnd := (heads_keys proj recs).1
  have hlt := keyAt_lt hki
  obtain ⟨hd, hhd, hkey⟩ := heads_get hki
  unfold tbD
  simp only [hlt, if_true, mem_dedup]
  unfold rawBases
  simp only [hhd, List.mem_filter, List.mem_flatMap, List.mem_filterMap, bne_iff_ne, ne_eq, beq_iff_eq]
  constructor
  · rintro ⟨⟨r, ⟨hr, hrk⟩, b', hb', hcb⟩, hne⟩
    refine ⟨hne, proj b', classIdx_some hcb, r, hr, by rw [hrk, hkey], b', hb', rfl⟩
  · rintro ⟨hne, kb, hkb, r, hr, hrk, b', hb', hpb⟩
    refine ⟨⟨r, ⟨hr, by rw [hrk, hkey]⟩, b', hb', ?_⟩, hne⟩
    rw [hpb]
    exact classIdx_of_get hnd hkb

theorem tbD_lt (proj : Nat → Nat) (recs : List ClassRec) (i b : Nat) (h : b ∈ tbD proj recs i) :
    b < (heads proj recs).length ∧ i < (heads proj recs).length := by
  unfold tbD at h
  split at h
  · rename_i hlt
    refine ⟨?_, hlt⟩
    rw [mem_dedup] at h
    unfold rawBases at h
    cases hh : (heads proj recs)[i]? with
    | none => simp [hh] at h
    | some hd =>
      simp only [hh, List.mem_filter, List.mem_flatMap, List.mem_filterMap] at h
      obtain ⟨⟨r, _, b', _, hcb⟩, _⟩ := h
      exact classIdx_lt hcb
  · simp at h

/-- reachability through listed bases on indices is the specification's `Derives` on keys -/
theorem reach_tbD_iff_derives (proj : Nat → Nat) (recs : List ClassRec) (ms : List MethodRec)
    (hnu : NoUnknown proj recs) (d c kd kc : Nat)
    (hd : keyAt proj recs d = some kd) (hc : keyAt proj recs c = some kc) :
    Reach (tbD proj recs) d c ↔ Derives proj ⟨recs, ms⟩ kd kc := by
  have hnd := (heads_keys proj recs).1
  constructor
  · intro h
    induction h generalizing kd with
    | refl x =>
      rw [hd] at hc; cases hc; exact Derives.refl _
    | @step a m b hm _ ih =>
      obtain ⟨_, km, hkm, hl⟩ := (mem_tbD proj recs ms a m kd hd).mp hm
      exact Derives.step hl (ih km hkm hc)
  · intro h
    induction h generalizing d c with
    | refl k =>
      -- same key, same index
      have i1 := classIdx_of_get hnd hd
      have i2 := classIdx_of_get hnd hc
      rw [i1] at i2; cases i2
      exact Reach.refl _
    | @step k km kb hl _ ih =>
      obtain ⟨r, hr, _, b', hb', hpb⟩ := hl
      obtain ⟨m, hm⟩ := hnu r hr b' hb'
      rw [hpb] at hm
      have hkm : keyAt proj recs m = some km := classIdx_some hm
      by_cases hmd : m = d
      · subst hmd; exact ih m c hkm hc
      · have : m ∈ tbD proj recs d := (mem_tbD proj recs ms d m k hd).mpr ⟨hmd, km, hkm, ⟨r, hr, by assumption, b', hb', hpb⟩⟩
        exact Reach.step this (ih m c hkm hc)

theorem tbDOf_get (proj : Nat → Nat) (recs : List ClassRec) (i : Nat) :
    (tbDOf proj (heads proj recs) recs).get i = tbD proj recs i := by
  unfold tbDOf tbD
  rw [Tab.get_ofFn]

/-- the graph `buildGraph` returns, field by field -/
theorem buildGraph_fields (proj : Nat → Nat) (recs : List ClassRec) (g : Graph) (h : buildGraph proj recs = .ok g) :
    firstUnknownBase proj (heads proj recs) recs = none ∧
    g.n = (heads proj recs).length ∧ g.heads = heads proj recs ∧
    g.tb0 = tb0Of g.n (tbDOf proj (heads proj recs) recs) ∧
    g.direct = directOf g.n (tbDOf proj (heads proj recs) recs) g.tb0 ∧
    g.derived = derivedOf g.n g.direct ∧
    g.cov = covOf g.n recs.length g.derived ∧
    g.tb = tbOf g.n g.tb0 g.cov := by
  unfold buildGraph at h
  simp only at h
  split at h
  · cases h
  · rename_i hfu
    cases h
    exact ⟨hfu, rfl, rfl, rfl, rfl, rfl, rfl, rfl⟩

/-- everything stage 1 needs from the registry: no inheritance cycle, with a bound on chain lengths -/
def WF (proj : Nat → Nat) (recs : List ClassRec) (ms : List MethodRec) : Prop :=
  Ranked proj ⟨recs, ms⟩ recs.length

theorem tb0_mem (proj : Nat → Nat) (recs : List ClassRec) (g : Graph) (hg : buildGraph proj recs = .ok g) (i b : Nat) : b ∈ g.tb0.get i ↔ b ∈ tbD proj recs i := by
  obtain ⟨_, hn, _, htb0, _⟩ := buildGraph_fields proj recs g hg
  rw [htb0]
  unfold tb0Of
  rw [Tab.get_ofFn]
  split
  · rw [mem_isortBy, tbDOf_get]
  · rename_i hlt
    constructor
    · intro h; cases h
    · intro h; exact absurd (hn ▸ (tbD_lt proj recs i b h).2) hlt

theorem direct_eq (proj : Nat → Nat) (recs : List ClassRec) (g : Graph) (hg : buildGraph proj recs = .ok g) (i : Nat) : g.direct.get i = Reach.directOf (tbD proj recs) g.tb0.get i := by
  obtain ⟨_, hn, _, _, hdir, _⟩ := buildGraph_fields proj recs g hg
  rw [hdir]
  unfold directOf Reach.directOf
  rw [Tab.get_ofFn]
  have hfun : (tbDOf proj (heads proj recs) recs).get = tbD proj recs := funext (tbDOf_get proj recs)
  split
  · rw [hfun]
  · rename_i hlt
    -- outside the classes there is nothing to extract from
    have : g.tb0.get i = [] := by
      cases hl : g.tb0.get i with
      | nil => rfl
      | cons x xs =>
        have : x ∈ g.tb0.get i := by rw [hl]; simp
        have := (tb0_mem proj recs g hg i x).mp this
        exact absurd (hn ▸ (tbD_lt proj recs i x this).2) hlt
    rw [this]; rfl

theorem mem_derived (proj : Nat → Nat) (recs : List ClassRec) (g : Graph) (hg : buildGraph proj recs = .ok g) (a m : Nat) : m ∈ g.derived.get a ↔ a < g.n ∧ m < g.n ∧ a ∈ g.direct.get m := by
  obtain ⟨_, _, _, _, _, hder, _⟩ := buildGraph_fields proj recs g hg
  rw [hder]
  unfold derivedOf
  rw [Tab.get_ofFn]
  split
  · rename_i hlt
    simp only [List.mem_filter, List.mem_range, List.contains_iff_mem]
    constructor
    · rintro ⟨h1, h2⟩; exact ⟨hlt, h1, h2⟩
    · rintro ⟨_, h1, h2⟩; exact ⟨h1, h2⟩
  · rename_i hlt
    constructor
    · intro h; cases h
    · rintro ⟨h, _⟩; exact absurd h hlt

theorem mem_cov (proj : Nat → Nat) (recs : List ClassRec) (g : Graph) (hg : buildGraph proj recs = .ok g) (c d : Nat) : d ∈ g.cov.get c ↔ c < g.n ∧ d ∈ covF g.derived.get recs.length c := by
  obtain ⟨_, _, _, _, _, _, hcov, _⟩ := buildGraph_fields proj recs g hg
  rw [hcov]
  unfold covOf
  rw [Tab.get_ofFn]
  split
  · rename_i hlt; rw [mem_isortBy]; exact ⟨fun h => ⟨hlt, h⟩, fun h => h.2⟩
  · rename_i hlt
    constructor
    · intro h; cases h
    · rintro ⟨h, _⟩; exact absurd h hlt

/-- **the covariant classes of a class are exactly the classes that derive from it** -/
theorem cov_iff_derives (proj : Nat → Nat) (recs : List ClassRec) (ms : List MethodRec) (g : Graph)
    (hg : buildGraph proj recs = .ok g) (hwf : WF proj recs ms) (c d kc kd : Nat)
    (hc : keyAt proj recs c = some kc) (hd : keyAt proj recs d = some kd) :
    d ∈ g.cov.get c ↔ Derives proj ⟨recs, ms⟩ kd kc := by
  obtain ⟨hfu, hn, _⟩ := buildGraph_fields proj recs g hg
  have hnu := noUnknown_of proj recs hfu
  obtain ⟨rank, hrank, hbound⟩ := hwf
  -- rank of an index = rank of its key
  let rankI : Nat → Nat := fun i => match keyAt proj recs i with | some k => rank k | none => 0
  have hrankI : ∀ a b, b ∈ tbD proj recs a → rankI b < rankI a := by
    intro a b hb
    have hlt := tbD_lt proj recs a b hb
    obtain ⟨ka, hka⟩ : ∃ ka, keyAt proj recs a = some ka := by
      unfold keyAt keysOf; rw [List.getElem?_map, List.getElem?_eq_getElem hlt.2]; exact ⟨_, rfl⟩
    obtain ⟨hne, kb, hkb, hl⟩ := (mem_tbD proj recs ms a b ka hka).mp hb
    simp only [rankI, hka, hkb]
    apply hrank ka kb hl
    intro e
    -- equal keys, equal indices
    have hnd := (heads_keys proj recs).1
    have i1 := classIdx_of_get hnd hka
    have i2 := classIdx_of_get hnd hkb
    rw [e, i1] at i2
    exact hne (Option.some.inj i2).symm
  have hsorted : ∀ a b, b ∈ g.tb0.get a ↔ b ∈ tbD proj recs a := tb0_mem proj recs g hg
  have hclt : c < g.n := hn ▸ keyAt_lt hc
  -- chain of equivalences
  rw [mem_cov proj recs g hg]
  have hdirfun : g.direct.get = Reach.directOf (tbD proj recs) g.tb0.get := funext (direct_eq proj recs g hg)
  have step1 : d ∈ covF g.derived.get recs.length c ↔ Reach g.derived.get c d := by
    constructor
    · exact covF_sound _ _ _ _
    · intro hr
      apply covF_complete g.derived.get (fun a => recs.length - rankI a) _ hr recs.length (Nat.sub_le _ _)
      intro a m hm
      obtain ⟨_, _, ham⟩ := (mem_derived proj recs g hg a m).mp hm
      rw [hdirfun] at ham
      have := hrankI m a (direct_subset _ _ hsorted m a ham)
      have hb : rankI m ≤ recs.length := by
        simp only [rankI]; split
        · exact hbound _
        · omega
      omega
  have step2 : Reach g.derived.get c d ↔ Reach g.direct.get d c := by
    constructor
    · exact Reach.reverse (fun a b hb => ((mem_derived proj recs g hg a b).mp hb).2.2)
    · intro hr
      -- reverse direct edges: indices are in range
      have : ∀ a b, b ∈ g.direct.get a → a ∈ g.derived.get b := by
        intro a b hb
        have hb' : b ∈ tbD proj recs a := by rw [hdirfun] at hb; exact direct_subset _ _ hsorted a b hb
        have hlt := tbD_lt proj recs a b hb'
        exact (mem_derived proj recs g hg b a).mpr ⟨hn ▸ hlt.1, hn ▸ hlt.2, hb⟩
      exact Reach.reverse this hr
  have step3 : Reach g.direct.get d c ↔ Reach (tbD proj recs) d c := by
    rw [hdirfun]
    exact (reach_listed_iff_direct (tbD proj recs) g.tb0.get hsorted rankI hrankI d c).symm
  rw [step1, step2, step3, reach_tbD_iff_derives proj recs ms hnu d c kd kc hd hc]
  exact ⟨fun h => h.2, fun h => ⟨hclt, h⟩⟩

/-- members of a covariant set are class indices -/
theorem cov_lt (proj : Nat → Nat) (recs : List ClassRec) (g : Graph) (hg : buildGraph proj recs = .ok g)
    (c d : Nat) (h : d ∈ g.cov.get c) : c < g.n ∧ d < g.n := by
  obtain ⟨hclt, hm⟩ := (mem_cov proj recs g hg c d).mp h
  refine ⟨hclt, ?_⟩
  have hr := covF_sound _ _ _ _ hm
  clear hm h
  induction hr with
  | refl => exact hclt
  | @step a m b hmem _ ih => exact ih ((mem_derived proj recs g hg a m).mp hmem).2.1

/-- **after the completion loop (repair of D4) `transitive_bases` contains every class whose covariant
    set contains the class** — what the lattice slot allocator relies on, for any presentation -/
theorem tb_complete (proj : Nat → Nat) (recs : List ClassRec) (g : Graph) (hg : buildGraph proj recs = .ok g)
    (c d : Nat) (h : d ∈ g.cov.get c) (hne : d ≠ c) : c ∈ g.tb.get d := by
  obtain ⟨hclt, hdlt⟩ := cov_lt proj recs g hg c d h
  obtain ⟨_, _, _, _, _, _, _, htb⟩ := buildGraph_fields proj recs g hg
  rw [htb]
  unfold tbOf
  rw [Tab.get_ofFn]
  simp only [hdlt, if_true, List.mem_append, List.mem_filter, List.mem_range, Bool.and_eq_true,
    List.contains_iff_mem, bne_iff_ne, ne_eq, Bool.not_eq_true']
  by_cases hin : c ∈ g.tb0.get d
  · exact Or.inl hin
  · right
    refine ⟨hclt, ⟨h, fun e => hne e.symm⟩, ?_⟩
    cases hc : (g.tb0.get d).contains c with
    | false => rfl
    | true => exact absurd (List.contains_iff_mem.mp hc) hin

end Yomm2.GraphProofs
