import Yomm2.Generated.CompareSrc
/-!
# `is_more_specific` and `is_base` of `compiler.hpp`, as translated on this run, compute the model's

`Generated.CompareSrc.is_more_specific / is_base` are the bodies clang parsed from `detail/compiler.hpp`
(`tools/cpp2lean.py`, construct by construct, into `Sel.Stmt`). For every covariance relation `der` and every
two parameter lists with `a` no longer than `b` (in the library both have the method's arity), running them
(`Sel.exec`) returns exactly `isMoreSpecific der a b` / `isBase der a b` of `Model/Dispatch.lean` — the functions
the end-to-end theorem of C01 and the `next` theorem of C03 are about. Re-checked against the regenerated terms
on every run.
-/
namespace Yomm2.Proofs.SrcCompare
open Yomm2 Yomm2.Sel Yomm2.Generated

/-- the state inside the loop: both iterators at position `k`, `result = r` -/
def mkSt (a b : List Nat) (k : Nat) (r : Bool) : St :=
  { params := [("a", a), ("b", b)], bools := [("result", r)],
    iters := [("a_iter", ("a", k)), ("a_last", ("a", a.length)), ("b_iter", ("b", k))] }

/-- falling out of the loop is followed by `return result` -/
def finish : Res → Res
  | .normal s =>
    match find s.bools "result" with
    | some v => .returned v
    | none => .fault "unbound variable result"
  | r => r

def imsLoop : Stmt :=
  (.forLoop (.iterNe "a_iter" "a_last") ["a_iter", "b_iter"] (.ite (.classNe (.deref "a_iter") (.deref "b_iter")) (.ite (.inCov (.deref "b_iter") (.deref "a_iter")) (.setBool "result" (.lit true)) (.ite (.inCov (.deref "a_iter") (.deref "b_iter")) (.ret (.lit false)) .skip)) .skip))

def baseLoop : Stmt :=
  (.forLoop (.iterNe "a_iter" "a_last") ["a_iter", "b_iter"] (.ite (.classNe (.deref "a_iter") (.deref "b_iter")) (.ite (.notInCov (.deref "a_iter") (.deref "b_iter")) (.ret (.lit false)) (.setBool "result" (.lit true))) .skip))

theorem drop_cons_of_lt {l : List Nat} {k : Nat} (h : k < l.length) : l.drop k = l[k] :: l.drop (k + 1) :=
  List.drop_eq_getElem_cons h

theorem step_state (a b : List Nat) (k : Nat) (r : Bool) (ha : k < a.length) (hb : k < b.length) :
    incrAll (mkSt a b k r) ["a_iter", "b_iter"] = .ok (mkSt a b (k + 1) r) := by
  simp [incrAll, incr, mkSt, find, put, ha, hb]

theorem ims_loop (der : Nat → Nat → Bool) (a b : List Nat) (hab : a.length ≤ b.length) :
    ∀ (fuel k : Nat) (r : Bool), k ≤ a.length → a.length - k < fuel →
      finish (exec der fuel imsLoop (mkSt a b k r)) = .returned (isMoreSpecificGo der (a.drop k) (b.drop k) r)
  | 0, _, _, _, hf => by omega
  | fuel + 1, k, r, hk, hf => by
    by_cases hkn : k = a.length
    · subst hkn
      have : a.drop a.length = [] := by simp
      rw [this]
      have h1 : exec der (fuel + 1) imsLoop (mkSt a b a.length r) = .normal (mkSt a b a.length r) := by
        simp [imsLoop, exec, evalB, mkSt, find]
      rw [h1]
      cases hb : b.drop a.length <;> simp [finish, mkSt, find, isMoreSpecificGo]
    · have ha : k < a.length := by omega
      have hb : k < b.length := by omega
      rw [drop_cons_of_lt ha, drop_cons_of_lt hb]
      have hga : a[k]? = some a[k] := List.getElem?_eq_getElem ha
      have hgb : b[k]? = some b[k] := List.getElem?_eq_getElem hb
      have ih := ims_loop der a b hab fuel (k + 1)
      have hstep := step_state a b k
      by_cases hne : a[k] = b[k]
      · have h1 : exec der (fuel + 1) imsLoop (mkSt a b k r) = exec der fuel imsLoop (mkSt a b (k + 1) r) := by
          conv => lhs; unfold imsLoop
          simp [exec, evalB, evalC, mkSt, find, hga, hgb, hne, hkn]
          have := hstep r ha hb
          simp [mkSt] at this
          rw [this]; rfl
        rw [h1, ih r (by omega) (by omega)]
        simp [isMoreSpecificGo, hne]
      · by_cases hd : der a[k] b[k] = true
        · have h1 : exec der (fuel + 1) imsLoop (mkSt a b k r) = exec der fuel imsLoop (mkSt a b (k + 1) true) := by
            conv => lhs; unfold imsLoop
            simp [exec, evalB, evalC, mkSt, find, put, hga, hgb, hne, hkn, hd]
            have := hstep true ha hb
            simp [mkSt] at this
            rw [this]; rfl
          rw [h1, ih true (by omega) (by omega)]
          simp [isMoreSpecificGo, hne, hd]
        · by_cases hd2 : der b[k] a[k] = true
          · have h1 : exec der (fuel + 1) imsLoop (mkSt a b k r) = .returned false := by
              conv => lhs; unfold imsLoop
              simp [exec, evalB, evalC, mkSt, find, hga, hgb, hne, hkn, hd, hd2]
            rw [h1]
            simp [finish, isMoreSpecificGo, hne, hd, hd2]
          · have h1 : exec der (fuel + 1) imsLoop (mkSt a b k r) = exec der fuel imsLoop (mkSt a b (k + 1) r) := by
              conv => lhs; unfold imsLoop
              simp [exec, evalB, evalC, mkSt, find, hga, hgb, hne, hkn, hd, hd2]
              have := hstep r ha hb
              simp [mkSt] at this
              rw [this]; rfl
            rw [h1, ih r (by omega) (by omega)]
            simp [isMoreSpecificGo, hne, hd, hd2]


theorem exec_seq (der : Nat → Nat → Bool) (fuel : Nat) (x y : Stmt) (s : St) :
    exec der fuel (.seq x y) s = match exec der fuel x s with
      | .normal s' => exec der fuel y s'
      | r => r := by
  rw [exec]
  cases exec der fuel x s <;> rfl

/-- the declarations before the loop leave both iterators at the beginning and `result = false` -/
theorem prefix_state (der : Nat → Nat → Bool) (fuel : Nat) (a b : List Nat) (rest : Stmt) :
    exec der fuel (.seq (.setBool "result" (.lit false)) (.seq (.seq (.declBegin "a_iter" "a") (.seq (.declEnd "a_last" "a")
        (.declBegin "b_iter" "b"))) rest)) { params := [("a", a), ("b", b)], bools := [], iters := [] } =
      exec der fuel rest (mkSt a b 0 false) := by
  rw [exec_seq]
  have h1 : exec der fuel (.setBool "result" (.lit false)) { params := [("a", a), ("b", b)], bools := [], iters := [] } =
      .normal { params := [("a", a), ("b", b)], bools := [("result", false)], iters := [] } := by
    simp [exec, evalB, put]
  rw [h1]
  dsimp only
  rw [exec_seq]
  have h2 : exec der fuel (.seq (.declBegin "a_iter" "a") (.seq (.declEnd "a_last" "a") (.declBegin "b_iter" "b")))
      { params := [("a", a), ("b", b)], bools := [("result", false)], iters := [] } = .normal (mkSt a b 0 false) := by
    simp [exec, find, put, mkSt]
  rw [h2]

theorem loop_then_return (der : Nat → Nat → Bool) (fuel : Nat) (loop : Stmt) (s : St) :
    exec der fuel (.seq loop (.ret (.var "result"))) s = finish (exec der fuel loop s) := by
  rw [exec_seq]
  cases exec der fuel loop s with
  | normal s' =>
    simp only [finish, exec, evalB]
    cases find s'.bools "result" <;> rfl
  | returned v => rfl
  | fault w => rfl
  | outOfFuel => rfl

/-- **`is_more_specific` as it stands in the header computes the model's `isMoreSpecific`** -/
theorem is_more_specific_src (der : Nat → Nat → Bool) (a b : List Nat) (hab : a.length ≤ b.length)
    (fuel : Nat) (hf : a.length < fuel) :
    run der fuel CompareSrc.is_more_specific a b = .returned (isMoreSpecific der a b) := by
  have hsrc : CompareSrc.is_more_specific =
      .seq (.setBool "result" (.lit false)) (.seq (.seq (.declBegin "a_iter" "a") (.seq (.declEnd "a_last" "a")
        (.declBegin "b_iter" "b"))) (.seq imsLoop (.ret (.var "result")))) := rfl
  have hl := ims_loop der a b hab fuel 0 false (Nat.zero_le _) (by omega)
  simp only [List.drop_zero] at hl
  unfold run
  rw [hsrc, prefix_state, loop_then_return, hl]
  rfl


theorem base_loop (der : Nat → Nat → Bool) (a b : List Nat) (hab : a.length ≤ b.length) :
    ∀ (fuel k : Nat) (r : Bool), k ≤ a.length → a.length - k < fuel →
      finish (exec der fuel baseLoop (mkSt a b k r)) = .returned (isBaseGo der (a.drop k) (b.drop k) r)
  | 0, _, _, _, hf => by omega
  | fuel + 1, k, r, hk, hf => by
    by_cases hkn : k = a.length
    · subst hkn
      have : a.drop a.length = [] := by simp
      rw [this]
      have h1 : exec der (fuel + 1) baseLoop (mkSt a b a.length r) = .normal (mkSt a b a.length r) := by
        simp [baseLoop, exec, evalB, mkSt, find]
      rw [h1]
      cases hb : b.drop a.length <;> simp [finish, mkSt, find, isBaseGo]
    · have ha : k < a.length := by omega
      have hb : k < b.length := by omega
      rw [drop_cons_of_lt ha, drop_cons_of_lt hb]
      have hga : a[k]? = some a[k] := List.getElem?_eq_getElem ha
      have hgb : b[k]? = some b[k] := List.getElem?_eq_getElem hb
      have ih := base_loop der a b hab fuel (k + 1)
      have hstep := step_state a b k
      by_cases hne : a[k] = b[k]
      · have h1 : exec der (fuel + 1) baseLoop (mkSt a b k r) = exec der fuel baseLoop (mkSt a b (k + 1) r) := by
          conv => lhs; unfold baseLoop
          simp [exec, evalB, evalC, mkSt, find, hga, hgb, hne, hkn]
          have := hstep r ha hb
          simp [mkSt] at this
          rw [this]; rfl
        rw [h1, ih r (by omega) (by omega)]
        simp [isBaseGo, hne]
      · by_cases hd : der b[k] a[k] = true
        · have h1 : exec der (fuel + 1) baseLoop (mkSt a b k r) = exec der fuel baseLoop (mkSt a b (k + 1) true) := by
            conv => lhs; unfold baseLoop
            simp [exec, evalB, evalC, mkSt, find, put, hga, hgb, hne, hkn, hd]
            have := hstep true ha hb
            simp [mkSt] at this
            rw [this]; rfl
          rw [h1, ih true (by omega) (by omega)]
          simp [isBaseGo, hne, hd]
        · have h1 : exec der (fuel + 1) baseLoop (mkSt a b k r) = .returned false := by
            conv => lhs; unfold baseLoop
            simp [exec, evalB, evalC, mkSt, find, hga, hgb, hne, hkn, hd]
          rw [h1]
          simp [finish, isBaseGo, hne, hd]

/-- **`is_base` as it stands in the header computes the model's `isBase`** -/
theorem is_base_src (der : Nat → Nat → Bool) (a b : List Nat) (hab : a.length ≤ b.length)
    (fuel : Nat) (hf : a.length < fuel) :
    run der fuel CompareSrc.is_base a b = .returned (isBase der a b) := by
  have hsrc : CompareSrc.is_base =
      .seq (.setBool "result" (.lit false)) (.seq (.seq (.declBegin "a_iter" "a") (.seq (.declEnd "a_last" "a")
        (.declBegin "b_iter" "b"))) (.seq baseLoop (.ret (.var "result")))) := rfl
  have hl := base_loop der a b hab fuel 0 false (Nat.zero_le _) (by omega)
  simp only [List.drop_zero] at hl
  unfold run
  rw [hsrc, prefix_state, loop_then_return, hl]
  rfl

end Yomm2.Proofs.SrcCompare
