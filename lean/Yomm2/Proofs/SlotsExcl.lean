import Yomm2.Proofs.SlotsTree
import Yomm2.Proofs.LatticeOrder
/-!
# `assign_slots` gives exclusive slots

Roots are processed in class order: a tree root by `assign_tree_slots`, a lattice root by the marked
pre-order walk followed by the bit-set allocator on the newly visited classes. The invariant of
`SlotsInv` is kept by both, every class is below some root, and no class is processed twice. Hence:
two different virtual parameters whose classes share a covariant class never share a slot.
-/
namespace Yomm2.SlotsExcl
open Yomm2 Yomm2.Reach Yomm2.GraphFacts Yomm2.TreeFacts Yomm2.UsedBy Yomm2.SlotsInv Yomm2.SlotsTree
open Yomm2.LatticeOrder

variable {g : Graph} (ms : List MethodC)

def rootsOf (g : Graph) : List Nat := (List.range g.n).filter (fun c => (g.direct.get c).isEmpty)

def rootStep (g : Graph) (ms : List MethodC) (sv : SlotSt × List Nat) (r : Nat) : SlotSt × List Nat :=
  if (g.cov.get r).all (fun c => (g.direct.get c).length ≤ 1) then
    (treeSlots g ms g.fuel r 0 sv.1, sv.2)
  else
    let vis := latticeOrder g.derived.get g.fuel r sv.2
    let newly := vis.drop sv.2.length
    (newly.foldl (allocClass g ms) sv.1, vis)

def phaseA (g : Graph) (ms : List MethodC) : SlotSt × List Nat :=
  (rootsOf g).foldl (rootStep g ms) (SlotSt.init, [])

theorem assignSlots_slotList : (assignSlots g ms).slotList = (phaseA g ms).1.slotList := by
  unfold assignSlots
  simp only
  have : ∀ (l : List Nat) (st : SlotSt),
      (l.foldl (fun st c =>
        if (st.used.get c).isEmpty then st
        else
          let fs := ((st.used.get c).findFirst).getD 0
          { st with first := st.first.set c fs, vsize := st.vsize.set c ((st.used.get c).length - fs) }) st).slotList
        = st.slotList := by
    intro l
    induction l with
    | nil => intro st; rfl
    | cons c l ih =>
      intro st
      simp only [List.foldl_cons]
      rw [ih]
      split <;> rfl
  rw [this]
  rfl

/-- classes done: visited by a lattice walk, or below a processed tree root -/
def Dn (g : Graph) (done vis : List Nat) (v : Nat) : Prop :=
  v ∈ vis ∨ ∃ r ∈ done, TreeRoot g r ∧ Reach g.derived.get r v

def KD (g : Graph) (ms : List MethodC) (done vis : List Nat) (mp : Nat × Nat) : Prop :=
  ∃ v, Dn g done vis v ∧ mp ∈ usedBy ms v

structure PInv (g : Graph) (ms : List MethodC) (done : List Nat) (sv : SlotSt × List Nat) : Prop where
  sinv : SInvK g ms (KD g ms done sv.2) sv.1
  visNodup : sv.2.Nodup
  visClosed : Closed g.derived.get sv.2
  visLat : ∀ x ∈ sv.2, ¬ InTree g x ∧ x < g.n
  doneLat : ∀ r ∈ done, ¬ TreeRoot g r → r ∈ sv.2

theorem lattice_classes (hg : Good g) :
    ∀ (vs : List Nat) (K : Nat × Nat → Prop) (st : SlotSt), SInvK g ms K st → vs.Nodup →
      (∀ v ∈ vs, ¬ InTree g v ∧ v < g.n) → (∀ v ∈ vs, ∀ mp ∈ usedBy ms v, ¬ K mp) →
      SInvK g ms (fun mp => (∃ v ∈ vs, mp ∈ usedBy ms v) ∨ K mp) (vs.foldl (allocClass g ms) st)
  | [], K, st, hinv, _, _, _ => hinv.congr ms (by simp)
  | v :: vs, K, st, hinv, hnd, hlat, hfresh => by
    simp only [List.foldl_cons]
    obtain ⟨hv1, hv2⟩ := List.nodup_cons.mp hnd
    have h1 := lattice_class_step ms hg v (hlat v (by simp)).1 (hlat v (by simp)).2 (usedBy ms v) K st hinv
      (fun mp hmp => (mem_usedBy ms v mp).mp hmp) (usedBy_nodup ms v) (hfresh v (by simp))
    have := lattice_classes hg vs _ _ h1 hv2 (fun v' hv' => hlat v' (by simp [hv']))
      (by
        intro v' hv' mp hmp hk
        rcases hk with hk | hk
        · have := usedBy_disjoint ms v' v mp hmp hk
          subst this
          exact hv1 hv'
        · exact hfresh v' (by simp [hv']) mp hmp hk)
    apply this.congr
    intro mp
    simp only [List.mem_cons]
    constructor
    · rintro (⟨v', hv', hs⟩ | hs | hk)
      · exact Or.inl ⟨v', Or.inr hv', hs⟩
      · exact Or.inl ⟨v, Or.inl rfl, hs⟩
      · exact Or.inr hk
    · rintro (⟨v', rfl | hv', hs⟩ | hk)
      · exact Or.inr (Or.inl hs)
      · exact Or.inl ⟨v', hv', hs⟩
      · exact Or.inr (Or.inr hk)

theorem treeRoot_iff (r : Nat) (hr : IsRoot g r) :
    ((g.cov.get r).all (fun c => decide ((g.direct.get c).length ≤ 1))) = true ↔ TreeRoot g r := by
  rw [List.all_eq_true]
  simp only [decide_eq_true_eq]
  exact ⟨fun h => ⟨hr, h⟩, fun h => h.2⟩

/-- one root -/
theorem root_step (hg : Good g) (done : List Nat) (sv : SlotSt × List Nat) (hinv : PInv g ms done sv)
    (r : Nat) (hr : IsRoot g r) (hnew : r ∉ done) : PInv g ms (r :: done) (rootStep g ms sv r) := by
  obtain ⟨h, hh, hb⟩ := hg.ranked
  unfold rootStep
  by_cases ht : TreeRoot g r
  · -- a tree
    rw [if_pos ((treeRoot_iff r hr).mpr ht)]
    have hrt : InTree g r := ⟨r, ht, Reach.refl _⟩
    have hrec := tree_rec ms hg h hh g.fuel r _ sv.1 hinv.sinv (hb r) hrt hr.1
      (by
        rintro mp ⟨x, hx, hmp⟩ ⟨v, hv, hmp'⟩
        have := usedBy_disjoint ms x v mp hmp hmp'
        subst this
        rcases hv with hv | ⟨r', hr', hr't, hr'x⟩
        · exact (hinv.visLat x hv).1 (inTree_down hrt hx)
        · have := root_unique hg ht hr't.1 hx hr'x
          subst this
          exact hnew hr')
    rw [B_root ms r hr.2] at hrec
    refine ⟨?_, hinv.visNodup, hinv.visClosed, hinv.visLat, ?_⟩
    · apply hrec.congr
      intro mp
      constructor
      · rintro (⟨x, hx, hmp⟩ | ⟨v, hv, hmp⟩)
        · exact ⟨x, Or.inr ⟨r, by simp, ht, hx⟩, hmp⟩
        · refine ⟨v, ?_, hmp⟩
          rcases hv with hv | ⟨r', hr', h2⟩
          · exact Or.inl hv
          · exact Or.inr ⟨r', by simp [hr'], h2⟩
      · rintro ⟨v, hv, hmp⟩
        rcases hv with hv | ⟨r', hr', hr't, hr'v⟩
        · exact Or.inr ⟨v, Or.inl hv, hmp⟩
        · rcases List.mem_cons.mp hr' with rfl | hr'
          · exact Or.inl ⟨v, hr'v, hmp⟩
          · exact Or.inr ⟨v, Or.inr ⟨r', hr', hr't, hr'v⟩, hmp⟩
    · intro r' hr' hnt
      rcases List.mem_cons.mp hr' with rfl | hr'
      · exact absurd ht hnt
      · exact hinv.doneLat r' hr' hnt
  · -- a lattice
    have hcond : ((g.cov.get r).all (fun c => decide ((g.direct.get c).length ≤ 1))) = false := by
      cases hc : (g.cov.get r).all (fun c => decide ((g.direct.get c).length ≤ 1)) with
      | false => rfl
      | true => exact absurd ((treeRoot_iff r hr).mp hc) ht
    rw [hcond]
    simp only [Bool.false_eq_true, if_false]
    obtain ⟨newly, hvis⟩ := lo_prefix g.derived.get g.fuel r sv.2
    have hnodup := lo_nodup g.derived.get g.fuel r sv.2 hinv.visNodup
    rw [hvis] at hnodup
    have hdrop : (latticeOrder g.derived.get g.fuel r sv.2).drop sv.2.length = newly := by
      rw [hvis]; simp
    rw [hdrop]
    obtain ⟨hn1, hn2, hn3⟩ := List.nodup_append.mp hnodup
    have hnewly : ∀ v ∈ newly, ¬ InTree g v ∧ v < g.n := by
      intro v hv
      have hrv : Reach g.derived.get r v := by
        rcases lo_reach g.derived.get g.fuel r sv.2 v (by rw [hvis]; simp [hv]) with h1 | h1
        · exact absurd rfl (hn3 v h1 v hv)
        · exact h1
      exact ⟨not_inTree_below_lattice hg hr ht hrv, reach_lt hg hrv hr.1⟩
    have hcls := lattice_classes ms hg newly _ sv.1 hinv.sinv hn2 hnewly
      (by
        rintro v hv mp hmp ⟨v', hv', hmp'⟩
        have := usedBy_disjoint ms v v' mp hmp hmp'
        subst this
        rcases hv' with hv' | ⟨r', _, hr't, hr'v⟩
        · exact hn3 v hv' v hv rfl
        · exact (hnewly v hv).1 ⟨r', hr't, hr'v⟩)
    refine ⟨?_, ?_, ?_, ?_, ?_⟩
    · apply hcls.congr
      intro mp
      simp only [hvis]
      constructor
      · rintro (⟨v, hv, hmp⟩ | ⟨v, hv, hmp⟩)
        · exact ⟨v, Or.inl (by simp [hv]), hmp⟩
        · refine ⟨v, ?_, hmp⟩
          rcases hv with hv | ⟨r', hr', h2⟩
          · exact Or.inl (by simp [hv])
          · exact Or.inr ⟨r', by simp [hr'], h2⟩
      · rintro ⟨v, hv, hmp⟩
        rcases hv with hv | ⟨r', hr', hr't, hr'v⟩
        · rcases List.mem_append.mp hv with hv | hv
          · exact Or.inr ⟨v, Or.inl hv, hmp⟩
          · exact Or.inl ⟨v, hv, hmp⟩
        · rcases List.mem_cons.mp hr' with rfl | hr'
          · exact absurd hr't ht
          · exact Or.inr ⟨v, Or.inr ⟨r', hr', hr't, hr'v⟩, hmp⟩
    · simp only [hvis]; exact hnodup
    · exact lo_keeps_closed g.derived.get h hh g.fuel r sv.2 (hb r) hinv.visClosed
    · intro x hx
      simp only [hvis] at hx
      rcases List.mem_append.mp hx with hx | hx
      · exact hinv.visLat x hx
      · exact hnewly x hx
    · intro r' hr' hnt
      rcases List.mem_cons.mp hr' with rfl | hr'
      · exact lo_self g.derived.get h g.fuel r' sv.2 (hb r')
      · exact lo_mono g.derived.get g.fuel r sv.2 r' (hinv.doneLat r' hr' hnt)

theorem roots_fold (hg : Good g) : ∀ (rs done : List Nat) (sv : SlotSt × List Nat), PInv g ms done sv →
    rs.Nodup → (∀ r ∈ rs, IsRoot g r ∧ r ∉ done) →
    PInv g ms (rs.reverse ++ done) (rs.foldl (rootStep g ms) sv)
  | [], done, sv, hinv, _, _ => by simpa
  | r :: rs, done, sv, hinv, hnd, hrs => by
    simp only [List.foldl_cons, List.reverse_cons, List.append_assoc, List.singleton_append]
    obtain ⟨h1, h2⟩ := List.nodup_cons.mp hnd
    apply roots_fold hg rs (r :: done) _ (root_step ms hg done sv hinv r (hrs r (by simp)).1 (hrs r (by simp)).2) h2
    intro r' hr'
    refine ⟨(hrs r' (by simp [hr'])).1, ?_⟩
    intro hmem
    rcases List.mem_cons.mp hmem with rfl | hmem
    · exact h1 hr'
    · exact (hrs r' (by simp [hr'])).2 hmem

theorem init_inv : PInv g ms [] (SlotSt.init, []) := by
  refine ⟨⟨?_, ?_, ?_, ?_, ?_, ?_⟩, by simp, ?_, by simp, by simp⟩
  · intro mp
    simp only [SlotSt.init, List.map_nil, List.not_mem_nil, false_iff]
    rintro ⟨v, hv, _⟩
    rcases hv with hv | ⟨r, hr, _⟩
    · cases hv
    · cases hr
  · simp [SlotSt.init]
  · simp [SlotSt.init]
  · intro e he; simp [SlotSt.init] at he
  · intro e he; simp [SlotSt.init] at he
  · intro e he; simp [SlotSt.init] at he
  · intro x hx; cases hx

/-- the invariant after all roots, with every class done -/
theorem phaseA_inv (hg : Good g) :
    ∃ K : Nat × Nat → Prop, SInvK g ms K (phaseA g ms).1 ∧
      ∀ mp v, paramClass ms mp = some v → v < g.n → K mp := by
  have hroots : ∀ r ∈ rootsOf g, IsRoot g r ∧ r ∉ ([] : List Nat) := by
    intro r hr
    unfold rootsOf at hr
    rw [List.mem_filter, List.mem_range, List.isEmpty_iff] at hr
    exact ⟨⟨hr.1, hr.2⟩, by simp⟩
  have hnd : (rootsOf g).Nodup := List.Nodup.sublist List.filter_sublist List.nodup_range
  have hfin := roots_fold ms hg (rootsOf g) [] _ (init_inv ms) hnd hroots
  refine ⟨_, hfin.sinv, ?_⟩
  intro mp v hmp hv
  refine ⟨v, ?_, (mem_usedBy ms v mp).mpr hmp⟩
  obtain ⟨r, hr, hrv⟩ := root_above hg v hv
  have hrmem : r ∈ rootsOf g := by
    unfold rootsOf
    rw [List.mem_filter, List.mem_range, List.isEmpty_iff]
    exact hr
  by_cases ht : TreeRoot g r
  · exact Or.inr ⟨r, by simp [hrmem], ht, hrv⟩
  · left
    have := hfin.doneLat r (by simp [hrmem]) ht
    exact closed_reach g.derived.get hfin.visClosed hrv this

/-! ## reading the bindings -/

theorem alGet_of_mem {κ ν} [DecidableEq κ] : ∀ (l : List (κ × ν)) (d : ν) (k : κ) (v : ν),
    (l.map (·.1)).Nodup → (k, v) ∈ l → alGet l d k = v
  | [], _, _, _, _, h => by cases h
  | (k', v') :: rest, d, k, v, hnd, h => by
    simp only [List.map_cons, List.nodup_cons] at hnd
    rw [alGet]
    rcases List.mem_cons.mp h with hh | hh
    · injection hh with h1 h2; subst h1 h2; simp
    · have hne : k ≠ k' := by
        intro e; subst e
        exact hnd.1 (List.mem_map.mpr ⟨(k, v), hh, rfl⟩)
      simp only [hne, if_false]
      exact alGet_of_mem rest d k v hnd.2 hh

theorem pairwise_mem {α} {R : α → α → Prop} : ∀ {l : List α}, l.Pairwise R → ∀ a ∈ l, ∀ b ∈ l, a ≠ b → R a b ∨ R b a
  | [], _, a, ha, _, _, _ => by cases ha
  | x :: l, h, a, ha, b, hb, hne => by
    obtain ⟨h1, h2⟩ := List.pairwise_cons.mp h
    rcases List.mem_cons.mp ha with rfl | ha' <;> rcases List.mem_cons.mp hb with rfl | hb'
    · exact absurd rfl hne
    · exact Or.inl (h1 b hb')
    · exact Or.inr (h1 a ha')
    · exact pairwise_mem h2 a ha' b hb' hne

/-- **slots are exclusive**: two different virtual parameters whose classes share a covariant class
    never get the same slot — for trees, lattices and any mixture of them -/
theorem assignSlots_exclusive (hg : Good g) (mp mp' : Nat × Nat) (v v' x : Nat)
    (hv : paramClass ms mp = some v) (hv' : paramClass ms mp' = some v') (hvn : v < g.n) (hv'n : v' < g.n)
    (hx : x ∈ g.cov.get v) (hx' : x ∈ g.cov.get v')
    (heq : (assignSlots g ms).slots mp = (assignSlots g ms).slots mp') : mp = mp' := by
  obtain ⟨K, hinv, hall⟩ := phaseA_inv ms hg
  unfold SlotSt.slots at heq
  rw [assignSlots_slotList] at heq
  obtain ⟨e, he, he1⟩ := List.mem_map.mp ((hinv.keys mp).mpr (hall mp v hv hvn))
  obtain ⟨e', he', he'1⟩ := List.mem_map.mp ((hinv.keys mp').mpr (hall mp' v' hv' hv'n))
  have hs : alGet (phaseA g ms).1.slotList 0 mp = e.2 :=
    alGet_of_mem _ 0 mp e.2 hinv.nodup (by rw [← he1]; exact he)
  have hs' : alGet (phaseA g ms).1.slotList 0 mp' = e'.2 :=
    alGet_of_mem _ 0 mp' e'.2 hinv.nodup (by rw [← he'1]; exact he')
  rw [hs, hs'] at heq
  apply Classical.byContradiction
  intro hne
  have hee : e ≠ e' := by
    intro h; subst h; exact hne (he1.symm.trans he'1)
  rcases pairwise_mem hinv.excl e he e' he' hee with hr | hr
  · exact hr v v' (by rw [he1]; exact hv) (by rw [he'1]; exact hv') x hx hx' heq
  · exact hr v' v (by rw [he'1]; exact hv') (by rw [he1]; exact hv) x hx' hx heq.symm

end Yomm2.SlotsExcl
