import Yomm2.Model.Slots
/-!
# The lattice slot allocator never gives one slot to two parameters sharing a descendant

`alloc` is the body of the `for mp in cls.used_by_vp` loop of `assign_lattice_slots`. The invariant:
for every earlier allocation (root `v'`, slot `s'`), `s'` is in `used x` for every `x` covariant
with `v'`, and in `reserved b` for every base `b` of such an `x`. Bits are never cleared, and a new
slot is chosen outside `used v ∪ reserved v`. The argument needs the base lists to be transitively
complete (what the repair of D4 establishes) and holds for ANY order of allocation.
-/
namespace Yomm2.Lattice
open Yomm2

theorem mem_reserveIn (u : Bits) (bs : List Nat) (r : Tab Bits) (c i : Nat) :
    ((reserveIn u bs r).get c).mem i = ((r.get c).mem i || (decide (c ∈ bs) && u.mem i)) := by
  induction bs generalizing r with
  | nil => simp [reserveIn]
  | cons b bs ih =>
    simp only [reserveIn, List.foldl_cons] at ih ⊢
    rw [ih]
    by_cases hcb : c = b
    · subst hcb; simp [mem_mergeInto]; cases (r.get c).mem i <;> cases u.mem i <;> simp
    · simp [Tab.get_set, hcb]

/-- what the allocator needs from the class graph -/
structure Complete (tb cov : Nat → List Nat) : Prop where
  bases : ∀ c d, d ∈ cov c → d ≠ c → c ∈ tb d

/-- what the invariant says about one earlier allocation `(v', s')` -/
def Covers (tb cov : Nat → List Nat) (used reserved : Tab Bits) (v' s' : Nat) : Prop :=
  (∀ x ∈ cov v', ((used.get x).mem s') = true) ∧
  (∀ x ∈ cov v', ∀ b ∈ tb x, ((reserved.get b).mem s') = true)

theorem covLoop_used (tb : Nat → List Nat) (usedV : Bits) (v : Nat) (ds : List Nat) (ur : Tab Bits × Tab Bits) (x i : Nat) :
    (((covLoop tb usedV v ds ur).1).get x).mem i =
      ((ur.1.get x).mem i || (decide (x ∈ ds ∧ x ≠ v) && usedV.mem i)) := by
  induction ds generalizing ur with
  | nil => simp [covLoop]
  | cons d ds ih =>
    simp only [covLoop, List.foldl_cons] at ih ⊢
    rw [ih]
    by_cases hdv : d = v
    · subst hdv
      simp only [if_true, List.mem_cons]
      by_cases hx : x = d
      · subst hx; simp
      · simp [hx]
    · simp only [hdv, if_false, List.mem_cons]
      by_cases hx : x = d
      · subst hx
        simp [mem_mergeInto, hdv]
        cases (ur.1.get x).mem i <;> cases usedV.mem i <;> simp
      · simp [Tab.get_set, hx]

theorem covLoop_reserved (tb : Nat → List Nat) (usedV : Bits) (v : Nat) (ds : List Nat) (ur : Tab Bits × Tab Bits) (b i : Nat) :
    (((covLoop tb usedV v ds ur).2).get b).mem i =
      ((ur.2.get b).mem i || (decide (∃ d ∈ ds, d ≠ v ∧ b ∈ tb d) && usedV.mem i)) := by
  induction ds generalizing ur with
  | nil => simp [covLoop]
  | cons d ds ih =>
    simp only [covLoop, List.foldl_cons] at ih ⊢
    rw [ih]
    by_cases hdv : d = v
    · subst hdv
      simp
    · simp only [hdv, if_false, mem_reserveIn]
      by_cases hb : b ∈ tb d
      · have h1 : (∃ d' ∈ d :: ds, d' ≠ v ∧ b ∈ tb d') := ⟨d, by simp, hdv, hb⟩
        simp [hb]
        cases (ur.2.get b).mem i <;> cases usedV.mem i <;> simp [hdv]
      · have : (∃ d' ∈ d :: ds, d' ≠ v ∧ b ∈ tb d') ↔ (∃ d' ∈ ds, d' ≠ v ∧ b ∈ tb d') := by
          constructor
          · rintro ⟨d', hd', hne, hbb⟩
            rcases List.mem_cons.mp hd' with rfl | hd'
            · exact absurd hbb hb
            · exact ⟨d', hd', hne, hbb⟩
          · rintro ⟨d', hd', hne, hbb⟩
            exact ⟨d', by simp [hd'], hne, hbb⟩
        simp [hb]

/-- the allocation body over abstract graph functions -/
def allocG (tb cov : Nat → List Nat) (used reserved : Tab Bits) (v : Nat) : (Tab Bits × Tab Bits) × Nat :=
  let slot := firstFree (mergeInto (reserved.get v) (used.get v))
  let usedV := setBit (used.get v) slot
  let used := used.set v usedV
  let reserved := reserved.set v (setBit (reserved.get v) slot)
  let reserved := reserveIn usedV (tb v) reserved
  (covLoop tb usedV v (cov v) (used, reserved), slot)

theorem alloc_eq_allocG (g : Graph) (used reserved : Tab Bits) (v : Nat) :
    alloc g used reserved v = allocG g.tb.get g.cov.get used reserved v := rfl

/-- **the key step**: a fresh slot differs from the slot of every earlier allocation whose root shares
    a descendant with `v` -/
theorem alloc_fresh (tb cov : Nat → List Nat) (hc : Complete tb cov) (used reserved : Tab Bits) (v v' s' x : Nat)
    (hcov : Covers tb cov used reserved v' s') (hx : x ∈ cov v) (hx' : x ∈ cov v') :
    (allocG tb cov used reserved v).2 ≠ s' := by
  intro h
  have hfree := firstFree_not_mem (mergeInto (reserved.get v) (used.get v))
  simp only [allocG] at h
  rw [h, mem_mergeInto] at hfree
  simp only [Bool.or_eq_false_iff] at hfree
  by_cases hxv : x = v
  · subst hxv
    have := hcov.1 x hx'
    rw [this] at hfree; exact Bool.noConfusion hfree.1
  · have hb : v ∈ tb x := hc.bases v x hx hxv
    have := hcov.2 x hx' v hb
    rw [this] at hfree; exact Bool.noConfusion hfree.2

/-- bits are never cleared -/
theorem alloc_mono (tb cov : Nat → List Nat) (used reserved : Tab Bits) (v x i : Nat) :
    (((used.get x).mem i) = true → (((allocG tb cov used reserved v).1.1.get x).mem i) = true) ∧
    (((reserved.get x).mem i) = true → (((allocG tb cov used reserved v).1.2.get x).mem i) = true) := by
  simp only [allocG]
  constructor
  · intro h
    rw [covLoop_used]
    by_cases hx : x = v
    · subst hx; simp [mem_setBit, h]
    · simp [Tab.get_set, hx, h]
  · intro h
    rw [covLoop_reserved, mem_reserveIn]
    by_cases hx : x = v
    · subst hx; simp [mem_setBit, h]
    · simp [Tab.get_set, hx, h]

theorem covers_mono (tb cov : Nat → List Nat) (used reserved : Tab Bits) (v v' s' : Nat)
    (h : Covers tb cov used reserved v' s') :
    Covers tb cov (allocG tb cov used reserved v).1.1 (allocG tb cov used reserved v).1.2 v' s' :=
  ⟨fun x hx => (alloc_mono tb cov used reserved v x s').1 (h.1 x hx),
   fun x hx b hb => (alloc_mono tb cov used reserved v b s').2 (h.2 x hx b hb)⟩

/-- the new allocation is itself covered -/
theorem alloc_covers (tb cov : Nat → List Nat) (used reserved : Tab Bits) (v : Nat) :
    Covers tb cov (allocG tb cov used reserved v).1.1 (allocG tb cov used reserved v).1.2 v
      (allocG tb cov used reserved v).2 := by
  simp only [allocG]
  constructor
  · intro x hx
    rw [covLoop_used]
    by_cases hxv : x = v
    · subst hxv; simp [mem_setBit]
    · simp [hx, hxv, mem_setBit]
  · intro x hx b hb
    rw [covLoop_reserved, mem_reserveIn]
    by_cases hxv : x = v
    · subst hxv; simp [hb, mem_setBit]
    · have : ∃ d ∈ cov v, d ≠ v ∧ b ∈ tb d := ⟨x, hx, hxv, hb⟩
      simp [this, mem_setBit]

/-- allocating a list of (parameter, root class) pairs in ANY order -/
def allocAll (tb cov : Nat → List Nat) : Tab Bits → Tab Bits → List ((Nat × Nat) × Nat) →
    List ((Nat × Nat) × Nat × Nat) → (Tab Bits × Tab Bits) × List ((Nat × Nat) × Nat × Nat)
  | used, reserved, [], acc => ((used, reserved), acc)
  | used, reserved, (k, v) :: rest, acc =>
    let r := allocG tb cov used reserved v
    allocAll tb cov r.1.1 r.1.2 rest ((k, v, r.2) :: acc)

/-- **slots_disjoint (lattice part)**: whatever the order of allocation, two parameters whose root
    classes share a descendant never get the same slot -/
theorem allocAll_disjoint (tb cov : Nat → List Nat) (hc : Complete tb cov) (used reserved : Tab Bits)
    (todo : List ((Nat × Nat) × Nat)) (acc : List ((Nat × Nat) × Nat × Nat))
    (hinv : ∀ e ∈ acc, Covers tb cov used reserved e.2.1 e.2.2)
    (hacc : acc.Pairwise (fun e e' => ∀ x, x ∈ cov e.2.1 → x ∈ cov e'.2.1 → e.2.2 ≠ e'.2.2)) :
    (allocAll tb cov used reserved todo acc).2.Pairwise
      (fun e e' => ∀ x, x ∈ cov e.2.1 → x ∈ cov e'.2.1 → e.2.2 ≠ e'.2.2) := by
  induction todo generalizing used reserved acc with
  | nil => simpa [allocAll]
  | cons kv rest ih =>
    obtain ⟨k, v⟩ := kv
    simp only [allocAll]
    apply ih
    · intro e he
      rcases List.mem_cons.mp he with rfl | he
      · exact alloc_covers tb cov used reserved v
      · exact covers_mono tb cov used reserved v _ _ (hinv e he)
    · rw [List.pairwise_cons]
      refine ⟨?_, hacc⟩
      intro e he x hx hx'
      exact alloc_fresh tb cov hc used reserved v e.2.1 e.2.2 x (hinv e he) hx hx'

end Yomm2.Lattice
