import Yomm2.Proofs.Heads
/-!
# The ids collected per class: each projects to the class's key
-/
namespace Yomm2.Ids
open Yomm2 Yomm2.Heads

def IdsOk (proj : Nat → Nat) (hs : List Head) : Prop := ∀ hd ∈ hs, ∀ id ∈ hd.ids, proj id = hd.key

theorem addRec_idsOk (proj : Nat → Nat) (acc : List Head) (r : ClassRec) (h : IdsOk proj acc) :
    IdsOk proj (addRec proj acc r) := by
  unfold addRec
  split
  · intro hd hhd id hid
    obtain ⟨hd0, hhd0, rfl⟩ := List.mem_map.mp hhd
    by_cases hc : (hd0.key == proj r.id && !hd0.ids.contains r.id) = true
    · simp only [hc, if_true] at hid ⊢
      simp only [Bool.and_eq_true, beq_iff_eq] at hc
      simp only [List.mem_append, List.mem_singleton] at hid
      rcases hid with hid | rfl
      · exact h hd0 hhd0 id hid
      · exact hc.1.symm
    · simp only [hc, Bool.false_eq_true, if_false] at hid ⊢
      exact h hd0 hhd0 id hid
  · intro hd hhd id hid
    rcases List.mem_append.mp hhd with hhd | hhd
    · exact h hd hhd id hid
    · simp at hhd; subst hhd; simp at hid; subst hid; rfl

theorem heads_idsOk (proj : Nat → Nat) (recs : List ClassRec) : IdsOk proj (heads proj recs) := by
  unfold heads
  suffices H : ∀ acc, IdsOk proj acc → IdsOk proj (recs.foldl (addRec proj) acc) from H [] (by intro hd h; cases h)
  induction recs with
  | nil => intro acc h; exact h
  | cons r rs ih => intro acc h; exact ih _ (addRec_idsOk proj acc r h)


def IdsFrom (recs : List ClassRec) (hs : List Head) : Prop := ∀ hd ∈ hs, ∀ id ∈ hd.ids, ∃ r ∈ recs, r.id = id

theorem addRec_idsFrom (proj : Nat → Nat) (recs : List ClassRec) (acc : List Head) (r : ClassRec) (hr : r ∈ recs)
    (h : IdsFrom recs acc) : IdsFrom recs (addRec proj acc r) := by
  unfold addRec
  split
  · intro hd hhd id hid
    obtain ⟨hd0, hhd0, rfl⟩ := List.mem_map.mp hhd
    by_cases hc : (hd0.key == proj r.id && !hd0.ids.contains r.id) = true
    · simp only [hc, if_true] at hid
      simp only [List.mem_append, List.mem_singleton] at hid
      rcases hid with hid | rfl
      · exact h hd0 hhd0 id hid
      · exact ⟨r, hr, rfl⟩
    · simp only [hc, Bool.false_eq_true, if_false] at hid
      exact h hd0 hhd0 id hid
  · intro hd hhd id hid
    rcases List.mem_append.mp hhd with hhd | hhd
    · exact h hd hhd id hid
    · simp at hhd; subst hhd; simp at hid; subst hid; exact ⟨r, hr, rfl⟩

theorem heads_idsFrom (proj : Nat → Nat) (recs : List ClassRec) : IdsFrom recs (heads proj recs) := by
  unfold heads
  suffices H : ∀ (rs : List ClassRec) acc, (∀ r ∈ rs, r ∈ recs) → IdsFrom recs acc → IdsFrom recs (rs.foldl (addRec proj) acc) from
    H recs [] (fun r h => h) (by intro hd h; cases h)
  intro rs
  induction rs with
  | nil => intro acc _ h; exact h
  | cons r rs ih =>
    intro acc hsub h
    exact ih _ (fun r' hr' => hsub r' (by simp [hr'])) (addRec_idsFrom proj recs acc r (hsub r (by simp)) h)

end Yomm2.Ids
