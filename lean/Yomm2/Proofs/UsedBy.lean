import Yomm2.Model.Slots
/-!
# `used_by_vp`: the (method, parameter) pairs rooted at a class
-/
namespace Yomm2.UsedBy
open Yomm2

/-- the class of a virtual parameter -/
def paramClass (ms : List MethodC) (mp : Nat × Nat) : Option Nat := (ms[mp.1]?).bind (fun m => m.vp[mp.2]?)

theorem zipIdx_pairwise_lt {α} (l : List α) : (List.zipIdx l).Pairwise (fun a b => a.2 < b.2) := by
  have h := List.pairwise_lt_range' (s := 0) (n := l.length) 1
  rw [← List.zipIdx_map_snd 0 l, List.pairwise_map] at h
  exact h

theorem mem_usedBy (ms : List MethodC) (c : Nat) (mp : Nat × Nat) :
    mp ∈ usedBy ms c ↔ paramClass ms mp = some c := by
  obtain ⟨mi, p⟩ := mp
  unfold usedBy paramClass
  simp only [List.mem_flatMap, List.mem_map, List.mem_filter, Prod.exists, beq_iff_eq, Prod.mk.injEq]
  constructor
  · rintro ⟨m, mi', hm, v, p', ⟨hv, hvc⟩, rfl, rfl⟩
    rw [List.mk_mem_zipIdx_iff_getElem?] at hm hv
    simp [hm, hv, hvc]
  · intro h
    cases hm : ms[mi]? with
    | none => simp [hm] at h
    | some m =>
      simp [hm] at h
      exact ⟨m, mi, List.mk_mem_zipIdx_iff_getElem?.mpr hm, c, p,
        ⟨List.mk_mem_zipIdx_iff_getElem?.mpr h, rfl⟩, rfl, rfl⟩

theorem usedBy_nodup (ms : List MethodC) (c : Nat) : (usedBy ms c).Nodup := by
  unfold usedBy
  rw [List.nodup_iff_pairwise_ne, List.pairwise_flatMap]
  constructor
  · rintro ⟨m, mi⟩ _
    simp only
    apply List.Pairwise.map (R := fun a b : Nat × Nat => a.2 < b.2)
    · rintro ⟨v, p⟩ ⟨v', p'⟩ hlt
      simp only at hlt ⊢
      intro e
      injection e with _ e2
      omega
    · exact List.Pairwise.filter _ (zipIdx_pairwise_lt m.vp)
  · apply List.Pairwise.imp _ (zipIdx_pairwise_lt ms)
    rintro ⟨m, mi⟩ ⟨m', mi'⟩ hlt x hx y hy
    simp only [List.mem_map, List.mem_filter, Prod.exists] at hx hy hlt
    obtain ⟨_, p, _, rfl⟩ := hx
    obtain ⟨_, p', _, rfl⟩ := hy
    intro e
    injection e with e1 _
    omega

/-- a parameter belongs to one class only -/
theorem usedBy_disjoint (ms : List MethodC) (c c' : Nat) (mp : Nat × Nat)
    (h : mp ∈ usedBy ms c) (h' : mp ∈ usedBy ms c') : c = c' := by
  rw [mem_usedBy] at h h'
  rw [h] at h'
  exact Option.some.inj h'

end Yomm2.UsedBy
