import Yomm2.Proofs.SlotsInv
/-!
# `assign_tree_slots` keeps the invariant

The recursion through `direct_derived` gives the class `c` the window starting at `base = B c`, then
each directly derived class the window starting right after. Sub-trees of different children share
no class, so every class of the tree is processed once.
-/
namespace Yomm2.SlotsTree
open Yomm2 Yomm2.Reach Yomm2.GraphFacts Yomm2.TreeFacts Yomm2.UsedBy Yomm2.SlotsInv

variable {g : Graph} (ms : List MethodC)

/-- the parameters rooted in the sub-tree below `c` -/
def SubK (g : Graph) (ms : List MethodC) (c : Nat) (mp : Nat × Nat) : Prop :=
  ∃ x, Reach g.derived.get c x ∧ mp ∈ usedBy ms x

theorem siblings_disjoint (hg : Good g) (c : Nat) (hc : InTree g c) :
    (g.derived.get c).Pairwise (fun d d' => ∀ x, Reach g.derived.get d x → Reach g.derived.get d' x → False) := by
  apply List.Pairwise.imp_of_mem _ (hg.derived_nodup c)
  intro d d' hd hd' hne x hx hx'
  have hdt : InTree g d := inTree_down hc (Reach.single hd)
  have hd't : InTree g d' := inTree_down hc (Reach.single hd')
  have hxt : InTree g x := inTree_down hdt hx
  -- a path between two children of `c` would pass through `c`
  have through : ∀ a b, a ∈ g.derived.get c → b ∈ g.derived.get c → InTree g b → a ≠ b →
      Reach g.derived.get a b → False := by
    intro a b ha hb hbt hab hr
    rcases reach_last hr with rfl | ⟨m, ham, hbm⟩
    · exact hab rfl
    · have h1 := direct_of_child hg hb hbt
      have h2 := (hg.derived_iff m b).mp hbm
      rw [h1] at h2
      simp at h2
      subst h2
      -- `a` reaches `m = c` and `c` reaches `a`
      have := reach_antisymm hg ham (Reach.single ha)
      subst this
      obtain ⟨h, hh, _⟩ := hg.ranked
      have := hh a a ha
      omega
  rcases comparable hg hxt hx hx' with hr | hr
  · exact through d d' hd hd' hd't hne hr
  · exact through d' d hd' hd hdt (fun e => hne e.symm) hr

theorem subK_split (c : Nat) (mp : Nat × Nat) :
    SubK g ms c mp ↔ mp ∈ usedBy ms c ∨ ∃ d ∈ g.derived.get c, SubK g ms d mp := by
  constructor
  · rintro ⟨x, hx, hmp⟩
    cases hx with
    | refl => exact Or.inl hmp
    | step hm hr => exact Or.inr ⟨_, hm, _, hr, hmp⟩
  · rintro (h | ⟨d, hd, x, hx, hmp⟩)
    · exact ⟨c, Reach.refl _, h⟩
    · exact ⟨x, Reach.step hd hx, hmp⟩

theorem tree_fold (f : Nat) (h : Nat → Nat) (next : Nat)
    (ih : ∀ (c : Nat) (K : Nat × Nat → Prop) (st : SlotSt), SInvK g ms K st → h c < f → InTree g c → c < g.n →
      (∀ mp, SubK g ms c mp → ¬ K mp) →
      SInvK g ms (fun mp => SubK g ms c mp ∨ K mp) (treeSlots g ms f c (B g ms c) st)) :
    ∀ (ds : List Nat) (K : Nat × Nat → Prop) (st : SlotSt), SInvK g ms K st →
      (∀ d ∈ ds, h d < f ∧ InTree g d ∧ d < g.n ∧ B g ms d = next) →
      ds.Pairwise (fun d d' => ∀ x, Reach g.derived.get d x → Reach g.derived.get d' x → False) →
      (∀ d ∈ ds, ∀ mp, SubK g ms d mp → ¬ K mp) →
      SInvK g ms (fun mp => (∃ d ∈ ds, SubK g ms d mp) ∨ K mp)
        (ds.foldl (fun st d => treeSlots g ms f d next st) st)
  | [], K, st, hinv, _, _, _ => hinv.congr ms (by simp)
  | d :: ds, K, st, hinv, hds, hpw, hfresh => by
    simp only [List.foldl_cons]
    obtain ⟨hdf, hdt, hdn, hdb⟩ := hds d (by simp)
    have h1 := ih d K st hinv hdf hdt hdn (hfresh d (by simp))
    rw [hdb] at h1
    obtain ⟨hpw1, hpw2⟩ := List.pairwise_cons.mp hpw
    have := tree_fold f h next ih ds _ _ h1 (fun d' hd' => hds d' (by simp [hd'])) hpw2
      (by
        intro d' hd' mp hsub hk
        rcases hk with ⟨x, hx, hmp⟩ | hk
        · obtain ⟨x', hx', hmp'⟩ := hsub
          have := usedBy_disjoint ms x x' mp hmp hmp'
          subst this
          exact hpw1 d' hd' x hx hx'
        · exact hfresh d' (by simp [hd']) mp hsub hk)
    apply this.congr
    intro mp
    simp only [List.mem_cons]
    constructor
    · rintro (⟨d', hd', hs⟩ | hs | hk)
      · exact Or.inl ⟨d', Or.inr hd', hs⟩
      · exact Or.inl ⟨d, Or.inl rfl, hs⟩
      · exact Or.inr hk
    · rintro (⟨d', rfl | hd', hs⟩ | hk)
      · exact Or.inr (Or.inl hs)
      · exact Or.inl ⟨d', hd', hs⟩
      · exact Or.inr (Or.inr hk)

/-- **`assign_tree_slots` below `c`**: every class reachable from `c` gets its window, and the
    invariant is kept -/
theorem tree_rec (hg : Good g) (h : Nat → Nat) (hh : ∀ a m, m ∈ g.derived.get a → h m < h a) :
    ∀ (f c : Nat) (K : Nat × Nat → Prop) (st : SlotSt), SInvK g ms K st → h c < f → InTree g c → c < g.n →
      (∀ mp, SubK g ms c mp → ¬ K mp) →
      SInvK g ms (fun mp => SubK g ms c mp ∨ K mp) (treeSlots g ms f c (B g ms c) st)
  | 0, c, K, st, _, hf, _, _, _ => by omega
  | f + 1, c, K, st, hinv, hf, hc, hcn, hfresh => by
    rw [treeSlots]
    have h1 := tree_class_step ms hg K st hinv c hc hcn
      (fun mp hmp => hfresh mp ⟨c, Reach.refl _, hmp⟩) (st.first.set c 0)
      (st.vsize.set c (B g ms c + (usedBy ms c).length))
    have h2 := tree_fold ms f h (B g ms c + (usedBy ms c).length) (tree_rec hg h hh f) (g.derived.get c) _ _ h1
      (by
        intro d hd
        have hdt := inTree_down hc (Reach.single hd)
        refine ⟨by have := hh c d hd; omega, hdt, (hg.derived_lt c d hd).2, ?_⟩
        exact B_child ms hg c d (direct_of_child hg hd hdt))
      (siblings_disjoint hg c hc)
      (by
        intro d hd mp hsub hk
        rcases hk with hk | hk
        · -- a class below a child of `c` is not `c`
          obtain ⟨x, hx, hmp⟩ := hsub
          have := usedBy_disjoint ms x c mp hmp hk
          subst this
          have := reach_antisymm hg hx (Reach.single hd)
          subst this
          have := hh d d hd
          omega
        · exact hfresh mp ((subK_split ms c mp).mpr (Or.inr ⟨d, hd, hsub⟩)) hk)
    apply h2.congr
    intro mp
    rw [subK_split]
    constructor
    · rintro (hs | hu | hk)
      · exact Or.inl (Or.inr hs)
      · exact Or.inl (Or.inl hu)
      · exact Or.inr hk
    · rintro ((hu | hs) | hk)
      · exact Or.inr (Or.inl hu)
      · exact Or.inl hs
      · exact Or.inr (Or.inr hk)

end Yomm2.SlotsTree
