import Yomm2.Proofs.Cells
import Yomm2.Proofs.Graph
import Yomm2.Proofs.Specificity
/-!
# From class indices to the specification

The compiler works on class indices; the specification on `type_index` keys. For the classes of a
successfully built graph the two correspond one to one, `derG` is `Derives`, `applicableTo` is
`Applicable`, `msOf` is `MoreSpecific`, and a table cell encodes `Selects`.
-/
namespace Yomm2.Bridge
open Yomm2 Yomm2.Spec Yomm2.Cells Yomm2.GraphProofs Yomm2.Heads Yomm2.Props.C03

/-- the context: a registry whose class graph was built -/
structure Ctx where
  proj : Nat → Nat
  reg : Registry
  g : Graph
  hg : buildGraph proj reg.classes = .ok g
  hwf : WF proj reg.classes reg.methods

def Ctx.key (c : Ctx) (i : Nat) : Option Nat := keyAt c.proj c.reg.classes i

theorem Ctx.reg_eta (c : Ctx) : (⟨c.reg.classes, c.reg.methods⟩ : Registry) = c.reg := by cases c.reg; rfl

theorem derG_iff (c : Ctx) (x y kx ky : Nat) (hx : c.key x = some kx) (hy : c.key y = some ky) :
    derG c.g x y = true ↔ Derives c.proj c.reg kx ky := by
  unfold derG
  rw [List.contains_iff_mem]
  have := cov_iff_derives c.proj c.reg.classes c.reg.methods c.g c.hg c.hwf y x ky kx hy hx
  rw [c.reg_eta] at this
  exact this

theorem key_inj (c : Ctx) (x y k : Nat) (hx : c.key x = some k) (hy : c.key y = some k) : x = y := by
  have hnd := (heads_keys c.proj c.reg.classes).1
  have i1 := classIdx_of_get hnd hx
  have i2 := classIdx_of_get hnd hy
  rw [i1] at i2
  exact Option.some.inj i2

/-- members of covariant sets have keys -/
theorem key_of_lt (c : Ctx) (x : Nat) (h : x < c.g.n) : ∃ k, c.key x = some k := by
  obtain ⟨_, hn, _⟩ := buildGraph_fields c.proj c.reg.classes c.g c.hg
  unfold Ctx.key keyAt keysOf
  rw [List.getElem?_map, List.getElem?_eq_getElem (hn ▸ h)]
  exact ⟨_, rfl⟩

theorem derG_lt (c : Ctx) (x y : Nat) (h : derG c.g x y = true) : x < c.g.n ∧ y < c.g.n := by
  unfold derG at h
  rw [List.contains_iff_mem] at h
  have := cov_lt c.proj c.reg.classes c.g c.hg y x h
  exact ⟨this.2, this.1⟩

/-- no inheritance cycle: `derG` is antisymmetric -/
theorem derG_antisymm (c : Ctx) (x y : Nat) (h1 : derG c.g x y = true) (h2 : derG c.g y x = true) : x = y := by
  obtain ⟨hx, hy⟩ := derG_lt c x y h1
  obtain ⟨kx, hkx⟩ := key_of_lt c x hx
  obtain ⟨ky, hky⟩ := key_of_lt c y hy
  have d1 := (derG_iff c x y kx ky hkx hky).mp h1
  have d2 := (derG_iff c y x ky kx hky hkx).mp h2
  have hac : Acyclic c.proj c.reg := by
    have := ranked_acyclic (proj := c.proj) (reg := ⟨c.reg.classes, c.reg.methods⟩) (bound := c.reg.classes.length) c.hwf
    rw [c.reg_eta] at this
    exact this
  have : kx = ky := hac kx ky d1 d2
  subst this
  exact key_inj c x y kx hkx hky

/-- a list of class indices names a list of type ids -/
def Names (c : Ctx) (idxs : List Nat) (ids : List Nat) : Prop :=
  Forall₂ (fun i t => c.key i = some (c.proj t)) idxs ids

theorem resolveIds_names (c : Ctx) : ∀ (ts idxs : List Nat),
    resolveIds c.proj (heads c.proj c.reg.classes) ts = .ok idxs → Names c idxs ts
  | [], idxs, h => by simp [resolveIds] at h; cases h; exact Forall₂.nil
  | t :: ts, idxs, h => by
    simp only [resolveIds] at h
    cases hc : classIdx (heads c.proj c.reg.classes) (c.proj t) with
    | none => simp [hc] at h
    | some i =>
      simp only [hc] at h
      cases hr : resolveIds c.proj (heads c.proj c.reg.classes) ts with
      | error e => simp [hr, bind, Except.bind] at h
      | ok rest =>
        simp only [hr, bind, Except.bind] at h
        cases h
        exact Forall₂.cons (classIdx_some hc) (resolveIds_names c ts rest hr)

/-- `applicableTo` is the specification's `Applicable` -/
theorem all₂_derG_iff (c : Ctx) : ∀ (cs : List Nat) (ks : List Nat) (scs : List Nat) (ps : List Nat),
    Forall₂ (fun i k => c.key i = some k) cs ks → Names c scs ps →
    (all₂ (fun x sc => derG c.g x sc) cs scs = true ↔ Forall₂ (fun a p => Derives c.proj c.reg a (c.proj p)) ks ps)
  | [], _, [], _, h1, h2 => by cases h1; cases h2; simp [all₂]; exact Forall₂.nil
  | [], _, _ :: _, _, h1, h2 => by
    cases h1; cases h2; simp only [all₂]
    constructor
    · intro h; cases h
    · intro h; cases h
  | _ :: _, _, [], _, h1, h2 => by
    cases h1; cases h2; simp only [all₂]
    constructor
    · intro h; cases h
    · intro h; cases h
  | x :: cs, _, sc :: scs, _, h1, h2 => by
    cases h1 with
    | cons hk hrest =>
      cases h2 with
      | cons hp hprest =>
        simp only [all₂, Bool.and_eq_true]
        rw [derG_iff c x sc _ _ hk hp, all₂_derG_iff c cs _ scs _ hrest hprest]
        constructor
        · rintro ⟨a, b⟩; exact Forall₂.cons a b
        · intro h; cases h with | cons a b => exact ⟨a, b⟩

/-- position-wise transfer from indices to ids -/
theorem all₂_names (c : Ctx) (p : Nat → Nat → Bool) (R : Nat → Nat → Prop)
    (hp : ∀ x y tx ty, c.key x = some (c.proj tx) → c.key y = some (c.proj ty) → (p x y = true ↔ R tx ty)) :
    ∀ (va pa vb pb : List Nat), Names c va pa → Names c vb pb → (all₂ p va vb = true ↔ Forall₂ R pa pb)
  | [], _, [], _, h1, h2 => by cases h1; cases h2; simp [all₂]; exact Forall₂.nil
  | [], _, _ :: _, _, h1, h2 => by
    cases h1; cases h2; simp only [all₂]
    constructor
    · intro h; cases h
    · intro h; cases h
  | _ :: _, _, [], _, h1, h2 => by
    cases h1; cases h2; simp only [all₂]
    constructor
    · intro h; cases h
    · intro h; cases h
  | x :: va, _, y :: vb, _, h1, h2 => by
    cases h1 with
    | cons hx hrest =>
      cases h2 with
      | cons hy hyrest =>
        simp only [all₂, Bool.and_eq_true]
        rw [hp x y _ _ hx hy, all₂_names c p R hp va _ vb _ hrest hyrest]
        constructor
        · rintro ⟨a, b⟩; exact Forall₂.cons a b
        · intro h; cases h with | cons a b => exact ⟨a, b⟩

theorem any₂_names (c : Ctx) (p : Nat → Nat → Bool) (R : Nat → Nat → Prop)
    (hp : ∀ x y tx ty, c.key x = some (c.proj tx) → c.key y = some (c.proj ty) → (p x y = true ↔ R tx ty)) :
    ∀ (va pa vb pb : List Nat), Names c va pa → Names c vb pb →
      (any₂ p va vb = true ↔ ∃ (i : Nat) (dp ep : Nat), pa[i]? = some dp ∧ pb[i]? = some ep ∧ R dp ep)
  | [], _, _, _, h1, _ => by cases h1; simp [any₂]
  | _ :: _, _, [], _, _, h2 => by cases h2; simp [any₂]
  | x :: va, _, y :: vb, _, h1, h2 => by
    cases h1 with
    | @cons _ tx _ pa' hx hrest =>
      cases h2 with
      | @cons _ ty _ pb' hy hyrest =>
        simp only [any₂, Bool.or_eq_true]
        rw [hp x y _ _ hx hy, any₂_names c p R hp va _ vb _ hrest hyrest]
        constructor
        · rintro (h | ⟨i, dp, ep, h1, h2, h3⟩)
          · exact ⟨0, tx, ty, by simp, by simp, h⟩
          · exact ⟨i + 1, dp, ep, by simpa using h1, by simpa using h2, h3⟩
        · rintro ⟨i, dp, ep, h1, h2, h3⟩
          cases i with
          | zero => simp at h1 h2; subst h1; subst h2; exact Or.inl h3
          | succ i => exact Or.inr ⟨i, dp, ep, by simpa using h1, by simpa using h2, h3⟩

theorem names_length (c : Ctx) {va pa : List Nat} (h : Names c va pa) : va.length = pa.length := forall₂_length h

theorem ne_iff_key_ne (c : Ctx) (x y tx ty : Nat) (hx : c.key x = some (c.proj tx)) (hy : c.key y = some (c.proj ty)) :
    x ≠ y ↔ c.proj tx ≠ c.proj ty := by
  constructor
  · intro h e
    rw [e] at hx
    exact h (key_inj c x y _ hx hy)
  · intro h e
    subst e
    rw [hx] at hy
    exact h (Option.some.inj hy)

/-- **`is_more_specific` decides the documented ordering** -/
theorem moreSpecific_iff (c : Ctx) (va vb : List Nat) (da db : DefRec) (ha : Names c va da.vp) (hb : Names c vb db.vp)
    (hlen : da.vp.length = db.vp.length) :
    isMoreSpecific (fun x y => (c.g.cov.get y).contains x) va vb = true ↔ MoreSpecific c.proj c.reg da db := by
  have hder : (fun x y => (c.g.cov.get y).contains x) = derG c.g := rfl
  rw [hder, Specificity.isMoreSpecific_eq (derG c.g) (derG_antisymm c) va vb
    (by rw [names_length c ha, names_length c hb, hlen])]
  unfold MoreSpecific
  rw [Bool.and_eq_true]
  have h1 := all₂_names c (fun x y => !(derG c.g y x && y != x))
    (fun dp ep => ¬ ProperDerives c.proj c.reg (c.proj ep) (c.proj dp)) (by
      intro x y tx ty hx hy
      unfold ProperDerives
      rw [← derG_iff c y x _ _ hy hx]
      have := ne_iff_key_ne c y x ty tx hy hx
      cases hd : derG c.g y x
      · simp
      · simp only [Bool.true_and, Bool.not_eq_true', bne_eq_false_iff_eq, true_and]
        constructor
        · intro e hne; exact (this.mpr hne) e
        · intro h
          cases Nat.decEq y x with
          | isTrue e => exact e
          | isFalse ne => exact absurd (this.mp ne) h) va da.vp vb db.vp ha hb
  have h2 := any₂_names c (fun x y => derG c.g x y && x != y)
    (fun dp ep => ProperDerives c.proj c.reg (c.proj dp) (c.proj ep)) (by
      intro x y tx ty hx hy
      unfold ProperDerives
      rw [← derG_iff c x y _ _ hx hy, Bool.and_eq_true]
      have := ne_iff_key_ne c x y tx ty hx hy
      simp only [bne_iff_ne, ne_eq]
      exact and_congr Iff.rfl this) va da.vp vb db.vp ha hb
  rw [h1, h2]

/-! ## a table cell encodes the specification's outcome -/

/-- a compiled method and the registered method it was made from -/
structure MethodMatches (c : Ctx) (m : MethodC) (mr : MethodRec) : Prop where
  vp : Names c m.vp mr.vp
  specs : Forall₂ (fun (sp : Nat × List Nat) (df : DefRec) => sp.1 = df.id ∧ Names c sp.2 df.vp) m.specs mr.defs
  arity : ∀ df ∈ mr.defs, df.vp.length = mr.vp.length

def outcomeOf (defs : List DefRec) : Cell → Outcome
  | .defn i => match defs[i]? with
    | some df => .ran df.id
    | none => .ambiguous
  | .amb => .ambiguous
  | .ni => .notImplemented

theorem spec_get (c : Ctx) (m : MethodC) (mr : MethodRec) (hm : MethodMatches c m mr) (i : Nat) :
    (∀ sp, m.specs[i]? = some sp → ∃ df, mr.defs[i]? = some df ∧ sp.1 = df.id ∧ Names c sp.2 df.vp) ∧
    (∀ df, mr.defs[i]? = some df → ∃ sp, m.specs[i]? = some sp ∧ sp.1 = df.id ∧ Names c sp.2 df.vp) := by
  have hlen := forall₂_length hm.specs
  constructor
  · intro sp hsp
    have hlt : i < mr.defs.length := hlen ▸ (List.getElem?_eq_some_iff.mp hsp).1
    have hdf : mr.defs[i]? = some mr.defs[i] := List.getElem?_eq_getElem hlt
    exact ⟨_, hdf, forall₂_get hm.specs i sp _ hsp hdf⟩
  · intro df hdf
    have hlt : i < m.specs.length := hlen.symm ▸ (List.getElem?_eq_some_iff.mp hdf).1
    have hsp : m.specs[i]? = some m.specs[i] := List.getElem?_eq_getElem hlt
    exact ⟨_, hsp, forall₂_get hm.specs i _ df hsp hdf⟩

theorem applicableTo_iff (c : Ctx) (m : MethodC) (mr : MethodRec) (hm : MethodMatches c m mr)
    (cs ks : List Nat) (hk : Forall₂ (fun i k => c.key i = some k) cs ks) (i : Nat) :
    applicableTo c.g m cs i = true ↔ ∃ df, mr.defs[i]? = some df ∧ Applicable c.proj c.reg df ks := by
  unfold applicableTo
  cases hsp : m.specs[i]? with
  | none =>
    simp only [Bool.false_eq_true, false_iff]
    rintro ⟨df, hdf, _⟩
    obtain ⟨sp, hsp', _⟩ := (spec_get c m mr hm i).2 df hdf
    rw [hsp] at hsp'; cases hsp'
  | some sp =>
    obtain ⟨df, hdf, _, hn⟩ := (spec_get c m mr hm i).1 sp hsp
    simp only
    rw [all₂_derG_iff c cs ks sp.2 df.vp hk hn]
    constructor
    · intro h; exact ⟨df, hdf, h⟩
    · rintro ⟨df', hdf', h⟩
      rw [hdf] at hdf'; cases hdf'; exact h

theorem msOf_iff (c : Ctx) (m : MethodC) (mr : MethodRec) (hm : MethodMatches c m mr) (a b : Nat) (da db : DefRec)
    (ha : mr.defs[a]? = some da) (hb : mr.defs[b]? = some db) :
    msOf c.g m a b = true ↔ MoreSpecific c.proj c.reg da db := by
  obtain ⟨spa, hspa, _, hna⟩ := (spec_get c m mr hm a).2 da ha
  obtain ⟨spb, hspb, _, hnb⟩ := (spec_get c m mr hm b).2 db hb
  unfold msOf
  simp only [hspa, hspb, Option.map_some, Option.getD_some]
  exact moreSpecific_iff c spa.2 spb.2 da db hna hnb
    (by rw [hm.arity da (List.mem_of_getElem? ha), hm.arity db (List.mem_of_getElem? hb)])

theorem msOf_asymm (c : Ctx) (m : MethodC) (mr : MethodRec) (hm : MethodMatches c m mr) (a b : Nat)
    (h : msOf c.g m a b = true) : msOf c.g m b a = false := by
  cases hda : mr.defs[a]? with
  | none =>
    -- no such definition: the parameter list is empty and nothing is more specific
    have : m.specs[a]? = none := by
      cases hs : m.specs[a]? with
      | none => rfl
      | some sp => obtain ⟨df, hdf, _⟩ := (spec_get c m mr hm a).1 sp hs; rw [hda] at hdf; cases hdf
    unfold msOf at h
    simp [this, isMoreSpecific, isMoreSpecificGo] at h
  | some da =>
    cases hdb : mr.defs[b]? with
    | none =>
      have : m.specs[b]? = none := by
        cases hs : m.specs[b]? with
        | none => rfl
        | some sp => obtain ⟨df, hdf, _⟩ := (spec_get c m mr hm b).1 sp hs; rw [hdb] at hdf; cases hdf
      unfold msOf
      simp [this, isMoreSpecific, isMoreSpecificGo]
    | some db =>
      have h1 := (msOf_iff c m mr hm a b da db hda hdb).mp h
      cases hba : msOf c.g m b a with
      | false => rfl
      | true => exact absurd ((msOf_iff c m mr hm b a db da hdb hda).mp hba) (moreSpecific_asymm h1)

/-- **a cell computed from the definitions applicable to a class tuple is the outcome the
    specification prescribes for that tuple** -/
theorem cellFor_selects (c : Ctx) (m : MethodC) (mr : MethodRec) (hm : MethodMatches c m mr)
    (cs ks : List Nat) (hk : Forall₂ (fun i k => c.key i = some k) cs ks)
    (cands : List Nat) (hc : ∀ i, i ∈ cands ↔ applicableTo c.g m cs i = true) (cell : Cell)
    (hcell : CellFor (msOf c.g m) cands cell) :
    Selects c.proj c.reg mr.defs ks (outcomeOf mr.defs cell) := by
  have happ := fun i => (hc i).trans (applicableTo_iff c m mr hm cs ks hk i)
  rcases hcell with ⟨rfl, hnil⟩ | ⟨d, rfl, hd, hdom⟩ | ⟨rfl, hne, hnodom⟩
  · -- not implemented
    intro e he hap
    obtain ⟨j, hj⟩ := List.getElem?_of_mem he
    have : j ∈ cands := (happ j).mpr ⟨e, hj, hap⟩
    rw [hnil] at this; cases this
  · -- a definition
    obtain ⟨df, hdf, hap⟩ := (happ d).mp hd
    simp only [outcomeOf, hdf]
    refine ⟨d, df, hdf, rfl, hap, ?_⟩
    intro j e hj hne hape
    have hjm : j ∈ cands := (happ j).mpr ⟨e, hj, hape⟩
    exact (msOf_iff c m mr hm d j df e hdf hj).mp (hdom j hjm hne)
  · -- ambiguous
    simp only [outcomeOf]
    constructor
    · cases cands with
      | nil => exact absurd rfl hne
      | cons i rest =>
        obtain ⟨df, hdf, hap⟩ := (happ i).mp (by simp)
        exact ⟨df, List.mem_of_getElem? hdf, hap⟩
    · intro i df hi hap
      have him : i ∈ cands := (happ i).mpr ⟨df, hi, hap⟩
      -- `i` does not dominate: some other candidate is not beaten
      have : ¬ ∀ e ∈ cands, e ≠ i → msOf c.g m i e = true := fun hall => hnodom ⟨i, him, hall⟩
      obtain ⟨j, hj⟩ := Classical.not_forall.mp this
      obtain ⟨hjm, hj2⟩ := Classical.not_imp.mp hj
      obtain ⟨hji, hms⟩ := Classical.not_imp.mp hj2
      obtain ⟨e, he, hape⟩ := (happ j).mp hjm
      refine ⟨j, e, he, hji, hape, ?_⟩
      intro hspec
      exact hms ((msOf_iff c m mr hm i j df e hi he).mpr hspec)

/-- **`is_base` decides "strictly more general"** -/
theorem moreGeneral_iff (c : Ctx) (va vb : List Nat) (da db : DefRec) (ha : Names c va da.vp) (hb : Names c vb db.vp)
    (hlen : da.vp.length = db.vp.length) :
    isBase (fun x y => (c.g.cov.get y).contains x) va vb = true ↔ MoreGeneral c.proj c.reg da db := by
  have hder : (fun x y => (c.g.cov.get y).contains x) = derG c.g := rfl
  rw [hder, Specificity.isBase_eq (derG c.g) va vb (by rw [names_length c ha, names_length c hb, hlen])]
  unfold MoreGeneral
  rw [Bool.and_eq_true]
  -- first conjunct: everywhere `b`'s class derives from `a`'s (or is equal)
  have h1 : all₂ (fun x y => x == y || derG c.g y x) va vb = true ↔
      Forall₂ (fun dp ep => Derives c.proj c.reg (c.proj dp) (c.proj ep)) db.vp da.vp := by
    -- swap the two lists
    have swap : ∀ (l₁ l₂ : List Nat), all₂ (fun x y => x == y || derG c.g y x) l₁ l₂ =
        all₂ (fun y x => x == y || derG c.g y x) l₂ l₁ := by
      intro l₁
      induction l₁ with
      | nil => intro l₂; cases l₂ <;> simp [all₂]
      | cons a as ih => intro l₂; cases l₂ with
        | nil => simp [all₂]
        | cons b bs => simp [all₂, ih bs]
    rw [swap]
    exact all₂_names c (fun y x => x == y || derG c.g y x)
      (fun dp ep => Derives c.proj c.reg (c.proj dp) (c.proj ep)) (by
        intro y x ty tx hy hx
        rw [← derG_iff c y x _ _ hy hx]
        by_cases hxy : x = y
        · subst hxy
          simp only [beq_self_eq_true, Bool.true_or, true_iff]
          rw [derG_iff c x x _ _ hy hy]
          exact Derives.refl _
        · simp [hxy]) vb db.vp va da.vp hb ha
  -- second conjunct: the parameter lists differ somewhere
  have h2 : any₂ (fun x y => x != y) va vb = true ↔ da.vp.map c.proj ≠ db.vp.map c.proj := by
    rw [any₂_names c (fun x y => x != y) (fun dp ep => c.proj dp ≠ c.proj ep) (by
      intro x y tx ty hx hy
      simp only [bne_iff_ne, ne_eq]
      exact ne_iff_key_ne c x y tx ty hx hy) va da.vp vb db.vp ha hb]
    constructor
    · rintro ⟨i, dp, ep, h1, h2, hne⟩ heq
      have e1 : (da.vp.map c.proj)[i]? = some (c.proj dp) := by simp [h1]
      have e2 : (db.vp.map c.proj)[i]? = some (c.proj ep) := by simp [h2]
      rw [heq, e2] at e1
      exact hne (Option.some.inj e1).symm
    · intro hne
      -- two lists of the same length that differ, differ at some position
      have : ∀ (l₁ l₂ : List Nat), l₁.length = l₂.length → l₁.map c.proj ≠ l₂.map c.proj →
          ∃ (i : Nat) (dp ep : Nat), l₁[i]? = some dp ∧ l₂[i]? = some ep ∧ c.proj dp ≠ c.proj ep := by
        intro l₁
        induction l₁ with
        | nil => intro l₂ hl hn; cases l₂ with
          | nil => exact absurd rfl hn
          | cons _ _ => simp at hl
        | cons a as ih =>
          intro l₂ hl hn
          cases l₂ with
          | nil => simp at hl
          | cons b bs =>
            by_cases hab : c.proj a = c.proj b
            · have : as.map c.proj ≠ bs.map c.proj := by
                intro e; apply hn; simp [hab, e]
              obtain ⟨i, dp, ep, h1, h2, h3⟩ := ih bs (by simpa using hl) this
              exact ⟨i + 1, dp, ep, by simpa using h1, by simpa using h2, h3⟩
            · exact ⟨0, a, b, by simp, by simp, hab⟩
      exact this da.vp db.vp hlen hne
  rw [h1, h2]

theorem specs_arity (c : Ctx) (m : MethodC) (mr : MethodRec) (hm : MethodMatches c m mr) :
    ∀ s ∈ m.specs, s.2.length = m.vp.length := by
  intro s hs
  obtain ⟨i, hi⟩ := List.getElem?_of_mem hs
  obtain ⟨df, hdf, _, hn⟩ := (spec_get c m mr hm i).1 s hi
  rw [names_length c hn, hm.arity df (List.mem_of_getElem? hdf), ← names_length c hm.vp]

/-- a definition cell names an existing, applicable definition -/
theorem cellFor_defn_exists (c : Ctx) (m : MethodC) (mr : MethodRec) (hm : MethodMatches c m mr)
    (cs ks : List Nat) (hk : Forall₂ (fun i k => c.key i = some k) cs ks)
    (cands : List Nat) (hc : ∀ i, i ∈ cands ↔ applicableTo c.g m cs i = true) (i : Nat)
    (hcell : CellFor (msOf c.g m) cands (.defn i)) : ∃ df, mr.defs[i]? = some df := by
  rcases hcell with ⟨h, _⟩ | ⟨d, h, hd, _⟩ | ⟨h, _⟩
  · cases h
  · cases h
    obtain ⟨df, hdf, _⟩ := ((hc i).trans (applicableTo_iff c m mr hm cs ks hk i)).mp hd
    exact ⟨df, hdf⟩
  · cases h

/-- **the dispatch table `update` builds for a method holds, for every tuple of acceptable classes,
    at the mixed-radix offset of the tuple's group indices, the outcome the specification prescribes** -/
theorem dispatch_table_correct (c : Ctx) (m : MethodC) (mr : MethodRec) (hm : MethodMatches c m mr)
    (cs ks gis : List Nat) (hk : Forall₂ (fun i k => c.key i = some k) cs ks)
    (hloc : LocatedAll c.g m 0 m.vp cs gis) :
    ∃ cell conc,
      (dispatchMethod c.g m).table[TableProofs.offset (dispatchMethod c.g m).groups.reverse gis.reverse]? = some (cell, conc) ∧
      Selects c.proj c.reg mr.defs ks (outcomeOf mr.defs cell) ∧
      (∀ i, cell = .defn i → ∃ df, mr.defs[i]? = some df) := by
  obtain ⟨mask, conc, hcell, hmem⟩ := cell_content c.g m (specs_arity c m mr hm) cs gis hloc
  have hcf := cellOfBest_spec (msOf c.g m) (msOf_asymm c m mr hm) (applicableOf mask)
  refine ⟨_, conc, hcell, cellFor_selects c m mr hm cs ks hk (applicableOf mask) hmem _ hcf, ?_⟩
  intro i hi
  rw [hi] at hcf
  exact cellFor_defn_exists c m mr hm cs ks hk (applicableOf mask) hmem i hcf

/-! ## `next` -/

theorem nexts_eq (g : Graph) (m : MethodC) (i : Nat) (hi : i < m.specs.length) :
    (dispatchMethod g m).nexts[i]? = some (cellOfBest (best (msOf g m)
      ((List.range m.specs.length).filter (fun o =>
        isBase (fun x y => (g.cov.get y).contains x) ((m.specs[o]?.map (·.2)).getD []) ((m.specs[i]?.map (·.2)).getD []))))) := by
  simp only [dispatchMethod, List.getElem?_map, List.getElem?_range hi, Option.map_some]
  rfl

/-- **C03 on the model**: the `next` cell of definition `i` is computed from exactly the definitions
    strictly more general than it: the not-implemented handler when there is none, the one more
    specific than all the others when it exists, the ambiguity handler otherwise -/
theorem next_correct (c : Ctx) (m : MethodC) (mr : MethodRec) (hm : MethodMatches c m mr) (i : Nat) (d : DefRec)
    (hd : mr.defs[i]? = some d) :
    ∃ cell cands, (dispatchMethod c.g m).nexts[i]? = some cell ∧
      (∀ o, o ∈ cands ↔ ∃ e, mr.defs[o]? = some e ∧ MoreGeneral c.proj c.reg e d) ∧
      CellFor (msOf c.g m) cands cell := by
  have hlen := forall₂_length hm.specs
  have hi : i < m.specs.length := hlen.symm ▸ (List.getElem?_eq_some_iff.mp hd).1
  refine ⟨_, _, nexts_eq c.g m i hi, ?_, cellOfBest_spec (msOf c.g m) (msOf_asymm c m mr hm) _⟩
  intro o
  simp only [List.mem_filter, List.mem_range]
  obtain ⟨spi, hspi, _, hni⟩ := (spec_get c m mr hm i).2 d hd
  constructor
  · rintro ⟨holt, hb⟩
    have hoe : mr.defs[o]? = some mr.defs[o] := List.getElem?_eq_getElem (hlen ▸ holt)
    obtain ⟨spo, hspo, _, hno⟩ := (spec_get c m mr hm o).2 _ hoe
    simp only [hspo, hspi, Option.map_some, Option.getD_some] at hb
    refine ⟨_, hoe, ?_⟩
    exact (moreGeneral_iff c spo.2 spi.2 _ d hno hni
      (by rw [hm.arity _ (List.mem_of_getElem? hoe), hm.arity d (List.mem_of_getElem? hd)])).mp hb
  · rintro ⟨e, he, hmg⟩
    have holt : o < m.specs.length := hlen.symm ▸ (List.getElem?_eq_some_iff.mp he).1
    obtain ⟨spo, hspo, _, hno⟩ := (spec_get c m mr hm o).2 e he
    refine ⟨holt, ?_⟩
    simp only [hspo, hspi, Option.map_some, Option.getD_some]
    exact (moreGeneral_iff c spo.2 spi.2 e d hno hni
      (by rw [hm.arity e (List.mem_of_getElem? he), hm.arity d (List.mem_of_getElem? hd)])).mpr hmg

end Yomm2.Bridge
