import Yomm2.Model.Runtime
/-!
# Layout of `dispatch_data` after `install_gv`
-/
namespace Yomm2.Layout
open Yomm2

/-- index into a flattened list of blocks -/
theorem getElem?_flatten {α} : ∀ (ls : List (List α)) (i k : Nat) (l : List α), ls[i]? = some l → k < l.length →
    ls.flatten[((ls.take i).map List.length).sum + k]? = l[k]?
  | [], i, k, l, h, _ => by simp at h
  | x :: xs, 0, k, l, h, hk => by
    simp at h; subst h
    simp only [List.take_zero, List.map_nil, List.sum_nil, Nat.zero_add, List.flatten_cons]
    rw [List.getElem?_append_left hk]
  | x :: xs, i + 1, k, l, h, hk => by
    simp only [List.getElem?_cons_succ] at h
    simp only [List.take_succ_cons, List.map_cons, List.sum_cons, List.flatten_cons]
    rw [List.getElem?_append_right (by omega)]
    have : x.length + ((xs.take i).map List.length).sum + k - x.length = ((xs.take i).map List.length).sum + k := by omega
    rw [this]
    exact getElem?_flatten xs i k l h hk

theorem length_flatten {α} (ls : List (List α)) : ls.flatten.length = (ls.map List.length).sum := by
  induction ls with
  | nil => rfl
  | cons x xs ih => simp [ih]

theorem prefixSums_get : ∀ (xs : List Nat) (acc i : Nat), i < xs.length →
    (prefixSums xs acc)[i]? = some (acc + (xs.take i).sum)
  | [], _, _, h => by simp at h
  | x :: xs, acc, 0, _ => by simp [prefixSums]
  | x :: xs, acc, i + 1, h => by
    simp only [prefixSums, List.getElem?_cons_succ]
    rw [prefixSums_get xs (acc + x) i (by simpa using h)]
    simp [List.take_succ_cons, List.sum_cons, Nat.add_assoc]

theorem mapM_except_get {α β ε} (f : α → Except ε β) : ∀ (l : List α) (r : List β), l.mapM f = .ok r →
    r.length = l.length ∧ ∀ (i : Nat) (a : α), l[i]? = some a → ∃ b, r[i]? = some b ∧ f a = .ok b
  | [], r, h => by simp [List.mapM_nil, pure, Except.pure] at h; subst h; simp
  | a :: as, r, h => by
    rw [List.mapM_cons] at h
    cases hfa : f a with
    | error e => simp [hfa, bind, Except.bind] at h
    | ok b =>
      cases hrest : as.mapM f with
      | error e => simp [hfa, hrest, bind, Except.bind] at h
      | ok bs =>
        simp only [hfa, hrest, bind, Except.bind, pure, Except.pure] at h
        cases h
        obtain ⟨hl, hg⟩ := mapM_except_get f as bs hrest
        refine ⟨by simp [hl], ?_⟩
        intro i x hx
        cases i with
        | zero => simp at hx; subst hx; exact ⟨b, by simp, hfa⟩
        | succ i => simp at hx; obtain ⟨y, hy, hfy⟩ := hg i x hx; exact ⟨y, by simpa using hy, hfy⟩

/-- what `install` returns, field by field -/
structure Installs (c : Compiled) (inst : Installed) (rows : List (List Word)) : Prop where
  rows_ok : c.vtbl.mapM (fun row => row.mapM (entryWord c (prefixSums ((tableWordsOf c).map List.length) 0))) = .ok rows
  data : inst.data = ((tableWordsOf c).flatten ++ rows.flatten).toArray
  vptr : ∀ ci, ci < c.vtbl.length → inst.vptr.get ci =
    (((((tableWordsOf c).map List.length).sum + ((rows.take ci).map List.length).sum : Nat) : Int) - (c.slots.first.get ci : Int))
  ss : inst.ss = (List.zipIdx (c.methods.zip c.outs)).map (fun (mo, mi) =>
    if mo.1.vp.length == 1 then [c.slots.slots (mi, 0)] else slotsOf c.slots mi mo.1.vp.length ++ mo.2.strides)

theorem install_spec (c : Compiled) (inst : Installed) (h : install c = .ok inst) : ∃ rows, Installs c inst rows := by
  unfold install at h
  cases hr : c.vtbl.mapM (fun row => row.mapM (entryWord c (prefixSums ((tableWordsOf c).map List.length) 0))) with
  | error e => simp [hr, bind, Except.bind] at h
  | ok rows =>
    simp only [hr, bind, Except.bind] at h
    cases h
    refine ⟨rows, hr, rfl, ?_, rfl⟩
    intro ci hci
    simp only [Tab.get]
    rw [List.getElem?_toArray, List.getElem?_map, List.getElem?_range hci]
    rfl

/-- **reading a v-table cell**: the word at `vptr(class) + slot` is the word `install_gv` wrote for the
    entry at `slot - first_slot` of that class's v-table -/
theorem read_vtbl (c : Compiled) (inst : Installed) (rows : List (List Word)) (hi : Installs c inst rows)
    (ci k : Nat) (row : List Entry) (e : Entry) (hrow : c.vtbl[ci]? = some row) (he : row[k]? = some e) :
    ∃ w, entryWord c (prefixSums ((tableWordsOf c).map List.length) 0) e = .ok w ∧
      readWord inst (inst.vptr.get ci + ((c.slots.first.get ci + k : Nat) : Int)) = .ok w := by
  have hci : ci < c.vtbl.length := (List.getElem?_eq_some_iff.mp hrow).1
  obtain ⟨hlen, hget⟩ := mapM_except_get _ _ _ hi.rows_ok
  obtain ⟨wrow, hwrow, hwok⟩ := hget ci row hrow
  obtain ⟨hlen2, hget2⟩ := mapM_except_get _ _ _ hwok
  obtain ⟨w, hw, hew⟩ := hget2 k e he
  refine ⟨w, hew, ?_⟩
  rw [hi.vptr ci hci]
  have hk : k < wrow.length := (List.getElem?_eq_some_iff.mp hw).1
  -- the index is tlen + prefix + k
  have hidx : ((((tableWordsOf c).map List.length).sum + ((rows.take ci).map List.length).sum : Nat) : Int) -
      (c.slots.first.get ci : Int) + ((c.slots.first.get ci + k : Nat) : Int) =
      (((((tableWordsOf c).map List.length).sum + ((rows.take ci).map List.length).sum + k : Nat)) : Int) := by
    push_cast; omega
  rw [hidx]
  unfold readWord
  have hnn : ¬ (((((tableWordsOf c).map List.length).sum + ((rows.take ci).map List.length).sum + k : Nat)) : Int) < 0 := by omega
  simp only [hnn, if_false, Int.toNat_natCast]
  rw [hi.data, List.getElem?_toArray, List.getElem?_append_right (by rw [length_flatten]; omega)]
  have : ((tableWordsOf c).map List.length).sum + ((rows.take ci).map List.length).sum + k - (tableWordsOf c).flatten.length =
      ((rows.take ci).map List.length).sum + k := by rw [length_flatten]; omega
  rw [this, getElem?_flatten rows ci k wrow hwrow hk, hw]

/-- **reading a dispatch-table cell** of a multi-method -/
theorem read_table (c : Compiled) (inst : Installed) (rows : List (List Word)) (hi : Installs c inst rows)
    (mi : Nat) (m : MethodC) (o : MethodOut) (hm : c.methods[mi]? = some m) (ho : c.outs[mi]? = some o)
    (hmulti : (m.vp.length == 1) = false) (j : Nat) (cell : Cell × Bool) (hj : o.table[j]? = some cell) :
    ∃ b, (prefixSums ((tableWordsOf c).map List.length) 0)[mi]? = some b ∧
      readWord inst ((b + j : Nat) : Int) = .ok (Word.fn mi cell.1) := by
  have hzip : (c.methods.zip c.outs)[mi]? = some (m, o) := by
    rw [List.getElem?_zip_eq_some]; exact ⟨hm, ho⟩
  have htw : (tableWordsOf c)[mi]? = some (o.table.map (fun cell => Word.fn mi cell.1)) := by
    unfold tableWordsOf
    rw [List.getElem?_map, List.getElem?_zipIdx, hzip]
    simp only [Option.map_some, Nat.zero_add, hmulti, Bool.false_eq_true, if_false]
  have hmi : mi < ((tableWordsOf c).map List.length).length := by
    simp only [List.length_map]; exact (List.getElem?_eq_some_iff.mp htw).1
  refine ⟨_, prefixSums_get _ 0 mi hmi, ?_⟩
  simp only [Nat.zero_add]
  unfold readWord
  have hnn : ¬ (((((tableWordsOf c).map List.length).take mi).sum + j : Nat) : Int) < 0 := by omega
  simp only [hnn, if_false, Int.toNat_natCast]
  have hjl : j < (o.table.map (fun cell => Word.fn mi cell.1)).length := by
    simp only [List.length_map]; exact (List.getElem?_eq_some_iff.mp hj).1
  have hpre : (((tableWordsOf c).map List.length).take mi).sum = (((tableWordsOf c).take mi).map List.length).sum := by
    rw [List.map_take]
  rw [hi.data, List.getElem?_toArray, hpre]
  have hlt : (((tableWordsOf c).take mi).map List.length).sum + j < (tableWordsOf c).flatten.length := by
    have := getElem?_flatten (tableWordsOf c) mi j _ htw hjl
    by_cases h : (((tableWordsOf c).take mi).map List.length).sum + j < (tableWordsOf c).flatten.length
    · exact h
    · rw [List.getElem?_eq_none (Nat.le_of_not_lt h)] at this
      rw [List.getElem?_eq_getElem hjl] at this
      cases this
  rw [List.getElem?_append_left hlt, getElem?_flatten (tableWordsOf c) mi j _ htw hjl, List.getElem?_map, hj]
  rfl

end Yomm2.Layout
