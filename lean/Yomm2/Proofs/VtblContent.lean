import Yomm2.Proofs.Entries
import Yomm2.Proofs.Cells
/-!
# The v-tables `compile` produces

For every method, virtual parameter `p`, class `ci` acceptable there and in group `gi`: the v-table of
`ci` holds, at the method's slot for `p` (relative to the class's first slot), the entry
`(method, p, gi)` — provided slots are *exclusive*: two different (method, parameter) pairs whose
parameter classes both cover `ci` never share a slot. Exclusivity is what slot allocation establishes.
-/
namespace Yomm2.VtblContent
open Yomm2 Yomm2.Entries Yomm2.Cells Yomm2.TableProofs

/-- every write of `build_dispatch_tables`, in order -/
def allWrites (st : SlotSt) (outs : List MethodOut) : List (Nat × Nat × Entry) :=
  (List.zipIdx outs).flatMap (fun om => writesOf st om.2 om.1.groups)

def vt0 (g : Graph) (st : SlotSt) : List (List Entry) :=
  (List.range g.n).map (fun c => List.replicate (st.vsize.get c) { method := 0, vp := 0, group := 0 })

theorem compile_fields (proj : Nat → Nat) (reg : Registry) (c : Compiled) (h : compile proj reg = .ok c) :
    buildGraph proj reg.classes = .ok c.graph ∧
    resolveMethods proj c.graph.heads reg.methods = .ok c.methods ∧
    c.slots = assignSlots c.graph c.methods ∧
    c.outs = c.methods.map (dispatchMethod c.graph) ∧
    (allWrites c.slots c.outs).foldlM (stepWrite c.slots) (vt0 c.graph c.slots) = .ok c.vtbl := by
  unfold compile at h
  cases hg : buildGraph proj reg.classes with
  | error e => simp [hg, bind, Except.bind] at h
  | ok g =>
    simp only [hg, bind, Except.bind] at h
    cases hms : resolveMethods proj g.heads reg.methods with
    | error e => simp [hms] at h
    | ok ms =>
      simp only [hms] at h
      split at h
      · cases h
      · rename_i vt hvt
        cases h
        refine ⟨rfl, hms, rfl, rfl, ?_⟩
        simp only
        unfold allWrites
        rw [foldlM_flatMap]
        exact hvt

theorem mem_allWrites (st : SlotSt) (outs : List MethodOut) (w : Nat × Nat × Entry) :
    w ∈ allWrites st outs ↔ ∃ mi o dim gs gi gr, outs[mi]? = some o ∧ o.groups[dim]? = some gs ∧
      gs[gi]? = some gr ∧ w.1 ∈ gr.classes ∧ w.2.1 = st.slots (mi, dim) ∧ w.2.2 = ⟨mi, dim, gi⟩ := by
  unfold allWrites writesOf
  simp only [List.mem_flatMap, List.mem_map]
  constructor
  · rintro ⟨⟨o, mi⟩, hom, ⟨gs, dim⟩, hgs, ⟨gr, gi⟩, hgr, ci, hci, rfl⟩
    have h1 := List.mem_zipIdx_iff_getElem?.mp hom
    have h2 := List.mem_zipIdx_iff_getElem?.mp hgs
    have h3 := List.mem_zipIdx_iff_getElem?.mp hgr
    simp only at h1 h2 h3
    exact ⟨mi, o, dim, gs, gi, gr, h1, h2, h3, hci, rfl, rfl⟩
  · rintro ⟨mi, o, dim, gs, gi, gr, ho, hgs, hgr, hci, hslot, hent⟩
    obtain ⟨wc, wslot, we⟩ := w
    simp only at hci hslot hent
    subst hslot hent
    refine ⟨(o, mi), ?_, (gs, dim), ?_, (gr, gi), ?_, wc, hci, rfl⟩
    · exact List.mem_zipIdx_iff_getElem?.mpr (by simpa using ho)
    · exact List.mem_zipIdx_iff_getElem?.mpr (by simpa using hgs)
    · exact List.mem_zipIdx_iff_getElem?.mpr (by simpa using hgr)

/-- two different (method, virtual parameter) pairs that both accept class `ci` never share a slot -/
def SlotsExclusive (c : Compiled) : Prop :=
  ∀ mi mi' p p' m m' v v' ci, c.methods[mi]? = some m → c.methods[mi']? = some m' →
    m.vp[p]? = some v → m'.vp[p']? = some v' → ci ∈ c.graph.cov.get v → ci ∈ c.graph.cov.get v' →
    c.slots.slots (mi, p) = c.slots.slots (mi', p') → mi = mi' ∧ p = p'

/-- the groups of dimension `p` of method `m` -/
theorem groups_get (g : Graph) (m : MethodC) (p : Nat) (gs : List Group)
    (h : (dispatchMethod g m).groups[p]? = some gs) :
    ∃ v, m.vp[p]? = some v ∧ gs = groupsOf (g.cov.get v) (maskOfClass g m p) g.abstract := by
  rw [groups_eq, List.getElem?_map, List.getElem?_zipIdx] at h
  cases hv : m.vp[p]? with
  | none => simp [hv] at h
  | some v =>
    simp [hv] at h
    exact ⟨v, rfl, h.symm⟩

/-- **content of the v-tables**: after `compile`, the v-table of every class acceptable for a virtual
    parameter holds the class's group index at the method's slot -/
theorem vtbl_entry (proj : Nat → Nat) (reg : Registry) (c : Compiled) (hc : compile proj reg = .ok c)
    (hex : SlotsExclusive c) (mi : Nat) (m : MethodC) (hm : c.methods[mi]? = some m)
    (p v ci gi : Nat) (hv : m.vp[p]? = some v) (hloc : Located c.graph m p v ci gi) :
    ∃ row, c.vtbl[ci]? = some row ∧ c.slots.first.get ci ≤ c.slots.slots (mi, p) ∧
      row[c.slots.slots (mi, p) - c.slots.first.get ci]? = some ⟨mi, p, gi⟩ := by
  obtain ⟨_, _, _, houts, hfold⟩ := compile_fields proj reg c hc
  obtain ⟨gr, hgr, hmask, hci⟩ := hloc.get
  have ho : c.outs[mi]? = some (dispatchMethod c.graph m) := by rw [houts, List.getElem?_map, hm]; rfl
  have hgs : (dispatchMethod c.graph m).groups[p]? =
      some (groupsOf (c.graph.cov.get v) (maskOfClass c.graph m p) c.graph.abstract) := by
    rw [groups_eq, List.getElem?_map, List.getElem?_zipIdx, hv]; simp
  -- the write that puts the entry there
  have hw : (ci, c.slots.slots (mi, p), (⟨mi, p, gi⟩ : Entry)) ∈ allWrites c.slots c.outs :=
    (mem_allWrites _ _ _).mpr ⟨mi, _, p, _, gi, gr, ho, hgs, hgr, hci, rfl, rfl⟩
  obtain ⟨row0, hrow0, hle, hlt⟩ := foldlM_writes_in_range c.slots _ _ _ hfold _ hw
  simp only at hrow0 hle hlt
  have hcell := foldlM_writes_cell c.slots _ _ _ hfold ci (c.slots.slots (mi, p) - c.slots.first.get ci) ⟨mi, p, gi⟩
    (by
      -- every write to this cell carries this entry
      intro w' hw' htgt
      obtain ⟨mi', o', p', gs', gi', gr', ho', hgs', hgr', hci', hslot', hent'⟩ := (mem_allWrites _ _ _).mp hw'
      obtain ⟨_, _, hle', _⟩ := foldlM_writes_in_range c.slots _ _ _ hfold _ hw'
      unfold target at htgt
      have hc1 : w'.1 = ci := by injection htgt
      have hs1 : w'.2.1 - c.slots.first.get w'.1 = c.slots.slots (mi, p) - c.slots.first.get ci := by
        injection htgt
      rw [hc1] at hs1 hle' hci'
      have hseq : c.slots.slots (mi', p') = c.slots.slots (mi, p) := by omega
      -- the other method
      rw [houts, List.getElem?_map] at ho'
      cases hm' : c.methods[mi']? with
      | none => simp [hm'] at ho'
      | some m' =>
        simp [hm'] at ho'
        subst ho'
        obtain ⟨v', hv', hgseq⟩ := groups_get c.graph m' p' gs' hgs'
        subst hgseq
        have hmem' := (group_classes _ _ _ gr' (List.mem_of_getElem? hgr') ci).mp hci'
        have hmem := (group_classes _ _ _ gr (List.mem_of_getElem? hgr) ci).mp hci
        obtain ⟨e1, e2⟩ := hex mi' mi p' p m' m v' v ci hm' hm hv' hv hmem'.1 hmem.1 hseq
        subst e1 e2
        rw [hm] at hm'; cases hm'
        rw [hv] at hv'; cases hv'
        have : gi' = gi := group_index_unique _ _ _ gi' gi gr' gr hgr' hgr (by rw [← hmem'.2, ← hmem.2])
        rw [hent', this])
    (Or.inl ⟨_, hw, rfl⟩)
  cases hrow : c.vtbl[ci]? with
  | none => simp [hrow] at hcell
  | some row =>
    simp [hrow] at hcell
    exact ⟨row, rfl, hle, hcell⟩

end Yomm2.VtblContent
