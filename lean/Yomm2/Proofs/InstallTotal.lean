import Yomm2.Proofs.CompileTotal
import Yomm2.Proofs.Layout
/-!
# `install_gv` never fails on what `compile` produced

Every cell of a v-table is either still the value-initialised entry or the entry some write put there.
A written entry names an existing method and, for a uni-method, a group inside its dispatch table; a
value-initialised cell exists only if there is a method at all (without methods every v-table is empty),
and then it reads as group 0 of method 0, which exists. So `update` as a whole fails only for the
documented reasons.
-/
namespace Yomm2.InstallTotal
open Yomm2 Yomm2.Reach Yomm2.GraphFacts Yomm2.TreeFacts Yomm2.UsedBy Yomm2.SlotsInv Yomm2.SlotsExcl Yomm2.SlotsSizes
open Yomm2.Entries Yomm2.VtblContent Yomm2.GraphProofs Yomm2.Heads Yomm2.CompileTotal Yomm2.TableProofs Yomm2.Cells

/-! ## where the cells come from -/

theorem foldlM_cells (st : SlotSt) : ∀ (ws : List (Nat × Nat × Entry)) (vt vt' : List (List Entry)),
    ws.foldlM (stepWrite st) vt = .ok vt' → ∀ (c i : Nat) (e : Entry), (vt'[c]?.bind (·[i]?)) = some e →
    (vt[c]?.bind (·[i]?)) = some e ∨ ∃ w ∈ ws, w.2.2 = e
  | [], vt, vt', h, c, i, e, he => by
    simp [List.foldlM_nil, pure, Except.pure] at h
    subst h
    exact Or.inl he
  | w :: ws, vt, vt', h, c, i, e, he => by
    rw [List.foldlM_cons] at h
    cases hs : stepWrite st vt w with
    | error err => simp [hs, bind, Except.bind] at h
    | ok vt1 =>
      simp only [hs, bind, Except.bind] at h
      rcases foldlM_cells st ws vt1 vt' h c i e he with h1 | ⟨w', hw', hw'e⟩
      · rw [stepWrite_cell st vt vt1 w hs c i] at h1
        split at h1
        · right; exact ⟨w, by simp, by simpa using h1⟩
        · exact Or.inl h1
      · exact Or.inr ⟨w', by simp [hw'], hw'e⟩

/-! ## without methods there are no cells -/

variable {g : Graph}

theorem baseOf_nil : ∀ (f v : Nat), baseOf g [] f v = 0
  | 0, _ => rfl
  | f + 1, v => by
    rw [baseOf]
    split
    · rw [baseOf_nil f]; rfl
    · rfl

theorem allocClass_nil (st : SlotSt) (v : Nat) : allocClass g [] st v = st := by
  simp [allocClass, usedBy]

theorem foldl_allocClass_nil : ∀ (vs : List Nat) (st : SlotSt), vs.foldl (allocClass g []) st = st
  | [], _ => rfl
  | v :: vs, st => by simp only [List.foldl_cons, allocClass_nil]; exact foldl_allocClass_nil vs st

structure ZInv (sv : SlotSt × List Nat) : Prop where
  vsize : ∀ x, sv.1.vsize.get x = 0
  used : ∀ x, sv.1.used.get x = []

theorem root_step_nil (hg : Good g) (sv : SlotSt × List Nat) (hinv : ZInv sv) (r : Nat) (hr : IsRoot g r) :
    ZInv (rootStep g [] sv r) := by
  obtain ⟨h, hh, hb⟩ := hg.ranked
  unfold rootStep
  by_cases ht : TreeRoot g r
  · rw [if_pos ((treeRoot_iff r hr).mpr ht)]
    have hrt : InTree g r := ⟨r, ht, Reach.refl _⟩
    have he := tree_effect [] hg h hh g.fuel r sv.1 (hb r) hrt
    rw [B_root [] r hr.2] at he
    refine ⟨?_, ?_⟩
    · intro x
      simp only
      by_cases hrx : Reach g.derived.get r x
      · rw [(he.inside x hrx).2]
        simp [B, baseOf_nil, usedBy]
      · rw [(he.outside x hrx).2]; exact hinv.vsize x
    · intro x; simp only; rw [he.used]; exact hinv.used x
  · have hcond : ((g.cov.get r).all (fun c => decide ((g.direct.get c).length ≤ 1))) = false := by
      cases hc : (g.cov.get r).all (fun c => decide ((g.direct.get c).length ≤ 1)) with
      | false => rfl
      | true => exact absurd ((treeRoot_iff r hr).mp hc) ht
    rw [hcond]
    simp only [Bool.false_eq_true, if_false, foldl_allocClass_nil]
    exact ⟨hinv.vsize, hinv.used⟩

theorem assignSlots_nil_vsize (hg : Good g) (x : Nat) : (assignSlots g []).vsize.get x = 0 := by
  have hroots : ∀ r ∈ rootsOf g, IsRoot g r := by
    intro r hr
    unfold rootsOf at hr
    rw [List.mem_filter, List.mem_range, List.isEmpty_iff] at hr
    exact ⟨hr.1, hr.2⟩
  have hfold : ∀ (rs : List Nat) (sv : SlotSt × List Nat), ZInv sv → (∀ r ∈ rs, IsRoot g r) →
      ZInv (rs.foldl (rootStep g []) sv) := by
    intro rs
    induction rs with
    | nil => intro sv h _; exact h
    | cons r rs ih =>
      intro sv h hrs
      simp only [List.foldl_cons]
      exact ih _ (root_step_nil hg sv h r (hrs r (by simp))) (fun r' hr' => hrs r' (by simp [hr']))
  have hA : ZInv (phaseA g []) := hfold (rootsOf g) _ ⟨fun x => by simp [SlotSt.init], fun x => by simp [SlotSt.init]⟩ hroots
  rw [assignSlots_eq]
  obtain ⟨_, _, hget⟩ := phaseB_fold (List.range g.n) (phaseA g []).1 List.nodup_range
  have := hget x
  rw [hA.used x] at this
  simp only [List.isEmpty_nil, Bool.true_eq_false, and_false, if_false, Prod.mk.injEq] at this
  rw [this.2]
  exact hA.vsize x

/-! ## every cell translates -/

theorem mapM_ok {α β ε} (f : α → Except ε β) : ∀ (l : List α), (∀ a ∈ l, ∃ b, f a = .ok b) → ∃ r, l.mapM f = .ok r
  | [], _ => ⟨[], by simp [List.mapM_nil, pure, Except.pure]⟩
  | a :: as, h => by
    obtain ⟨b, hb⟩ := h a (by simp)
    obtain ⟨bs, hbs⟩ := mapM_ok f as (fun a' ha' => h a' (by simp [ha']))
    exact ⟨b :: bs, by rw [List.mapM_cons]; simp [hb, hbs, bind, Except.bind, pure, Except.pure]⟩

/-- a method has at least one group in every dimension, hence at least one cell -/
theorem groups_nonempty (hg : Good g) (m : MethodC) (p v : Nat) (_hv : m.vp[p]? = some v) (hvn : v < g.n) :
    ∃ gr, (groupsOf (g.cov.get v) (maskOfClass g m p) g.abstract)[0]? = some gr := by
  have hvv : v ∈ g.cov.get v := cov_of_reach hg (Reach.refl v) hvn
  obtain ⟨gi, gr, hgi, _⟩ := group_of_class (g.cov.get v) (maskOfClass g m p) g.abstract v hvv
  have hlt := (List.getElem?_eq_some_iff.mp hgi).1
  exact ⟨_, List.getElem?_eq_getElem (by omega)⟩

theorem uni_table_length (m : MethodC) (h1 : m.vp.length = 1) :
    (dispatchMethod g m).table.length = ((dispatchMethod g m).groups[0]?.map List.length).getD 0 := by
  rw [table_eq, tableGo_length]
  have hgl : (dispatchMethod g m).groups.length = 1 := by simp [dispatchMethod, h1]
  match hgs : (dispatchMethod g m).groups, hgl with
  | [gs], _ => simp [size]

/-- **`install_gv` succeeds on the output of `compile`** -/
theorem install_total (proj : Nat → Nat) (reg : Registry) (hwf : WF proj reg.classes reg.methods)
    (c : Compiled) (hc : compile proj reg = .ok c) : ∃ inst, install c = .ok inst := by
  obtain ⟨hg, hms, hslots, houts, hfold⟩ := compile_fields proj reg c hc
  have hgood := good_of_buildGraph proj reg.classes reg.methods c.graph hg hwf
  obtain ⟨_, hn, hheads, _⟩ := buildGraph_fields proj reg.classes c.graph hg
  have hvplt : ∀ (m : MethodC), m ∈ c.methods → ∀ v ∈ m.vp, v < c.graph.n := by
    intro m hm v hv
    have := CompileSlots.resolveMethods_vp_lt proj c.graph.heads reg.methods c.methods hms m hm v hv
    rw [hn, ← hheads]; exact this
  -- a written entry translates
  have hwritten : ∀ w ∈ allWrites c.slots c.outs, ∀ bases, ∃ wd, entryWord c bases w.2.2 = .ok wd := by
    intro w hw bases
    obtain ⟨mi, o, dim, gs, gi, gr, ho, hgs, hgr, _, _, hent⟩ := (mem_allWrites _ _ _).mp hw
    rw [hent]
    have ho' := ho
    rw [houts, List.getElem?_map] at ho'
    cases hm : c.methods[mi]? with
    | none => simp [hm] at ho'
    | some m =>
      simp [hm] at ho'
      subst ho'
      unfold entryWord
      simp only [ho, hm]
      by_cases h1 : (m.vp.length == 1) = true
      · simp only [h1, if_true]
        have h1' : m.vp.length = 1 := by simpa using h1
        -- one dimension: the group index is an index of the table
        have hdim : dim = 0 := by
          have hgl : (dispatchMethod c.graph m).groups.length = 1 := by simp [dispatchMethod, h1']
          have := (List.getElem?_eq_some_iff.mp hgs).1
          omega
        subst hdim
        have hlen := uni_table_length (g := c.graph) m h1'
        rw [hgs] at hlen
        simp only [Option.map_some, Option.getD_some] at hlen
        have hgilt : gi < (dispatchMethod c.graph m).table.length := by
          rw [hlen]; exact (List.getElem?_eq_some_iff.mp hgr).1
        rw [List.getElem?_eq_getElem hgilt]
        exact ⟨_, rfl⟩
      · simp only [h1, Bool.false_eq_true, if_false]
        split <;> exact ⟨_, rfl⟩
  -- a value-initialised cell translates whenever there is a cell at all
  have hdefault : c.methods ≠ [] → ∀ bases, ∃ wd, entryWord c bases ⟨0, 0, 0⟩ = .ok wd := by
    intro hne bases
    cases hms0 : c.methods with
    | nil => exact absurd hms0 hne
    | cons m rest =>
      have hm : c.methods[0]? = some m := by rw [hms0]; rfl
      have ho : c.outs[0]? = some (dispatchMethod c.graph m) := by rw [houts, List.getElem?_map, hm]; rfl
      unfold entryWord
      simp only [ho, hm]
      by_cases h1 : (m.vp.length == 1) = true
      · simp only [h1, if_true]
        have h1' : m.vp.length = 1 := by simpa using h1
        have hv0 : m.vp[0]? = some m.vp[0] := List.getElem?_eq_getElem (by omega)
        obtain ⟨gr, hgr⟩ := groups_nonempty hgood m 0 _ hv0
          (hvplt m (List.mem_of_getElem? hm) _ (List.mem_of_getElem? hv0))
        have hgs : (dispatchMethod c.graph m).groups[0]? =
            some (groupsOf (c.graph.cov.get m.vp[0]) (maskOfClass c.graph m 0) c.graph.abstract) := by
          rw [groups_eq, List.getElem?_map, List.getElem?_zipIdx, hv0]; simp
        have hlen := uni_table_length (g := c.graph) m h1'
        rw [hgs] at hlen
        simp only [Option.map_some, Option.getD_some] at hlen
        have h0lt : 0 < (dispatchMethod c.graph m).table.length := by
          rw [hlen]; exact (List.getElem?_eq_some_iff.mp hgr).1
        rw [List.getElem?_eq_getElem h0lt]
        exact ⟨_, rfl⟩
      · simp only [h1, Bool.false_eq_true, if_false]
        exact ⟨_, rfl⟩
  -- every cell of the final v-tables
  have hcells : ∀ row ∈ c.vtbl, ∀ e ∈ row, ∀ bases, ∃ wd, entryWord c bases e = .ok wd := by
    intro row hrow e he bases
    obtain ⟨ci, hci⟩ := List.getElem?_of_mem hrow
    obtain ⟨i, hi⟩ := List.getElem?_of_mem he
    have hcell : (c.vtbl[ci]?.bind (·[i]?)) = some e := by rw [hci]; exact hi
    rcases foldlM_cells c.slots _ _ _ hfold ci i e hcell with h0 | ⟨w, hw, hwe⟩
    · -- a cell of the initial v-tables: the value-initialised entry, and there is a method
      unfold vt0 at h0
      rw [List.getElem?_map] at h0
      cases hr : (List.range c.graph.n)[ci]? with
      | none => simp [hr] at h0
      | some ci' =>
        simp only [hr, Option.map_some, Option.bind_some] at h0
        have hmem := List.mem_of_getElem? h0
        have he0 : e = ⟨0, 0, 0⟩ := (List.mem_replicate.mp hmem).2
        have hpos : 0 < c.slots.vsize.get ci' := by
          have := (List.getElem?_eq_some_iff.mp h0).1
          simp only [List.length_replicate] at this
          omega
        rw [he0]
        apply hdefault _ bases
        intro hnil
        rw [hslots, hnil, assignSlots_nil_vsize hgood] at hpos
        omega
    · rw [← hwe]; exact hwritten w hw bases
  unfold install
  obtain ⟨rows, hrows⟩ := mapM_ok (fun row => row.mapM (entryWord c (prefixSums ((tableWordsOf c).map List.length) 0))) c.vtbl
    (fun row hrow => mapM_ok _ row (fun e he => hcells row hrow e he _))
  simp only [hrows, bind, Except.bind]
  exact ⟨_, rfl⟩

/-- **`update` fails only for the documented reasons**: compile and install never fault on a registry
    without inheritance cycles; what can be raised is an unknown class, a definition of the wrong arity
    (ruled out by the C++ type system), or — in `publish_vptrs` — the failure of the hash search -/
theorem compile_install_total (proj : Nat → Nat) (reg : Registry) (hwf : WF proj reg.classes reg.methods) :
    (∃ c inst, compile proj reg = .ok c ∧ install c = .ok inst) ∨ ∃ e, compile proj reg = .error e ∧ Documented e := by
  cases hc : compile proj reg with
  | error e => exact Or.inr ⟨e, rfl, compile_total proj reg hwf e hc⟩
  | ok c =>
    obtain ⟨inst, hi⟩ := install_total proj reg hwf c hc
    exact Or.inl ⟨c, inst, rfl, hi⟩

end Yomm2.InstallTotal
