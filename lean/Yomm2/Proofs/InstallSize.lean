import Yomm2.Proofs.Layout
/-!
# The words `install_gv` writes fit in `dispatch_data` as sized by the same update
-/
namespace Yomm2.InstallSize
open Yomm2 Yomm2.Layout

theorem sum_map_le {α} (f g : α → Nat) : ∀ (l : List α), (∀ a ∈ l, f a ≤ g a) → (l.map f).sum ≤ (l.map g).sum
  | [], _ => by simp
  | a :: l, h => by
    simp only [List.map_cons, List.sum_cons]
    have := h a (by simp)
    have := sum_map_le f g l (fun a' ha' => h a' (by simp [ha']))
    omega

theorem sum_zip_le {α β} (h : β → Nat) : ∀ (as : List α) (bs : List β),
    ((as.zip bs).map (fun ab => h ab.2)).sum ≤ (bs.map h).sum
  | [], bs => by simp
  | _ :: _, [] => by simp
  | a :: as, b :: bs => by
    simp only [List.zip_cons_cons, List.map_cons, List.sum_cons]
    have := sum_zip_le h as bs
    omega

theorem mapM_lengths {α β ε} (f : α → Except ε β) (ls : List (List α)) (rs : List (List β))
    (h : ls.mapM (fun l => l.mapM f) = .ok rs) : rs.map List.length = ls.map List.length := by
  obtain ⟨hlen, hget⟩ := mapM_except_get _ _ _ h
  apply List.ext_getElem?
  intro i
  rw [List.getElem?_map, List.getElem?_map]
  cases hl : ls[i]? with
  | none =>
    have : rs[i]? = none := by
      rw [List.getElem?_eq_none_iff] at hl ⊢
      omega
    rw [this]; rfl
  | some l =>
    obtain ⟨r, hr, hok⟩ := hget i l hl
    rw [hr]
    simp only [Option.map_some]
    rw [(mapM_except_get f l r hok).1]

/-- **the words written by `install_gv` fit in `dispatch_data` as sized by that update** (uni-method
    tables are counted in the size but not stored: slack, never a deficit) -/
theorem install_size (c : Compiled) (inst : Installed) (h : install c = .ok inst) : inst.data.size ≤ inst.dataSize := by
  unfold install at h
  cases hr : c.vtbl.mapM (fun row => row.mapM (entryWord c (prefixSums ((tableWordsOf c).map List.length) 0))) with
  | error e => simp [hr, bind, Except.bind] at h
  | ok rows =>
    simp only [hr, bind, Except.bind] at h
    cases h
    simp only [List.size_toArray, List.length_append, List.length_flatten]
    rw [mapM_lengths _ _ _ hr]
    apply Nat.add_le_add_right
    -- the stored tables are at most the tables
    unfold tableWordsOf
    rw [List.map_map]
    have hstep : ((List.zipIdx (c.methods.zip c.outs)).map
        (List.length ∘ fun (x : (MethodC × MethodOut) × Nat) =>
          if (x.1.1.vp.length == 1) = true then [] else x.1.2.table.map (fun cell => Word.fn x.2 cell.1))).sum ≤
        ((List.zipIdx (c.methods.zip c.outs)).map (fun x => x.1.2.table.length)).sum := by
      apply sum_map_le
      intro a _
      simp only [Function.comp]
      split <;> simp
    refine Nat.le_trans hstep ?_
    have : (List.zipIdx (c.methods.zip c.outs)).map (fun x => x.1.2.table.length) =
        (c.methods.zip c.outs).map (fun mo => mo.2.table.length) := by
      conv => rhs; rw [← List.zipIdx_map_fst 0 (c.methods.zip c.outs)]
      rw [List.map_map]
      rfl
    rw [this]
    exact sum_zip_le (fun (o : MethodOut) => o.table.length) c.methods c.outs

end Yomm2.InstallSize
