import Yomm2.Generated.BestSrc
/-!
# `compiler<Policy>::best`, as translated on this run, computes the model's `best`
-/
namespace Yomm2.Proofs.SrcBest
open Yomm2 Yomm2.Pick Yomm2.Generated

variable {α : Type} [DecidableEq α]

/-- the condition of the lambda, as in the model -/
def dom (ms : α → α → Bool) (cands : List α) (d : α) : Bool := cands.all (fun e => e == d || ms d e)

theorem loop_spec (ms : α → α → Bool) (cands : List α) : ∀ (rest : List α),
    loop ms cands (.ifAllOf (.or (.same .other .spec) (.ms .spec .other)) .retSingle) rest =
      match rest.find? (dom ms cands) with
      | some d => .returned [d]
      | none => .normal
  | [] => by simp [loop]
  | s :: rest => by
    rw [loop]
    have hc : (cands.all fun o => evalCond ms s o (.or (.same .other .spec) (.ms .spec .other))) = dom ms cands s := by
      unfold dom
      congr 1
    by_cases h : dom ms cands s = true
    · simp [exec, hc, h, List.find?]
    · have h' : dom ms cands s = false := by simpa using h
      simp only [exec, hc, h', List.find?]
      simpa using loop_spec ms cands rest

/-- **`best` as it stands in the header computes the model's `best`** -/
theorem best_src (ms : α → α → Bool) (cands : List α) :
    run ms BestSrc.best cands = .returned (Yomm2.best ms cands) := by
  have hsrc : BestSrc.best = .seq (.forEach (.ifAllOf (.or (.same .other .spec) (.ms .spec .other)) .retSingle)) .retAll := rfl
  unfold run
  rw [hsrc, exec, exec, loop_spec]
  unfold Yomm2.best
  have : (cands.find? fun d => cands.all fun e => e == d || ms d e) = cands.find? (dom ms cands) := rfl
  rw [this]
  cases cands.find? (dom ms cands) <;> simp [exec]

end Yomm2.Proofs.SrcBest
