import Yomm2.Proofs.Bridge
import Yomm2.Props.C17
import Yomm2.Props.C01
/-!
# The report flags mean what the property says

Every cell of a method's table is the cell of some tuple of acceptable classes (groups are never
empty, and every index below the table size is the mixed-radix offset of a group tuple).
-/
namespace Yomm2.Report
open Yomm2 Yomm2.Spec Yomm2.Cells Yomm2.TableProofs Yomm2.Bridge

/-- every index below the size is the offset of some in-range index tuple -/
theorem offset_surjective : ∀ (dims : List (List Group)) (k : Nat), k < size dims →
    ∃ idx, Forall₂ (fun (gl : List Group) i => i < gl.length) dims idx ∧ offset dims idx = k
  | [], k, h => by
    simp [size] at h; subst h
    exact ⟨[], Forall₂.nil, rfl⟩
  | gl :: rest, k, h => by
    simp only [size] at h
    have hpos : 0 < size rest := by
      cases hs : size rest with
      | zero => rw [hs] at h; simp at h
      | succ n => omega
    obtain ⟨idx, hidx, hoff⟩ := offset_surjective rest (k % size rest) (Nat.mod_lt _ hpos)
    refine ⟨(k / size rest) :: idx, Forall₂.cons ?_ hidx, ?_⟩
    · exact (Nat.div_lt_iff_lt_mul hpos).mpr h
    · simp only [offset, hoff]
      rw [Nat.mul_comm]
      exact Nat.div_add_mod k (size rest)

theorem group_nonempty (covV : List Nat) (maskOf : Nat → Bits) (abstract : Nat → Bool) (gr : Group)
    (hgr : gr ∈ groupsOf covV maskOf abstract) : ∃ c, c ∈ gr.classes := by
  have hm : gr.mask ∈ (groupsOf covV maskOf abstract).map (·.mask) := List.mem_map.mpr ⟨gr, hgr, rfl⟩
  rw [groupsOf_masks, mem_isortBy, mem_dedup] at hm
  obtain ⟨c, hc, hmask⟩ := List.mem_map.mp hm
  exact ⟨c, (group_classes covV maskOf abstract gr hgr c).mpr ⟨hc, hmask⟩⟩

/-- an in-range index tuple is the group tuple of some tuple of acceptable classes -/
theorem located_of_indices (g : Graph) (m : MethodC) : ∀ (d : Nat) (vs gis : List Nat),
    Forall₂ (fun (gl : List Group) i => i < gl.length) (groupsFrom g m d vs) gis →
    ∃ cs, LocatedAll g m d vs cs gis ∧ Forall₂ (fun c v => c ∈ g.cov.get v) cs vs
  | _, [], gis, h => by
    cases h
    exact ⟨[], LocatedAll.nil _, Forall₂.nil⟩
  | d, v :: vs, gis, h => by
    simp only [groupsFrom] at h
    cases h with
    | @cons _ gi _ gis' hlt hrest =>
      obtain ⟨cs, hloc, hacc⟩ := located_of_indices g m (d + 1) vs gis' hrest
      have hgr : (groupsOf (g.cov.get v) (maskOfClass g m d) g.abstract)[gi]? =
          some (groupsOf (g.cov.get v) (maskOfClass g m d) g.abstract)[gi] := List.getElem?_eq_getElem hlt
      obtain ⟨cl, hcl⟩ := group_nonempty _ _ _ _ (List.mem_of_getElem? hgr)
      have hcm := (group_classes _ _ _ _ (List.mem_of_getElem? hgr) cl).mp hcl
      exact ⟨cl :: cs, LocatedAll.cons ⟨⟨_, hgr, hcm.2.symm, hcl⟩⟩ hloc, Forall₂.cons hcm.1 hacc⟩

theorem forall₂_of_reverse {α β} {R : α → β → Prop} {l₁ : List α} {l₂ : List β}
    (h : Forall₂ R l₁.reverse l₂) : Forall₂ R l₁ l₂.reverse := by
  have := forall₂_reverse h
  simpa using this

/-- **every cell of the table is the cell of a tuple of acceptable classes** -/
theorem cell_has_tuple (g : Graph) (m : MethodC) (k : Nat) (hk : k < (dispatchMethod g m).table.length) :
    ∃ cs gis, LocatedAll g m 0 m.vp cs gis ∧ Forall₂ (fun c v => c ∈ g.cov.get v) cs m.vp ∧
      offset (dispatchMethod g m).groups.reverse gis.reverse = k := by
  rw [table_eq, tableGo_length] at hk
  obtain ⟨idxR, hidx, hoff⟩ := offset_surjective _ k hk
  rw [groups_from_zero] at hidx hoff ⊢
  have h2 := forall₂_of_reverse hidx
  obtain ⟨cs, hloc, hacc⟩ := located_of_indices g m 0 m.vp idxR.reverse h2
  exact ⟨cs, idxR.reverse, hloc, hacc, by simpa using hoff⟩

/-- keys of the classes of a tuple -/
theorem keys_of_tuple (c : Ctx) : ∀ (cs vs : List Nat), Forall₂ (fun cl v => cl ∈ c.g.cov.get v) cs vs →
    ∃ ks, Forall₂ (fun i k => c.key i = some k) cs ks
  | [], _, h => by cases h; exact ⟨[], Forall₂.nil⟩
  | cl :: cs, _, h => by
    cases h with
    | @cons _ v _ vs hm hrest =>
      obtain ⟨ks, hks⟩ := keys_of_tuple c cs vs hrest
      have hlt := (GraphProofs.cov_lt c.proj c.reg.classes c.g c.hg v cl hm).2
      obtain ⟨k, hk⟩ := key_of_lt c cl hlt
      exact ⟨k :: ks, Forall₂.cons hk hks⟩

/-- **C17, `not_implemented`**: the flag is raised iff some tuple of classes acceptable to the method has
    no applicable definition -/
theorem not_implemented_iff (c : Ctx) (m : MethodC) (mr : MethodRec) (hm : MethodMatches c m mr) :
    (dispatchMethod c.g m).report.notImplemented ≠ 0 ↔
      ∃ cs ks, Forall₂ (fun cl v => cl ∈ c.g.cov.get v) cs m.vp ∧ Forall₂ (fun i k => c.key i = some k) cs ks ∧
        Selects c.proj c.reg mr.defs ks .notImplemented := by
  rw [Props.C17.flag_iff_cell]
  constructor
  · rintro ⟨cell, hmem, hni⟩
    obtain ⟨k, hk⟩ := List.getElem?_of_mem hmem
    have hklt := (List.getElem?_eq_some_iff.mp hk).1
    obtain ⟨cs, gis, hloc, hacc, hoff⟩ := cell_has_tuple c.g m k hklt
    obtain ⟨ks, hks⟩ := keys_of_tuple c cs m.vp hacc
    obtain ⟨cell', conc, hget, hsel, _⟩ := dispatch_table_correct c m mr hm cs ks gis hks hloc
    rw [hoff, hk] at hget
    cases hget
    refine ⟨cs, ks, hacc, hks, ?_⟩
    simp only at hni
    rw [hni] at hsel
    exact hsel
  · rintro ⟨cs, ks, hacc, hks, hsel⟩
    -- locate the tuple
    have hloc : ∃ gis, LocatedAll c.g m 0 m.vp cs gis := by
      have : ∀ (d : Nat) (vs cs : List Nat), Forall₂ (fun cl v => cl ∈ c.g.cov.get v) cs vs →
          ∃ gis, LocatedAll c.g m d vs cs gis := by
        intro d vs cs h
        induction h generalizing d with
        | nil => exact ⟨[], LocatedAll.nil _⟩
        | @cons cl v cs vs hm' _ ih =>
          obtain ⟨gis, hg⟩ := ih (d + 1)
          obtain ⟨gi, hgi⟩ := located_exists c.g m d v cl hm'
          exact ⟨gi :: gis, LocatedAll.cons hgi hg⟩
      exact this 0 m.vp cs hacc
    obtain ⟨gis, hloc⟩ := hloc
    obtain ⟨cell, conc, hget, hsel', hdef⟩ := dispatch_table_correct c m mr hm cs ks gis hks hloc
    refine ⟨(cell, conc), List.mem_of_getElem? hget, ?_⟩
    -- the specification is functional: the cell's outcome is "not implemented"
    have hr : Ranked c.proj c.reg c.reg.classes.length := by
      have := c.hwf; unfold GraphProofs.WF at this; rw [c.reg_eta] at this; exact this
    have := Yomm2.Props.C01.spec_functional hr hsel' hsel
    cases cell with
    | ni => rfl
    | amb => simp [outcomeOf] at this
    | defn i =>
      simp only [outcomeOf] at this
      split at this <;> cases this

/-- every tuple of acceptable classes has group indices -/
theorem locate (c : Ctx) (m : MethodC) : ∀ (d : Nat) (vs cs : List Nat), Forall₂ (fun cl v => cl ∈ c.g.cov.get v) cs vs →
    ∃ gis, LocatedAll c.g m d vs cs gis := by
  intro d vs cs h
  induction h generalizing d with
  | nil => exact ⟨[], LocatedAll.nil _⟩
  | @cons cl v cs vs hm' _ ih =>
    obtain ⟨gis, hg⟩ := ih (d + 1)
    obtain ⟨gi, hgi⟩ := located_exists c.g m d v cl hm'
    exact ⟨gi :: gis, LocatedAll.cons hgi hg⟩

/-- **C17, `ambiguous`**: the flag is raised iff some tuple of acceptable classes has applicable
    definitions but none more specific than all the others -/
theorem ambiguous_iff (c : Ctx) (m : MethodC) (mr : MethodRec) (hm : MethodMatches c m mr) :
    (dispatchMethod c.g m).report.ambiguous ≠ 0 ↔
      ∃ cs ks, Forall₂ (fun cl v => cl ∈ c.g.cov.get v) cs m.vp ∧ Forall₂ (fun i k => c.key i = some k) cs ks ∧
        Selects c.proj c.reg mr.defs ks .ambiguous := by
  rw [Props.C17.flag_iff_cell_amb]
  constructor
  · rintro ⟨cell, hmem, hamb⟩
    obtain ⟨k, hk⟩ := List.getElem?_of_mem hmem
    have hklt := (List.getElem?_eq_some_iff.mp hk).1
    obtain ⟨cs, gis, hloc, hacc, hoff⟩ := cell_has_tuple c.g m k hklt
    obtain ⟨ks, hks⟩ := keys_of_tuple c cs m.vp hacc
    obtain ⟨cell', conc, hget, hsel, _⟩ := dispatch_table_correct c m mr hm cs ks gis hks hloc
    rw [hoff, hk] at hget
    cases hget
    refine ⟨cs, ks, hacc, hks, ?_⟩
    simp only at hamb
    rw [hamb] at hsel
    exact hsel
  · rintro ⟨cs, ks, hacc, hks, hsel⟩
    obtain ⟨gis, hloc⟩ := locate c m 0 m.vp cs hacc
    obtain ⟨cell, conc, hget, hsel', hdef⟩ := dispatch_table_correct c m mr hm cs ks gis hks hloc
    refine ⟨(cell, conc), List.mem_of_getElem? hget, ?_⟩
    have hr : Ranked c.proj c.reg c.reg.classes.length := by
      have := c.hwf; unfold GraphProofs.WF at this; rw [c.reg_eta] at this; exact this
    have := Yomm2.Props.C01.spec_functional hr hsel' hsel
    cases cell with
    | amb => rfl
    | ni => simp [outcomeOf] at this
    | defn i =>
      obtain ⟨df, hdf⟩ := hdef i rfl
      simp [outcomeOf, hdf] at this

end Yomm2.Report
