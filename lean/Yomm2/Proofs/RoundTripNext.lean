import Yomm2.Proofs.RoundTripInstall
import Yomm2.Proofs.RoundTripCompile
/-!
# C13: the `next` cells come back too   (the repair of D15)

`encode_dispatch_data` now emits, after each method's slots and strides, one index per definition: what `next`
refers to in it (a definition of the method, or one of the two error pseudo-definitions).
`decode_dispatch_data` reads them back and fills the definitions' `next` cells. For everything `compile`
produces the decoded cells are the cells `update` computed.
-/
namespace Yomm2.RoundTrip
open Yomm2

/-- cutting the `next` indices out of the emitted array gives, method by method, the indices emitted -/
theorem nextCodes_chunks : ∀ (mos : List (MethodC × MethodOut)) (mi : Nat) (acc : List (List Nat)) (st : SlotSt) (post : List Nat),
    (∀ mo ∈ mos, 1 ≤ mo.1.vp.length ∧ mo.2.strides.length = mo.1.vp.length - 1 ∧ mo.2.nexts.length = mo.1.specs.length) →
    ((mos.map (fun mo => (mo.1.vp.length, mo.1.specs.length))).foldl
      (fun (acc : List (List Nat) × List Nat) (m : Nat × Nat) =>
        let n := 2 * m.1 - 1
        (acc.1 ++ [(acc.2.drop n).take m.2], acc.2.drop (n + m.2)))
      (acc, (List.zipIdx mos mi).flatMap (fun (x : (MethodC × MethodOut) × Nat) =>
        slotsOf st x.2 x.1.1.vp.length ++ x.1.2.strides ++ x.1.2.nexts.map (cellIndex x.1.1.specs.length)) ++ post)).1 =
    acc ++ mos.map (fun mo => mo.2.nexts.map (cellIndex mo.1.specs.length))
  | [], _, acc, _, _, _ => by simp
  | (m, o) :: rest, mi, acc, st, post, h => by
    obtain ⟨h1, h2, h3⟩ := h (m, o) (by simp)
    simp only [List.map_cons, List.foldl_cons, List.zipIdx_cons, List.flatMap_cons]
    have hchunk : (slotsOf st mi m.vp.length ++ o.strides).length = 2 * m.vp.length - 1 := by
      simp only [List.length_append, slotsOf, List.length_map, List.length_range]
      simp only at h2
      omega
    have hnl : (o.nexts.map (cellIndex m.specs.length)).length = m.specs.length := by
      simp only [List.length_map]; exact h3
    have htake : ((((slotsOf st mi m.vp.length ++ o.strides ++ o.nexts.map (cellIndex m.specs.length)) ++
        ((List.zipIdx rest (mi + 1)).flatMap (fun (x : (MethodC × MethodOut) × Nat) =>
          slotsOf st x.2 x.1.1.vp.length ++ x.1.2.strides ++ x.1.2.nexts.map (cellIndex x.1.1.specs.length))) ++ post).drop
        (2 * m.vp.length - 1)).take m.specs.length) = o.nexts.map (cellIndex m.specs.length) := by
      rw [List.append_assoc, List.append_assoc, List.drop_left' hchunk, List.take_left' hnl]
    have hdrop : ((slotsOf st mi m.vp.length ++ o.strides ++ o.nexts.map (cellIndex m.specs.length)) ++
        ((List.zipIdx rest (mi + 1)).flatMap (fun (x : (MethodC × MethodOut) × Nat) =>
          slotsOf st x.2 x.1.1.vp.length ++ x.1.2.strides ++ x.1.2.nexts.map (cellIndex x.1.1.specs.length))) ++ post).drop
        (2 * m.vp.length - 1 + m.specs.length) =
        ((List.zipIdx rest (mi + 1)).flatMap (fun (x : (MethodC × MethodOut) × Nat) =>
          slotsOf st x.2 x.1.1.vp.length ++ x.1.2.strides ++ x.1.2.nexts.map (cellIndex x.1.1.specs.length))) ++ post := by
      rw [List.append_assoc]
      have hl : (slotsOf st mi m.vp.length ++ o.strides ++ o.nexts.map (cellIndex m.specs.length)).length =
          2 * m.vp.length - 1 + m.specs.length := by
        rw [List.length_append, hchunk, hnl]
      rw [← hl, List.drop_left]
    rw [htake, hdrop]
    rw [nextCodes_chunks rest (mi + 1) _ st post (fun mo hmo => h mo (by simp [hmo]))]
    simp

/-- **what `decode_dispatch_data` writes into the `next` cells is what `update` computed** -/
theorem decodeNext_encode (c : Compiled) (hlen : c.methods.length = c.outs.length)
    (har : ∀ m ∈ c.methods, 1 ≤ m.vp.length)
    (hstr : ∀ mo ∈ c.methods.zip c.outs, mo.2.strides.length = mo.1.vp.length - 1)
    (hnx : ∀ mo ∈ c.methods.zip c.outs, mo.2.nexts.length = mo.1.specs.length)
    (hvalid : ∀ mo ∈ c.methods.zip c.outs, ∀ cell ∈ mo.2.nexts, ∀ i, cell = .defn i → i < mo.1.specs.length) :
    decodeNext (encode c) (msOf c) = .ok (c.outs.map (·.nexts)) := by
  unfold decodeNext nextCodesOf
  rw [msOf_eq_zip c (Nat.le_of_eq hlen)]
  have hsl : (encode c).slots = (List.zipIdx (c.methods.zip c.outs) 0).flatMap (fun (x : (MethodC × MethodOut) × Nat) =>
      slotsOf c.slots x.2 x.1.1.vp.length ++ x.1.2.strides ++ x.1.2.nexts.map (cellIndex x.1.1.specs.length)) := rfl
  have hch := nextCodes_chunks (c.methods.zip c.outs) 0 [] c.slots []
    (fun mo hmo => ⟨har mo.1 (List.of_mem_zip hmo).1, hstr mo hmo, hnx mo hmo⟩)
  simp only [List.append_nil, List.nil_append] at hch
  rw [hsl, hch]
  -- the pairs (arity, number of definitions) zipped with the emitted indices, method by method
  have hz : ((c.methods.zip c.outs).map (fun mo => (mo.1.vp.length, mo.1.specs.length))).zip
      ((c.methods.zip c.outs).map (fun mo => mo.2.nexts.map (cellIndex mo.1.specs.length))) =
      (c.methods.zip c.outs).map (fun mo => ((mo.1.vp.length, mo.1.specs.length), mo.2.nexts.map (cellIndex mo.1.specs.length))) := by
    rw [List.zip_map']
  rw [hz, List.mapM_map]
  have houts : c.outs.map (·.nexts) = (c.methods.zip c.outs).map (fun mo => mo.2.nexts) := by
    conv => lhs; rw [← List.map_snd_zip (l₁ := c.methods) (l₂ := c.outs) (Nat.le_of_eq hlen.symm)]
    rw [List.map_map]; rfl
  rw [houts]
  apply mapM_eq_map
  intro mo hmo
  simp only [Function.comp]
  rw [List.mapM_map]
  have := mapM_eq_map (fun cell => match defOfIndex mo.1.specs.length (cellIndex mo.1.specs.length cell) with
      | some cell => (Except.ok cell : Except Err Cell)
      | none => .error (.fault "decode: next index out of range")) id mo.2.nexts
    (fun cell hcell => by
      simp only [id]
      rw [defOfIndex_cellIndex _ _ (hvalid mo hmo cell hcell)])
  rw [List.map_id] at this
  exact this

end Yomm2.RoundTrip

namespace Yomm2.RoundTrip
open Yomm2

theorem best_subset {α} [DecidableEq α] (ms : α → α → Bool) (cands : List α) : ∀ d ∈ best ms cands, d ∈ cands := by
  intro d hd
  unfold best at hd
  cases hf : cands.find? (fun d => cands.all (fun e => e == d || ms d e)) with
  | some x =>
    rw [hf] at hd
    simp at hd
    subst hd
    exact List.mem_of_find?_eq_some hf
  | none => rw [hf] at hd; exact hd

theorem cellOfBest_defn (bs : List Nat) (i : Nat) (h : cellOfBest bs = .defn i) : bs = [i] := by
  unfold cellOfBest at h
  split at h
  · cases h
  · cases h; rfl
  · cases h

/-- every `next` cell `update` computes refers to a definition of the method or to an error handler -/
theorem nexts_valid (g : Graph) (m : MethodC) :
    (dispatchMethod g m).nexts.length = m.specs.length ∧
    ∀ cell ∈ (dispatchMethod g m).nexts, ∀ i, cell = .defn i → i < m.specs.length := by
  constructor
  · simp [dispatchMethod]
  · intro cell hcell i hi
    simp only [dispatchMethod, List.mem_map, List.mem_range] at hcell
    obtain ⟨k, _, hk⟩ := hcell
    rw [hi] at hk
    have hb := cellOfBest_defn _ _ hk
    have hmem := best_subset _ _ i (by rw [hb]; simp)
    simp only [List.mem_filter, List.mem_range] at hmem
    exact hmem.1

/-- **C13, `next`**: for everything `compile` produces (methods with at least one virtual parameter), the cells
    the decoder writes into the definitions' `next` pointers from the emitted indices are the cells `update`
    computed — a process that starts from the encoded data follows `next` exactly as one that ran `update` -/
theorem next_round_trip_after_compile (proj : Nat → Nat) (reg : Registry)
    (c : Compiled) (hc : compile proj reg = .ok c) (har : ∀ m ∈ c.methods, 1 ≤ m.vp.length) :
    decodeNext (encode c) (msOf c) = .ok (c.outs.map (·.nexts)) := by
  obtain ⟨_, _, _, houts, _⟩ := VtblContent.compile_fields proj reg c hc
  have hlen : c.methods.length = c.outs.length := by rw [houts, List.length_map]
  have hdm : ∀ mo ∈ c.methods.zip c.outs, mo.2 = dispatchMethod c.graph mo.1 := by
    intro mo hmo
    rw [houts] at hmo
    exact (mem_zip_map (dispatchMethod c.graph) c.methods mo hmo).1
  apply decodeNext_encode c hlen har
  · intro mo hmo; rw [hdm mo hmo]; simp [dispatchMethod]
  · intro mo hmo; rw [hdm mo hmo]; exact (nexts_valid c.graph mo.1).1
  · intro mo hmo cell hcell i hi
    rw [hdm mo hmo] at hcell
    exact (nexts_valid c.graph mo.1).2 cell hcell i hi

end Yomm2.RoundTrip
