import Yomm2.Proofs.Graph
/-!
# What slot allocation needs from the class graph

`Good g` collects the facts about the graph `buildGraph` returns (for a registry without inheritance
cycles) that the slot allocators rely on; everything in `TreeSlots` / `LatticeOrder` / `SlotsExcl`
is proved from `Good g` alone.
-/
namespace Yomm2.GraphFacts
open Yomm2 Yomm2.Reach Yomm2.Heads Yomm2.Spec Yomm2.GraphProofs

structure Good (g : Graph) : Prop where
  ranked : ∃ h : Nat → Nat, (∀ a m, m ∈ g.derived.get a → h m < h a) ∧ (∀ a, h a < g.fuel)
  derived_iff : ∀ a m, m ∈ g.derived.get a ↔ a ∈ g.direct.get m
  derived_nodup : ∀ a, (g.derived.get a).Nodup
  derived_lt : ∀ a m, m ∈ g.derived.get a → a < g.n ∧ m < g.n
  cov_iff : ∀ c d, d ∈ g.cov.get c ↔ c < g.n ∧ Reach g.derived.get c d
  tb_complete : ∀ c d, d ∈ g.cov.get c → d ≠ c → c ∈ g.tb.get d

theorem buildGraph_fuel (proj : Nat → Nat) (recs : List ClassRec) (g : Graph) (h : buildGraph proj recs = .ok g) :
    g.fuel = recs.length + 1 := by
  unfold buildGraph at h
  simp only at h
  split at h
  · cases h
  · cases h; rfl

/-- a ranking of class indices: listed proper bases rank strictly lower, ranks are bounded -/
theorem ranking (proj : Nat → Nat) (recs : List ClassRec) (ms : List MethodRec) (hwf : WF proj recs ms) :
    ∃ rankI : Nat → Nat, (∀ a b, b ∈ tbD proj recs a → rankI b < rankI a) ∧ ∀ a, rankI a ≤ recs.length := by
  obtain ⟨rank, hrank, hbound⟩ := hwf
  refine ⟨fun i => match keyAt proj recs i with | some k => rank k | none => 0, ?_, ?_⟩
  · intro a b hb
    have hlt := tbD_lt proj recs a b hb
    obtain ⟨ka, hka⟩ : ∃ ka, keyAt proj recs a = some ka := by
      unfold keyAt keysOf; rw [List.getElem?_map, List.getElem?_eq_getElem hlt.2]; exact ⟨_, rfl⟩
    obtain ⟨hne, kb, hkb, hl⟩ := (mem_tbD proj recs ms a b ka hka).mp hb
    simp only [hka, hkb]
    apply hrank ka kb hl
    intro e
    have hnd := (heads_keys proj recs).1
    have i1 := classIdx_of_get hnd hka
    have i2 := classIdx_of_get hnd hkb
    rw [e, i1] at i2
    exact hne (Option.some.inj i2).symm
  · intro a
    simp only
    split
    · exact hbound _
    · omega

theorem good_of_buildGraph (proj : Nat → Nat) (recs : List ClassRec) (ms : List MethodRec) (g : Graph)
    (hg : buildGraph proj recs = .ok g) (hwf : WF proj recs ms) : Good g := by
  obtain ⟨hfu, hn, _, _, _, hder, _⟩ := buildGraph_fields proj recs g hg
  obtain ⟨rankI, hrankI, hbound⟩ := ranking proj recs ms hwf
  have hsorted : ∀ a b, b ∈ g.tb0.get a ↔ b ∈ tbD proj recs a := tb0_mem proj recs g hg
  have hdirfun : g.direct.get = Reach.directOf (tbD proj recs) g.tb0.get := funext (direct_eq proj recs g hg)
  have hdir_tbD : ∀ a b, b ∈ g.direct.get a → b ∈ tbD proj recs a := by
    intro a b hb; rw [hdirfun] at hb; exact direct_subset _ _ hsorted a b hb
  have hheight : ∀ a m, m ∈ g.derived.get a → recs.length - rankI m < recs.length - rankI a := by
    intro a m hm
    obtain ⟨_, _, ham⟩ := (mem_derived proj recs g hg a m).mp hm
    have := hrankI m a (hdir_tbD m a ham)
    have := hbound m
    omega
  refine ⟨⟨fun a => recs.length - rankI a, hheight, ?_⟩, ?_, ?_, ?_, ?_, tb_complete proj recs g hg⟩
  · intro a; rw [buildGraph_fuel proj recs g hg]; show recs.length - rankI a < recs.length + 1; omega
  · intro a m
    rw [mem_derived proj recs g hg]
    constructor
    · exact fun h => h.2.2
    · intro hb
      have hlt := tbD_lt proj recs m a (hdir_tbD m a hb)
      exact ⟨hn ▸ hlt.1, hn ▸ hlt.2, hb⟩
  · intro a
    rw [hder]
    unfold derivedOf
    rw [Tab.get_ofFn]
    split
    · exact List.Nodup.sublist List.filter_sublist List.nodup_range
    · exact List.nodup_nil
  · intro a m hm
    obtain ⟨h1, h2, _⟩ := (mem_derived proj recs g hg a m).mp hm
    exact ⟨h1, h2⟩
  · intro c d
    rw [mem_cov proj recs g hg]
    constructor
    · exact fun h => ⟨h.1, covF_sound _ _ _ _ h.2⟩
    · intro h
      refine ⟨h.1, ?_⟩
      exact covF_complete g.derived.get (fun a => recs.length - rankI a) hheight h.2 recs.length (Nat.sub_le _ _)

/-! ## consequences -/

variable {g : Graph}

theorem reach_height (derived : Nat → List Nat) (h : Nat → Nat) (hh : ∀ a m, m ∈ derived a → h m < h a)
    {a b : Nat} (hr : Reach derived a b) : h b ≤ h a := by
  induction hr with
  | refl => exact Nat.le_refl _
  | step hm _ ih => have := hh _ _ hm; omega

/-- no cycles -/
theorem reach_antisymm (hg : Good g) {a b : Nat} (h1 : Reach g.derived.get a b) (h2 : Reach g.derived.get b a) : a = b := by
  obtain ⟨h, hh, _⟩ := hg.ranked
  cases h1 with
  | refl => rfl
  | step hm hr =>
    have e1 := hh _ _ hm
    have e2 := reach_height _ h hh hr
    have e3 := reach_height _ h hh h2
    omega

theorem reach_lt (hg : Good g) {a b : Nat} (hr : Reach g.derived.get a b) (ha : a < g.n) : b < g.n := by
  induction hr with
  | refl => exact ha
  | step hm _ ih => exact ih (hg.derived_lt _ _ hm).2

theorem cov_of_reach (hg : Good g) {a b : Nat} (hr : Reach g.derived.get a b) (ha : a < g.n) : b ∈ g.cov.get a :=
  (hg.cov_iff a b).mpr ⟨ha, hr⟩

theorem reach_of_cov (hg : Good g) {a b : Nat} (h : b ∈ g.cov.get a) : Reach g.derived.get a b :=
  ((hg.cov_iff a b).mp h).2

/-- the last edge of a non-trivial path -/
theorem reach_last {succ : Nat → List Nat} {a b : Nat} (hr : Reach succ a b) : a = b ∨ ∃ m, Reach succ a m ∧ b ∈ succ m := by
  induction hr with
  | refl => exact Or.inl rfl
  | @step a m b hm _ ih =>
    right
    rcases ih with rfl | ⟨k, hk, hb⟩
    · exact ⟨a, Reach.refl _, hm⟩
    · exact ⟨k, Reach.step hm hk, hb⟩

end Yomm2.GraphFacts
