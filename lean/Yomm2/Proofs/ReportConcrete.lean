import Yomm2.Proofs.Report
/-!
# The concrete-only counterparts of the report flags

A cell carries the flag `concrete` iff every group it was built from contains a non-abstract class,
i.e. iff it is the cell of some tuple of *concrete* acceptable classes.
-/
namespace Yomm2.Report
open Yomm2 Yomm2.Spec Yomm2.TableProofs Yomm2.Cells Yomm2.Bridge

/-- the `concrete` flag of a group: some acceptable class with the group's mask is not abstract -/
theorem group_concrete (covV : List Nat) (maskOf : Nat → Bits) (abstract : Nat → Bool) (gr : Group)
    (hgr : gr ∈ groupsOf covV maskOf abstract) :
    gr.concrete = covV.any (fun c => maskOf c == gr.mask && !abstract c) := by
  unfold groupsOf at hgr
  obtain ⟨m, _, rfl⟩ := List.mem_map.mp hgr
  rfl

def Fc : List Group → Nat → Bool := fun gl i => ((gl[i]?).map (fun gr => gr.concrete)).getD false

/-- the cell of a located tuple carries the conjunction of its groups' `concrete` flags -/
theorem cell_conc (g : Graph) (m : MethodC) (cs gis : List Nat) (hloc : LocatedAll g m 0 m.vp cs gis) :
    ∃ cell, (dispatchMethod g m).table[offset (dispatchMethod g m).groups.reverse gis.reverse]? =
      some (cell, (List.zipWith Fc (groupsFrom g m 0 m.vp) gis).all id) := by
  have hlt := locatedAll_lt g m 0 m.vp cs gis hloc
  have hlen := locatedAll_length g m 0 m.vp cs gis hloc
  rw [table_eq, groups_from_zero]
  have hltR := forall₂_reverse hlt
  obtain ⟨s, hs⟩ := narrowed_exists (groupsFrom g m 0 m.vp).reverse gis.reverse (List.replicate m.specs.length true) true hltR
  rw [cell_index _ _ _ _ _ hltR, hs]
  refine ⟨cellOfBest (best (msOf g m) (applicableOf s.1)), ?_⟩
  simp only [Option.map_some]
  congr 2
  rw [narrowed_conc _ _ _ _ s hs]
  have := zipWith_reverse Fc (groupsFrom g m 0 m.vp) gis (by rw [groupsFrom_length, hlen.2])
  unfold Fc at this
  simp only [Bool.true_and]
  rw [this, List.all_reverse]
  rfl

/-- all groups concrete iff a tuple of concrete classes sits in the same groups -/
theorem conc_iff (g : Graph) (m : MethodC) : ∀ (d : Nat) (vs cs gis : List Nat), LocatedAll g m d vs cs gis →
    ((List.zipWith Fc (groupsFrom g m d vs) gis).all id = true ↔
      ∃ cs', LocatedAll g m d vs cs' gis ∧ Forall₂ (fun c v => c ∈ g.cov.get v) cs' vs ∧ ∀ c ∈ cs', g.abstract c = false) := by
  intro d vs cs gis h
  induction h with
  | nil d =>
    simp only [groupsFrom, List.zipWith_nil_left, List.all_nil, true_iff]
    exact ⟨[], LocatedAll.nil _, Forall₂.nil, by simp⟩
  | @cons d v c gi vs cs gis hl _ ih =>
    obtain ⟨gr, hgr, hmask, hmem⟩ := hl.get
    have hgrm := List.mem_of_getElem? hgr
    simp only [groupsFrom, List.zipWith_cons_cons, List.all_cons, Fc, hgr, Option.map_some, Option.getD_some, id,
      Bool.and_eq_true]
    rw [ih, group_concrete _ _ _ gr hgrm, List.any_eq_true]
    constructor
    · rintro ⟨⟨c', hc', hcm⟩, cs', hloc', hacc', hconc'⟩
      simp only [Bool.and_eq_true, beq_iff_eq, Bool.not_eq_true'] at hcm
      refine ⟨c' :: cs', LocatedAll.cons ⟨⟨gr, hgr, hcm.1.symm, ?_⟩⟩ hloc', Forall₂.cons hc' hacc', ?_⟩
      · exact (group_classes _ _ _ gr hgrm c').mpr ⟨hc', hcm.1⟩
      · intro x hx
        rcases List.mem_cons.mp hx with rfl | hx
        · exact hcm.2
        · exact hconc' x hx
    · rintro ⟨cs'', hloc'', hacc'', hconc''⟩
      cases hloc'' with
      | @cons _ _ c' _ _ cs' _ hl' hrest' =>
        cases hacc'' with
        | cons hc' hacc' =>
          obtain ⟨gr', hgr', hmask', hmem'⟩ := hl'.get
          rw [hgr] at hgr'
          cases hgr'
          refine ⟨⟨c', hc', ?_⟩, cs', hrest', hacc', fun x hx => hconc'' x (by simp [hx])⟩
          simp only [Bool.and_eq_true, beq_iff_eq, Bool.not_eq_true']
          exact ⟨hmask'.symm, hconc'' c' (by simp)⟩

/-- a concrete-only flag is raised iff some cell of that kind was built under an all-concrete tuple of groups -/
theorem concrete_flag_iff_cell (g : Graph) (m : MethodC) :
    ((dispatchMethod g m).report.concreteNotImplemented ≠ 0 ↔ ∃ c ∈ (dispatchMethod g m).table, c.1 = .ni ∧ c.2 = true) ∧
    ((dispatchMethod g m).report.concreteAmbiguous ≠ 0 ↔ ∃ c ∈ (dispatchMethod g m).table, c.1 = .amb ∧ c.2 = true) := by
  obtain ⟨_, _, h3, h4⟩ := Props.C17.method_counters g m
  have key : ∀ (k : Cell) (l : List (Cell × Bool)),
      (l.filter (fun c => c.1 == k && c.2)).length ≠ 0 ↔ ∃ c ∈ l, c.1 = k ∧ c.2 = true := by
    intro k l
    constructor
    · intro h
      have : l.filter (fun c => c.1 == k && c.2) ≠ [] := by
        intro he; rw [he] at h; exact h rfl
      obtain ⟨c, hc⟩ := List.exists_mem_of_ne_nil _ this
      have := List.mem_filter.mp hc
      exact ⟨c, this.1, by simpa using this.2⟩
    · rintro ⟨c, hc, hk, hb⟩ h
      have : c ∈ l.filter (fun c => c.1 == k && c.2) := List.mem_filter.mpr ⟨hc, by simp [hk, hb]⟩
      rw [List.length_eq_zero_iff.mp h] at this
      cases this
  rw [h3, h4]
  exact ⟨key .ni _, key .amb _⟩

/-- a cell of kind `k` (an error kind) built under all-concrete groups, in terms of the specification -/
theorem concrete_cell_iff (c : Ctx) (m : MethodC) (mr : MethodRec) (hm : MethodMatches c m mr) (k : Cell)
    (hk : k = .ni ∨ k = .amb) :
    (∃ cell ∈ (dispatchMethod c.g m).table, cell.1 = k ∧ cell.2 = true) ↔
      ∃ cs ks, Forall₂ (fun cl v => cl ∈ c.g.cov.get v) cs m.vp ∧ (∀ cl ∈ cs, c.g.abstract cl = false) ∧
        Forall₂ (fun i k => c.key i = some k) cs ks ∧ Selects c.proj c.reg mr.defs ks (outcomeOf mr.defs k) := by
  have hr : Ranked c.proj c.reg c.reg.classes.length := by
    have := c.hwf; unfold GraphProofs.WF at this; rw [c.reg_eta] at this; exact this
  constructor
  · rintro ⟨cell, hmem, hkind, hconc⟩
    obtain ⟨idx, hidx⟩ := List.getElem?_of_mem hmem
    have hlt := (List.getElem?_eq_some_iff.mp hidx).1
    obtain ⟨cs, gis, hloc, hacc, hoff⟩ := cell_has_tuple c.g m idx hlt
    -- the flag says all groups are concrete: pick a concrete tuple in the same groups
    obtain ⟨cell0, hcell0⟩ := cell_conc c.g m cs gis hloc
    rw [hoff, hidx] at hcell0
    have hall : (List.zipWith Fc (groupsFrom c.g m 0 m.vp) gis).all id = true := by
      have := congrArg (fun o => o.map Prod.snd) hcell0
      simp only [Option.map_some, Option.some.injEq] at this
      rw [← this]; exact hconc
    obtain ⟨cs', hloc', hacc', hconc'⟩ := (conc_iff c.g m 0 m.vp cs gis hloc).mp hall
    obtain ⟨ks, hks⟩ := keys_of_tuple c cs' m.vp hacc'
    obtain ⟨cell', conc', hget, hsel, _⟩ := dispatch_table_correct c m mr hm cs' ks gis hks hloc'
    rw [hoff, hidx] at hget
    cases hget
    exact ⟨cs', ks, hacc', hconc', hks, by rw [← hkind]; exact hsel⟩
  · rintro ⟨cs, ks, hacc, hconc, hks, hsel⟩
    obtain ⟨gis, hloc⟩ := locate c m 0 m.vp cs hacc
    obtain ⟨cell, conc, hget, hsel', _⟩ := dispatch_table_correct c m mr hm cs ks gis hks hloc
    obtain ⟨cell0, hcell0⟩ := cell_conc c.g m cs gis hloc
    rw [hget] at hcell0
    have hc2 : conc = (List.zipWith Fc (groupsFrom c.g m 0 m.vp) gis).all id := by
      have := congrArg (fun o => o.map Prod.snd) hcell0
      simpa using this
    have hall := (conc_iff c.g m 0 m.vp cs gis hloc).mpr ⟨cs, hloc, hacc, hconc⟩
    refine ⟨(cell, conc), List.mem_of_getElem? hget, ?_, by rw [hc2]; exact hall⟩
    have hfun := Yomm2.Props.C01.spec_functional hr hsel' hsel
    simp only
    rcases hk with rfl | rfl
    · cases cell with
      | ni => rfl
      | amb => simp [outcomeOf] at hfun
      | defn i => simp only [outcomeOf] at hfun; split at hfun <;> cases hfun
    · cases cell with
      | amb => rfl
      | ni => simp [outcomeOf] at hfun
      | defn i =>
        simp only [outcomeOf] at hfun
        split at hfun
        · cases hfun
        · -- a definition index without a definition: excluded by the table's construction
          rename_i hnone
          obtain ⟨_, _, hget2, _, hdef⟩ := dispatch_table_correct c m mr hm cs ks gis hks hloc
          rw [hget] at hget2
          cases hget2
          obtain ⟨df, hdf⟩ := hdef i rfl
          rw [hdf] at hnone
          cases hnone

end Yomm2.Report
