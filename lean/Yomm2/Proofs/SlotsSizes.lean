import Yomm2.Proofs.SlotsExcl
/-!
# First slots and v-table sizes after the allocation of slots

* a class of a tree gets `first_slot = 0` and a v-table of `B c + |used_by c|` cells; the bit sets
  of the lattice allocator stay empty for it;
* nothing but the lattice allocator touches the bit sets, nothing but `assign_tree_slots` touches the
  sizes before the final "MI v-tables" loop.
-/
namespace Yomm2.SlotsSizes
open Yomm2 Yomm2.Reach Yomm2.GraphFacts Yomm2.TreeFacts Yomm2.UsedBy Yomm2.SlotsInv Yomm2.SlotsTree
open Yomm2.SlotsExcl Yomm2.LatticeOrder Yomm2.Lattice

variable {g : Graph} (ms : List MethodC)

/-- what `assign_tree_slots` below `c` does to sizes and bit sets -/
structure TreeEffect (g : Graph) (ms : List MethodC) (c : Nat) (st st' : SlotSt) : Prop where
  used : st'.used = st.used
  reserved : st'.reserved = st.reserved
  inside : ∀ x, Reach g.derived.get c x → st'.first.get x = 0 ∧ st'.vsize.get x = B g ms x + (usedBy ms x).length
  outside : ∀ x, ¬ Reach g.derived.get c x → st'.first.get x = st.first.get x ∧ st'.vsize.get x = st.vsize.get x

/-- the same for a list of siblings -/
structure ForestEffect (g : Graph) (ms : List MethodC) (ds : List Nat) (st st' : SlotSt) : Prop where
  used : st'.used = st.used
  reserved : st'.reserved = st.reserved
  inside : ∀ d ∈ ds, ∀ x, Reach g.derived.get d x → st'.first.get x = 0 ∧ st'.vsize.get x = B g ms x + (usedBy ms x).length
  outside : ∀ x, (∀ d ∈ ds, ¬ Reach g.derived.get d x) → st'.first.get x = st.first.get x ∧ st'.vsize.get x = st.vsize.get x

theorem forest_effect (f : Nat) (h : Nat → Nat) (next : Nat)
    (ih : ∀ (c : Nat) (st : SlotSt), h c < f → InTree g c → TreeEffect g ms c st (treeSlots g ms f c (B g ms c) st)) :
    ∀ (ds : List Nat) (st : SlotSt), (∀ d ∈ ds, h d < f ∧ InTree g d ∧ B g ms d = next) →
      ds.Pairwise (fun d d' => ∀ x, Reach g.derived.get d x → Reach g.derived.get d' x → False) →
      ForestEffect g ms ds st (ds.foldl (fun st d => treeSlots g ms f d next st) st)
  | [], st, _, _ => ⟨rfl, rfl, by simp, fun x _ => ⟨rfl, rfl⟩⟩
  | d :: ds, st, hds, hpw => by
    simp only [List.foldl_cons]
    obtain ⟨hdf, hdt, hdb⟩ := hds d (by simp)
    have h1 := ih d st hdf hdt
    rw [hdb] at h1
    obtain ⟨hpw1, hpw2⟩ := List.pairwise_cons.mp hpw
    have h2 := forest_effect f h next ih ds (treeSlots g ms f d next st) (fun d' hd' => hds d' (by simp [hd'])) hpw2
    refine ⟨h2.used.trans h1.used, h2.reserved.trans h1.reserved, ?_, ?_⟩
    · intro d' hd' x hx
      rcases List.mem_cons.mp hd' with rfl | hd'
      · -- later siblings leave the sub-tree of `d'` alone
        have ho := h2.outside x (fun d'' hd'' hr => hpw1 d'' hd'' x hx hr)
        rw [ho.1, ho.2]
        exact h1.inside x hx
      · exact h2.inside d' hd' x hx
    · intro x hx
      have ho2 := h2.outside x (fun d' hd' => hx d' (by simp [hd']))
      have ho1 := h1.outside x (hx d (by simp))
      exact ⟨ho2.1.trans ho1.1, ho2.2.trans ho1.2⟩

theorem tree_effect (hg : Good g) (h : Nat → Nat) (hh : ∀ a m, m ∈ g.derived.get a → h m < h a) :
    ∀ (f c : Nat) (st : SlotSt), h c < f → InTree g c → TreeEffect g ms c st (treeSlots g ms f c (B g ms c) st)
  | 0, c, st, hf, _ => by omega
  | f + 1, c, st, hf, hc => by
    rw [treeSlots]
    have h2 := forest_effect ms f h (B g ms c + (usedBy ms c).length) (tree_effect hg h hh f) (g.derived.get c)
      { st with slotList := assignRun st.slotList (usedBy ms c) (B g ms c), first := st.first.set c 0,
                vsize := st.vsize.set c (B g ms c + (usedBy ms c).length) }
      (by
        intro d hd
        have hdt := inTree_down hc (Reach.single hd)
        exact ⟨by have := hh c d hd; omega, hdt, B_child ms hg c d (direct_of_child hg hd hdt)⟩)
      (siblings_disjoint hg c hc)
    refine ⟨h2.used, h2.reserved, ?_, ?_⟩
    · intro x hx
      cases hx with
      | refl =>
        -- the class itself: set at the start, below no child
        have ho := h2.outside c (by
          intro d hd hr
          have := reach_antisymm hg hr (Reach.single hd)
          subst this
          have := hh d d hd
          omega)
        rw [ho.1, ho.2]
        simp
      | step hm hr => exact h2.inside _ hm x hr
    · intro x hx
      have hxc : x ≠ c := fun e => hx (e ▸ Reach.refl _)
      have ho := h2.outside x (fun d hd hr => hx (Reach.step hd hr))
      rw [ho.1, ho.2]
      simp [Tab.get_set, hxc]

/-! ## the lattice allocator leaves everything else alone -/

theorem covLoop_used_frame (tb : Nat → List Nat) (usedV : Bits) (v : Nat) (ds : List Nat) (ur : Tab Bits × Tab Bits) (x : Nat)
    (hx : x ∉ ds) : ((covLoop tb usedV v ds ur).1).get x = ur.1.get x := by
  induction ds generalizing ur with
  | nil => simp [covLoop]
  | cons d ds ih =>
    simp only [covLoop, List.foldl_cons] at ih ⊢
    have hxd : x ≠ d := fun e => hx (by simp [e])
    rw [ih _ (fun h => hx (by simp [h]))]
    split
    · rfl
    · simp [Tab.get_set, hxd]

theorem alloc_used_frame (used reserved : Tab Bits) (v x : Nat) (hxv : x ≠ v) (hx : x ∉ g.cov.get v) :
    ((alloc g used reserved v).1.1).get x = used.get x := by
  simp only [alloc]
  rw [covLoop_used_frame _ _ _ _ _ _ hx]
  simp [Tab.get_set, hxv]

/-- what allocating the parameters of lattice classes does -/
structure LatticeEffect (g : Graph) (st st' : SlotSt) : Prop where
  first : st'.first = st.first
  vsize : st'.vsize = st.vsize
  usedTree : ∀ x, InTree g x → st'.used.get x = st.used.get x

theorem LatticeEffect.refl (st : SlotSt) : LatticeEffect g st st := ⟨rfl, rfl, fun _ _ => rfl⟩

theorem LatticeEffect.trans {a b c : SlotSt} (h1 : LatticeEffect g a b) (h2 : LatticeEffect g b c) : LatticeEffect g a c :=
  ⟨h2.first.trans h1.first, h2.vsize.trans h1.vsize, fun x hx => (h2.usedTree x hx).trans (h1.usedTree x hx)⟩

theorem allocClass_effect (hg : Good g) (v : Nat) (hv : ¬ InTree g v) (st : SlotSt) :
    LatticeEffect g st (allocClass g ms st v) := by
  unfold allocClass
  generalize usedBy ms v = ps
  induction ps generalizing st with
  | nil => exact LatticeEffect.refl st
  | cons mp ps ih =>
    rw [List.foldl_cons]
    refine LatticeEffect.trans ?_ (ih _)
    refine ⟨rfl, rfl, ?_⟩
    intro x hx
    show ((alloc g st.used st.reserved v).1.1).get x = st.used.get x
    apply alloc_used_frame
    · intro e; subst e; exact hv hx
    · intro hmem
      exact hv (inTree_up hg hx (reach_of_cov hg hmem))

theorem allocClasses_effect (hg : Good g) : ∀ (vs : List Nat) (st : SlotSt), (∀ v ∈ vs, ¬ InTree g v) →
    LatticeEffect g st (vs.foldl (allocClass g ms) st)
  | [], st, _ => LatticeEffect.refl st
  | v :: vs, st, h => by
    simp only [List.foldl_cons]
    exact LatticeEffect.trans (allocClass_effect ms hg v (h v (by simp)) st)
      (allocClasses_effect hg vs _ (fun v' hv' => h v' (by simp [hv'])))

/-! ## across the roots -/

structure RInv (g : Graph) (ms : List MethodC) (done : List Nat) (sv : SlotSt × List Nat) : Prop where
  usedTree : ∀ x, InTree g x → sv.1.used.get x = []
  sizes : ∀ r ∈ done, TreeRoot g r → ∀ x, Reach g.derived.get r x →
    sv.1.first.get x = 0 ∧ sv.1.vsize.get x = B g ms x + (usedBy ms x).length
  visLat : ∀ x ∈ sv.2, ¬ InTree g x

theorem root_step_sizes (hg : Good g) (done : List Nat) (sv : SlotSt × List Nat) (hinv : RInv g ms done sv)
    (r : Nat) (hr : IsRoot g r) : RInv g ms (r :: done) (rootStep g ms sv r) := by
  obtain ⟨h, hh, hb⟩ := hg.ranked
  unfold rootStep
  by_cases ht : TreeRoot g r
  · rw [if_pos ((treeRoot_iff r hr).mpr ht)]
    have hrt : InTree g r := ⟨r, ht, Reach.refl _⟩
    have he := tree_effect ms hg h hh g.fuel r sv.1 (hb r) hrt
    rw [B_root ms r hr.2] at he
    refine ⟨?_, ?_, hinv.visLat⟩
    · intro x hx; simp only; rw [he.used]; exact hinv.usedTree x hx
    · intro r' hr' hr't x hx
      simp only
      by_cases hrx : Reach g.derived.get r x
      · exact he.inside x hrx
      · have ho := he.outside x hrx
        rw [ho.1, ho.2]
        rcases List.mem_cons.mp hr' with rfl | hr'
        · exact absurd hx hrx
        · exact hinv.sizes r' hr' hr't x hx
  · have hcond : ((g.cov.get r).all (fun c => decide ((g.direct.get c).length ≤ 1))) = false := by
      cases hc : (g.cov.get r).all (fun c => decide ((g.direct.get c).length ≤ 1)) with
      | false => rfl
      | true => exact absurd ((treeRoot_iff r hr).mp hc) ht
    rw [hcond]
    simp only [Bool.false_eq_true, if_false]
    obtain ⟨newly, hvis⟩ := lo_prefix g.derived.get g.fuel r sv.2
    have hdrop : (latticeOrder g.derived.get g.fuel r sv.2).drop sv.2.length = newly := by
      rw [hvis]; simp
    rw [hdrop]
    have hall : ∀ v ∈ latticeOrder g.derived.get g.fuel r sv.2, ¬ InTree g v := by
      intro v hv
      rcases lo_reach g.derived.get g.fuel r sv.2 v hv with h1 | h1
      · exact hinv.visLat v h1
      · exact not_inTree_below_lattice hg hr ht h1
    have hnewly : ∀ v ∈ newly, ¬ InTree g v := fun v hv => hall v (by rw [hvis]; simp [hv])
    have he := allocClasses_effect ms hg newly sv.1 hnewly
    refine ⟨?_, ?_, hall⟩
    · intro x hx; simp only; rw [he.usedTree x hx]; exact hinv.usedTree x hx
    · intro r' hr' hr't x hx
      simp only
      rcases List.mem_cons.mp hr' with rfl | hr'
      · exact absurd hr't ht
      · rw [he.first, he.vsize]; exact hinv.sizes r' hr' hr't x hx

theorem roots_fold_sizes (hg : Good g) : ∀ (rs done : List Nat) (sv : SlotSt × List Nat), RInv g ms done sv →
    (∀ r ∈ rs, IsRoot g r) → RInv g ms (rs.reverse ++ done) (rs.foldl (rootStep g ms) sv)
  | [], done, sv, hinv, _ => by simpa
  | r :: rs, done, sv, hinv, hrs => by
    simp only [List.foldl_cons, List.reverse_cons, List.append_assoc, List.singleton_append]
    exact roots_fold_sizes hg rs (r :: done) _ (root_step_sizes ms hg done sv hinv r (hrs r (by simp)))
      (fun r' hr' => hrs r' (by simp [hr']))

/-- after all the roots: classes of trees have their sizes and empty bit sets -/
theorem phaseA_sizes (hg : Good g) :
    (∀ x, InTree g x → (phaseA g ms).1.used.get x = []) ∧
    (∀ x, InTree g x → (phaseA g ms).1.first.get x = 0 ∧
      (phaseA g ms).1.vsize.get x = B g ms x + (usedBy ms x).length) := by
  have hroots : ∀ r ∈ rootsOf g, IsRoot g r := by
    intro r hr
    unfold rootsOf at hr
    rw [List.mem_filter, List.mem_range, List.isEmpty_iff] at hr
    exact ⟨hr.1, hr.2⟩
  have hinit : RInv g ms [] (SlotSt.init, []) :=
    ⟨fun x _ => by simp [SlotSt.init], by simp, by simp⟩
  have hfin := roots_fold_sizes ms hg (rootsOf g) [] _ hinit hroots
  refine ⟨hfin.usedTree, ?_⟩
  rintro x ⟨r, hr, hrx⟩
  have hrmem : r ∈ rootsOf g := by
    unfold rootsOf
    rw [List.mem_filter, List.mem_range, List.isEmpty_iff]
    exact hr.1
  exact hfin.sizes r (by simp [hrmem]) hr x hrx

end Yomm2.SlotsSizes
