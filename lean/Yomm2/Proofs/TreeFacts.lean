import Yomm2.Proofs.GraphFacts
/-!
# Roots, trees and lattices

`assign_slots` treats a root whose covariant classes all have at most one direct base as a tree. In a
tree the ancestors of a class form a chain, so two classes sharing a descendant are comparable; a
class below a tree root is below no other root; and a class below a lattice root is in no tree.
-/
namespace Yomm2.TreeFacts
open Yomm2 Yomm2.Reach Yomm2.GraphFacts

variable {g : Graph}

/-- upward paths are downward paths reversed -/
theorem up_iff_down (hg : Good g) (a b : Nat) : Reach g.direct.get b a ↔ Reach g.derived.get a b :=
  ⟨Reach.reverse (fun x y hy => (hg.derived_iff y x).mpr hy), Reach.reverse (fun x y hy => (hg.derived_iff x y).mp hy)⟩

def IsRoot (g : Graph) (r : Nat) : Prop := r < g.n ∧ g.direct.get r = []

def TreeRoot (g : Graph) (r : Nat) : Prop := IsRoot g r ∧ ∀ c ∈ g.cov.get r, (g.direct.get c).length ≤ 1

def InTree (g : Graph) (x : Nat) : Prop := ∃ r, TreeRoot g r ∧ Reach g.derived.get r x

theorem eq_of_mem_le_one {l : List Nat} (h : l.length ≤ 1) {a b : Nat} (ha : a ∈ l) (hb : b ∈ l) : a = b := by
  match l, h with
  | [], _ => cases ha
  | [x], _ => simp at ha hb; rw [ha, hb]

/-- the ancestors of a class of a tree lie on the path to the root -/
theorem anc_on_chain (hg : Good g) {r : Nat} (hr : TreeRoot g r) {x : Nat} (hx : Reach g.direct.get x r) :
    ∀ y, Reach g.direct.get x y → Reach g.direct.get y r := by
  induction hx with
  | refl =>
    intro y hy
    cases hy with
    | refl => exact Reach.refl _
    | step hm _ => rw [hr.1.2] at hm; cases hm
  | @step x m r hm hmr ih =>
    intro y hy
    cases hy with
    | refl => exact Reach.step hm hmr
    | @step _ m' _ hm' hr' =>
      have hxc : x ∈ g.cov.get r :=
        cov_of_reach hg ((up_iff_down hg r x).mp (Reach.step hm hmr)) hr.1.1
      have : m' = m := eq_of_mem_le_one (hr.2 x hxc) hm' hm
      subst this
      exact ih hr y hr'

theorem inTree_up (hg : Good g) {x v : Nat} (hx : InTree g x) (hv : Reach g.derived.get v x) : InTree g v := by
  obtain ⟨r, hr, hrx⟩ := hx
  refine ⟨r, hr, ?_⟩
  exact (up_iff_down hg r v).mp (anc_on_chain hg hr ((up_iff_down hg r x).mpr hrx) v ((up_iff_down hg v x).mpr hv))

theorem inTree_down {x v : Nat} (hv : InTree g v) (hx : Reach g.derived.get v x) : InTree g x := by
  obtain ⟨r, hr, hrv⟩ := hv
  exact ⟨r, hr, hrv.trans hx⟩

theorem inTree_direct_le (hg : Good g) {x : Nat} (hx : InTree g x) : (g.direct.get x).length ≤ 1 := by
  obtain ⟨r, hr, hrx⟩ := hx
  exact hr.2 x (cov_of_reach hg hrx hr.1.1)

/-- a class of a tree is below one root only -/
theorem root_unique (hg : Good g) {r r' x : Nat} (hr : TreeRoot g r) (hr' : IsRoot g r')
    (hx : Reach g.derived.get r x) (hx' : Reach g.derived.get r' x) : r' = r := by
  have := anc_on_chain hg hr ((up_iff_down hg r x).mpr hx) r' ((up_iff_down hg r' x).mpr hx')
  cases this with
  | refl => rfl
  | step hm _ => rw [hr'.2] at hm; cases hm

/-- nothing below a lattice root is in a tree -/
theorem not_inTree_below_lattice (hg : Good g) {r x : Nat} (hr : IsRoot g r) (hnt : ¬ TreeRoot g r)
    (hx : Reach g.derived.get r x) : ¬ InTree g x := by
  rintro ⟨r', hr', hx'⟩
  have := root_unique hg hr' hr hx' hx
  subst this
  exact hnt hr'

/-- two ancestors of a class of a tree are comparable -/
theorem comparable (hg : Good g) {x a b : Nat} (hx : InTree g x)
    (ha : Reach g.derived.get a x) (hb : Reach g.derived.get b x) :
    Reach g.derived.get a b ∨ Reach g.derived.get b a := by
  have key : ∀ x, (∀ y, Reach g.direct.get x y → (g.direct.get y).length ≤ 1) →
      ∀ a, Reach g.direct.get x a → ∀ b, Reach g.direct.get x b → Reach g.direct.get a b ∨ Reach g.direct.get b a := by
    intro x hall a hxa
    induction hxa with
    | refl => intro b hb; exact Or.inl hb
    | @step x m a hm hma ih =>
      intro b hb
      cases hb with
      | refl => exact Or.inr (Reach.step hm hma)
      | @step _ m' _ hm' hb' =>
        have : m' = m := eq_of_mem_le_one (hall x (Reach.refl _)) hm' hm
        subst this
        exact ih (fun y hy => hall y (Reach.step hm hy)) b hb'
  have hall : ∀ y, Reach g.direct.get x y → (g.direct.get y).length ≤ 1 := by
    intro y hy
    exact inTree_direct_le hg (inTree_up hg hx ((up_iff_down hg y x).mp hy))
  rcases key x hall a ((up_iff_down hg a x).mpr ha) b ((up_iff_down hg b x).mpr hb) with h | h
  · exact Or.inr ((up_iff_down hg b a).mp h)
  · exact Or.inl ((up_iff_down hg a b).mp h)

/-- the direct base of a class directly derived from a tree class -/
theorem direct_of_child (hg : Good g) {c d : Nat} (hd : d ∈ g.derived.get c) (ht : InTree g d) :
    g.direct.get d = [c] := by
  have hmem := (hg.derived_iff c d).mp hd
  have hle := inTree_direct_le hg ht
  match hl : g.direct.get d, hle, hmem with
  | [], _, hm => rw [hl] at hmem; cases hmem
  | [x], _, hm => rw [hl] at hmem; simp at hmem; rw [hmem]

/-- every class has a root above it -/
theorem root_above (hg : Good g) : ∀ x, x < g.n → ∃ r, IsRoot g r ∧ Reach g.derived.get r x := by
  obtain ⟨h, hh, hb⟩ := hg.ranked
  have key : ∀ k x, g.fuel - h x ≤ k → x < g.n → ∃ r, IsRoot g r ∧ Reach g.derived.get r x := by
    intro k
    induction k with
    | zero => intro x hk _; have := hb x; omega
    | succ k ih =>
      intro x hk hx
      cases hd : g.direct.get x with
      | nil => exact ⟨x, ⟨hx, hd⟩, Reach.refl _⟩
      | cons b rest =>
        have hbx : x ∈ g.derived.get b := (hg.derived_iff b x).mpr (by rw [hd]; simp)
        have := hh b x hbx
        have hbn := (hg.derived_lt b x hbx).1
        obtain ⟨r, hr, hrb⟩ := ih b (by have := hb b; omega) hbn
        exact ⟨r, hr, hrb.trans (Reach.single hbx)⟩
  intro x hx
  exact key _ x (Nat.le_refl _) hx

end Yomm2.TreeFacts
