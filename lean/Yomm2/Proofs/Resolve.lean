import Yomm2.Proofs.Bridge
/-!
# `augment_methods`: the compiled methods match the registered ones
-/
namespace Yomm2.Resolve
open Yomm2 Yomm2.Spec Yomm2.Heads Yomm2.Bridge

theorem resolveDefs_matches (c : Ctx) (arity : Nat) : ∀ (defs : List DefRec) (specs : List (Nat × List Nat)),
    resolveDefs c.proj (heads c.proj c.reg.classes) arity defs = .ok specs →
    Forall₂ (fun (sp : Nat × List Nat) (df : DefRec) => sp.1 = df.id ∧ Names c sp.2 df.vp) specs defs ∧
    ∀ df ∈ defs, df.vp.length = arity
  | [], specs, h => by
    simp [resolveDefs] at h; cases h
    exact ⟨Forall₂.nil, by simp⟩
  | d :: ds, specs, h => by
    simp only [resolveDefs] at h
    cases hvp : resolveIds c.proj (heads c.proj c.reg.classes) d.vp with
    | error e => simp [hvp, bind, Except.bind] at h
    | ok vp =>
      simp only [hvp, bind, Except.bind] at h
      split at h
      · cases h
      · rename_i hlen
        cases hr : resolveDefs c.proj (heads c.proj c.reg.classes) arity ds with
        | error e => simp [hr] at h
        | ok rest =>
          simp only [hr] at h
          cases h
          obtain ⟨i1, i2⟩ := resolveDefs_matches c arity ds rest hr
          have hn := resolveIds_names c d.vp vp hvp
          refine ⟨Forall₂.cons ⟨rfl, hn⟩ i1, ?_⟩
          intro df hdf
          rcases List.mem_cons.mp hdf with rfl | hdf
          · have := names_length c hn
            simp only [ne_eq, Decidable.not_not] at hlen
            omega
          · exact i2 df hdf

theorem resolveMethods_matches (c : Ctx) : ∀ (mrs : List MethodRec) (ms : List MethodC),
    resolveMethods c.proj (heads c.proj c.reg.classes) mrs = .ok ms →
    Forall₂ (fun m mr => MethodMatches c m mr ∧ m.shape = mr.shape ∧ m.key = mr.key) ms mrs
  | [], ms, h => by simp [resolveMethods] at h; cases h; exact Forall₂.nil
  | mr :: mrs, ms, h => by
    simp only [resolveMethods] at h
    cases hvp : resolveIds c.proj (heads c.proj c.reg.classes) mr.vp with
    | error e => simp [hvp, bind, Except.bind] at h
    | ok vp =>
      simp only [hvp, bind, Except.bind] at h
      cases hsp : resolveDefs c.proj (heads c.proj c.reg.classes) vp.length mr.defs with
      | error e => simp [hsp] at h
      | ok specs =>
        simp only [hsp] at h
        cases hr : resolveMethods c.proj (heads c.proj c.reg.classes) mrs with
        | error e => simp [hr] at h
        | ok rest =>
          simp only [hr] at h
          cases h
          have hn := resolveIds_names c mr.vp vp hvp
          obtain ⟨i1, i2⟩ := resolveDefs_matches c vp.length mr.defs specs hsp
          refine Forall₂.cons ⟨⟨hn, i1, ?_⟩, rfl, rfl⟩ (resolveMethods_matches c mrs rest hr)
          intro df hdf
          rw [i2 df hdf]
          exact names_length c hn

end Yomm2.Resolve
