import Yomm2.Model.Dispatch
import Yomm2.SpecExec
/-!
# `is_more_specific` and `is_base` compute the documented relations

`der x y` stands for "x ∈ covariant_classes(y)", i.e. x derives from y (reflexively). Under
antisymmetry of `der` (no inheritance cycles) the loops with their early `return false` compute the
position-wise formulas of the specification.
-/
namespace Yomm2.Specificity
open Yomm2 Yomm2.Spec

/-- the formula: nowhere is `b`'s class a proper descendant of `a`'s, and (`r` or) somewhere `a`'s class
    is a proper descendant of `b`'s -/
def msFormula (der : Nat → Nat → Bool) (a b : List Nat) (r : Bool) : Bool :=
  all₂ (fun x y => !(der y x && y != x)) a b && (r || any₂ (fun x y => der x y && x != y) a b)

theorem go_eq_formula (der : Nat → Nat → Bool) (anti : ∀ x y, der x y = true → der y x = true → x = y) :
    ∀ (a b : List Nat) (r : Bool), a.length = b.length → isMoreSpecificGo der a b r = msFormula der a b r
  | [], [], r, _ => by simp [isMoreSpecificGo, msFormula, all₂, any₂]
  | [], _ :: _, _, h => by simp at h
  | _ :: _, [], _, h => by simp at h
  | x :: xs, y :: ys, r, h => by
    have hl : xs.length = ys.length := by simpa using h
    simp only [isMoreSpecificGo, msFormula, all₂, any₂]
    by_cases hxy : x = y
    · subst hxy
      simp only [ne_eq, not_true_eq_false, if_false, bne_self_eq_false, Bool.and_false, Bool.not_false,
        Bool.true_and, Bool.false_or]
      rw [go_eq_formula der anti xs ys r hl]
      rfl
    · have hne : (x != y) = true := by simp [hxy]
      have hyx' : ¬ y = x := fun e => hxy e.symm
      have hne' : (y != x) = true := by simp [hyx']
      simp only [ne_eq, hxy, not_false_eq_true, if_true, hne, hne', Bool.and_true]
      cases hd : der x y with
      | true =>
        -- then `y` does not derive from `x` (antisymmetry)
        have hyx : der y x = false := by
          cases hyx : der y x with
          | false => rfl
          | true => exact absurd (anti x y hd hyx) hxy
        simp only [if_true, hyx, Bool.not_false, Bool.true_and, Bool.true_or, Bool.or_true]
        rw [go_eq_formula der anti xs ys true hl]
        simp [msFormula]
      | false =>
        cases hyx : der y x with
        | true => simp
        | false =>
          simp only [Bool.false_eq_true, if_false, Bool.not_false, Bool.true_and, Bool.false_or]
          rw [go_eq_formula der anti xs ys r hl]
          rfl

theorem isMoreSpecific_eq (der : Nat → Nat → Bool) (anti : ∀ x y, der x y = true → der y x = true → x = y)
    (a b : List Nat) (h : a.length = b.length) :
    isMoreSpecific der a b =
      (all₂ (fun x y => !(der y x && y != x)) a b && any₂ (fun x y => der x y && x != y) a b) := by
  unfold isMoreSpecific
  rw [go_eq_formula der anti a b false h]
  simp [msFormula]

/-- `is_base(a, b)`: `a`'s class is a base of (or equal to) `b`'s everywhere, and differs somewhere -/
def baseFormula (der : Nat → Nat → Bool) (a b : List Nat) (r : Bool) : Bool :=
  all₂ (fun x y => x == y || der y x) a b && (r || any₂ (fun x y => x != y) a b)

theorem baseGo_eq_formula (der : Nat → Nat → Bool) :
    ∀ (a b : List Nat) (r : Bool), a.length = b.length → isBaseGo der a b r = baseFormula der a b r
  | [], [], r, _ => by simp [isBaseGo, baseFormula, all₂, any₂]
  | [], _ :: _, _, h => by simp at h
  | _ :: _, [], _, h => by simp at h
  | x :: xs, y :: ys, r, h => by
    have hl : xs.length = ys.length := by simpa using h
    simp only [isBaseGo, baseFormula, all₂, any₂]
    by_cases hxy : x = y
    · subst hxy
      simp only [ne_eq, not_true_eq_false, if_false, beq_self_eq_true, Bool.true_or, Bool.true_and,
        bne_self_eq_false, Bool.false_or]
      rw [baseGo_eq_formula der xs ys r hl]
      rfl
    · have hne : (x != y) = true := by simp [hxy]
      have hbeq : (x == y) = false := by simp [hxy]
      simp only [ne_eq, hxy, not_false_eq_true, if_true, hne, hbeq, Bool.false_or, Bool.true_or, Bool.or_true]
      cases hd : der y x with
      | true =>
        simp only [if_true, Bool.true_and]
        rw [baseGo_eq_formula der xs ys true hl]
        simp [baseFormula]
      | false => simp

theorem isBase_eq (der : Nat → Nat → Bool) (a b : List Nat) (h : a.length = b.length) :
    isBase der a b = (all₂ (fun x y => x == y || der y x) a b && any₂ (fun x y => x != y) a b) := by
  unfold isBase
  rw [baseGo_eq_formula der a b false h]
  simp [baseFormula]

end Yomm2.Specificity
