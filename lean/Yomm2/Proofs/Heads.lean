import Yomm2.Model.Classes
/-!
# The first loop of `augment_classes`: one class per `type_index`
-/
namespace Yomm2.Heads
open Yomm2

def keysOf (hs : List Head) : List Nat := hs.map (·.key)

theorem keys_addRec (proj : Nat → Nat) (acc : List Head) (r : ClassRec) :
    keysOf (addRec proj acc r) =
      if proj r.id ∈ keysOf acc then keysOf acc else keysOf acc ++ [proj r.id] := by
  unfold addRec keysOf
  by_cases h : (acc.any fun h => h.key == proj r.id) = true
  · have hm : proj r.id ∈ acc.map (·.key) := by
      obtain ⟨h0, hm, hk⟩ := List.any_eq_true.mp h
      exact List.mem_map.mpr ⟨h0, hm, by simpa using hk⟩
    simp only [h, if_true, hm]
    rw [List.map_map]
    apply List.map_congr_left
    intro a _
    simp only [Function.comp]
    split <;> rfl
  · have hm : proj r.id ∉ acc.map (·.key) := by
      intro hm
      obtain ⟨h0, hm0, hk⟩ := List.mem_map.mp hm
      exact h (List.any_eq_true.mpr ⟨h0, hm0, by simpa using hk⟩)
    simp [h, hm]

theorem keys_nodup_addRec (proj : Nat → Nat) (acc : List Head) (r : ClassRec) (h : (keysOf acc).Nodup) :
    (keysOf (addRec proj acc r)).Nodup := by
  rw [keys_addRec]
  split
  · exact h
  · rename_i hn
    rw [List.nodup_append]
    exact ⟨h, by simp, fun a ha b hb => by simp at hb; subst hb; exact fun e => hn (e ▸ ha)⟩

theorem mem_keys_addRec (proj : Nat → Nat) (acc : List Head) (r : ClassRec) (k : Nat) :
    k ∈ keysOf (addRec proj acc r) ↔ k ∈ keysOf acc ∨ k = proj r.id := by
  rw [keys_addRec]
  split
  · rename_i hm
    constructor
    · exact Or.inl
    · rintro (h | rfl)
      · exact h
      · exact hm
  · simp

theorem foldl_addRec_keys (proj : Nat → Nat) (recs : List ClassRec) (acc : List Head) (h : (keysOf acc).Nodup) :
    (keysOf (recs.foldl (addRec proj) acc)).Nodup ∧
    ∀ k, k ∈ keysOf (recs.foldl (addRec proj) acc) ↔ k ∈ keysOf acc ∨ ∃ r ∈ recs, proj r.id = k := by
  induction recs generalizing acc with
  | nil => simp [h]
  | cons r rs ih =>
    simp only [List.foldl_cons]
    obtain ⟨h1, h2⟩ := ih (addRec proj acc r) (keys_nodup_addRec proj acc r h)
    refine ⟨h1, ?_⟩
    intro k
    rw [h2, mem_keys_addRec]
    simp only [List.mem_cons, exists_eq_or_imp]
    constructor
    · rintro ((h | h) | h)
      · exact Or.inl h
      · exact Or.inr (Or.inl h.symm)
      · exact Or.inr (Or.inr h)
    · rintro (h | h | h)
      · exact Or.inl (Or.inl h)
      · exact Or.inl (Or.inr h.symm)
      · exact Or.inr h

theorem heads_keys (proj : Nat → Nat) (recs : List ClassRec) :
    (keysOf (heads proj recs)).Nodup ∧ ∀ k, k ∈ keysOf (heads proj recs) ↔ ∃ r ∈ recs, proj r.id = k := by
  have := foldl_addRec_keys proj recs [] (by simp [keysOf])
  refine ⟨this.1, fun k => ?_⟩
  rw [heads, this.2]
  simp [keysOf]

/-- `class_map[type_index]`: the class index of a key -/
theorem classIdx_some {hs : List Head} {k i : Nat} (h : classIdx hs k = some i) :
    (keysOf hs)[i]? = some k := by
  unfold classIdx at h
  obtain ⟨hlt, hp, _⟩ := List.findIdx?_eq_some_iff_getElem.mp h
  unfold keysOf
  rw [List.getElem?_map, List.getElem?_eq_getElem hlt]
  simpa using hp

theorem classIdx_of_get {hs : List Head} (hnd : (keysOf hs).Nodup) {k i : Nat} (h : (keysOf hs)[i]? = some k) :
    classIdx hs k = some i := by
  unfold classIdx
  have hlt : i < hs.length := by
    have := (List.getElem?_eq_some_iff.mp h).1
    simpa [keysOf] using this
  rw [List.findIdx?_eq_some_iff_getElem]
  refine ⟨hlt, ?_, ?_⟩
  · have := (List.getElem?_eq_some_iff.mp h).2
    simpa [keysOf] using this
  · intro j hji hp
    have hjl : j < hs.length := Nat.lt_trans hji hlt
    have hkj : (keysOf hs)[j]? = some k := by
      unfold keysOf
      rw [List.getElem?_map, List.getElem?_eq_getElem hjl]
      simpa using hp
    -- two positions with the same key
    have e1 := List.getElem?_eq_some_iff.mp h
    have e2 := List.getElem?_eq_some_iff.mp hkj
    have : j = i := (List.getElem_inj hnd).mp (e2.2.trans e1.2.symm)
    omega

theorem classIdx_iff {hs : List Head} (hnd : (keysOf hs).Nodup) (k i : Nat) :
    classIdx hs k = some i ↔ (keysOf hs)[i]? = some k :=
  ⟨classIdx_some, classIdx_of_get hnd⟩

theorem classIdx_none {hs : List Head} {k : Nat} : classIdx hs k = none ↔ k ∉ keysOf hs := by
  unfold classIdx keysOf
  rw [List.findIdx?_eq_none_iff]
  constructor
  · intro h hm
    obtain ⟨h0, hm0, hk⟩ := List.mem_map.mp hm
    have := h h0 hm0
    simp [hk] at this
  · intro h x hx
    cases hb : (x.key == k) with
    | false => rfl
    | true => exact absurd (List.mem_map.mpr ⟨x, hx, by simpa using hb⟩) h

theorem classIdx_lt {hs : List Head} {k i : Nat} (h : classIdx hs k = some i) : i < hs.length := by
  have := (List.getElem?_eq_some_iff.mp (classIdx_some h)).1
  simpa [keysOf] using this

theorem classIdx_inj {hs : List Head} {k k' i : Nat} (h : classIdx hs k = some i) (h' : classIdx hs k' = some i) :
    k = k' := by
  have a := classIdx_some h
  have b := classIdx_some h'
  rw [a] at b
  exact Option.some.inj b

end Yomm2.Heads
