import Yomm2.Generated.HashSrc
/-!
# `hash_type_id`, plain and checked, as translated on this run, compute the model's `hashIdx` / `checkedIdx`
-/
namespace Yomm2.Proofs.SrcHash
open Yomm2 Yomm2.HashL Yomm2.Generated

theorem toNat_ofNat_lt (n : Nat) (h : n < 2 ^ 64) : (UInt64.ofNat n).toNat = n := by
  simp [UInt64.toNat_ofNat', Nat.mod_eq_of_lt h]

/-- the plain hash: `(hash_mult * type) >> hash_shift`, as in the model -/
theorem fast_src (st : HashSt) (control : Array UInt64) (fastE : E) (id : UInt64) (vars : List (String × UInt64))
    (d : Nat) (hs : st.shift < 64) :
    evalE { st, control, fast := fastE, param := id } vars d HashSrc.fast =
      .ok ((st.mult * id) >>> UInt64.ofNat st.shift) := by
  have h64 : (UInt64.ofNat st.shift).toNat < 64 := by
    rw [toNat_ofNat_lt _ (by omega)]; exact hs
  have hmod : st.shift % 18446744073709551616 < 64 := by
    rw [Nat.mod_eq_of_lt (by omega)]; exact hs
  unfold HashSrc.fast
  simp [evalE, hmod]

theorem fast_src_is_hashIdx (st : HashSt) (control : Array UInt64) (fastE : E) (id : UInt64) (hs : st.shift < 64) :
    ∃ v, evalE { st, control, fast := fastE, param := id } [] 2 HashSrc.fast = .ok v ∧
      v.toNat = hashIdx st.mult st.shift id :=
  ⟨_, fast_src st control fastE id [] 2 hs, rfl⟩

/-- **the checked lookup as it stands in the header**: returns the index exactly when the model's `checkedIdx`
    does, and otherwise hands `unknown_class(type)` to the error handler; it never subscripts `control` outside
    its size (which `hash_initialize` makes `hash_length`) -/
theorem checked_src (st : HashSt) (control : Array UInt64) (id : UInt64) (hs : st.shift < 64)
    (hl : st.length < 2 ^ 64) (hc : control.size = st.length) :
    run st control HashSrc.fast HashSrc.checked id =
      match checkedIdx st control id with
      | some i => .returned (UInt64.ofNat i)
      | none => .reported id := by
  have hf : ∀ vars d, evalE { st, control, fast := HashSrc.fast, param := id } vars d HashSrc.fast =
      .ok ((st.mult * id) >>> UInt64.ofNat st.shift) := fun vars d => fast_src st control HashSrc.fast id vars d hs
  unfold run HashSrc.checked checkedIdx hashIdx
  generalize hidx : (st.mult * id) >>> UInt64.ofNat st.shift = idx at hf
  have hfast : evalE { st, control, fast := HashSrc.fast, param := id } [] 2 (.fastHash .param) = .ok idx := by
    simp only [evalE]
    exact hf [] 1
  have hofnat : UInt64.ofNat idx.toNat = idx := by simp
  by_cases hge : idx.toNat ≥ st.length
  · have hge' : idx ≥ UInt64.ofNat st.length := by
      rw [ge_iff_le, UInt64.le_iff_toNat_le, toNat_ofNat_lt _ hl]; exact hge
    simp [exec, evalB, evalE, hfast, lookup, hge, hge']
  · have hlt : idx.toNat < st.length := by omega
    have hge' : ¬ idx ≥ UInt64.ofNat st.length := by
      rw [ge_iff_le, UInt64.le_iff_toNat_le, toNat_ofNat_lt _ hl]; omega
    have hin : idx.toNat < control.size := by omega
    have hget : control[idx.toNat]? = some control[idx.toNat] := Array.getElem?_eq_getElem hin
    by_cases heq : control[idx.toNat] = id
    · simp [exec, evalB, evalE, hfast, lookup, hge, hge', hget, heq, hofnat]
    · have hne : ¬ (control[idx.toNat] == id) = true := by simpa using heq
      simp [exec, evalB, evalE, hfast, lookup, hge, hge', hget, heq]

end Yomm2.Proofs.SrcHash
