import Yomm2.Proofs.SlotsExcl
import Yomm2.Proofs.VtblContent
/-!
# The slots of a compiled registry are exclusive, hence its v-tables hold what the walk expects
-/
namespace Yomm2.CompileSlots
open Yomm2 Yomm2.Heads Yomm2.GraphProofs Yomm2.GraphFacts Yomm2.UsedBy Yomm2.SlotsExcl Yomm2.VtblContent Yomm2.Cells

theorem resolveIds_lt (proj : Nat → Nat) (hs : List Head) : ∀ (ts idxs : List Nat),
    resolveIds proj hs ts = .ok idxs → ∀ i ∈ idxs, i < hs.length
  | [], idxs, h, i, hi => by simp [resolveIds] at h; cases h; cases hi
  | t :: ts, idxs, h, i, hi => by
    simp only [resolveIds] at h
    cases hc : classIdx hs (proj t) with
    | none => simp [hc] at h
    | some c =>
      simp only [hc] at h
      cases hr : resolveIds proj hs ts with
      | error e => simp [hr, bind, Except.bind] at h
      | ok rest =>
        simp only [hr, bind, Except.bind] at h
        cases h
        rcases List.mem_cons.mp hi with rfl | hi
        · exact classIdx_lt hc
        · exact resolveIds_lt proj hs ts rest hr i hi

theorem resolveMethods_vp_lt (proj : Nat → Nat) (hs : List Head) : ∀ (mrs : List MethodRec) (ms : List MethodC),
    resolveMethods proj hs mrs = .ok ms → ∀ m ∈ ms, ∀ v ∈ m.vp, v < hs.length
  | [], ms, h, m, hm, _, _ => by simp [resolveMethods] at h; cases h; cases hm
  | mr :: mrs, ms, h, m, hm, v, hv => by
    simp only [resolveMethods] at h
    cases hvp : resolveIds proj hs mr.vp with
    | error e => simp [hvp, bind, Except.bind] at h
    | ok vp =>
      simp only [hvp, bind, Except.bind] at h
      cases hsp : resolveDefs proj hs vp.length mr.defs with
      | error e => simp [hsp] at h
      | ok specs =>
        simp only [hsp] at h
        cases hr : resolveMethods proj hs mrs with
        | error e => simp [hr] at h
        | ok rest =>
          simp only [hr] at h
          cases h
          rcases List.mem_cons.mp hm with rfl | hm
          · exact resolveIds_lt proj hs mr.vp vp hvp v hv
          · exact resolveMethods_vp_lt proj hs mrs rest hr m hm v hv

/-- **the slots `update` assigns are exclusive**, for every registry without inheritance cycles -/
theorem compile_slots_exclusive (proj : Nat → Nat) (reg : Registry) (c : Compiled)
    (hc : compile proj reg = .ok c) (hwf : WF proj reg.classes reg.methods) : SlotsExclusive c := by
  obtain ⟨hg, hms, hslots, _, _⟩ := compile_fields proj reg c hc
  have hgood := good_of_buildGraph proj reg.classes reg.methods c.graph hg hwf
  obtain ⟨_, hn, hheads, _⟩ := buildGraph_fields proj reg.classes c.graph hg
  intro mi mi' p p' m m' v v' ci hm hm' hv hv' hci hci' heq
  have hlt : ∀ (mi p : Nat) (m : MethodC) (v : Nat), c.methods[mi]? = some m → m.vp[p]? = some v → v < c.graph.n := by
    intro mi p m v hm hv
    have := resolveMethods_vp_lt proj c.graph.heads reg.methods c.methods hms m (List.mem_of_getElem? hm) v
      (List.mem_of_getElem? hv)
    rw [hn, ← hheads]; exact this
  have hpc : paramClass c.methods (mi, p) = some v := by simp [paramClass, hm, hv]
  have hpc' : paramClass c.methods (mi', p') = some v' := by simp [paramClass, hm', hv']
  rw [hslots] at heq
  have := assignSlots_exclusive c.methods hgood (mi, p) (mi', p') v v' ci hpc hpc'
    (hlt mi p m v hm hv) (hlt mi' p' m' v' hm' hv') hci hci' heq
  injection this with h1 h2
  exact ⟨h1, h2⟩

/-- **v-table content, unconditionally**: after `update` on a registry without inheritance cycles, the
    v-table of every class acceptable for a virtual parameter holds, at the method's slot for that
    parameter, the class's group index -/
theorem vtbl_entry (proj : Nat → Nat) (reg : Registry) (c : Compiled) (hc : compile proj reg = .ok c)
    (hwf : WF proj reg.classes reg.methods) (mi : Nat) (m : MethodC) (hm : c.methods[mi]? = some m)
    (p v ci gi : Nat) (hv : m.vp[p]? = some v) (hloc : Located c.graph m p v ci gi) :
    ∃ row, c.vtbl[ci]? = some row ∧ c.slots.first.get ci ≤ c.slots.slots (mi, p) ∧
      row[c.slots.slots (mi, p) - c.slots.first.get ci]? = some ⟨mi, p, gi⟩ :=
  VtblContent.vtbl_entry proj reg c hc (compile_slots_exclusive proj reg c hc hwf) mi m hm p v ci gi hv hloc

end Yomm2.CompileSlots
