import Yomm2.Generated.StaticListSrc
/-!
# The text of `static_list.hpp`, as translated on this run, computes the hand-written model

`Generated.StaticListSrc.push_back / remove / clear` are the bodies clang parsed from the header, mapped
construct by construct to `Mini.Stmt` by `tools/cpp2lean.py`. Each theorem below says what running such a
body (`Mini.run`, i.e. `Mini.exec`) leaves behind: exactly `SList.pushBack / remove / clear` of
`Model/StaticList.lean`, or a null-pointer fault in precisely the states in which the hand-written model
takes its "unreachable" branch. They are re-checked against the regenerated terms on every run.
-/
namespace Yomm2.Proofs.SrcStaticList
open Yomm2 Yomm2.Mini Yomm2.Generated

theorem push_back_src (fuel : Nat) (l : SList) (n : Nat) (hu : l.links n = {}) :
    run fuel StaticListSrc.push_back l [("node", some n)] =
      match l.first with
      | none => .done (l.pushBack n)
      | some f =>
        match (l.links f).prev with
        | none => .fault "null pointer dereferenced"
        | some _ => .done (l.pushBack n) := by
  have hu' : l.heap.get n = {} := hu
  unfold run StaticListSrc.push_back SList.pushBack
  cases hf : l.first with
  | none =>
    simp [exec, evalB, evalP, lookupVar, bindVar, getFld, putFld, hu', hf, SList.setPrev, SList.links]
  | some f =>
    cases hp : (l.links f).prev with
    | none =>
      have hp' : (l.heap.get f).prev = none := hp
      simp [exec, evalB, evalP, lookupVar, bindVar, getFld, putFld, hu', hf, hp', SList.links]
    | some last =>
      have hp' : (l.heap.get f).prev = some last := hp
      simp [exec, evalB, evalP, lookupVar, bindVar, getFld, putFld, hu', hf, hp', SList.setPrev, SList.setNext, SList.links]


def nullDeref : String := "null pointer dereferenced"

theorem remove_src (fuel : Nat) (l : SList) (n : Nat) :
    run fuel StaticListSrc.remove l [("node", some n)] =
      match l.first with
      | none => .assertFailed
      | some f =>
        if some n = (l.links f).prev then
          if n = f then .done (l.remove n)
          else match (l.links n).prev with
            | some _ => .done (l.remove n)
            | none => .fault nullDeref
        else if n = f then
          match (l.links n).next with
          | some _ => .done (l.remove n)
          | none => .fault nullDeref
        else
          match (l.links n).prev, (l.links n).next with
          | some _, some _ => .done (l.remove n)
          | _, _ => .fault nullDeref := by
  unfold run StaticListSrc.remove SList.remove nullDeref
  cases hf : l.first with
  | none => simp [exec, evalB, evalP, hf]
  | some f =>
    by_cases h1 : some n = (l.links f).prev
    · have h1' : (l.heap.get f).prev = some n := h1.symm
      by_cases h2 : n = f
      · subst h2
        simp [exec, evalB, evalP, lookupVar, bindVar, getFld, putFld, hf, h1', SList.setPrev, SList.setNext,
          SList.links, Tab.set_set_same]
      · cases hp : (l.links n).prev with
        | none =>
          have hp' : (l.heap.get n).prev = none := hp
          simp [exec, evalB, evalP, lookupVar, bindVar, getFld, putFld, hf, h1', h2, hp', SList.setPrev, SList.setNext,
            SList.links, Tab.set_set_same]
        | some p =>
          have hp' : (l.heap.get n).prev = some p := hp
          simp [exec, evalB, evalP, lookupVar, bindVar, getFld, putFld, hf, h1', h2, hp', SList.setPrev, SList.setNext,
            SList.links, Tab.set_set_same]
    · have h1' : ¬ (l.heap.get f).prev = some n := fun e => h1 e.symm
      have h1'' : ¬ some n = (l.heap.get f).prev := h1
      by_cases h2 : n = f
      · subst h2
        cases hx : (l.links n).next with
        | none =>
          have hx' : (l.heap.get n).next = none := hx
          simp [exec, evalB, evalP, lookupVar, bindVar, getFld, putFld, hf, h1', h1'', hx', SList.setPrev, SList.setNext,
            SList.links, Tab.set_set_same]
        | some nx =>
          have hx' : (l.heap.get n).next = some nx := hx
          simp [exec, evalB, evalP, lookupVar, bindVar, getFld, putFld, hf, h1', h1'', hx', SList.setPrev, SList.setNext,
            SList.links, Tab.set_set_same]
      · cases hp : (l.links n).prev with
        | none =>
          have hp' : (l.heap.get n).prev = none := hp
          simp [exec, evalB, evalP, lookupVar, bindVar, getFld, putFld, hf, h1', h1'', h2, hp', SList.setPrev, SList.setNext,
            SList.links, Tab.set_set_same]
        | some p =>
          have hp' : (l.heap.get n).prev = some p := hp
          cases hx : (l.links n).next with
          | none =>
            have hx' : (l.heap.get n).next = none := hx
            simp [exec, evalB, evalP, lookupVar, bindVar, getFld, putFld, hf, h1', h1'', h2, hp', hx', SList.setPrev,
              SList.setNext, SList.links, Tab.set_set_same]
          | some nx =>
            have hx' : (l.heap.get n).next = some nx := hx
            simp [exec, evalB, evalP, lookupVar, bindVar, getFld, putFld, hf, h1', h1'', h2, hp', hx', SList.setPrev,
              SList.setNext, SList.links, Tab.set_set_same]


/-! ### `clear()`: the `while (next)` loop -/

theorem lookupVar_bindVar_same (env : List (String × Option Nat)) (x : String) (v : Option Nat) :
    lookupVar (bindVar env x v) x = some v := by
  induction env with
  | nil => simp [bindVar, lookupVar]
  | cons e rest ih =>
    obtain ⟨y, w⟩ := e
    by_cases h : x = y
    · simp [bindVar, lookupVar, h]
    · simp [bindVar, lookupVar, h, ih]

theorem lookupVar_bindVar_other (env : List (String × Option Nat)) (x y : String) (v : Option Nat) (h : y ≠ x) :
    lookupVar (bindVar env x v) y = lookupVar env y := by
  induction env with
  | nil => simp [bindVar, lookupVar, h]
  | cons e rest ih =>
    obtain ⟨z, w⟩ := e
    by_cases hx : x = z
    · subst hx; simp [bindVar, lookupVar, h]
    · by_cases hy : y = z
      · simp [bindVar, lookupVar, hx, hy]
      · simp [bindVar, lookupVar, hx, hy, ih]

/-- the loop of `clear`, as translated -/
def clearLoop : Stmt :=
  (.while (.truthy (.var "next")) (.seq (.setVar "cur" (.var "next")) (.seq (.setVar "next" ((.fld (.var "cur") .next)))
    (.seq (.setFld (.var "cur") .prev (.null)) (.setFld (.var "cur") .next (.null))))))

/-- whatever the loop returns normally is what the model's `clearGo` computes, with the same fuel; it
    never faults and never fails an assertion -/
theorem clearLoop_spec : ∀ (fuel : Nat) (st : St) (nx : Option Nat), lookupVar st.env "next" = some nx →
    (∃ st', exec fuel clearLoop st = .normal st' ∧ st'.list = st.list.clearGo fuel nx) ∨
    exec fuel clearLoop st = .outOfFuel
  | 0, st, nx, _ => by right; simp [clearLoop, exec]
  | fuel + 1, st, none, h => by
    left
    refine ⟨st, ?_, ?_⟩
    · simp [clearLoop, exec, evalB, evalP, h]
    · simp [SList.clearGo]
  | fuel + 1, st, some n, h => by
    have hc : lookupVar (bindVar st.env "cur" (some n)) "cur" = some (some n) := lookupVar_bindVar_same _ _ _
    have hc2 : lookupVar (bindVar (bindVar st.env "cur" (some n)) "next" (st.list.links n).next) "cur" = some (some n) := by
      rw [lookupVar_bindVar_other _ _ _ _ (by decide)]; exact hc
    have hn2 : lookupVar (bindVar (bindVar st.env "cur" (some n)) "next" (st.list.links n).next) "next" =
        some (st.list.links n).next := lookupVar_bindVar_same _ _ _
    let st1 : St := { env := bindVar (bindVar st.env "cur" (some n)) "next" (st.list.links n).next,
                      list := (st.list.setPrev n none).setNext n none }
    have hbody : exec (fuel + 1) clearLoop st = exec fuel clearLoop st1 := by
      conv => lhs; unfold clearLoop
      simp [exec, evalB, evalP, h, hc, hc2, getFld, putFld, st1]
      rfl
    rcases clearLoop_spec fuel st1 (st.list.links n).next hn2 with ⟨st', h1, h2⟩ | h1
    · left
      refine ⟨st', by rw [hbody]; exact h1, ?_⟩
      rw [h2]; simp [SList.clearGo, st1]
    · right; rw [hbody]; exact h1

theorem clear_src (fuel : Nat) (l : SList) :
    run fuel StaticListSrc.clear l [] = .done (l.clear fuel) ∨ run fuel StaticListSrc.clear l [] = .outOfFuel := by
  have hb : ∀ st : St, exec fuel StaticListSrc.clear st =
      exec fuel clearLoop { env := bindVar st.env "next" st.list.first, list := { st.list with first := none } } := by
    intro st
    conv => lhs; unfold StaticListSrc.clear
    simp [exec, evalP]
    rfl
  unfold run
  rw [hb]
  rcases clearLoop_spec fuel { env := bindVar [] "next" l.first, list := { l with first := none } } l.first
    (lookupVar_bindVar_same _ _ _) with ⟨st', h1, h2⟩ | h1
  · left; rw [h1]; simp [h2, SList.clear]
  · right; rw [h1]

end Yomm2.Proofs.SrcStaticList
