import Yomm2.Model.World
import Yomm2.Props.C05b
/-!
# `publish_vptrs`: after a successful update every registered id leads to its class's v-table pointer

For each flavour of `vptrs` (plain vector indexed by the id, vector indexed by the perfect hash,
with or without the control words of the checked hash, and the map): looking up an id registered
for class `ci` returns the entry the latest update wrote for `ci`.
-/
namespace Yomm2.Publish
open Yomm2

/-! ## sequences of array writes: the last write to a cell wins -/

theorem foldl_set_get {α β} (f : β → Nat) (g : β → α) : ∀ (ws : List β) (v0 : Array α) (i : Nat) (x : α),
    (∀ w ∈ ws, f w = i → g w = x) → ((∃ w ∈ ws, f w = i) ∨ v0[i]? = some x) → i < v0.size →
    (ws.foldl (fun v w => v.set! (f w) (g w)) v0)[i]? = some x
  | [], v0, i, x, _, hex, _ => by
    rcases hex with ⟨w, hw, _⟩ | h
    · cases hw
    · simpa using h
  | w :: ws, v0, i, x, hall, hex, hi => by
    simp only [List.foldl_cons]
    apply foldl_set_get f g ws _ i x (fun w' hw' => hall w' (by simp [hw']))
    · by_cases hw : f w = i
      · right
        rw [Array.set!_eq_setIfInBounds, hw, Array.getElem?_setIfInBounds_self_of_lt hi, hall w (by simp) hw]
      · rcases hex with ⟨w', hw', hfw'⟩ | h
        · rcases List.mem_cons.mp hw' with rfl | hw'
          · exact absurd hfw' hw
          · exact Or.inl ⟨w', hw', hfw'⟩
        · right
          rw [Array.set!_eq_setIfInBounds, Array.getElem?_setIfInBounds_ne hw]
          exact h
    · simpa using hi

theorem foldl_max_ge (ws : List (Nat × Nat)) : ∀ (s : Nat), s ≤ ws.foldl (fun s w => max s w.1) s ∧
    ∀ w ∈ ws, w.1 ≤ ws.foldl (fun s w => max s w.1) s := by
  induction ws with
  | nil => intro s; simp
  | cons w ws ih =>
    intro s
    simp only [List.foldl_cons]
    obtain ⟨h1, h2⟩ := ih (max s w.1)
    refine ⟨by omega, ?_⟩
    intro w' hw'
    rcases List.mem_cons.mp hw' with rfl | hw'
    · omega
    · exact h2 w' hw'

/-! ## the map -/

theorem find_mapInsert (m : List (Nat × VSlot)) (k : Nat) (v : VSlot) (k' : Nat) :
    (mapInsert m k v).find? (fun e => e.1 == k') =
      if k' = k then some (k, v) else m.find? (fun e => e.1 == k') := by
  unfold mapInsert
  by_cases hany : (m.any fun e => e.1 == k) = true
  · simp only [hany, if_true]
    rw [List.find?_map]
    have hcomp : ((fun e : Nat × VSlot => e.1 == k') ∘ fun e => if (e.1 == k) = true then (k, v) else e) =
        (fun e : Nat × VSlot => e.1 == k') := by
      funext e
      simp only [Function.comp]
      by_cases he : e.1 = k
      · simp [he]
      · simp [he]
    rw [hcomp]
    by_cases hk : k' = k
    · subst hk
      simp only [if_true]
      obtain ⟨e, he, hek⟩ := List.any_eq_true.mp hany
      cases hf : m.find? (fun e => e.1 == k') with
      | none =>
        rw [List.find?_eq_none] at hf
        exact absurd hek (hf e he)
      | some e' =>
        have := List.find?_some hf
        simp only [Option.map_some, this, if_true]
    · simp only [hk, if_false]
      cases hf : m.find? (fun e => e.1 == k') with
      | none => rfl
      | some e' =>
        have := List.find?_some hf
        have hne : ¬ e'.1 = k := by
          simp only [beq_iff_eq] at this
          omega
        simp [hne]
  · simp only [hany, Bool.false_eq_true, if_false]
    rw [List.find?_append]
    have hnone : ∀ e ∈ m, ¬ (e.1 == k) = true := by
      intro e he hek
      exact hany (List.any_eq_true.mpr ⟨e, he, hek⟩)
    by_cases hk : k' = k
    · subst hk
      simp only [if_true]
      have : m.find? (fun e => e.1 == k') = none := by
        rw [List.find?_eq_none]; exact hnone
      rw [this]
      simp
    · simp only [hk, if_false]
      have : ([(k, v)] : List (Nat × VSlot)).find? (fun e => e.1 == k') = none := by
        simp; omega
      rw [this, Option.or_none]

theorem foldl_mapInsert_find {β} (f : β → Nat) (g : β → VSlot) : ∀ (ws : List β) (m0 : List (Nat × VSlot)) (k : Nat) (x : VSlot),
    (∀ w ∈ ws, f w = k → g w = x) → ((∃ w ∈ ws, f w = k) ∨ m0.find? (fun e => e.1 == k) = some (k, x)) →
    (ws.foldl (fun m w => mapInsert m (f w) (g w)) m0).find? (fun e => e.1 == k) = some (k, x)
  | [], m0, k, x, _, hex => by
    rcases hex with ⟨w, hw, _⟩ | h
    · cases hw
    · simpa using h
  | w :: ws, m0, k, x, hall, hex => by
    simp only [List.foldl_cons]
    apply foldl_mapInsert_find f g ws _ k x (fun w' hw' => hall w' (by simp [hw']))
    rw [find_mapInsert]
    by_cases hw : f w = k
    · right
      simp [hw, hall w (by simp) hw]
    · rcases hex with ⟨w', hw', hfw'⟩ | h
      · rcases List.mem_cons.mp hw' with rfl | hw'
        · exact absurd hfw' hw
        · exact Or.inl ⟨w', hw', hfw'⟩
      · right
        have : ¬ k = f w := fun e => hw e.symm
        simp only [this, if_false]
        exact h

/-! ## the writes of `publish_vptrs` -/

def writesOfIds (ids : List (List Nat)) : List (Nat × Nat) :=
  (List.zipIdx ids).flatMap (fun (l, c) => l.map (fun id => (id, c)))

theorem mem_writesOfIds (ids : List (List Nat)) (id c : Nat) :
    (id, c) ∈ writesOfIds ids ↔ ∃ l, ids[c]? = some l ∧ id ∈ l := by
  unfold writesOfIds
  simp only [List.mem_flatMap, List.mem_map, Prod.exists, Prod.mk.injEq]
  constructor
  · rintro ⟨l, c', hlc, id', hid, rfl, rfl⟩
    exact ⟨l, List.mk_mem_zipIdx_iff_getElem?.mp hlc, hid⟩
  · rintro ⟨l, hl, hid⟩
    exact ⟨l, c, List.mk_mem_zipIdx_iff_getElem?.mpr hl, id, hid, rfl, rfl⟩

def resizeV (v : Array VSlot) (n : Nat) : Array VSlot :=
  if n ≤ v.size then v.extract 0 n else v ++ Array.replicate (n - v.size) VSlot.null

theorem size_resizeV (v : Array VSlot) (n : Nat) : (resizeV v n).size = n := by
  unfold resizeV
  split
  · simp; omega
  · simp; omega

theorem ofNat_inj {a b : Nat} (ha : a < 2 ^ 64) (hb : b < 2 ^ 64) (h : UInt64.ofNat a = UInt64.ofNat b) : a = b := by
  have := congrArg UInt64.toNat h
  rw [UInt64.toNat_ofNat', UInt64.toNat_ofNat', Nat.mod_eq_of_lt ha, Nat.mod_eq_of_lt hb] at this
  exact this

theorem ofNat_ne_sentinel {a : Nat} (ha : a < 2 ^ 64 - 1) : UInt64.ofNat a ≠ sentinel := by
  intro h
  have := congrArg UInt64.toNat h
  rw [UInt64.toNat_ofNat', Nat.mod_eq_of_lt (by omega)] at this
  have hs : sentinel.toNat = 2 ^ 64 - 1 := by decide
  omega

/-- **after a successful `publish_vptrs`, every id registered for class `ci` is found, and leads to the
    v-table pointer this update wrote for `ci`** — plain vector, fast hash, checked hash and map -/
theorem lookup_published (cfg : Cfg) (ids : List (List Nat)) (budget : Nat) (mults : List UInt64) (p0 p : Pub)
    (att : Nat) (rest : List UInt64) (hpub : publish cfg ids budget mults p0 = .ok p att rest)
    (hdisj : ∀ (ci cj : Nat) (l l' : List Nat) (id : Nat), ids[ci]? = some l → ids[cj]? = some l' → id ∈ l → id ∈ l' → ci = cj)
    (hword : ∀ l ∈ ids, ∀ id ∈ l, id < 2 ^ 64 - 1)
    (ci : Nat) (l : List Nat) (id : Nat) (hl : ids[ci]? = some l) (hid : id ∈ l) :
    lookupVptr cfg p id = .ok (.cur ci) := by
  have hw : (id, ci) ∈ writesOfIds ids := (mem_writesOfIds ids id ci).mpr ⟨l, hl, hid⟩
  have hsame : ∀ w ∈ writesOfIds ids, w.1 = id → w.2 = ci := by
    rintro ⟨id', c'⟩ hw' rfl
    obtain ⟨l', hl', hid'⟩ := (mem_writesOfIds ids _ c').mp hw'
    exact hdisj c' ci l' l _ hl' hl hid' hid
  unfold publish at hpub
  simp only at hpub
  by_cases hmap : cfg.vptrMap = true
  · simp only [hmap, if_true] at hpub
    injection hpub with hp _ _
    unfold lookupVptr
    simp only [hmap, if_true]
    subst hp
    simp only
    have := foldl_mapInsert_find (fun w : Nat × Nat => w.1) (fun w => VSlot.cur w.2) (writesOfIds ids)
      (p0.map.map (fun e => (e.1, ageSlot e.2))) id (.cur ci)
      (fun w hw' h => by rw [hsame w hw' h]) (Or.inl ⟨_, hw, rfl⟩)
    unfold writesOfIds at this
    rw [this]
  · simp only [hmap, Bool.false_eq_true, if_false] at hpub
    unfold lookupVptr
    simp only [hmap, Bool.false_eq_true, if_false]
    cases hh : cfg.hash with
    | none =>
      simp only [hh] at hpub
      injection hpub with hp _ _
      subst hp
      simp only
      have hlt : id < (writesOfIds ids).foldl (fun s w => max s w.1) 0 + 1 := by
        have := (foldl_max_ge (writesOfIds ids) 0).2 _ hw
        simp only at this
        omega
      have := foldl_set_get (fun w : Nat × Nat => w.1) (fun w => VSlot.cur w.2) (writesOfIds ids)
        (resizeV (p0.vec.map ageSlot) ((writesOfIds ids).foldl (fun s w => max s w.1) 0 + 1)) id (.cur ci)
        (fun w hw' h => by rw [hsame w hw' h]) (Or.inl ⟨_, hw, rfl⟩) (by rw [size_resizeV]; exact hlt)
      unfold writesOfIds resizeV at this
      rw [this]
    | fast =>
      simp only [hh] at hpub
      split at hpub
      · cases hpub
      · cases hpub
      · cases hpub
      · rename_i st buckets att' rest' hsearch
        injection hpub with hp _ _
        subst hp
        simp only
        have hsent : ∀ c ∈ ids.map (fun l => l.map UInt64.ofNat), ∀ t ∈ c, t ≠ sentinel := by
          intro c hc t ht
          obtain ⟨l', hl', rfl⟩ := List.mem_map.mp hc
          obtain ⟨id', hid', rfl⟩ := List.mem_map.mp ht
          exact ofNat_ne_sentinel (hword l' hl' id' hid')
        obtain ⟨hperf, hinj⟩ := Props.C05.C05_installed_hash_is_perfect _ budget mults p0.hash st buckets att' rest' hsent hsearch
        have hmemc : ∀ (l' : List Nat), l' ∈ ids → ∀ id' ∈ l', ∃ c ∈ ids.map (fun l => l.map UInt64.ofNat), UInt64.ofNat id' ∈ c :=
          fun l' hl' id' hid' => ⟨_, List.mem_map.mpr ⟨l', hl', rfl⟩, List.mem_map.mpr ⟨id', hid', rfl⟩⟩
        have hlmem : l ∈ ids := List.mem_of_getElem? hl
        obtain ⟨c0, hc0, ht0⟩ := hmemc l hlmem id hid
        have hidx := (hperf c0 hc0 _ ht0).1
        have := foldl_set_get (fun w : Nat × Nat => hashIdx st.mult st.shift (UInt64.ofNat w.1)) (fun w => VSlot.cur w.2)
          (writesOfIds ids) (resizeV (p0.vec.map ageSlot) st.length) (hashIdx st.mult st.shift (UInt64.ofNat id)) (.cur ci)
          (by
            rintro ⟨id', c'⟩ hw' hidx'
            simp only at hidx' ⊢
            obtain ⟨l', hl', hid'⟩ := (mem_writesOfIds ids _ c').mp hw'
            obtain ⟨c1, hc1, ht1⟩ := hmemc l' (List.mem_of_getElem? hl') id' hid'
            have e := hinj c1 hc1 _ ht1 c0 hc0 _ ht0 hidx'
            have hb1 := hword l' (List.mem_of_getElem? hl') id' hid'
            have hb0 := hword l hlmem id hid
            have : id' = id := ofNat_inj (by omega) (by omega) e
            subst this
            rw [hdisj c' ci l' l _ hl' hl hid' hid])
          (Or.inl ⟨_, hw, rfl⟩) (by rw [size_resizeV]; exact hidx)
        unfold writesOfIds resizeV at this
        rw [this]
    | checked =>
      simp only [hh] at hpub
      split at hpub
      · cases hpub
      · cases hpub
      · cases hpub
      · rename_i st buckets att' rest' hsearch
        injection hpub with hp _ _
        subst hp
        simp only
        have hsent : ∀ c ∈ ids.map (fun l => l.map UInt64.ofNat), ∀ t ∈ c, t ≠ sentinel := by
          intro c hc t ht
          obtain ⟨l', hl', rfl⟩ := List.mem_map.mp hc
          obtain ⟨id', hid', rfl⟩ := List.mem_map.mp ht
          exact ofNat_ne_sentinel (hword l' hl' id' hid')
        obtain ⟨hperf, hinj⟩ := Props.C05.C05_installed_hash_is_perfect _ budget mults p0.hash st buckets att' rest' hsent hsearch
        have hmemc : ∀ (l' : List Nat), l' ∈ ids → ∀ id' ∈ l', ∃ c ∈ ids.map (fun l => l.map UInt64.ofNat), UInt64.ofNat id' ∈ c :=
          fun l' hl' id' hid' => ⟨_, List.mem_map.mpr ⟨l', hl', rfl⟩, List.mem_map.mpr ⟨id', hid', rfl⟩⟩
        have hlmem : l ∈ ids := List.mem_of_getElem? hl
        obtain ⟨c0, hc0, ht0⟩ := hmemc l hlmem id hid
        obtain ⟨hidx, hbucket⟩ := hperf c0 hc0 _ ht0
        -- the control word at the id's index is the id
        have hctl : (resizeControl buckets st.length)[hashIdx st.mult st.shift (UInt64.ofNat id)]? = some (UInt64.ofNat id) := by
          have hbs := (Array.getElem?_eq_some_iff.mp hbucket).1
          unfold resizeControl
          split
          · rw [Array.getElem?_extract]
            simp only [Nat.sub_zero, Nat.zero_add]
            have : hashIdx st.mult st.shift (UInt64.ofNat id) < min st.length buckets.size := by omega
            simp only [this, if_true]
            exact hbucket
          · rw [Array.getElem?_append_left hbs]
            exact hbucket
        have hchk : checkedIdx st (resizeControl buckets st.length) (UInt64.ofNat id) =
            some (hashIdx st.mult st.shift (UInt64.ofNat id)) := by
          unfold checkedIdx
          simp only [ge_iff_le, Nat.not_le.mpr hidx, if_false, hctl, beq_self_eq_true, if_true]
        simp only [beq_self_eq_true, if_true]
        rw [hchk]
        simp only
        have := foldl_set_get (fun w : Nat × Nat => hashIdx st.mult st.shift (UInt64.ofNat w.1)) (fun w => VSlot.cur w.2)
          (writesOfIds ids) (resizeV (p0.vec.map ageSlot) st.length) (hashIdx st.mult st.shift (UInt64.ofNat id)) (.cur ci)
          (by
            rintro ⟨id', c'⟩ hw' hidx'
            simp only at hidx' ⊢
            obtain ⟨l', hl', hid'⟩ := (mem_writesOfIds ids _ c').mp hw'
            obtain ⟨c1, hc1, ht1⟩ := hmemc l' (List.mem_of_getElem? hl') id' hid'
            have e := hinj c1 hc1 _ ht1 c0 hc0 _ ht0 hidx'
            have hb1 := hword l' (List.mem_of_getElem? hl') id' hid'
            have hb0 := hword l hlmem id hid
            have : id' = id := ofNat_inj (by omega) (by omega) e
            subst this
            rw [hdisj c' ci l' l _ hl' hl hid' hid])
          (Or.inl ⟨_, hw, rfl⟩) (by rw [size_resizeV]; exact hidx)
        unfold writesOfIds resizeV at this
        rw [this]

end Yomm2.Publish
