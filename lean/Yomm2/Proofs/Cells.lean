import Yomm2.Proofs.Table
import Yomm2.Props.C03
/-!
# Content of the dispatch table of one method

For a tuple of acceptable classes, the cell at the mixed-radix offset of their group indices holds
`best` of exactly the definitions applicable to the tuple.
-/
namespace Yomm2.Cells
open Yomm2 Yomm2.TableProofs Yomm2.Spec

/-- "class `c` derives from class `b`" as the compiler tests it -/
def derG (g : Graph) (c b : Nat) : Bool := (g.cov.get b).contains c

/-- the mask of class `c` at dimension `dim`: which definitions accept it there -/
def maskOfClass (g : Graph) (m : MethodC) (dim c : Nat) : Bits :=
  m.specs.map (fun s => match s.2[dim]? with | some sc => derG g c sc | none => false)

theorem groups_eq (g : Graph) (m : MethodC) :
    (dispatchMethod g m).groups = (List.zipIdx m.vp).map (fun (v, dim) =>
      groupsOf (g.cov.get v) (maskOfClass g m dim) g.abstract) := rfl

/-- the definitions applicable to a tuple of classes -/
def applicableTo (g : Graph) (m : MethodC) (cs : List Nat) (i : Nat) : Bool :=
  match m.specs[i]? with
  | some s => all₂ (fun c sc => derG g c sc) cs s.2
  | none => false

theorem mem_replicate_true (n i : Nat) : Bits.mem (List.replicate n true) i = decide (i < n) := by
  unfold Bits.mem
  by_cases h : i < n
  · simp [h]
  · simp [h]

theorem mem_maskOfClass (g : Graph) (m : MethodC) (dim c i : Nat) :
    (maskOfClass g m dim c).mem i =
      match m.specs[i]? with
      | some s => (match s.2[dim]? with | some sc => derG g c sc | none => false)
      | none => false := by
  unfold maskOfClass Bits.mem
  rw [List.getElem?_map]
  cases m.specs[i]? <;> simp

/-- one dimension's group list and the index of a class's group in it -/
structure Located (g : Graph) (m : MethodC) (dim v c gi : Nat) : Prop where
  get : ∃ gr, (groupsOf (g.cov.get v) (maskOfClass g m dim) g.abstract)[gi]? = some gr ∧
    gr.mask = maskOfClass g m dim c ∧ c ∈ gr.classes

theorem located_exists (g : Graph) (m : MethodC) (dim v c : Nat) (hc : c ∈ g.cov.get v) :
    ∃ gi, Located g m dim v c gi := by
  obtain ⟨gi, gr, h1, h2, h3, _⟩ := group_of_class (g.cov.get v) (maskOfClass g m dim) g.abstract c hc
  exact ⟨gi, ⟨gr, h1, h2, h3⟩⟩

/-- positions of a tuple: class `cs[d]` acceptable for parameter `d`, in group `gidx[d]` -/
inductive LocatedAll (g : Graph) (m : MethodC) : Nat → List Nat → List Nat → List Nat → Prop
  | nil (d) : LocatedAll g m d [] [] []
  | cons {d v c gi vs cs gis} : Located g m d v c gi → LocatedAll g m (d + 1) vs cs gis →
      LocatedAll g m d (v :: vs) (c :: cs) (gi :: gis)

/-- the group lists of dimensions `d, d+1, …` -/
def groupsFrom (g : Graph) (m : MethodC) : Nat → List Nat → List (List Group)
  | _, [] => []
  | d, v :: vs => groupsOf (g.cov.get v) (maskOfClass g m d) g.abstract :: groupsFrom g m (d + 1) vs

theorem zipIdx_map_from {α β} (f : α → Nat → β) : ∀ (l : List α) (k : Nat),
    (List.zipIdx l k).map (fun (p : α × Nat) => f p.1 p.2) =
      (List.zipWith (fun a i => f a i) l (List.range' k l.length))
  | [], _ => by simp
  | a :: as, k => by
    simp only [List.zipIdx_cons, List.map_cons, List.length_cons, List.range'_succ, List.zipWith_cons_cons]
    rw [zipIdx_map_from f as (k + 1)]

theorem groupsFrom_eq (g : Graph) (m : MethodC) : ∀ (vs : List Nat) (d : Nat),
    groupsFrom g m d vs = (List.zipIdx vs d).map (fun (v, dim) =>
      groupsOf (g.cov.get v) (maskOfClass g m dim) g.abstract)
  | [], _ => by simp [groupsFrom]
  | v :: vs, d => by
    simp only [groupsFrom, List.zipIdx_cons, List.map_cons]
    rw [groupsFrom_eq g m vs (d + 1)]

theorem groups_from_zero (g : Graph) (m : MethodC) : (dispatchMethod g m).groups = groupsFrom g m 0 m.vp := by
  rw [groups_eq, groupsFrom_eq]

/-! ## what a cell means -/

open Yomm2.Props.C03 in
/-- the meaning of a cell for a candidate set: not implemented iff no candidate, a definition iff it
    dominates all other candidates, ambiguous otherwise -/
def CellFor (ms : Nat → Nat → Bool) (cands : List Nat) (cell : Cell) : Prop :=
  (cell = .ni ∧ cands = []) ∨
  (∃ d, cell = .defn d ∧ Dominates ms cands d) ∨
  (cell = .amb ∧ cands ≠ [] ∧ ¬ ∃ d, Dominates ms cands d)

open Yomm2.Props.C03 in
theorem cellOfBest_spec (ms : Nat → Nat → Bool) (asym : ∀ a b, ms a b = true → ms b a = false) (cands : List Nat) :
    CellFor ms cands (cellOfBest (best ms cands)) := by
  by_cases hdom : ∃ d, Dominates ms cands d
  · obtain ⟨d, hd⟩ := hdom
    right; left
    exact ⟨d, by rw [best_of_dominates ms asym cands d hd]; rfl, hd⟩
  · cases hb : best ms cands with
    | nil =>
      left
      exact ⟨rfl, (best_nil_iff ms cands).mp hb⟩
    | cons x xs =>
      cases xs with
      | nil =>
        -- a singleton result dominates: contradiction
        exfalso
        rcases dominates_of_best ms cands x hb with h | h
        · exact hdom ⟨x, h⟩
        · exact hdom ⟨x, by rw [h]; exact ⟨by simp, fun e he hne => by simp at he; exact absurd he hne⟩⟩
      | cons y ys =>
        right; right
        refine ⟨rfl, ?_, hdom⟩
        intro he
        rw [he] at hb
        simp [best] at hb

theorem forall₂_reverse {α β} {R : α → β → Prop} {l₁ : List α} {l₂ : List β} (h : Forall₂ R l₁ l₂) :
    Forall₂ R l₁.reverse l₂.reverse := by
  induction h with
  | nil => exact Forall₂.nil
  | @cons a b as bs hr hrest ih =>
    simp only [List.reverse_cons]
    -- append a related pair at the end
    have app : ∀ {xs : List α} {ys : List β}, Forall₂ R xs ys → Forall₂ R (xs ++ [a]) (ys ++ [b]) := by
      intro xs ys hxy
      induction hxy with
      | nil => exact Forall₂.cons hr Forall₂.nil
      | cons h1 _ ih2 => exact Forall₂.cons h1 ih2
    exact app ih

theorem locatedAll_lt (g : Graph) (m : MethodC) : ∀ (d : Nat) (vs cs gis : List Nat), LocatedAll g m d vs cs gis →
    Forall₂ (fun (gl : List Group) i => i < gl.length) (groupsFrom g m d vs) gis := by
  intro d vs cs gis h
  induction h with
  | nil d => exact Forall₂.nil
  | @cons d v c gi vs cs gis hl _ ih =>
    simp only [groupsFrom]
    obtain ⟨gr, hgr, _, _⟩ := hl.get
    exact Forall₂.cons (List.getElem?_eq_some_iff.mp hgr).1 ih

theorem narrowed_exists : ∀ (dims : List (List Group)) (idx : List Nat) (cand : Bits) (conc : Bool),
    Forall₂ (fun (gl : List Group) i => i < gl.length) dims idx → ∃ s, narrowed dims idx cand conc = some s := by
  intro dims idx cand conc h
  induction h generalizing cand conc with
  | nil => exact ⟨_, rfl⟩
  | @cons gl i rest is hi _ ih =>
    simp only [narrowed, List.getElem?_eq_getElem hi, Option.bind_some]
    exact ih _ _

theorem zipWith_reverse {α β γ} (f : α → β → γ) : ∀ (l₁ : List α) (l₂ : List β), l₁.length = l₂.length →
    List.zipWith f l₁.reverse l₂.reverse = (List.zipWith f l₁ l₂).reverse := by
  intro l₁ l₂ h
  apply List.ext_getElem?
  intro i
  simp only [List.getElem?_zipWith]
  by_cases hi : i < l₁.length
  · have h2 : i < l₂.length := h ▸ hi
    rw [List.getElem?_reverse hi, List.getElem?_reverse h2, List.getElem?_reverse (by simp [List.length_zipWith]; omega)]
    simp only [List.getElem?_zipWith, List.length_zipWith, h, Nat.min_self]
  · have h2 : ¬ i < l₂.length := h ▸ hi
    rw [List.getElem?_eq_none (by simp; omega), List.getElem?_eq_none (by simp; omega),
      List.getElem?_eq_none (by simp [List.length_zipWith]; omega)]

/-! ## the cell of a class tuple -/

/-- specificity between two definitions of the method, as `build_dispatch_tables` evaluates it -/
def msOf (g : Graph) (m : MethodC) (a b : Nat) : Bool :=
  isMoreSpecific (fun x y => (g.cov.get y).contains x) ((m.specs[a]?.map (·.2)).getD []) ((m.specs[b]?.map (·.2)).getD [])

theorem table_eq (g : Graph) (m : MethodC) :
    (dispatchMethod g m).table =
      tableGo (fun cand conc => (cellOfBest (best (msOf g m) (applicableOf cand)), conc))
        (dispatchMethod g m).groups.reverse (List.replicate m.specs.length true) true := rfl

def Fb (b : Nat) : List Group → Nat → Bool := fun gl i => ((gl[i]?).map (fun gr => gr.mask.mem b)).getD false

def allDims (g : Graph) (m : MethodC) (b : Nat) : Nat → List Nat → Bool
  | _, [] => true
  | d, c :: rest => (maskOfClass g m d c).mem b && allDims g m b (d + 1) rest

theorem located_bits (g : Graph) (m : MethodC) (b : Nat) : ∀ (d : Nat) (vs cs gis : List Nat),
    LocatedAll g m d vs cs gis →
    (List.zipWith (Fb b) (groupsFrom g m d vs) gis).all id = allDims g m b d cs := by
  intro d vs cs gis h
  induction h with
  | nil d => simp [groupsFrom, allDims]
  | @cons d v c gi vs cs gis hl _ ih =>
    obtain ⟨gr, hgr, hmask, _⟩ := hl.get
    simp only [groupsFrom, List.zipWith_cons_cons, List.all_cons, allDims, ih, Fb, hgr, Option.map_some,
      Option.getD_some, id, hmask]

theorem locatedAll_length (g : Graph) (m : MethodC) : ∀ (d : Nat) (vs cs gis : List Nat),
    LocatedAll g m d vs cs gis → cs.length = vs.length ∧ gis.length = vs.length := by
  intro d vs cs gis h
  induction h with
  | nil d => simp
  | cons _ _ ih => simp [ih.1, ih.2]

theorem groupsFrom_length (g : Graph) (m : MethodC) : ∀ (vs : List Nat) (d : Nat), (groupsFrom g m d vs).length = vs.length
  | [], _ => rfl
  | _ :: vs, d => by simp [groupsFrom, groupsFrom_length g m vs (d + 1)]

/-- `allDims` over a definition's parameter classes is position-wise derivation -/
theorem allDims_spec (g : Graph) (m : MethodC) (i : Nat) (s : Nat × List Nat) (hs : m.specs[i]? = some s) :
    ∀ (cs : List Nat) (d : Nat), cs.length = (s.2.drop d).length →
      allDims g m i d cs = all₂ (fun c sc => derG g c sc) cs (s.2.drop d)
  | [], d, h => by
    have : s.2.drop d = [] := List.length_eq_zero_iff.mp (by simpa using h.symm)
    simp [allDims, this, all₂]
  | c :: rest, d, h => by
    cases hd : s.2.drop d with
    | nil => rw [hd] at h; simp at h
    | cons sc scs =>
      have hget : s.2[d]? = some sc := by
        have := congrArg List.head? hd
        simpa [List.head?_drop] using this
      have hdrop : s.2.drop (d + 1) = scs := by
        have := congrArg List.tail hd
        simpa [List.tail_drop] using this
      simp only [allDims, all₂, mem_maskOfClass, hs, hget]
      rw [allDims_spec g m i s hs rest (d + 1) (by rw [hdrop]; rw [hd] at h; simpa using h), hdrop]

/-- **cell_content**: for a tuple of acceptable classes located in their groups, the table holds at
    the mixed-radix offset of the group indices the cell computed from exactly the definitions
    applicable to the tuple -/
theorem cell_content (g : Graph) (m : MethodC) (hsp : ∀ s ∈ m.specs, s.2.length = m.vp.length)
    (cs gis : List Nat) (hloc : LocatedAll g m 0 m.vp cs gis) :
    ∃ mask conc,
      (dispatchMethod g m).table[offset (dispatchMethod g m).groups.reverse gis.reverse]? =
        some (cellOfBest (best (msOf g m) (applicableOf mask)), conc) ∧
      ∀ i, i ∈ applicableOf mask ↔ applicableTo g m cs i = true := by
  have hlt := locatedAll_lt g m 0 m.vp cs gis hloc
  have hlen := locatedAll_length g m 0 m.vp cs gis hloc
  rw [table_eq, groups_from_zero]
  have hltR := forall₂_reverse hlt
  obtain ⟨s, hs⟩ := narrowed_exists (groupsFrom g m 0 m.vp).reverse gis.reverse (List.replicate m.specs.length true) true hltR
  rw [cell_index _ _ _ _ _ hltR, hs]
  refine ⟨s.1, s.2, rfl, ?_⟩
  intro i
  rw [mem_applicableOf, narrowed_bit _ _ _ _ s hs i, mem_replicate_true]
  have hz : (List.zipWith (fun (gl : List Group) i_1 => ((gl[i_1]?).map (fun gr => gr.mask.mem i)).getD false)
      (groupsFrom g m 0 m.vp).reverse gis.reverse).all id = allDims g m i 0 cs := by
    have := zipWith_reverse (Fb i) (groupsFrom g m 0 m.vp) gis (by rw [groupsFrom_length, hlen.2])
    unfold Fb at this
    rw [this, List.all_reverse]
    exact located_bits g m i 0 m.vp cs gis hloc
  rw [hz]
  unfold applicableTo
  cases hsi : m.specs[i]? with
  | none =>
    have : ¬ i < m.specs.length := by
      intro h; rw [List.getElem?_eq_getElem h] at hsi; cases hsi
    simp [this]
  | some sp =>
    have hlt' : i < m.specs.length := (List.getElem?_eq_some_iff.mp hsi).1
    have hspl := hsp sp (List.mem_of_getElem? hsi)
    rw [allDims_spec g m i sp hsi cs 0 (by simp [hlen.1, hspl])]
    simp [hlt']

end Yomm2.Cells
