import Yomm2.Proofs.TreeFacts
import Yomm2.Proofs.UsedBy
import Yomm2.Proofs.Lattice
/-!
# The invariant of slot allocation

The state of `assign_slots` is a list of (parameter, slot) bindings plus the bit sets of the lattice
allocator. The invariant `SInvK K st` says, for the set `K` of parameters allocated so far:

* the bindings are exactly for `K`, one per parameter;
* two bindings whose parameter classes share a covariant class have different slots (**exclusive**);
* a binding rooted in a tree lies in the window `[B v, B v + |used_by v|)` of its class, where `B v`
  is the number of slots of the proper ancestors of `v`;
* a binding rooted in a lattice is recorded in the `used` / `reserved` bit sets (`Lattice.Covers`).
-/
namespace Yomm2.SlotsInv
open Yomm2 Yomm2.Reach Yomm2.GraphFacts Yomm2.TreeFacts Yomm2.UsedBy Yomm2.Lattice

/-! ## the first slot of a tree class -/

def baseOf (g : Graph) (ms : List MethodC) : Nat → Nat → Nat
  | 0, _ => 0
  | f + 1, v => match g.direct.get v with
    | [b] => baseOf g ms f b + (usedBy ms b).length
    | _ => 0

def B (g : Graph) (ms : List MethodC) (v : Nat) : Nat := baseOf g ms g.fuel v

variable {g : Graph} (ms : List MethodC)

theorem B_child (hg : Good g) (c d : Nat) (hd : g.direct.get d = [c]) :
    B g ms d = B g ms c + (usedBy ms c).length := by
  obtain ⟨h, hh, hb⟩ := hg.ranked
  -- more fuel than the distance to the root changes nothing
  have stable : ∀ f v, g.fuel - h v ≤ f → baseOf g ms f v = baseOf g ms (f + 1) v := by
    intro f
    induction f with
    | zero => intro v hv; have := hb v; omega
    | succ f ih =>
      intro v hv
      rw [baseOf, baseOf]
      match hl : g.direct.get v with
      | [] => rfl
      | [b] =>
        simp only
        have hbv : v ∈ g.derived.get b := (hg.derived_iff b v).mpr (by rw [hl]; simp)
        have := hh b v hbv
        have := hb b
        rw [ih b (by omega)]
      | _ :: _ :: _ => rfl
  unfold B
  have hcd : d ∈ g.derived.get c := (hg.derived_iff c d).mpr (by rw [hd]; simp)
  have h1 := hh c d hcd
  have h2 := hb d
  have h3 := hb c
  cases hf : g.fuel with
  | zero => omega
  | succ k =>
    rw [baseOf, hd]
    simp only
    rw [stable k c (by omega)]

theorem B_root (r : Nat) (hr : g.direct.get r = []) : B g ms r = 0 := by
  unfold B
  cases g.fuel with
  | zero => rfl
  | succ k => rw [baseOf, hr]

/-- windows of a chain are stacked: an ancestor's window ends before a descendant's begins -/
theorem B_mono (hg : Good g) {a x : Nat} (hx : InTree g x) (ha : Reach g.derived.get a x) (hne : a ≠ x) :
    B g ms a + (usedBy ms a).length ≤ B g ms x := by
  have hup := (up_iff_down hg a x).mpr ha
  clear ha
  induction hup with
  | refl => exact absurd rfl hne
  | @step x m a hm hma ih =>
    have hmx : x ∈ g.derived.get m := (hg.derived_iff m x).mpr hm
    have hd := direct_of_child hg hmx hx
    rw [B_child ms hg m x hd]
    by_cases hma' : a = m
    · subst hma'; exact Nat.le_refl _
    · have := ih (inTree_up hg hx (Reach.single hmx)) hma'
      omega

/-! ## the invariant -/

/-- two bindings are compatible: if their parameter classes share a covariant class, the slots differ -/
def Rel (g : Graph) (ms : List MethodC) (e e' : (Nat × Nat) × Nat) : Prop :=
  ∀ v v', paramClass ms e.1 = some v → paramClass ms e'.1 = some v' →
    ∀ x, x ∈ g.cov.get v → x ∈ g.cov.get v' → e.2 ≠ e'.2

theorem Rel.symm {e e' : (Nat × Nat) × Nat} (h : Rel g ms e e') : Rel g ms e' e :=
  fun v v' hv hv' x hx hx' => (h v' v hv' hv x hx' hx).symm

structure SInvK (g : Graph) (ms : List MethodC) (K : Nat × Nat → Prop) (st : SlotSt) : Prop where
  keys : ∀ mp, mp ∈ st.slotList.map (·.1) ↔ K mp
  nodup : (st.slotList.map (·.1)).Nodup
  excl : st.slotList.Pairwise (Rel g ms)
  cls : ∀ e ∈ st.slotList, ∃ v, paramClass ms e.1 = some v ∧ v < g.n
  tree : ∀ e ∈ st.slotList, ∀ v, paramClass ms e.1 = some v → InTree g v →
    B g ms v ≤ e.2 ∧ e.2 < B g ms v + (usedBy ms v).length
  lat : ∀ e ∈ st.slotList, ∀ v, paramClass ms e.1 = some v → ¬ InTree g v →
    Covers g.tb.get g.cov.get st.used st.reserved v e.2

theorem SInvK.congr {K K' : Nat × Nat → Prop} {st : SlotSt} (h : SInvK g ms K st) (hk : ∀ mp, K mp ↔ K' mp) :
    SInvK g ms K' st :=
  ⟨fun mp => (h.keys mp).trans (hk mp), h.nodup, h.excl, h.cls, h.tree, h.lat⟩

/-! ## one class of a tree -/

theorem nodup_reverse' {α} {l : List α} (h : l.Nodup) : l.reverse.Nodup := by
  rw [List.nodup_iff_pairwise_ne, List.pairwise_reverse]
  exact List.Pairwise.imp (fun h => Ne.symm h) h


theorem assignRun_shape : ∀ (ps : List (Nat × Nat)) (sl : List ((Nat × Nat) × Nat)) (base : Nat),
    ∃ newL, assignRun sl ps base = newL ++ sl ∧ newL.map (·.1) = ps.reverse ∧
      (∀ e ∈ newL, base ≤ e.2 ∧ e.2 < base + ps.length) ∧ newL.Pairwise (fun e e' => e.2 ≠ e'.2)
  | [], sl, base => ⟨[], by simp [assignRun]⟩
  | mp :: rest, sl, base => by
    obtain ⟨nl, h1, h2, h3, h4⟩ := assignRun_shape rest ((mp, base) :: sl) (base + 1)
    refine ⟨nl ++ [(mp, base)], ?_, ?_, ?_, ?_⟩
    · simp [assignRun, h1]
    · simp [h2]
    · intro e he
      rcases List.mem_append.mp he with he | he
      · have := h3 e he; simp only [List.length_cons]; omega
      · simp at he; subst he; simp
    · rw [List.pairwise_append]
      refine ⟨h4, by simp, ?_⟩
      intro a ha b hb
      simp at hb; subst hb
      have := h3 a ha
      simp only
      omega

/-- the step of `assign_tree_slots` for class `c`, whose window starts at `B c` -/
theorem tree_class_step (hg : Good g) (K : Nat × Nat → Prop) (st : SlotSt) (hinv : SInvK g ms K st)
    (c : Nat) (hc : InTree g c) (hcn : c < g.n) (hfresh : ∀ mp ∈ usedBy ms c, ¬ K mp)
    (first vsize : Tab Nat) :
    SInvK g ms (fun mp => mp ∈ usedBy ms c ∨ K mp)
      { st with slotList := assignRun st.slotList (usedBy ms c) (B g ms c), first := first, vsize := vsize } := by
  obtain ⟨nl, h1, h2, h3, h4⟩ := assignRun_shape (usedBy ms c) st.slotList (B g ms c)
  have hnlc : ∀ e ∈ nl, paramClass ms e.1 = some c := by
    intro e he
    have : e.1 ∈ nl.map (·.1) := List.mem_map.mpr ⟨e, he, rfl⟩
    rw [h2, List.mem_reverse] at this
    exact (mem_usedBy ms c e.1).mp this
  constructor
  · intro mp
    simp only [h1, List.map_append, List.mem_append, h2, List.mem_reverse]
    rw [hinv.keys]
  · simp only [h1, List.map_append, h2]
    rw [List.nodup_append]
    refine ⟨nodup_reverse' (usedBy_nodup ms c), hinv.nodup, ?_⟩
    intro a ha b hb e
    subst e
    exact hfresh a (List.mem_reverse.mp ha) ((hinv.keys a).mp hb)
  · simp only [h1]
    rw [List.pairwise_append]
    refine ⟨?_, hinv.excl, ?_⟩
    · exact h4.imp (fun hne _ _ _ _ _ _ _ => hne)
    · intro e he e' he' v v' hv hv' x hx hx'
      rw [hnlc e he] at hv
      cases hv
      obtain ⟨hlo, hhi⟩ := h3 e he
      have hxt : InTree g x := inTree_down hc (reach_of_cov hg hx)
      have hv't : InTree g v' := inTree_up hg hxt (reach_of_cov hg hx')
      obtain ⟨hlo', hhi'⟩ := hinv.tree e' he' v' hv' hv't
      by_cases hcv : v' = c
      · subst hcv
        exfalso
        apply hfresh e'.1 ((mem_usedBy ms _ e'.1).mpr hv')
        exact (hinv.keys e'.1).mp (List.mem_map.mpr ⟨e', he', rfl⟩)
      · rcases comparable hg hxt (reach_of_cov hg hx) (reach_of_cov hg hx') with hr | hr
        · have := B_mono ms hg hv't hr (fun e => hcv e.symm); omega
        · have := B_mono ms hg hc hr hcv; omega
  · intro e he
    simp only [h1, List.mem_append] at he
    rcases he with he | he
    · exact ⟨c, hnlc e he, hcn⟩
    · exact hinv.cls e he
  · intro e he v hv _
    simp only [h1, List.mem_append] at he
    rcases he with he | he
    · rw [hnlc e he] at hv; cases hv; exact h3 e he
    · exact hinv.tree e he v hv (by assumption)
  · intro e he v hv hnt
    simp only [h1, List.mem_append] at he
    rcases he with he | he
    · rw [hnlc e he] at hv; cases hv; exact absurd hc hnt
    · exact hinv.lat e he v hv hnt

/-! ## one parameter of a lattice class -/

theorem lattice_param_step (hg : Good g) (K : Nat × Nat → Prop) (st : SlotSt) (hinv : SInvK g ms K st)
    (v : Nat) (mp : Nat × Nat) (hmp : paramClass ms mp = some v) (hv : ¬ InTree g v) (hvn : v < g.n) (hfresh : ¬ K mp) :
    SInvK g ms (fun x => x = mp ∨ K x)
      { st with slotList := (mp, (alloc g st.used st.reserved v).2) :: st.slotList,
                used := (alloc g st.used st.reserved v).1.1, reserved := (alloc g st.used st.reserved v).1.2 } := by
  have hcomp : Complete g.tb.get g.cov.get := ⟨hg.tb_complete⟩
  constructor
  · intro x
    simp only [List.map_cons, List.mem_cons]
    rw [hinv.keys]
  · simp only [List.map_cons, List.nodup_cons]
    exact ⟨fun h => hfresh ((hinv.keys mp).mp h), hinv.nodup⟩
  · simp only [List.pairwise_cons]
    refine ⟨?_, hinv.excl⟩
    intro e' he' v1 v' hv1 hv' x hx hx'
    simp only at hv1
    rw [hmp] at hv1; cases hv1
    have hv't : ¬ InTree g v' := by
      intro ht
      exact hv (inTree_up hg (inTree_down ht (reach_of_cov hg hx')) (reach_of_cov hg hx))
    rw [alloc_eq_allocG]
    exact alloc_fresh _ _ hcomp st.used st.reserved v v' e'.2 x (hinv.lat e' he' v' hv' hv't) hx hx'
  · intro e he
    rcases List.mem_cons.mp he with rfl | he
    · exact ⟨v, hmp, hvn⟩
    · exact hinv.cls e he
  · intro e he v1 hv1 ht
    rcases List.mem_cons.mp he with rfl | he
    · simp only at hv1; rw [hmp] at hv1; cases hv1; exact absurd ht hv
    · exact hinv.tree e he v1 hv1 ht
  · intro e he v1 hv1 hnt
    simp only [alloc_eq_allocG]
    rcases List.mem_cons.mp he with rfl | he
    · simp only at hv1; rw [hmp] at hv1; cases hv1
      exact alloc_covers _ _ st.used st.reserved v
    · exact covers_mono _ _ st.used st.reserved v v1 e.2 (hinv.lat e he v1 hv1 hnt)

/-- all the parameters rooted at a lattice class -/
theorem lattice_class_step (hg : Good g) (v : Nat) (hv : ¬ InTree g v) (hvn : v < g.n) :
    ∀ (ps : List (Nat × Nat)) (K : Nat × Nat → Prop) (st : SlotSt), SInvK g ms K st →
      (∀ mp ∈ ps, paramClass ms mp = some v) → ps.Nodup → (∀ mp ∈ ps, ¬ K mp) →
      SInvK g ms (fun x => x ∈ ps ∨ K x)
        (ps.foldl (fun st mp =>
          let r := alloc g st.used st.reserved v
          { st with slotList := (mp, r.2) :: st.slotList, used := r.1.1, reserved := r.1.2 }) st)
  | [], K, st, hinv, _, _, _ => hinv.congr ms (by simp)
  | mp :: rest, K, st, hinv, hcls, hnd, hfresh => by
    simp only [List.foldl_cons]
    have h1 := lattice_param_step ms hg K st hinv v mp (hcls mp (by simp)) hv hvn (hfresh mp (by simp))
    have hnd' := List.nodup_cons.mp hnd
    have := lattice_class_step hg v hv hvn rest _ _ h1 (fun x hx => hcls x (by simp [hx])) hnd'.2
      (by
        intro x hx hk
        rcases hk with rfl | hk
        · exact hnd'.1 hx
        · exact hfresh x (by simp [hx]) hk)
    apply this.congr
    intro x
    simp only [List.mem_cons]
    constructor
    · rintro (h | h | h)
      · exact Or.inl (Or.inr h)
      · exact Or.inl (Or.inl h)
      · exact Or.inr h
    · rintro ((h | h) | h)
      · exact Or.inr (Or.inl h)
      · exact Or.inl h
      · exact Or.inr (Or.inr h)

end Yomm2.SlotsInv
