import Yomm2.Model.Dispatch
/-!
# What the v-tables hold after `build_dispatch_tables` wrote them

Sequential writes `vt[c][slot - first c] := e`: a cell that is the target of at least one write, and
whose writes all carry the same entry, holds that entry at the end — whatever else was written.
-/
namespace Yomm2.Entries
open Yomm2

/-- the cell a write targets -/
def target (st : SlotSt) (w : Nat × Nat × Entry) : Nat × Nat := (w.1, w.2.1 - st.first.get w.1)

theorem stepWrite_shape (st : SlotSt) (vt vt' : List (List Entry)) (w : Nat × Nat × Entry)
    (h : stepWrite st vt w = .ok vt') :
    vt'.length = vt.length ∧ ∀ c : Nat, (vt'[c]?.map List.length) = (vt[c]?.map List.length) := by
  obtain ⟨wc, wslot, we⟩ := w
  unfold stepWrite at h
  simp only at h
  cases hr : vt[wc]? with
  | none => simp [hr] at h
  | some row =>
    simp only [hr] at h
    split at h
    · cases h
    · cases h
      refine ⟨by simp, ?_⟩
      intro c
      by_cases hc : c = wc
      · subst hc
        obtain ⟨hlt, hget⟩ := List.getElem?_eq_some_iff.mp hr
        simp [hlt, hget]
      · have : ¬ wc = c := fun e => hc e.symm
        simp [this]

theorem stepWrite_cell (st : SlotSt) (vt vt' : List (List Entry)) (w : Nat × Nat × Entry)
    (h : stepWrite st vt w = .ok vt') (c i : Nat) :
    (vt'[c]?.bind (·[i]?)) = if (c, i) = target st w then some w.2.2 else (vt[c]?.bind (·[i]?)) := by
  obtain ⟨wc, wslot, we⟩ := w
  unfold stepWrite at h
  simp only at h
  cases hr : vt[wc]? with
  | none => simp [hr] at h
  | some row =>
    simp only [hr] at h
    split at h
    · cases h
    · rename_i hb
      cases h
      have hlt := (List.getElem?_eq_some_iff.mp hr).1
      have hil : wslot - st.first.get wc < row.length := by omega
      unfold target
      simp only
      by_cases hc : c = wc
      · subst hc
        simp only [List.getElem?_set, hlt, if_true, Option.bind_some]
        by_cases hi : i = wslot - st.first.get c
        · subst hi
          simp [hil]
        · have h1 : ¬ wslot - st.first.get c = i := fun e => hi e.symm
          have h2 : ¬ (c, i) = (c, wslot - st.first.get c) := by
            intro e; exact hi (by injection e)
          simp [h1, h2, hr]
      · have h1 : ¬ wc = c := fun e => hc e.symm
        have h2 : ¬ (c, i) = (wc, wslot - st.first.get wc) := by
          intro e; apply hc; injection e
        simp [h1, h2]

/-- **last write wins**: after a successful sequence of writes, a cell targeted by some write, all of
    whose writes carry the entry `e`, holds `e` -/
theorem foldlM_writes_cell (st : SlotSt) : ∀ (ws : List (Nat × Nat × Entry)) (vt vt' : List (List Entry)),
    ws.foldlM (stepWrite st) vt = .ok vt' → ∀ (c i : Nat) (e : Entry),
    (∀ w ∈ ws, target st w = (c, i) → w.2.2 = e) →
    ((∃ w ∈ ws, target st w = (c, i)) ∨ (vt[c]?.bind (·[i]?)) = some e) →
    (vt'[c]?.bind (·[i]?)) = some e
  | [], vt, vt', h, c, i, e, _, hex => by
    simp [List.foldlM_nil, pure, Except.pure] at h
    subst h
    rcases hex with ⟨w, hw, _⟩ | h
    · cases hw
    · exact h
  | w :: ws, vt, vt', h, c, i, e, hall, hex => by
    rw [List.foldlM_cons] at h
    cases hs : stepWrite st vt w with
    | error err => simp [hs, bind, Except.bind] at h
    | ok vt1 =>
      simp only [hs, bind, Except.bind] at h
      apply foldlM_writes_cell st ws vt1 vt' h c i e (fun w' hw' => hall w' (by simp [hw']))
      -- after the first write the cell already holds `e`, or a later write targets it
      have hcell := stepWrite_cell st vt vt1 w hs c i
      by_cases ht : (c, i) = target st w
      · right
        rw [hcell]
        simp only [ht, if_true]
        rw [hall w (by simp) ht.symm]
      · rcases hex with ⟨w', hw', htw'⟩ | hprev
        · rcases List.mem_cons.mp hw' with rfl | hw'
          · exact absurd htw'.symm ht
          · exact Or.inl ⟨w', hw', htw'⟩
        · right
          rw [hcell]
          simp only [ht, if_false]
          exact hprev

/-- a successful sequence of writes never left its v-tables: every write was in range -/
theorem foldlM_writes_in_range (st : SlotSt) : ∀ (ws : List (Nat × Nat × Entry)) (vt vt' : List (List Entry)),
    ws.foldlM (stepWrite st) vt = .ok vt' → ∀ w ∈ ws, ∃ row, vt[w.1]? = some row ∧
      st.first.get w.1 ≤ w.2.1 ∧ w.2.1 - st.first.get w.1 < row.length
  | [], _, _, _, w, hw => by cases hw
  | w0 :: ws, vt, vt', h, w, hw => by
    rw [List.foldlM_cons] at h
    cases hs : stepWrite st vt w0 with
    | error err => simp [hs, bind, Except.bind] at h
    | ok vt1 =>
      simp only [hs, bind, Except.bind] at h
      rcases List.mem_cons.mp hw with rfl | hw
      · unfold stepWrite at hs
        cases hr : vt[w.1]? with
        | none => simp [hr] at hs
        | some row =>
          simp only [hr] at hs
          split at hs
          · cases hs
          · rename_i hb
            exact ⟨row, rfl, by omega, by omega⟩
      · obtain ⟨row, hrow, h1, h2⟩ := foldlM_writes_in_range st ws vt1 vt' h w hw
        -- shapes are preserved by the first write
        have hsh := (stepWrite_shape st vt vt1 w0 hs).2 w.1
        rw [hrow] at hsh
        cases hv : vt[w.1]? with
        | none => rw [hv] at hsh; simp at hsh
        | some row0 =>
          rw [hv] at hsh
          simp at hsh
          exact ⟨row0, rfl, h1, by omega⟩

theorem foldlM_flatMap {α β} (f : α → List β) (g : List (List Entry) → β → Except Err (List (List Entry))) :
    ∀ (l : List α) (init : List (List Entry)),
      (l.flatMap f).foldlM g init = l.foldlM (fun acc x => (f x).foldlM g acc) init
  | [], init => by simp
  | x :: xs, init => by
    rw [List.flatMap_cons, List.foldlM_append, List.foldlM_cons]
    cases h : (f x).foldlM g init with
    | error e => simp [bind, Except.bind]
    | ok v => simp only [bind, Except.bind]; exact foldlM_flatMap f g xs v

end Yomm2.Entries
