import Yomm2.Model.Slots
import Yomm2.Proofs.Reach
/-!
# The pre-order walk of `assign_lattice_slots` (marks in a visited list, fuel for the recursion)

The walk only appends; it never visits a class twice; what it appends is reachable from the start;
and — given enough fuel — it appends the start and the result is closed under `direct_derived`
wherever the walk itself added the class.
-/
namespace Yomm2.LatticeOrder
open Yomm2 Yomm2.Reach

variable (derived : Nat → List Nat)

/-- the fold over the children -/
def foldLO (f : Nat) (ds : List Nat) (vis : List Nat) : List Nat :=
  ds.foldl (fun vis d => latticeOrder derived f d vis) vis

theorem lo_succ (f c : Nat) (vis : List Nat) :
    latticeOrder derived (f + 1) c vis = if c ∈ vis then vis else foldLO derived f (derived c) (vis ++ [c]) := rfl

theorem fold_prefix (f : Nat) (ih : ∀ c vis, ∃ new, latticeOrder derived f c vis = vis ++ new) :
    ∀ ds vis, ∃ new, foldLO derived f ds vis = vis ++ new
  | [], vis => ⟨[], by simp [foldLO]⟩
  | d :: ds, vis => by
    obtain ⟨n1, h1⟩ := ih d vis
    obtain ⟨n2, h2⟩ := fold_prefix f ih ds (vis ++ n1)
    refine ⟨n1 ++ n2, ?_⟩
    simp only [foldLO, List.foldl_cons] at h2 ⊢
    rw [h1, h2, List.append_assoc]

theorem lo_prefix : ∀ f c vis, ∃ new, latticeOrder derived f c vis = vis ++ new
  | 0, c, vis => ⟨[], by simp [latticeOrder]⟩
  | f + 1, c, vis => by
    rw [lo_succ]
    split
    · exact ⟨[], by simp⟩
    · obtain ⟨n, hn⟩ := fold_prefix derived f (lo_prefix f) (derived c) (vis ++ [c])
      exact ⟨[c] ++ n, by rw [hn, List.append_assoc]⟩

theorem lo_mono (f c : Nat) (vis : List Nat) (x : Nat) (h : x ∈ vis) : x ∈ latticeOrder derived f c vis := by
  obtain ⟨n, hn⟩ := lo_prefix derived f c vis
  rw [hn]; exact List.mem_append_left _ h

theorem fold_mono (f : Nat) (ds vis : List Nat) (x : Nat) (h : x ∈ vis) : x ∈ foldLO derived f ds vis := by
  obtain ⟨n, hn⟩ := fold_prefix derived f (lo_prefix derived f) ds vis
  rw [hn]; exact List.mem_append_left _ h

theorem fold_nodup (f : Nat) (ih : ∀ c vis, vis.Nodup → (latticeOrder derived f c vis).Nodup) :
    ∀ ds vis, vis.Nodup → (foldLO derived f ds vis).Nodup
  | [], vis, h => by simpa [foldLO]
  | d :: ds, vis, h => by
    simp only [foldLO, List.foldl_cons]
    exact fold_nodup f ih ds _ (ih d vis h)

theorem lo_nodup : ∀ f c vis, vis.Nodup → (latticeOrder derived f c vis).Nodup
  | 0, c, vis, h => by simpa [latticeOrder]
  | f + 1, c, vis, h => by
    rw [lo_succ]
    split
    · exact h
    · rename_i hc
      apply fold_nodup derived f (lo_nodup f)
      rw [List.nodup_append]
      refine ⟨h, by simp, ?_⟩
      intro a ha b hb
      simp at hb
      subst hb
      intro e; subst e; exact hc ha

theorem fold_reach (f : Nat) (ih : ∀ c vis x, x ∈ latticeOrder derived f c vis → x ∈ vis ∨ Reach derived c x) :
    ∀ ds vis x, x ∈ foldLO derived f ds vis → x ∈ vis ∨ ∃ d ∈ ds, Reach derived d x
  | [], vis, x, h => by simp [foldLO] at h; exact Or.inl h
  | d :: ds, vis, x, h => by
    simp only [foldLO, List.foldl_cons] at h
    rcases fold_reach f ih ds _ x h with h1 | ⟨d', hd', hr⟩
    · rcases ih d vis x h1 with h2 | h2
      · exact Or.inl h2
      · exact Or.inr ⟨d, by simp, h2⟩
    · exact Or.inr ⟨d', by simp [hd'], hr⟩

/-- everything the walk adds is reachable from its start -/
theorem lo_reach : ∀ f c vis x, x ∈ latticeOrder derived f c vis → x ∈ vis ∨ Reach derived c x
  | 0, c, vis, x, h => by simp [latticeOrder] at h; exact Or.inl h
  | f + 1, c, vis, x, h => by
    rw [lo_succ] at h
    split at h
    · exact Or.inl h
    · rcases fold_reach derived f (lo_reach f) (derived c) _ x h with h1 | ⟨d, hd, hr⟩
      · rcases List.mem_append.mp h1 with h2 | h2
        · exact Or.inl h2
        · simp at h2; subst h2; exact Or.inr (Reach.refl _)
      · exact Or.inr (Reach.step hd hr)

variable (h : Nat → Nat)

/-- with enough fuel the start itself ends up visited -/
theorem lo_self (f c : Nat) (vis : List Nat) (hf : h c < f) : c ∈ latticeOrder derived f c vis := by
  cases f with
  | zero => omega
  | succ f =>
    rw [lo_succ]
    split
    · assumption
    · exact fold_mono derived f _ _ c (by simp)

theorem fold_closed (f : Nat)
    (ih : ∀ c vis, h c < f → ∀ x ∈ latticeOrder derived f c vis, x ∉ vis →
      ∀ d ∈ derived x, d ∈ latticeOrder derived f c vis) :
    ∀ ds vis, (∀ d ∈ ds, h d < f) →
      (∀ d ∈ ds, d ∈ foldLO derived f ds vis) ∧
      (∀ x ∈ foldLO derived f ds vis, x ∉ vis → ∀ d ∈ derived x, d ∈ foldLO derived f ds vis)
  | [], vis, _ => by
    refine ⟨by simp, ?_⟩
    intro x hx hnx
    simp [foldLO] at hx
    exact absurd hx hnx
  | d :: ds, vis, hds => by
    have hd : h d < f := hds d (by simp)
    obtain ⟨i1, i2⟩ := fold_closed f ih ds (latticeOrder derived f d vis) (fun d' hd' => hds d' (by simp [hd']))
    have hfold : foldLO derived f (d :: ds) vis = foldLO derived f ds (latticeOrder derived f d vis) := by
      simp [foldLO]
    rw [hfold]
    constructor
    · intro d' hd'
      rcases List.mem_cons.mp hd' with rfl | hd'
      · exact fold_mono derived f _ _ _ (lo_self derived h f d' vis hd)
      · exact i1 d' hd'
    · intro x hx hnx d' hd'
      by_cases hx1 : x ∈ latticeOrder derived f d vis
      · exact fold_mono derived f _ _ _ (ih d vis hd x hx1 hnx d' hd')
      · exact i2 x hx hx1 d' hd'

/-- with enough fuel, every class the walk added has all its directly derived classes visited -/
theorem lo_closed (hh : ∀ a m, m ∈ derived a → h m < h a) : ∀ f c vis, h c < f → ∀ x ∈ latticeOrder derived f c vis, x ∉ vis →
    ∀ d ∈ derived x, d ∈ latticeOrder derived f c vis
  | 0, c, vis, hf, _, _, _, _, _ => by omega
  | f + 1, c, vis, hf, x, hx, hnx, d, hd => by
    rw [lo_succ] at hx ⊢
    split at hx
    · exact absurd hx hnx
    · rename_i hc
      simp only [hc, if_false]
      have hds : ∀ d ∈ derived c, h d < f := by
        intro d hd; have := hh c d hd; omega
      obtain ⟨c1, c2⟩ := fold_closed derived h f (lo_closed hh f) (derived c) (vis ++ [c]) hds
      by_cases hxc : x = c
      · subst hxc; exact c1 d hd
      · exact c2 x hx (by simp [hnx, hxc]) d hd

/-- a visited list closed under `direct_derived` -/
def Closed (vis : List Nat) : Prop := ∀ x ∈ vis, ∀ d ∈ derived x, d ∈ vis

theorem closed_reach {vis : List Nat} (hc : Closed derived vis) {a b : Nat} (hr : Reach derived a b) (ha : a ∈ vis) :
    b ∈ vis := by
  induction hr with
  | refl => exact ha
  | step hm _ ih => exact ih (hc _ ha _ hm)

theorem lo_keeps_closed (hh : ∀ a m, m ∈ derived a → h m < h a) (f c : Nat) (vis : List Nat) (hf : h c < f) (hc : Closed derived vis) :
    Closed derived (latticeOrder derived f c vis) := by
  intro x hx d hd
  by_cases hxv : x ∈ vis
  · exact lo_mono derived f c vis d (hc x hxv d hd)
  · exact lo_closed derived h hh f c vis hf x hx hxv d hd

end Yomm2.LatticeOrder
