import Yomm2.Generated.Constants
import Yomm2.Model.Hash
/-!
# Obligations on the constants re-extracted from /repo on every run

The model hard-codes what the C++ hard-codes (four passes, `N * 5 / 4`, 16 reported types, the
512-element split, the stop / index bits). These lemmas fail to check when the source changes.
-/
namespace Yomm2.Generated

theorem hashPasses_is_model : hashPasses = 4 := by decide
theorem hashGrow_is_model : hashGrowNum = 5 ∧ hashGrowDen = 4 := by decide
theorem hashBudget_is_model : hashBudget = 100000 := by decide
theorem maxTypes_is_model : maxTypes = 16 := by decide
theorem aggregateThreshold_pos : 0 < aggregateThreshold := by decide
theorem aggregateThreshold_is_model : aggregateThreshold = 512 := by decide
theorem bits_are_model : stopBit = 32768 ∧ indexBit = 16384 := by decide
theorem bits_disjoint : indexBit < stopBit ∧ stopBit < 2 ^ 16 := by decide

/-- every fundamental-type token and cv-qualifier the generator may meet in a demangled name -/
def fundamentalTokens : List String :=
  ["void", "bool", "char", "int", "float", "double", "short", "long", "signed", "unsigned",
   "const", "volatile", "wchar_t", "char8_t", "char16_t", "char32_t", "class", "struct", "enum"]

theorem keywords_cover_fundamentals : fundamentalTokens.all (fun t => keywords.contains t) = true := by
  decide

end Yomm2.Generated
