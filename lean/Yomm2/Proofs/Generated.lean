import Yomm2.Generated.Constants
import Yomm2.Model.Hash
/-!
# Obligations on the constants re-extracted from /repo on every run

The model hard-codes the layout constants of the C++ (16 reported types, the stop / index bits of the
16-bit codes): the lemmas on those fail to check when the source changes.
-/
namespace Yomm2.Generated

/-! The model *follows* these constants (number of passes, growth factor of the first table, attempt
budget, size of the aggregate split): tuning them in the source changes the model with it, and the
theorems hold for every value. What the theorems need is checked here. -/
theorem hashGrow_sane : 0 < hashGrowDen := by decide
theorem hashPasses_fit_the_word : hashPasses ≤ 8 := by decide
theorem maxTypes_is_model : maxTypes = 16 := by decide
theorem aggregateThreshold_pos : 0 < aggregateThreshold := by decide
theorem bits_are_model : stopBit = 32768 ∧ indexBit = 16384 := by decide
theorem bits_disjoint : indexBit < stopBit ∧ stopBit < 2 ^ 16 := by decide

/-- every fundamental-type token and cv-qualifier the generator may meet in a demangled name -/
def fundamentalTokens : List String :=
  ["void", "bool", "char", "int", "float", "double", "short", "long", "signed", "unsigned",
   "const", "volatile", "wchar_t", "char8_t", "char16_t", "char32_t", "class", "struct", "enum"]

theorem keywords_cover_fundamentals : fundamentalTokens.all (fun t => keywords.contains t) = true := by
  decide

end Yomm2.Generated
