import Yomm2.Proofs.RoundTripInstall
import Yomm2.Proofs.InstallTotal
import Yomm2.Proofs.Resolve
import Yomm2.Proofs.Report
/-!
# The round trip for what `update` produces

The structural hypotheses of `decode_encode_eq_install` hold for every output of `compile` (on a
registry without inheritance cycles whose methods all have a virtual parameter); what remains as a
hypothesis is that the numbers fit the 16-bit fields of the emitted structure.
-/
namespace Yomm2.RoundTrip
open Yomm2 Yomm2.Spec Yomm2.GraphProofs Yomm2.GraphFacts Yomm2.Cells Yomm2.TableProofs Yomm2.VtblContent
open Yomm2.Entries Yomm2.InstallTotal Yomm2.Bridge

/-- the numbers fit the `uint16_t` fields: exactly what the encoder checks, value by value -/
structure Fits16 (c : Compiled) : Prop where
  words : ∀ w ∈ (encode c).slots, w < wordLimit
  firsts : ∀ k, k < c.vtbl.length → c.slots.first.get k < stopBit
  entries : ∀ row ∈ c.vtbl, ∀ e ∈ row, entryFits c e = true
  cells : ∀ mo ∈ c.methods.zip c.outs, ¬ mo.1.vp.length < 2 → ∀ cell ∈ mo.2.table, cellIndex mo.1.specs.length cell.1 < stopBit

theorem fits16_iff (c : Compiled) : fits16 c = true ↔ Fits16 c := by
  unfold fits16
  simp only [Bool.and_eq_true, List.all_eq_true, decide_eq_true_eq, Bool.or_eq_true, List.mem_range]
  constructor
  · rintro ⟨⟨⟨h1, h2⟩, h3⟩, h4⟩
    exact ⟨h1, h2, h3, fun mo hmo har cell hcell => by
      rcases h4 mo hmo with h | h
      · exact absurd h har
      · exact h cell hcell⟩
  · intro h
    refine ⟨⟨⟨h.words, h.firsts⟩, h.entries⟩, fun mo hmo => ?_⟩
    by_cases har : mo.1.vp.length < 2
    · exact Or.inl har
    · exact Or.inr (h.cells mo hmo har)

theorem entryFits_eq (c : Compiled) (e : Entry) :
    entryFits c e = if e.vp ≠ 0 then decide (e.group < indexBit)
      else decide (e.method < indexBit) &&
        (if arOf c e.method == 1 then decide (cellIndex (nsOf c e.method) (cellAt c e) < stopBit)
         else decide (e.group < stopBit)) := rfl

theorem dtStarts_multi : ∀ (mos : List (MethodC × MethodOut)) (base k : Nat) (m : MethodC) (o : MethodOut),
    mos[k]? = some (m, o) → ¬ m.vp.length < 2 → ∃ b, (dtStarts mos base)[k]? = some (some b)
  | [], _, k, _, _, h, _ => by simp at h
  | (m0, o0) :: rest, base, k, m, o, h, hm => by
    cases k with
    | zero =>
      simp at h
      obtain ⟨rfl, rfl⟩ := h
      exact ⟨base, by simp [dtStarts, hm]⟩
    | succ k =>
      simp only [List.getElem?_cons_succ] at h
      by_cases h0 : m0.vp.length < 2
      · obtain ⟨b, hb⟩ := dtStarts_multi rest base k m o h hm
        exact ⟨b, by simp [dtStarts, h0, hb]⟩
      · obtain ⟨b, hb⟩ := dtStarts_multi rest (base + o0.table.length) k m o h hm
        exact ⟨b, by simp [dtStarts, h0, hb]⟩

/-- every table has a cell, and the definition indices in its cells are indices of definitions -/
theorem table_facts (c : Ctx) (m : MethodC) (mr : MethodRec) (hm : MethodMatches c m mr)
    (hvp : ∀ v ∈ m.vp, v < c.g.n) (hgood : Good c.g) :
    (dispatchMethod c.g m).table ≠ [] ∧
    ∀ cell ∈ (dispatchMethod c.g m).table, ∀ i, cell.1 = .defn i → i < m.specs.length := by
  constructor
  · -- the tuple of the parameter classes themselves has a cell
    have hacc : Forall₂ (fun cl v => cl ∈ c.g.cov.get v) m.vp m.vp := by
      have : ∀ (l : List Nat), (∀ v ∈ l, v < c.g.n) → Forall₂ (fun cl v => cl ∈ c.g.cov.get v) l l := by
        intro l
        induction l with
        | nil => intro _; exact Forall₂.nil
        | cons v vs ih =>
          intro h
          exact Forall₂.cons (cov_of_reach hgood (Reach.Reach.refl v) (h v (by simp))) (ih (fun x hx => h x (by simp [hx])))
      exact this m.vp hvp
    obtain ⟨gis, hloc⟩ := Report.locate c m 0 m.vp m.vp hacc
    obtain ⟨ks, hks⟩ := Report.keys_of_tuple c m.vp m.vp hacc
    obtain ⟨cell, conc, hget, _, _⟩ := dispatch_table_correct c m mr hm m.vp ks gis hks hloc
    intro hnil
    rw [hnil] at hget
    simp at hget
  · intro cell hmem i hi
    obtain ⟨k, hk⟩ := List.getElem?_of_mem hmem
    obtain ⟨cs, gis, hloc, hacc, hoff⟩ := Report.cell_has_tuple c.g m k (List.getElem?_eq_some_iff.mp hk).1
    obtain ⟨ks, hks⟩ := Report.keys_of_tuple c cs m.vp hacc
    obtain ⟨cell', conc, hget, _, hdef⟩ := dispatch_table_correct c m mr hm cs ks gis hks hloc
    rw [hoff, hk] at hget
    cases hget
    obtain ⟨df, hdf⟩ := hdef i hi
    have := (List.getElem?_eq_some_iff.mp hdf).1
    rw [forall₂_length hm.specs]
    exact this


/-- where the cells of the v-tables of a compiled registry come from -/
theorem cell_origin (proj : Nat → Nat) (reg : Registry) (hwf : WF proj reg.classes reg.methods)
    (c : Compiled) (hc : compile proj reg = .ok c) (row : List Entry) (hrow : row ∈ c.vtbl) (e : Entry) (he : e ∈ row) :
    (e = ⟨0, 0, 0⟩ ∧ c.methods ≠ []) ∨ ∃ w ∈ allWrites c.slots c.outs, w.2.2 = e := by
  obtain ⟨hg, _, hslots, _, hfold⟩ := compile_fields proj reg c hc
  have hgood := good_of_buildGraph proj reg.classes reg.methods c.graph hg hwf
  obtain ⟨ci, hci⟩ := List.getElem?_of_mem hrow
  obtain ⟨i, hi⟩ := List.getElem?_of_mem he
  have hcell : (c.vtbl[ci]?.bind (·[i]?)) = some e := by rw [hci]; exact hi
  rcases foldlM_cells c.slots _ _ _ hfold ci i e hcell with h0 | hw
  · left
    unfold vt0 at h0
    rw [List.getElem?_map] at h0
    cases hr : (List.range c.graph.n)[ci]? with
    | none => simp [hr] at h0
    | some ci' =>
      simp only [hr, Option.map_some, Option.bind_some] at h0
      have hmem := List.mem_of_getElem? h0
      refine ⟨(List.mem_replicate.mp hmem).2, ?_⟩
      have hpos : 0 < c.slots.vsize.get ci' := by
        have := (List.getElem?_eq_some_iff.mp h0).1
        simp only [List.length_replicate] at this
        omega
      intro hnil
      rw [hslots, hnil, assignSlots_nil_vsize hgood] at hpos
      omega
  · exact Or.inr hw

theorem mem_zip_map {α β} (f : α → β) : ∀ (l : List α) (ab : α × β), ab ∈ l.zip (l.map f) → ab.2 = f ab.1 ∧ ab.1 ∈ l
  | [], _, h => by simp at h
  | a :: l, ab, h => by
    simp only [List.map_cons, List.zip_cons_cons, List.mem_cons] at h
    rcases h with rfl | h
    · exact ⟨rfl, by simp⟩
    · obtain ⟨h1, h2⟩ := mem_zip_map f l ab h
      exact ⟨h1, by simp [h2]⟩

theorem cellIndex_lt (ns : Nat) (cell : Cell) (h : ∀ i, cell = .defn i → i < ns) (hb : ns + 1 < stopBit) :
    cellIndex ns cell < stopBit := by
  cases cell with
  | defn i => have := h i rfl; simp only [cellIndex]; omega
  | amb => simp only [cellIndex]; omega
  | ni => simp only [cellIndex]; omega

/-- **C13 for what `update` produces**: on a registry without inheritance cycles whose methods all have a
    virtual parameter, if the numbers fit the 16-bit fields of the emitted structure, decoding what the
    encoder emits for the result of `compile` rebuilds the image `install` builds -/
theorem round_trip_after_compile (proj : Nat → Nat) (reg : Registry) (hwf : WF proj reg.classes reg.methods)
    (c : Compiled) (hc : compile proj reg = .ok c) (inst : Installed) (hinst : install c = .ok inst)
    (har : ∀ m ∈ c.methods, 1 ≤ m.vp.length) (hfit : Fits16 c)
    (cells : List Nat) (hcells : cells.length = c.vtbl.length) (hnd : cells.Nodup) :
    ∃ d, decode (encode c) (msOf c) cells = .ok d ∧ d.toInstalled.data = inst.data ∧
      d.toInstalled.vptr = inst.vptr ∧ d.toInstalled.ss = inst.ss := by
  obtain ⟨hg, hms, hslots, houts, hfold⟩ := compile_fields proj reg c hc
  have hgoodg := good_of_buildGraph proj reg.classes reg.methods c.graph hg hwf
  obtain ⟨_, hn, hheads, _⟩ := buildGraph_fields proj reg.classes c.graph hg
  let ctx : Ctx := ⟨proj, reg, c.graph, hg, hwf⟩
  have hmatch : ∀ (mi : Nat) (m : MethodC), c.methods[mi]? = some m → ∃ mr, MethodMatches ctx m mr := by
    intro mi m hm
    have hms' := hms; rw [hheads] at hms'
    have hall := Resolve.resolveMethods_matches ctx reg.methods c.methods hms'
    have hlt : mi < reg.methods.length := by
      rw [← forall₂_length hall]; exact (List.getElem?_eq_some_iff.mp hm).1
    exact ⟨_, (forall₂_get hall mi m _ hm (List.getElem?_eq_getElem hlt)).1⟩
  have hvplt : ∀ (m : MethodC), m ∈ c.methods → ∀ v ∈ m.vp, v < c.graph.n := by
    intro m hm v hv
    have := CompileSlots.resolveMethods_vp_lt proj c.graph.heads reg.methods c.methods hms m hm v hv
    rw [hn, ← hheads]; exact this
  have hib2 : indexBit + indexBit = stopBit := by unfold indexBit stopBit; omega
  have hlen : c.methods.length = c.outs.length := by rw [houts, List.length_map]
  -- facts about the method at an index
  have hmeth : ∀ (mi : Nat) (m : MethodC), c.methods[mi]? = some m →
      c.outs[mi]? = some (dispatchMethod c.graph m) ∧ (c.methods.zip c.outs)[mi]? = some (m, dispatchMethod c.graph m) ∧
      (dispatchMethod c.graph m).table ≠ [] ∧
      ∀ cell ∈ (dispatchMethod c.graph m).table, ∀ i, cell.1 = .defn i → i < m.specs.length := by
    intro mi m hm
    have ho : c.outs[mi]? = some (dispatchMethod c.graph m) := by rw [houts, List.getElem?_map, hm]; rfl
    obtain ⟨mr, hmm⟩ := hmatch mi m hm
    have ht := table_facts ctx m mr hmm (hvplt m (List.mem_of_getElem? hm)) hgoodg
    exact ⟨ho, by rw [List.getElem?_zip_eq_some]; exact ⟨hm, ho⟩, ht.1, ht.2⟩
  -- an entry is good as soon as its method exists, its group is inside, and its parameter index is an index
  have hentry : ∀ (e : Entry) (m : MethodC), c.methods[e.method]? = some m → entryFits c e = true →
      e.vp < m.vp.length →
      EntryGood c (dtStarts (c.methods.zip c.outs) 0) e ∧ e.vp < arOf c e.method := by
    intro e m hm hef hvp
    rw [entryFits_eq] at hef
    obtain ⟨ho, hzip, hne, hdefn⟩ := hmeth e.method m hm
    have harm : arOf c e.method = m.vp.length := by simp [arOf, hm]
    have hnsm : nsOf c e.method = m.specs.length := by simp [nsOf, hm]
    have hmlt := (List.getElem?_eq_some_iff.mp hm).1
    refine ⟨⟨?_, ?_, ?_, ?_⟩, by rw [harm]; exact hvp⟩
    · intro hv
      simp only [hv, ne_eq, not_false_eq_true, if_true, decide_eq_true_eq] at hef
      omega
    · intro hv
      simp only [hv, ne_eq, not_true_eq_false, if_false, Bool.and_eq_true, decide_eq_true_eq] at hef
      exact ⟨hef.1, hmlt⟩
    · intro hv har1
      simp only [hv, ne_eq, not_true_eq_false, if_false, Bool.and_eq_true, decide_eq_true_eq, har1, beq_self_eq_true, if_true] at hef
      have hspec := hef.2
      rw [hnsm] at hspec ⊢
      have hcell : ∀ i, cellAt c e = .defn i → i < m.specs.length := by
        intro i hi
        unfold cellAt at hi
        rw [ho] at hi
        simp only [Option.bind_some] at hi
        cases ht : (dispatchMethod c.graph m).table[e.group]? with
        | none => simp [ht] at hi
        | some cell =>
          simp only [ht, Option.map_some, Option.getD_some] at hi
          exact hdefn cell (List.mem_of_getElem? ht) i hi
      exact ⟨hspec, hcell⟩
    · intro hv har1
      have har1' : (arOf c e.method == 1) = false := by simpa using har1
      simp only [hv, ne_eq, not_true_eq_false, if_false, Bool.and_eq_true, decide_eq_true_eq, har1', Bool.false_eq_true] at hef
      rw [harm] at har1
      have h1 := har m (List.mem_of_getElem? hm)
      obtain ⟨b, hb⟩ := dtStarts_multi (c.methods.zip c.outs) 0 e.method m _ hzip (by omega)
      exact ⟨hef.2, b, hb⟩
  apply decode_encode_eq_install c inst hinst cells hcells hnd hlen har
  · -- strides
    intro mo hmo
    rw [houts] at hmo
    obtain ⟨h1, _⟩ := mem_zip_map (dispatchMethod c.graph) c.methods mo hmo
    rw [h1]
    simp [dispatchMethod]
  · -- one `next` per definition
    intro mo hmo
    rw [houts] at hmo
    obtain ⟨h1, _⟩ := mem_zip_map (dispatchMethod c.graph) c.methods mo hmo
    rw [h1]
    simp [dispatchMethod]
  · -- tables
    intro mo hmo harity
    obtain ⟨mi, hmi⟩ := List.getElem?_of_mem hmo
    obtain ⟨hm, ho⟩ := List.getElem?_zip_eq_some.mp hmi
    obtain ⟨ho', _, hne, hdefn⟩ := hmeth mi mo.1 hm
    rw [ho] at ho'
    have ho2 : mo.2 = dispatchMethod c.graph mo.1 := Option.some.inj ho'
    rw [ho2]
    refine ⟨hne, ?_⟩
    intro cell hcell
    exact ⟨hfit.cells mo hmo (by omega) cell (by rw [ho2]; exact hcell), hdefn cell hcell⟩
  · -- entries
    intro row hrow e he
    have hef := hfit.entries row hrow e he
    rcases cell_origin proj reg hwf c hc row hrow e he with ⟨he0, hne⟩ | ⟨w, hw, hwe⟩
    · -- a value-initialised cell: group 0 of method 0
      subst he0
      obtain ⟨m, rest, hms0⟩ := List.exists_cons_of_ne_nil hne
      have hm : c.methods[0]? = some m := by rw [hms0]; rfl
      exact hentry ⟨0, 0, 0⟩ m hm hef (har m (List.mem_of_getElem? hm))
    · obtain ⟨mi, o, dim, gs, gi, gr, ho, hgs, _, _, _, hent⟩ := (mem_allWrites _ _ _).mp hw
      rw [← hwe, hent]
      rw [← hwe, hent] at hef
      have ho' := ho
      rw [houts, List.getElem?_map] at ho'
      cases hm : c.methods[mi]? with
      | none => simp [hm] at ho'
      | some m =>
        simp [hm] at ho'
        subst ho'
        have hdim : dim < m.vp.length := by
          have := (List.getElem?_eq_some_iff.mp hgs).1
          simpa [dispatchMethod] using this
        exact hentry ⟨mi, dim, gi⟩ m hm hef hdim
  · exact hfit.firsts

end Yomm2.RoundTrip
