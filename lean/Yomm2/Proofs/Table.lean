import Yomm2.Model.Dispatch
import Yomm2.SpecExec
/-!
# The recursive table builder puts the cell of a group tuple at its mixed-radix offset
-/
namespace Yomm2.TableProofs
open Yomm2 Yomm2.Spec

/-- block lemma: flatMap with constant block size is indexed by quotient and remainder -/
theorem getElem?_flatMap_const {α β} (l : List α) (f : α → List β) (B : Nat)
    (hB : ∀ x ∈ l, (f x).length = B) (i r : Nat) (hr : r < B) :
    (l.flatMap f)[i * B + r]? = (l[i]?).bind (fun x => (f x)[r]?) := by
  induction l generalizing i with
  | nil => simp
  | cons x xs ih =>
    have hx : (f x).length = B := hB x (by simp)
    have hxs : ∀ y ∈ xs, (f y).length = B := fun y hy => hB y (by simp [hy])
    cases i with
    | zero =>
      simp only [List.flatMap_cons, Nat.zero_mul, Nat.zero_add, List.getElem?_cons_zero, Option.bind_some]
      rw [List.getElem?_append_left (by omega)]
    | succ i =>
      simp only [List.flatMap_cons, List.getElem?_cons_succ]
      rw [List.getElem?_append_right (by rw [hx, Nat.succ_mul]; omega)]
      have : (i + 1) * B + r - (f x).length = i * B + r := by rw [hx, Nat.succ_mul]; omega
      rw [this]
      exact ih hxs i

def size : List (List Group) → Nat
  | [] => 1
  | g :: rest => g.length * size rest

theorem size_eq_prodList (dims : List (List Group)) : size dims = prodList (dims.map List.length) := by
  induction dims with
  | nil => rfl
  | cons g rest ih => simp [size, prodList, ih]

theorem tableGo_length {α} (cellOf : Bits → Bool → α) : ∀ (dims : List (List Group)) (cand : Bits) (conc : Bool),
    (tableGo cellOf dims cand conc).length = size dims
  | [], _, _ => by simp [tableGo, size]
  | g :: rest, cand, conc => by
    simp only [tableGo, size, List.length_flatMap]
    have : (g.map (fun gr => (tableGo cellOf rest (maskAnd cand gr.mask) (conc && gr.concrete)).length)) =
        g.map (fun _ => size rest) := by
      apply List.map_congr_left; intro a _; exact tableGo_length cellOf rest _ _
    rw [this]
    clear this
    induction g with
    | nil => simp
    | cons a as ih => simp [List.map_cons, List.sum_cons, ih, Nat.succ_mul, Nat.add_comm]

/-- the linear offset of a group tuple (outermost = last dimension first) -/
def offset : List (List Group) → List Nat → Nat
  | _ :: rest, i :: is => i * size rest + offset rest is
  | _, _ => 0

/-- candidates and the `concrete` flag after intersecting with the chosen group of every dimension -/
def narrowed : List (List Group) → List Nat → Bits → Bool → Option (Bits × Bool)
  | [], [], cand, conc => some (cand, conc)
  | g :: rest, i :: is, cand, conc =>
    (g[i]?).bind (fun gr => narrowed rest is (maskAnd cand gr.mask) (conc && gr.concrete))
  | _, _, _, _ => none

theorem offset_lt (dims : List (List Group)) (idx : List Nat)
    (h : Forall₂ (fun (g : List Group) i => i < g.length) dims idx) : offset dims idx < size dims := by
  induction h with
  | nil => simp [offset, size]
  | @cons g i rest is hi _ ih =>
    simp only [offset, size]
    calc i * size rest + offset rest is < i * size rest + size rest := by omega
      _ = (i + 1) * size rest := by rw [Nat.succ_mul]
      _ ≤ g.length * size rest := Nat.mul_le_mul_right _ hi

/-- **cell_index**: the cell for a tuple of group indices sits at the mixed-radix offset and holds
    `cellOf` of the candidates narrowed by those groups -/
theorem cell_index {α} (cellOf : Bits → Bool → α)
    (dims : List (List Group)) (idx : List Nat) (cand : Bits) (conc : Bool)
    (h : Forall₂ (fun (g : List Group) i => i < g.length) dims idx) :
    (tableGo cellOf dims cand conc)[offset dims idx]? =
      (narrowed dims idx cand conc).map (fun s => cellOf s.1 s.2) := by
  induction h generalizing cand conc with
  | nil => simp [tableGo, offset, narrowed]
  | @cons g i rest is hi hrest ih =>
    simp only [tableGo, offset, narrowed]
    rw [getElem?_flatMap_const g _ (size rest) (fun x _ => tableGo_length cellOf rest _ _) i _ (offset_lt rest is hrest)]
    cases hg : g[i]? with
    | none => simp
    | some gr => simp [ih]

/-! ## bit-level meaning of the narrowed candidates -/

theorem mem_maskAnd (a b : Bits) (i : Nat) : (maskAnd a b).mem i = (a.mem i && b.mem i) := by
  unfold maskAnd Bits.mem
  rw [List.getElem?_zipWith]
  cases a[i]? <;> cases b[i]? <;> simp

/-- a definition survives the narrowing iff its bit is set in the initial candidates and in the mask
    of every chosen group -/
theorem narrowed_bit : ∀ (dims : List (List Group)) (idx : List Nat) (cand : Bits) (conc : Bool) (s : Bits × Bool),
    narrowed dims idx cand conc = some s →
    ∀ b, s.1.mem b = (cand.mem b && (List.zipWith (fun (g : List Group) i => ((g[i]?).map (fun gr => gr.mask.mem b)).getD false) dims idx).all id)
  | [], [], cand, conc, s, h, b => by simp [narrowed] at h; subst h; simp
  | [], _ :: _, _, _, _, h, _ => by simp [narrowed] at h
  | _ :: _, [], _, _, _, h, _ => by simp [narrowed] at h
  | g :: rest, i :: is, cand, conc, s, h, b => by
    simp only [narrowed] at h
    cases hg : g[i]? with
    | none => simp [hg] at h
    | some gr =>
      simp only [hg, Option.bind_some] at h
      rw [narrowed_bit rest is _ _ s h b, mem_maskAnd]
      simp only [List.zipWith_cons_cons, List.all_cons, hg, Option.map_some, Option.getD_some, id]
      cases cand.mem b <;> cases gr.mask.mem b <;> simp

theorem narrowed_conc : ∀ (dims : List (List Group)) (idx : List Nat) (cand : Bits) (conc : Bool) (s : Bits × Bool),
    narrowed dims idx cand conc = some s →
    s.2 = (conc && (List.zipWith (fun (g : List Group) i => ((g[i]?).map (fun gr => gr.concrete)).getD false) dims idx).all id)
  | [], [], cand, conc, s, h => by simp [narrowed] at h; subst h; simp
  | [], _ :: _, _, _, _, h => by simp [narrowed] at h
  | _ :: _, [], _, _, _, h => by simp [narrowed] at h
  | g :: rest, i :: is, cand, conc, s, h => by
    simp only [narrowed] at h
    cases hg : g[i]? with
    | none => simp [hg] at h
    | some gr =>
      simp only [hg, Option.bind_some] at h
      rw [narrowed_conc rest is _ _ s h]
      simp only [List.zipWith_cons_cons, List.all_cons, hg, Option.map_some, Option.getD_some, id]
      cases conc <;> cases gr.concrete <;> simp

/-- `applicableOf` lists exactly the set bits -/
theorem mem_applicableOf (mask : Bits) (i : Nat) : i ∈ applicableOf mask ↔ mask.mem i = true := by
  unfold applicableOf Bits.mem
  simp only [List.mem_filterMap]
  constructor
  · rintro ⟨⟨b, j⟩, hm, hf⟩
    have := List.mem_zipIdx hm
    simp only at hf
    split at hf
    · rename_i hb
      cases hf
      simp only [Nat.zero_add, Nat.sub_zero] at this
      obtain ⟨_, _, hget⟩ := this
      rw [List.getElem?_eq_getElem (by omega), ← hget, hb]; rfl
    · cases hf
  · intro h
    cases hg : mask[i]? with
    | none => simp [hg] at h
    | some b =>
      simp [hg] at h
      subst h
      refine ⟨(true, i), ?_, by simp⟩
      have hlt := (List.getElem?_eq_some_iff.mp hg).1
      rw [List.mem_zipIdx_iff_getElem?]
      simpa using hg

/-! ## groups of one dimension -/

theorem groupsOf_masks (covV : List Nat) (maskOf : Nat → Bits) (abstract : Nat → Bool) :
    (groupsOf covV maskOf abstract).map (·.mask) =
      isortBy (fun a b => maskKey a < maskKey b) (dedup (covV.map maskOf)) := by
  unfold groupsOf
  simp only [List.map_map]
  conv => rhs; rw [← List.map_id (isortBy (fun a b => maskKey a < maskKey b) (dedup (covV.map maskOf)))]
  apply List.map_congr_left
  intro a _
  rfl

theorem groupsOf_masks_nodup (covV : List Nat) (maskOf : Nat → Bits) (abstract : Nat → Bool) :
    ((groupsOf covV maskOf abstract).map (·.mask)).Nodup := by
  rw [groupsOf_masks]
  exact nodup_isortBy _ _ (nodup_dedup _)

/-- every acceptable class lies in exactly one group: the one whose mask is the class's mask -/
theorem group_of_class (covV : List Nat) (maskOf : Nat → Bits) (abstract : Nat → Bool) (c : Nat) (hc : c ∈ covV) :
    ∃ (gi : Nat) (gr : Group), (groupsOf covV maskOf abstract)[gi]? = some gr ∧ gr.mask = maskOf c ∧ c ∈ gr.classes ∧
      gr.concrete = covV.any (fun c' => maskOf c' == maskOf c && !abstract c') := by
  have hm : maskOf c ∈ (groupsOf covV maskOf abstract).map (·.mask) := by
    rw [groupsOf_masks, mem_isortBy, mem_dedup]
    exact List.mem_map.mpr ⟨c, hc, rfl⟩
  obtain ⟨gr, hgr, hmask⟩ := List.mem_map.mp hm
  obtain ⟨gi, hgi⟩ := List.getElem?_of_mem hgr
  refine ⟨gi, gr, hgi, hmask, ?_, ?_⟩
  · unfold groupsOf at hgr
    obtain ⟨m, _, rfl⟩ := List.mem_map.mp hgr
    simp only at hmask ⊢
    exact List.mem_filter.mpr ⟨hc, by simp [hmask]⟩
  · unfold groupsOf at hgr
    obtain ⟨m, _, rfl⟩ := List.mem_map.mp hgr
    simp only at hmask ⊢
    rw [hmask]

/-- the classes of a group are the acceptable classes with the group's mask -/
theorem group_classes (covV : List Nat) (maskOf : Nat → Bits) (abstract : Nat → Bool) (gr : Group)
    (hgr : gr ∈ groupsOf covV maskOf abstract) (c : Nat) : c ∈ gr.classes ↔ c ∈ covV ∧ maskOf c = gr.mask := by
  unfold groupsOf at hgr
  obtain ⟨m, _, rfl⟩ := List.mem_map.mp hgr
  simp [List.mem_filter]

/-- the group index of a class is determined by its mask -/
theorem group_index_unique (covV : List Nat) (maskOf : Nat → Bits) (abstract : Nat → Bool)
    (i j : Nat) (gi gj : Group) (hi : (groupsOf covV maskOf abstract)[i]? = some gi)
    (hj : (groupsOf covV maskOf abstract)[j]? = some gj) (hm : gi.mask = gj.mask) : i = j := by
  have hnd := groupsOf_masks_nodup covV maskOf abstract
  have ei := List.getElem?_eq_some_iff.mp hi
  have ej := List.getElem?_eq_some_iff.mp hj
  have li : i < ((groupsOf covV maskOf abstract).map (·.mask)).length := by simpa using ei.1
  have lj : j < ((groupsOf covV maskOf abstract).map (·.mask)).length := by simpa using ej.1
  apply (List.getElem_inj (h₀ := li) (h₁ := lj) hnd).mp
  simp only [List.getElem_map]
  rw [ei.2, ej.2, hm]

end Yomm2.TableProofs
