import Yomm2.Proofs.RoundTrip
/-!
# Decoding the encoded dispatch tables of the multi-methods
-/
namespace Yomm2.RoundTrip
open Yomm2

/-- one run: the codes of a non-empty table, the last one carrying the stop bit -/
theorem decodeRun_ok (mi ns : Nat) : ∀ (cells : List Cell) (f : Nat) (rest : List Nat) (acc : List DWord),
    cells ≠ [] → cells.length ≤ f →
    (∀ cell ∈ cells, cellIndex ns cell < stopBit ∧ ∀ i, cell = .defn i → i < ns) →
    decodeRun mi ns f (markLast (cells.map (cellIndex ns)) ++ rest) acc =
      .ok (rest, acc ++ cells.map (fun cell => DWord.fn mi cell))
  | [], _, _, _, hne, _, _ => absurd rfl hne
  | [cell], f, rest, acc, _, hf, hgood => by
    cases f with
    | zero => simp at hf
    | succ f =>
      obtain ⟨hlt, hdef⟩ := hgood cell (by simp)
      simp only [List.map_cons, List.map_nil, markLast, List.singleton_append, decodeRun]
      have hp : cellIndex ns cell + stopBit ≥ stopBit := by omega
      simp only [if_pos hp, Nat.add_sub_cancel, defOfIndex_cellIndex ns cell hdef]
  | cell :: cell' :: more, f, rest, acc, _, hf, hgood => by
    cases f with
    | zero => simp at hf
    | succ f =>
      obtain ⟨hlt, hdef⟩ := hgood cell (by simp)
      simp only [List.map_cons, markLast, List.cons_append, decodeRun]
      have hn : ¬ (cellIndex ns cell ≥ stopBit) := by omega
      simp only [if_neg hn, defOfIndex_cellIndex ns cell hdef]
      have := decodeRun_ok mi ns (cell' :: more) f rest (acc ++ [DWord.fn mi cell]) (by simp)
        (by simp at hf ⊢; omega) (fun x hx => hgood x (by simp [hx]))
      simp only [List.map_cons] at this
      rw [this]
      simp

/-- the codes the encoder emits for the tables of the methods from index `mi0` on -/
def dtCodes : List (MethodC × MethodOut) → List Nat
  | [] => []
  | (m, o) :: rest =>
    (if m.vp.length < 2 then [] else markLast (o.table.map (fun cell => cellIndex m.specs.length cell.1))) ++ dtCodes rest

/-- the words they decode to -/
def dtWords : List (MethodC × MethodOut) → Nat → List DWord
  | [], _ => []
  | (m, o) :: rest, mi =>
    (if m.vp.length < 2 then [] else o.table.map (fun cell => DWord.fn mi cell.1)) ++ dtWords rest (mi + 1)

/-- where each method's table starts among the decoded words -/
def dtStarts : List (MethodC × MethodOut) → Nat → List (Option Nat)
  | [], _ => []
  | (m, o) :: rest, base =>
    if m.vp.length < 2 then none :: dtStarts rest base
    else some base :: dtStarts rest (base + o.table.length)

def TableGood (mo : MethodC × MethodOut) : Prop :=
  2 ≤ mo.1.vp.length → mo.2.table ≠ [] ∧
    ∀ cell ∈ mo.2.table, cellIndex mo.1.specs.length cell.1 < stopBit ∧ ∀ i, cell.1 = .defn i → i < mo.1.specs.length

theorem decodeDtblsGo_ok : ∀ (mos : List (MethodC × MethodOut)) (mi : Nat) (post : List Nat) (acc : List DWord)
    (starts : List (Option Nat)), (∀ mo ∈ mos, TableGood mo) →
    decodeDtblsGo (mos.map (fun mo => (mo.1.vp.length, mo.1.specs.length))) mi (dtCodes mos ++ post) acc starts =
      .ok (acc ++ dtWords mos mi, starts ++ dtStarts mos acc.length)
  | [], mi, post, acc, starts, _ => by
    simp [decodeDtblsGo, dtCodes, dtWords, dtStarts]
  | (m, o) :: rest, mi, post, acc, starts, hgood => by
    simp only [List.map_cons, decodeDtblsGo, dtCodes, dtWords, dtStarts]
    by_cases har : m.vp.length < 2
    · simp only [har, if_true, List.nil_append]
      rw [decodeDtblsGo_ok rest (mi + 1) post acc (starts ++ [none]) (fun mo hmo => hgood mo (by simp [hmo]))]
      simp
    · simp only [har, if_false]
      obtain ⟨hne, hcells⟩ := hgood (m, o) (by simp) (by show 2 ≤ m.vp.length; omega)
      have hrun := decodeRun_ok mi m.specs.length (o.table.map (·.1))
        ((markLast (o.table.map (fun cell => cellIndex m.specs.length cell.1)) ++ (dtCodes rest ++ post)).length + 1)
        (dtCodes rest ++ post) [] (by simpa using hne)
        (by
          simp only [List.length_map, List.length_append, markLast_length]
          omega)
        (by
          intro cell hcell
          obtain ⟨cb, hcb, rfl⟩ := List.mem_map.mp hcell
          exact hcells cb hcb)
      simp only [List.map_map, List.nil_append] at hrun
      have hfun : ((cellIndex m.specs.length) ∘ fun (x : Cell × Bool) => x.1) = fun cell => cellIndex m.specs.length cell.1 := rfl
      rw [hfun] at hrun
      rw [List.append_assoc, hrun]
      simp only
      rw [decodeDtblsGo_ok rest (mi + 1) post
        (acc ++ List.map ((fun cell => DWord.fn mi cell) ∘ fun (x : Cell × Bool) => x.1) o.table)
        (starts ++ [some acc.length]) (fun mo hmo => hgood mo (by simp [hmo]))]
      simp [Function.comp_def]


theorem flatMap_zipIdx_dtCodes : ∀ (mos : List (MethodC × MethodOut)) (k : Nat),
    (List.zipIdx mos k).flatMap (fun (x : (MethodC × MethodOut) × Nat) =>
      if x.1.1.vp.length < 2 then []
      else markLast (x.1.2.table.map (fun cell => cellIndex x.1.1.specs.length cell.1))) = dtCodes mos
  | [], _ => rfl
  | (m, o) :: rest, k => by
    rw [List.zipIdx_cons, List.flatMap_cons, dtCodes, flatMap_zipIdx_dtCodes rest (k + 1)]

theorem encode_dtbls (c : Compiled) : (encode c).dtbls = dtCodes (c.methods.zip c.outs) := by
  have := flatMap_zipIdx_dtCodes (c.methods.zip c.outs) 0
  simpa [encode] using this

theorem msOf_eq_zip (c : Compiled) (hlen : c.methods.length ≤ c.outs.length) :
    msOf c = (c.methods.zip c.outs).map (fun mo => (mo.1.vp.length, mo.1.specs.length)) := by
  unfold msOf
  conv => lhs; rw [← List.map_fst_zip (l₁ := c.methods) (l₂ := c.outs) hlen]
  rw [List.map_map]
  rfl

/-- **the dispatch tables of the multi-methods decode to their cells**, and each table's position is
    recorded for the v-table entries that point into it -/
theorem decodeDtbls_encode (c : Compiled) (hlen : c.methods.length ≤ c.outs.length)
    (hgood : ∀ mo ∈ c.methods.zip c.outs, TableGood mo) :
    decodeDtbls (msOf c) (encode c).dtbls =
      .ok (dtWords (c.methods.zip c.outs) 0, dtStarts (c.methods.zip c.outs) 0) := by
  unfold decodeDtbls
  rw [msOf_eq_zip c hlen, encode_dtbls]
  have := decodeDtblsGo_ok (c.methods.zip c.outs) 0 [] [] [] hgood
  simpa using this

end Yomm2.RoundTrip
