/-!
# Basic utilities shared by the model (core Lean only, no Mathlib)

* `dedup` — keep first occurrences (what the `mark` loops of `augment_classes` do);
* `insertBy` / `isortBy` — the stable insertion sort libstdc++ performs for ≤ 16 elements;
* `Bits` — `boost::dynamic_bitset<>` as `List Bool` with explicit size.
-/
namespace Yomm2

/-- keep the first occurrence of every element -/
def dedup {α} [DecidableEq α] : List α → List α
  | [] => []
  | x :: xs => x :: (dedup xs).filter (fun y => y ≠ x)

/-- insert `x` before the first element `y` with `lt x y` (strict "goes before") -/
def insertBy {α} (lt : α → α → Bool) (x : α) : List α → List α
  | [] => [x]
  | y :: ys => if lt x y then x :: y :: ys else y :: insertBy lt x ys

/-- left-to-right insertion sort; stable -/
def isortBy {α} (lt : α → α → Bool) (l : List α) : List α :=
  l.foldl (fun acc x => insertBy lt x acc) []

/-- pointwise update of a function -/
def upd {α β} [DecidableEq α] (f : α → β) (a : α) (v : β) : α → β := fun x => if x = a then v else f x

@[simp] theorem upd_same {α β} [DecidableEq α] (f : α → β) (a : α) (v : β) : upd f a v a = v := by
  simp [upd]

theorem upd_other {α β} [DecidableEq α] (f : α → β) (a x : α) (v : β) (h : x ≠ a) : upd f a v x = f x := by
  simp [upd, h]

/-! ## bit sets -/

abbrev Bits := List Bool

def Bits.mem (b : Bits) (i : Nat) : Bool := b[i]?.getD false

/-- `merge_into a b`: resize `b` up to `a.size` if shorter, then or `a` into it -/
def mergeInto (a b : Bits) : Bits :=
  List.zipWithAll (fun x y => x.getD false || y.getD false) b a

def oneHot (i : Nat) : Bits := List.replicate i false ++ [true]

/-- `set_bit` -/
def setBit (b : Bits) (i : Nat) : Bits := mergeInto (oneHot i) b

/-- first index not set (the size if all are set): the `for (; slot < size; ++slot)` scan -/
def firstFree (b : Bits) : Nat := b.findIdx (fun x => !x)

/-- `find_first()`; `none` is `npos` -/
def Bits.findFirst (b : Bits) : Option Nat :=
  let i := b.findIdx (fun x => x)
  if i < b.length then some i else none

theorem mem_mergeInto (a b : Bits) (i : Nat) : (mergeInto a b).mem i = (b.mem i || a.mem i) := by
  unfold mergeInto Bits.mem
  rw [List.getElem?_zipWithAll]
  cases b[i]? <;> cases a[i]? <;> simp

theorem length_zipWithAll' {α β γ} (f : Option α → Option β → γ) (l₁ : List α) (l₂ : List β) :
    (List.zipWithAll f l₁ l₂).length = max l₁.length l₂.length := by
  induction l₁ generalizing l₂ with
  | nil => cases l₂ <;> simp [List.zipWithAll]
  | cons x xs ih =>
    cases l₂ with
    | nil => simp [List.zipWithAll]
    | cons y ys => simp [List.zipWithAll, ih]

theorem length_mergeInto (a b : Bits) : (mergeInto a b).length = max b.length a.length := by
  simp [mergeInto, length_zipWithAll']

theorem mem_oneHot (i j : Nat) : (oneHot i).mem j = decide (j = i) := by
  unfold oneHot Bits.mem
  by_cases h : j < i
  · rw [List.getElem?_append_left (by simpa using h)]
    simp [h, Nat.ne_of_lt h]
  · rw [List.getElem?_append_right (by simpa using Nat.le_of_not_lt h)]
    simp only [List.length_replicate]
    by_cases he : j = i
    · subst he; simp
    · have : j - i ≠ 0 := by omega
      cases hji : j - i with
      | zero => exact absurd hji this
      | succ k => simp [he]

theorem mem_setBit (b : Bits) (i j : Nat) : (setBit b i).mem j = (decide (j = i) || b.mem j) := by
  unfold setBit
  rw [mem_mergeInto, mem_oneHot, Bool.or_comm]

theorem firstFree_not_mem (b : Bits) : b.mem (firstFree b) = false := by
  unfold firstFree Bits.mem
  by_cases h : b.findIdx (fun x => !x) < b.length
  · have := List.findIdx_getElem (w := h)
    simp only [Bool.not_eq_eq_eq_not, Bool.not_true] at this
    rw [List.getElem?_eq_getElem h, this]; rfl
  · rw [List.getElem?_eq_none (Nat.le_of_not_lt h)]; rfl

theorem Bits.mem_lt_length (b : Bits) (i : Nat) (h : b.mem i = true) : i < b.length := by
  unfold Bits.mem at h
  by_cases hi : i < b.length
  · exact hi
  · rw [List.getElem?_eq_none (Nat.le_of_not_lt hi)] at h; simp at h

/-! ## dedup lemmas -/

theorem mem_dedup {α} [DecidableEq α] (l : List α) (x : α) : x ∈ dedup l ↔ x ∈ l := by
  induction l with
  | nil => simp [dedup]
  | cons y ys ih =>
    simp only [dedup, List.mem_cons, List.mem_filter, decide_eq_true_eq, ih]
    constructor
    · rintro (h | ⟨h, _⟩)
      · exact Or.inl h
      · exact Or.inr h
    · rintro (h | h)
      · exact Or.inl h
      · by_cases hxy : x = y
        · exact Or.inl hxy
        · exact Or.inr ⟨h, hxy⟩

theorem nodup_dedup {α} [DecidableEq α] (l : List α) : (dedup l).Nodup := by
  induction l with
  | nil => simp [dedup]
  | cons y ys ih =>
    simp only [dedup, List.nodup_cons, List.mem_filter, decide_eq_true_eq]
    exact ⟨fun h => h.2 rfl, List.Nodup.sublist List.filter_sublist ih⟩

theorem mem_insertBy {α} (lt : α → α → Bool) (x y : α) (l : List α) :
    y ∈ insertBy lt x l ↔ y = x ∨ y ∈ l := by
  induction l with
  | nil => simp [insertBy]
  | cons z zs ih =>
    simp only [insertBy]
    split
    · simp
    · simp only [List.mem_cons, ih]
      constructor
      · rintro (h | h | h)
        · exact Or.inr (Or.inl h)
        · exact Or.inl h
        · exact Or.inr (Or.inr h)
      · rintro (h | h | h)
        · exact Or.inr (Or.inl h)
        · exact Or.inl h
        · exact Or.inr (Or.inr h)

theorem mem_isortBy {α} (lt : α → α → Bool) (l : List α) (y : α) : y ∈ isortBy lt l ↔ y ∈ l := by
  unfold isortBy
  suffices h : ∀ acc, y ∈ l.foldl (fun acc x => insertBy lt x acc) acc ↔ y ∈ acc ∨ y ∈ l by
    simpa using h []
  induction l with
  | nil => simp
  | cons x xs ih =>
    intro acc
    simp only [List.foldl_cons, ih, mem_insertBy, List.mem_cons]
    constructor
    · rintro ((h | h) | h)
      · exact Or.inr (Or.inl h)
      · exact Or.inl h
      · exact Or.inr (Or.inr h)
    · rintro (h | h | h)
      · exact Or.inl (Or.inr h)
      · exact Or.inl (Or.inl h)
      · exact Or.inr h

theorem nodup_insertBy {α} (lt : α → α → Bool) (x : α) (l : List α) (h : l.Nodup) (hx : x ∉ l) :
    (insertBy lt x l).Nodup := by
  induction l with
  | nil => simp [insertBy]
  | cons y ys ih =>
    simp only [insertBy]
    split
    · exact List.nodup_cons.mpr ⟨hx, h⟩
    · have hy := List.nodup_cons.mp h
      have hxy : x ≠ y := fun e => hx (by simp [e])
      have hxs : x ∉ ys := fun e => hx (by simp [e])
      refine List.nodup_cons.mpr ⟨?_, ih hy.2 hxs⟩
      intro hm
      rcases (mem_insertBy lt x y ys).mp hm with h1 | h1
      · exact hxy h1.symm
      · exact hy.1 h1

theorem nodup_isortBy {α} (lt : α → α → Bool) (l : List α) (h : l.Nodup) : (isortBy lt l).Nodup := by
  unfold isortBy
  suffices H : ∀ acc : List α, acc.Nodup → (∀ x ∈ l, x ∉ acc) →
      (l.foldl (fun acc x => insertBy lt x acc) acc).Nodup by
    exact H [] List.nodup_nil (by simp)
  induction l with
  | nil => intro acc ha _; exact ha
  | cons x xs ih =>
    intro acc ha hdis
    simp only [List.foldl_cons]
    have hx := List.nodup_cons.mp h
    apply ih hx.2
    · exact nodup_insertBy lt x acc ha (hdis x (by simp))
    · intro y hy hm
      rcases (mem_insertBy lt x y acc).mp hm with h1 | h1
      · exact hx.1 (h1 ▸ hy)
      · exact hdis y (by simp [hy]) h1

end Yomm2
