import Yomm2.Basic
/-!
# Input and output types of the model of `update`

The model mirrors `detail/compiler.hpp` stage by stage. Everything is a total function; where the
C++ would have undefined behaviour the model returns `Err.fault`.
-/
namespace Yomm2

/-- table-backed function (O(1) lookups in the compiled driver) -/
structure Tab (α : Type) where
  arr : Array α
  dflt : α

def Tab.get {α} (t : Tab α) (i : Nat) : α := t.arr[i]?.getD t.dflt

def Tab.ofFn {α} (n : Nat) (f : Nat → α) (d : α) : Tab α := ⟨((List.range n).map f).toArray, d⟩

theorem Tab.get_ofFn {α} (n : Nat) (f : Nat → α) (d : α) (i : Nat) :
    (Tab.ofFn n f d).get i = if i < n then f i else d := by
  unfold Tab.get Tab.ofFn
  by_cases h : i < n
  · simp [h]
  · simp [h]

/-- functional update; grows the table when `i` is beyond its end, so that `get_set` is unconditional -/
def Tab.set {α} (t : Tab α) (i : Nat) (v : α) : Tab α :=
  if i < t.arr.size then ⟨t.arr.setIfInBounds i v, t.dflt⟩
  else ⟨(t.arr ++ Array.replicate (i - t.arr.size) t.dflt).push v, t.dflt⟩

def Tab.const {α} (d : α) : Tab α := ⟨#[], d⟩

@[simp] theorem Tab.get_const {α} (d : α) (i : Nat) : (Tab.const d).get i = d := by
  simp [Tab.get, Tab.const]

theorem Tab.get_set {α} (t : Tab α) (i j : Nat) (v : α) :
    (t.set i v).get j = if j = i then v else t.get j := by
  unfold Tab.set Tab.get
  by_cases h : i < t.arr.size
  · simp only [h, if_true, Array.getElem?_setIfInBounds]
    by_cases hij : j = i
    · subst hij; simp
    · have : ¬ i = j := fun e => hij e.symm
      simp [hij, this]
  · simp only [h, if_false, Array.getElem?_push, Array.getElem?_append, Array.getElem?_replicate,
      Array.size_append, Array.size_replicate]
    have hle : t.arr.size ≤ i := Nat.le_of_not_lt h
    by_cases hij : j = i
    · subst hij
      have : t.arr.size + (j - t.arr.size) = j := by omega
      simp [this]
    · have hne : ¬ j = t.arr.size + (i - t.arr.size) := by omega
      simp only [hne, hij, if_false]
      by_cases hj : j < t.arr.size
      · simp [hj]
      · simp only [hj, if_false]
        by_cases hj2 : j - t.arr.size < i - t.arr.size
        · simp [hj2, Array.getElem?_eq_none (Nat.le_of_not_lt hj)]
        · simp [hj2, Array.getElem?_eq_none (Nat.le_of_not_lt hj)]

@[simp] theorem Tab.get_set_same {α} (t : Tab α) (i : Nat) (v : α) : (t.set i v).get i = v := by
  simp [Tab.get_set]

theorem Tab.get_set_other {α} (t : Tab α) (i j : Nat) (v : α) (h : j ≠ i) :
    (t.set i v).get j = t.get j := by
  simp [Tab.get_set, h]

/-- writing twice to one index: the second write wins (also structurally) -/
theorem Tab.set_set_same {α} (t : Tab α) (i : Nat) (a b : α) : (t.set i a).set i b = t.set i b := by
  unfold Tab.set
  by_cases h : i < t.arr.size
  · simp [h]
  · have h2 : t.arr.size + (i - t.arr.size) = i := by omega
    simp only [h, if_false, Array.size_push, Array.size_append, Array.size_replicate, h2, Nat.lt_succ_self, if_true]
    congr 1
    apply Array.ext_getElem?
    intro j
    simp only [Array.getElem?_setIfInBounds, Array.getElem?_push, Array.size_push, Array.size_append, Array.size_replicate, h2]
    by_cases hj : i = j
    · subst hj; simp
    · have : ¬ j = i := fun e => hj e.symm
      simp [hj, this]

/-- association list with most recent binding first: the `slots` vectors of all methods -/
def alGet {κ ν} [DecidableEq κ] (l : List (κ × ν)) (d : ν) (k : κ) : ν :=
  match l with
  | [] => d
  | (k', v) :: rest => if k = k' then v else alGet rest d k

/-- kinds of parameters in a method signature: `virtual_<T&>`, `virtual_ptr<T>`, plain -/
inductive Kind
  | virt
  | vptr
  | nonvirt
deriving DecidableEq, Repr

def Kind.isVirtual : Kind → Bool
  | .nonvirt => false
  | _ => true

/-- one `class_info` record: its type id, the ids it lists as bases (usually including itself) -/
structure ClassRec where
  id : Nat
  bases : List Nat
  abstract : Bool := false
deriving Repr, DecidableEq

/-- one `definition_info` -/
structure DefRec where
  id : Nat
  vp : List Nat
deriving Repr, DecidableEq

/-- one `method_info` with its definitions (`specs`) in catalog order -/
structure MethodRec where
  key : Nat
  shape : List Kind
  vp : List Nat
  defs : List DefRec
deriving Repr

structure Registry where
  classes : List ClassRec
  methods : List MethodRec
deriving Repr

inductive Err
  | unknownClass (id : Nat)
  | hashSearch (attempts buckets : Nat)
  | fault (what : String)
deriving Repr, DecidableEq

/-- a cell of a dispatch table: a definition (by index in the method's catalog) or an error handler -/
inductive Cell
  | defn (i : Nat)
  | amb
  | ni
deriving Repr, DecidableEq

structure Report where
  cells : Nat := 0
  concreteCells : Nat := 0
  notImplemented : Nat := 0
  concreteNotImplemented : Nat := 0
  ambiguous : Nat := 0
  concreteAmbiguous : Nat := 0
deriving Repr, DecidableEq

/-- v-table entry: method index, virtual parameter index, group index -/
structure Entry where
  method : Nat
  vp : Nat
  group : Nat
deriving Repr, DecidableEq

/-- a word of `dispatch_data`, tagged by what the C++ stored there -/
inductive Word
  | fn (m : Nat) (c : Cell)      -- pointer to a definition of method `m`, or to one of its handlers
  | ptr (i : Nat)                -- pointer to `dispatch_data[i]`
  | num (n : Nat)                -- a group index
deriving Repr, DecidableEq

end Yomm2
