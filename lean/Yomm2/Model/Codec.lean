import Yomm2.Model.Runtime
/-!
# `generator::encode_dispatch_data` and `decode_dispatch_data`   (generator.hpp:277-440, decode.hpp)

The emitted structure is
```
struct { union { struct { uint16_t headroom[H]; uint16_t slots[S]; uint16_t vtbls[E]; } encoded;
                 std::uintptr_t vtbls[D]; };
         std::uintptr_t dtbls[DT]; }
```
Decoding is done in place: decoded v-table word `k` overwrites 16-bit words `[4k, 4k+4)` of the
union, so every code must be read before the write cursor reaches it.
-/
namespace Yomm2

def stopBit : Nat := 32768
def indexBit : Nat := 16384

structure Emitted where
  headroom : Nat
  slotsN : Nat
  encN : Nat
  decN : Nat
  dtblN : Nat
  slots : List Nat
  vtbls : List Nat
  dtbls : List Nat
deriving Repr, DecidableEq

/-- `spec_index` of a table cell: definitions by position, then `ambiguous`, `not_implemented` -/
def cellIndex (nspecs : Nat) : Cell → Nat
  | .defn i => i
  | .amb => nspecs
  | .ni => nspecs + 1

/-- codes of one v-table entry (without the stop bit) and whether it takes two words -/
def entryCodes (c : Compiled) (e : Entry) : List Nat :=
  if e.vp ≠ 0 then [e.group + indexBit]
  else
    let ar := ((c.methods[e.method]?).map (fun m => m.vp.length)).getD 0
    let nspecs := ((c.methods[e.method]?).map (fun m => m.specs.length)).getD 0
    if ar == 1 then
      let cell := (((c.outs[e.method]?).bind (fun o => o.table[e.group]?)).map (·.1)).getD .ni
      [e.method, cellIndex nspecs cell]
    else [e.method, e.group]

/-- add the stop bit to the last code -/
def markLast : List Nat → List Nat
  | [] => []
  | [x] => [x + stopBit]
  | x :: xs => x :: markLast xs

def encodeClass (c : Compiled) (ci : Nat) (row : List Entry) : List Nat :=
  let first := c.slots.first.get ci
  match row with
  | [] => [first + stopBit]
  | _ =>
    let body := (List.zipIdx row).flatMap (fun (e, k) =>
      if k + 1 == row.length then markLast (entryCodes c e) else entryCodes c e)
    first :: body

/-- the two cursors of the decoder as the encoder replays them: read cursor (16-bit codes), write
    cursor (machine words), and the largest lead of the write cursor seen so far -/
structure Cur where
  enc : Nat
  dec : Nat
  hr : Nat

/-- one v-table entry: one or two codes read, one word written -/
def stepCur (S : Nat) (a : Cur) (e : Entry) : Cur :=
  let enc := a.enc + (if e.vp ≠ 0 then 1 else 2)
  let dec := a.dec + 1
  { enc, dec, hr := max a.hr (4 * dec - (S + enc)) }

def rowCur (S : Nat) (row : List Entry) (a : Cur) : Cur := row.foldl (stepCur S) a

/-- one class: its first-slot code, then its entries -/
def clsCur (S : Nat) (rows : List (List Entry)) (a : Cur) : Cur :=
  rows.foldl (fun a row => rowCur S row { a with enc := a.enc + 1 }) a

def encode (c : Compiled) : Emitted :=
  -- per method: slots, strides, then what `next` refers to in each definition (an index into the method's
  -- definitions followed by the two error pseudo-definitions; the repair of D15)
  let slotsN := (c.methods.map (fun m => 2 * m.vp.length - 1 + m.specs.length)).sum
  let slots := (List.zipIdx (c.methods.zip c.outs)).flatMap (fun ((m, o), mi) =>
    slotsOf c.slots mi m.vp.length ++ o.strides ++ o.nexts.map (cellIndex m.specs.length))
  let vt := (List.zipIdx c.vtbl).flatMap (fun (row, ci) => encodeClass c ci row)
  let decN := (c.vtbl.map List.length).sum
  -- headroom: replay the cursor positions entry by entry
  let hr := (clsCur slotsN c.vtbl { enc := 0, dec := 0, hr := 0 }).hr
  let dt := (List.zipIdx (c.methods.zip c.outs)).flatMap (fun ((m, o), _mi) =>
    if m.vp.length < 2 then []
    else
      let codes := o.table.map (fun cell => cellIndex m.specs.length cell.1)
      markLast codes)
  { headroom := hr, slotsN, encN := vt.length, decN, dtblN := dt.length, slots, vtbls := vt, dtbls := dt }

/-! ## what fits

Every value is emitted on 16 bits, some along with one or two flags; `encode_dispatch_data` checks each
value against its field as it emits it and throws instead of emitting a value that would decode to
something else. -/

def wordLimit : Nat := 65536

/-- the codes of one v-table entry fit: a group index beside the index and stop flags; a method index that
    cannot be taken for an index code, then a definition or group index beside the stop flag -/
def entryFits (c : Compiled) (e : Entry) : Bool :=
  if e.vp ≠ 0 then decide (e.group < indexBit)
  else
    let ar := ((c.methods[e.method]?).map (fun m => m.vp.length)).getD 0
    let nspecs := ((c.methods[e.method]?).map (fun m => m.specs.length)).getD 0
    decide (e.method < indexBit) &&
    (if ar == 1 then
      let cell := (((c.outs[e.method]?).bind (fun o => o.table[e.group]?)).map (·.1)).getD .ni
      decide (cellIndex nspecs cell < stopBit)
    else decide (e.group < stopBit))

/-- every value `encode` emits fits its field -/
def fits16 (c : Compiled) : Bool :=
  (encode c).slots.all (fun w => decide (w < wordLimit)) &&
  (List.range c.vtbl.length).all (fun k => decide (c.slots.first.get k < stopBit)) &&
  c.vtbl.all (fun row => row.all (entryFits c)) &&
  (c.methods.zip c.outs).all (fun mo =>
    decide (mo.1.vp.length < 2) || mo.2.table.all (fun cell => decide (cellIndex mo.1.specs.length cell.1 < stopBit)))

/-- `encode_dispatch_data`: the emitted structure, or a refusal (`std::length_error`) -/
def encodeChecked (c : Compiled) : Option Emitted := if fits16 c then some (encode c) else none

/-! ## decoding -/

/-- a decoded word: function (method, cell), pointer to `dtbls[i]`, or a number -/
inductive DWord
  | fn (m : Nat) (c : Cell)
  | tbl (i : Nat)
  | num (n : Nat)
deriving Repr, DecidableEq

structure Decoded where
  /-- per class record (catalog order): the class's v-table pointer as an index into the decoded
      v-tables, biased by the first slot; `none` when the record was skipped -/
  vptrs : List (Option Int)
  vtbls : List DWord
  dtbls : List DWord
  ss : List (List Nat)
deriving Repr, DecidableEq

/-- definition pointers of a method as the decoder indexes them: specs, ambiguous, not_implemented -/
def defOfIndex (nspecs : Nat) (i : Nat) : Option Cell :=
  if i < nspecs then some (.defn i) else if i = nspecs then some .amb else if i = nspecs + 1 then some .ni else none

/-- one multi-method table: codes up to and including the one carrying the stop bit -/
def decodeRun (mi ns : Nat) : Nat → List Nat → List DWord → Except Err (List Nat × List DWord)
  | 0, _, _ => .error (.fault "decode: out of fuel")
  | _ + 1, [], _ => .error (.fault "decode: read beyond dtbls")
  | f + 1, cd :: more, acc =>
    let stop := cd ≥ stopBit
    let idx := if stop then cd - stopBit else cd
    match defOfIndex ns idx with
    | none => .error (.fault "decode: spec index out of range")
    | some cell =>
      if stop then .ok (more, acc ++ [DWord.fn mi cell])
      else decodeRun mi ns f more (acc ++ [DWord.fn mi cell])

/-- decode the multi-method tables in place: decoded words and where each method's table starts;
    `ms` gives (arity, number of definitions) per method -/
def decodeDtblsGo : List (Nat × Nat) → Nat → List Nat → List DWord → List (Option Nat) →
    Except Err (List DWord × List (Option Nat))
  | [], _, _, acc, starts => .ok (acc, starts)
  | (ar, ns) :: rest, mi, codes, acc, starts =>
    if ar < 2 then decodeDtblsGo rest (mi + 1) codes acc (starts ++ [none])
    else
      match decodeRun mi ns (codes.length + 1) codes [] with
      | .error e => .error e
      | .ok (more, run) => decodeDtblsGo rest (mi + 1) more (acc ++ run) (starts ++ [some acc.length])

def decodeDtbls (ms : List (Nat × Nat)) (codes : List Nat) : Except Err (List DWord × List (Option Nat)) :=
  decodeDtblsGo ms 0 codes [] []

structure DecSt where
  /-- read cursor (index into the code stream of v-tables) -/
  enc : Nat
  /-- decoded words so far (write cursor = length) -/
  dec : List DWord
  last : Bool

/-- `fetch()`: the code must not have been overwritten by a decoded word yet:
    byte offset of the code `2 * (H + S + enc)` must be at least `8 * dec.length` -/
def fetch (em : Emitted) (st : DecSt) : Except Err (Nat × DecSt) :=
  if 2 * (em.headroom + em.slotsN + st.enc) < 8 * st.dec.length then
    .error (.fault "decode: code overwritten by a decoded word before it was read")
  else
    match em.vtbls[st.enc]? with
    | none => .error (.fault "decode: read beyond the encoded v-tables")
    | some cd =>
      let stop := cd ≥ stopBit
      .ok (if stop then cd - stopBit else cd, { st with enc := st.enc + 1, last := stop })

/-- `*decode_iter++ = w`: the write must stay inside `vtbls[D]` -/
def putWord (em : Emitted) (st : DecSt) (w : DWord) : Except Err DecSt :=
  if st.dec.length ≥ em.decN then .error (.fault "decode: write beyond the decoded v-tables")
  else .ok { st with dec := st.dec ++ [w] }

/-- the `do … while (!last)` loop over the entries of one class -/
def decodeEntries (em : Emitted) (ms : List (Nat × Nat)) (starts : List (Option Nat)) :
    Nat → DecSt → Except Err DecSt
  | 0, _ => .error (.fault "decode: out of fuel")
  | f + 1, st => do
    let (code, st) ← fetch em st
    let st ←
      if code ≥ indexBit then putWord em st (.num (code - indexBit))
      else do
        match ms[code]? with
        | none => .error (.fault "decode: method index out of range")
        | some (ar, ns) =>
          let (g, st) ← fetch em st
          if ar == 1 then
            match defOfIndex ns g with
            | some cell => putWord em st (.fn code cell)
            | none => .error (.fault "decode: spec index out of range")
          else
            match starts[code]? with
            | some (some b) => putWord em st (.tbl (b + g))
            | _ => .error (.fault "decode: no dispatch table for this method")
    if st.last then .ok st else decodeEntries em ms starts f st

/-- one class record: skipped when its static cell was already filled, else its first slot is read,
    its v-table pointer is the write cursor biased by the first slot, and its entries are decoded -/
def decodeClass (em : Emitted) (ms : List (Nat × Nat)) (starts : List (Option Nat))
    (acc : DecSt × List (Option Int) × List Nat) (cell : Nat) : Except Err (DecSt × List (Option Int) × List Nat) :=
  if acc.2.2.contains cell then pure (acc.1, acc.2.1 ++ [none], acc.2.2)
  else do
    let (first, st) ← fetch em acc.1
    let vp : Int := (st.dec.length : Int) - (first : Int)
    if st.last then pure (st, acc.2.1 ++ [some vp], acc.2.2 ++ [cell])
    else
      let st ← decodeEntries em ms starts (em.vtbls.length + 1) st
      pure (st, acc.2.1 ++ [some vp], acc.2.2 ++ [cell])

/-- the `slots_strides` arrays: `2 * arity - 1` numbers per method, cut from the emitted array (the `next`
    indices of the method's definitions, which follow them, are skipped here and read by `nextCodesOf`) -/
def ssOf (ms : List (Nat × Nat)) (slots : List Nat) : List (List Nat) :=
  (ms.foldl (fun (acc : List (List Nat) × List Nat) (m : Nat × Nat) =>
    let n := 2 * m.1 - 1
    (acc.1 ++ [acc.2.take n], acc.2.drop (n + m.2))) (([] : List (List Nat)), slots)).1

/-- the `next` indices: one per definition, after each method's slots and strides -/
def nextCodesOf (ms : List (Nat × Nat)) (slots : List Nat) : List (List Nat) :=
  (ms.foldl (fun (acc : List (List Nat) × List Nat) (m : Nat × Nat) =>
    let n := 2 * m.1 - 1
    (acc.1 ++ [(acc.2.drop n).take m.2], acc.2.drop (n + m.2))) (([] : List (List Nat)), slots)).1

/-- `*spec.next = defs[next_index]` for every definition of every method: the cells `update` fills in
    `build_dispatch_tables`, rebuilt from the encoded indices -/
def decodeNext (em : Emitted) (ms : List (Nat × Nat)) : Except Err (List (List Cell)) :=
  (ms.zip (nextCodesOf ms em.slots)).mapM (fun (m, codes) =>
    codes.mapM (fun cd => match defOfIndex m.2 cd with
      | some cell => .ok cell
      | none => .error (.fault "decode: next index out of range")))

/-- `decode_dispatch_data`: `cells` gives, per class record in catalog order, the key of its static
    v-table pointer cell (records of one class share a cell and are decoded once) -/
def decode (em : Emitted) (ms : List (Nat × Nat)) (cells : List Nat) : Except Err Decoded := do
  -- slots and strides
  let ss := ssOf ms em.slots
  let (dt, starts) ← decodeDtbls ms em.dtbls
  let (st, vps, _) ← cells.foldlM (decodeClass em ms starts)
    (({ enc := 0, dec := [], last := false } : DecSt), ([] : List (Option Int)), ([] : List Nat))
  pure { vptrs := vps, vtbls := st.dec, dtbls := dt, ss }

/-- the decoded tables as an `Installed` image: `dtbls` first, then the decoded v-tables (addresses
    are relocated; the tagged words make the comparison independent of the base address) -/
def Decoded.toInstalled (d : Decoded) : Installed :=
  let base := d.dtbls.length
  let conv := fun (w : DWord) => match w with
    | .fn m c => Word.fn m c
    | .tbl i => Word.ptr i
    | .num n => Word.num n
  { data := ((d.dtbls ++ d.vtbls).map conv).toArray
    dataSize := d.dtbls.length + d.vtbls.length
    vptr := ⟨(d.vptrs.filterMap (fun v => v.map (fun x => x + (base : Int)))).toArray, 0⟩
    ss := d.ss }

end Yomm2
