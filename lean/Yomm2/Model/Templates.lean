import Yomm2.Model.Types
/-!
# `templates.hpp`: `product`, `use_definitions`, `aggregate`

Type lists are lists of type names. `mp_product` enumerates the Cartesian product with the first list
varying slowest; `use_definitions` keeps the combinations whose instantiation is not derived from
`not_defined`, and aggregates one `add_definition` per kept combination in a tree that is split in two
halves while it has more than `threshold` (512) elements.
-/
namespace Yomm2

/-- `mp_product<types, L1, L2, …>`: first list slowest -/
def product {α} : List (List α) → List (List α)
  | [] => [[]]
  | l :: ls => l.flatMap (fun x => (product ls).map (fun t => x :: t))

/-- the tree `aggregate` builds -/
inductive Agg (α : Type)
  | leaf (xs : List α)                  -- std::tuple<T...>
  | node (l r : Agg α)                  -- large_aggregate: two halves

def Agg.flatten {α} : Agg α → List α
  | .leaf xs => xs
  | .node l r => l.flatten ++ r.flatten

/-- `aggregate<T...>`: a tuple when `sizeof...(T) <= threshold`, else split at `n / 2`; `fuel` bounds
    the template recursion -/
def aggregate {α} (threshold : Nat) : Nat → List α → Agg α
  | 0, xs => .leaf xs
  | f + 1, xs =>
    if xs.length ≤ threshold then .leaf xs
    else .node (aggregate threshold f (xs.take (xs.length / 2))) (aggregate threshold f (xs.drop (xs.length / 2)))

/-- `use_definitions<Definition, LoL>`: what gets registered, in order -/
def useDefinitions {α} (defined : List α → Bool) (threshold : Nat) (lol : List (List α)) : Agg (List α) :=
  let kept := lol.filter defined
  aggregate threshold (kept.length + 1) kept

end Yomm2
