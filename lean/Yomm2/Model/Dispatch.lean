import Yomm2.Model.Slots
/-!
# Stage 3: `build_dispatch_tables`   (compiler.hpp:769-1032, 1140-1208)
-/
namespace Yomm2

/-- `is_more_specific(a, b)` on the classes of the virtual parameters; `der x y` = "x ∈ covariant(y)" -/
def isMoreSpecificGo (der : Nat → Nat → Bool) : List Nat → List Nat → Bool → Bool
  | x :: xs, y :: ys, r =>
    if x ≠ y then
      if der x y then isMoreSpecificGo der xs ys true
      else if der y x then false
      else isMoreSpecificGo der xs ys r
    else isMoreSpecificGo der xs ys r
  | _, _, r => r

def isMoreSpecific (der : Nat → Nat → Bool) (a b : List Nat) : Bool := isMoreSpecificGo der a b false

/-- `is_base(a, b)`: `a` is at least as general everywhere and differs somewhere -/
def isBaseGo (der : Nat → Nat → Bool) : List Nat → List Nat → Bool → Bool
  | x :: xs, y :: ys, r =>
    if x ≠ y then
      if der y x then isBaseGo der xs ys true else false
    else isBaseGo der xs ys r
  | _, _, r => r

def isBase (der : Nat → Nat → Bool) (a b : List Nat) : Bool := isBaseGo der a b false

/-- `best` (after the repair of D2): the candidate more specific than every other one, else all -/
def best {α} [DecidableEq α] (ms : α → α → Bool) (cands : List α) : List α :=
  match cands.find? (fun d => cands.all (fun e => e == d || ms d e)) with
  | some d => [d]
  | none => cands

def cellOfBest (bs : List Nat) : Cell :=
  match bs with
  | [] => .ni
  | [d] => .defn d
  | _ => .amb

structure Group where
  mask : Bits
  classes : List Nat
  concrete : Bool
deriving Repr, DecidableEq

/-- value of a mask as `boost::dynamic_bitset` compares them (bit `i` weighs `2^i`) -/
def maskKey : Bits → Nat
  | [] => 0
  | b :: bs => (if b then 1 else 0) + 2 * maskKey bs

/-- the `std::map<bitvec, group>` of one dimension, in key order -/
def groupsOf (covV : List Nat) (maskOf : Nat → Bits) (abstract : Nat → Bool) : List Group :=
  let masks := isortBy (fun a b => maskKey a < maskKey b) (dedup (covV.map maskOf))
  masks.map (fun m =>
    { mask := m
      classes := covV.filter (fun c => maskOf c == m)
      concrete := covV.any (fun c => maskOf c == m && !abstract c) })

def maskAnd (a b : Bits) : Bits := List.zipWith (fun x y => x && y) a b

/-- the recursive `build_dispatch_table`; `dims` lists the dimensions LAST first; state is
    (candidates, concrete) -/
def tableGo (cellOf : Bits → Bool → α) : List (List Group) → Bits → Bool → List α
  | [], cand, conc => [cellOf cand conc]
  | g :: rest, cand, conc =>
    g.flatMap (fun gr => tableGo cellOf rest (maskAnd cand gr.mask) (conc && gr.concrete))

def prodList : List Nat → Nat
  | [] => 1
  | x :: xs => x * prodList xs

structure MethodOut where
  groups : List (List Group)
  strides : List Nat
  /-- cells with the `concrete` flag they were built under -/
  table : List (Cell × Bool)
  nexts : List Cell
  report : Report
deriving Repr

def applicableOf (mask : Bits) : List Nat :=
  (List.zipIdx mask).filterMap (fun (b, i) => if b then some i else none)

def dispatchMethod (g : Graph) (m : MethodC) : MethodOut :=
  let der := fun x y => (g.cov.get y).contains x
  let specVp := fun (i : Nat) => (m.specs[i]?.map (·.2)).getD []
  let ms := fun (a b : Nat) => isMoreSpecific der (specVp a) (specVp b)
  let groups : List (List Group) := (List.zipIdx m.vp).map (fun (v, dim) =>
    groupsOf (g.cov.get v)
      (fun c => m.specs.map (fun s => match s.2[dim]? with | some sc => der c sc | none => false))
      g.abstract)
  let sizes := groups.map List.length
  let strides := (List.range (m.vp.length - 1)).map (fun d => prodList (sizes.take (d + 1)))
  let all : Bits := List.replicate m.specs.length true
  let table := tableGo (fun cand conc => (cellOfBest (best ms (applicableOf cand)), conc))
    groups.reverse all true
  let specIdx := List.range m.specs.length
  let nexts := specIdx.map (fun i =>
    cellOfBest (best ms (specIdx.filter (fun o => isBase der (specVp o) (specVp i)))))
  let multi := m.vp.length > 1
  let report : Report :=
    { cells := if multi then prodList sizes else 0
      concreteCells := if multi then prodList (groups.map (fun gs => (gs.filter (·.concrete)).length)) else 0
      notImplemented := (table.filter (fun c => c.1 == .ni)).length
      concreteNotImplemented := (table.filter (fun c => c.1 == .ni && c.2)).length
      ambiguous := (table.filter (fun c => c.1 == .amb)).length
      concreteAmbiguous := (table.filter (fun c => c.1 == .amb && c.2)).length }
  { groups, strides, table, nexts, report }

/-- `accumulate` -/
def accumulate (total : Report) (p : Report) : Report :=
  { cells := total.cells + p.cells
    concreteCells := total.concreteCells + p.concreteCells
    notImplemented := total.notImplemented + (if p.notImplemented ≠ 0 then 1 else 0)
    concreteNotImplemented := total.concreteNotImplemented + (if p.concreteNotImplemented ≠ 0 then 1 else 0)
    ambiguous := total.ambiguous + (if p.ambiguous ≠ 0 then 1 else 0)
    concreteAmbiguous := total.concreteAmbiguous + (if p.concreteAmbiguous ≠ 0 then 1 else 0) }

/-- the writes `cls->vtbl[m.slots[dim] - cls->first_slot] = {method, dim, group}` of one method, in
    the order of the C++ loops: (class, slot, entry) -/
def writesOf (st : SlotSt) (mi : Nat) (groups : List (List Group)) : List (Nat × Nat × Entry) :=
  (List.zipIdx groups).flatMap (fun (gs, dim) =>
    (List.zipIdx gs).flatMap (fun (gr, gi) =>
      gr.classes.map (fun c => (c, st.slots (mi, dim), ({ method := mi, vp := dim, group := gi } : Entry)))))

/-- one write, with the bounds `std::vector::operator[]` does not check -/
def stepWrite (st : SlotSt) (vt : List (List Entry)) (w : Nat × Nat × Entry) : Except Err (List (List Entry)) :=
  match vt[w.1]? with
  | none => .error (.fault "v-table of unknown class")
  | some row =>
    if w.2.1 < st.first.get w.1 ∨ w.2.1 - st.first.get w.1 ≥ row.length then
      .error (.fault s!"v-table index out of range: class {w.1} slot {w.2.1}")
    else .ok (vt.set w.1 (row.set (w.2.1 - st.first.get w.1) w.2.2))

/-- write the v-table entries of one method -/
def writeEntries (st : SlotSt) (mi : Nat) (groups : List (List Group))
    (vt : List (List Entry)) : Except Err (List (List Entry)) :=
  (writesOf st mi groups).foldlM (stepWrite st) vt

structure Compiled where
  graph : Graph
  methods : List MethodC
  slots : SlotSt
  outs : List MethodOut
  vtbl : List (List Entry)
  report : Report

def compile (proj : Nat → Nat) (reg : Registry) : Except Err Compiled := do
  let g ← buildGraph proj reg.classes
  let ms ← resolveMethods proj g.heads reg.methods
  let st := assignSlots g ms
  let outs := ms.map (dispatchMethod g)
  let vt0 : List (List Entry) :=
    (List.range g.n).map (fun c => List.replicate (st.vsize.get c) { method := 0, vp := 0, group := 0 })
  let vt ← (List.zipIdx outs).foldlM (fun vt (o, mi) => writeEntries st mi o.groups vt) vt0
  let report := outs.foldl (fun r o => accumulate r o.report) {}
  .ok { graph := g, methods := ms, slots := st, outs, vtbl := vt, report }

end Yomm2
