import Yomm2.Model.Runtime
/-!
# The state of one policy across registrations, updates and calls

`PState` holds the catalogs (abstract lists; `Model/StaticList.lean` ties them to the intrusive list)
and everything that persists between updates: the installed tables, the per-class v-table pointer
cells, `vptrs` (vector or map, with stale entries), the hash statics and `control`.
-/
namespace Yomm2

/-- an entry of `vptrs` -/
inductive VSlot
  | null              -- value-initialised by `resize`, never written
  | cur (c : Nat)     -- written by the latest update for class index `c`
  | stale             -- written by an earlier update (dangling since `dispatch_data` moved)
deriving DecidableEq, Repr

structure Pub where
  hash : HashSt := {}
  control : Array UInt64 := #[]
  vec : Array VSlot := #[]
  map : List (Nat × VSlot) := []
deriving Repr

def ageSlot : VSlot → VSlot
  | .cur _ => .stale
  | s => s

def mapInsert (m : List (Nat × VSlot)) (k : Nat) (v : VSlot) : List (Nat × VSlot) :=
  if m.any (fun e => e.1 == k) then m.map (fun e => if e.1 == k then (k, v) else e) else m ++ [(k, v)]

inductive PubResult
  | ok (p : Pub) (attempts : Nat) (rest : List UInt64)
  | hashFailed (p : Pub) (attempts buckets : Nat) (rest : List UInt64)
  | fault (what : String)

/-- `publish_vptrs` of `vptr_vector` / `vptr_map` (with `hash_initialize` when hashing) -/
def publish (cfg : Cfg) (ids : List (List Nat)) (budget : Nat) (mults : List UInt64) (p : Pub) : PubResult :=
  let writes : List (Nat × Nat) := (List.zipIdx ids).flatMap (fun (l, c) => l.map (fun id => (id, c)))
  if cfg.vptrMap then
    let m0 := p.map.map (fun e => (e.1, ageSlot e.2))
    .ok { p with map := writes.foldl (fun m w => mapInsert m w.1 (.cur w.2)) m0 } 0 mults
  else
    let aged := p.vec.map ageSlot
    let resize := fun (v : Array VSlot) (n : Nat) =>
      if n ≤ v.size then v.extract 0 n else v ++ Array.replicate (n - v.size) VSlot.null
    match cfg.hash with
    | .none =>
      let size := (writes.foldl (fun s w => max s w.1) 0) + 1
      let v := writes.foldl (fun v w => v.set! w.1 (.cur w.2)) (resize aged size)
      .ok { p with vec := v } 0 mults
    | _ =>
      match hashSearch (ids.map (fun l => l.map UInt64.ofNat)) budget mults p.hash with
      | .streamExhausted => .fault "multiplier stream exhausted"
      | .fault => .fault "hash search read outside the bucket vector"
      | .failed st att b rest => .hashFailed { p with hash := st } att b rest
      | .found st buckets att rest =>
        let control := if cfg.hash == .checked then resizeControl buckets st.length else p.control
        let v := writes.foldl
          (fun v w => v.set! (hashIdx st.mult st.shift (UInt64.ofNat w.1)) (.cur w.2)) (resize aged st.length)
        .ok { p with hash := st, control, vec := v } att rest

/-- errors a call can raise through the policy's error handler -/
inductive CallErr
  | resolution (status : Cell) (arity : Nat) (types : List Nat)
  | unknownClass (id : Nat)
  | methodTable (id : Nat)
  | fault (what : String)
deriving Repr, DecidableEq

/-- `Policy::dynamic_vptr(arg)`: from a dynamic type id to an entry of `vptrs` -/
def lookupVptr (cfg : Cfg) (p : Pub) (id : Nat) : Except CallErr VSlot :=
  if cfg.vptrMap then
    match p.map.find? (fun e => e.1 == id) with
    | some e => .ok e.2
    | none => .error (.fault "vptr_map: find() == end() dereferenced")
  else
    match cfg.hash with
    | .none =>
      match p.vec[id]? with
      | some s => .ok s
      | none => .error (.fault "vptrs index out of range")
    | .fast =>
      match p.vec[hashIdx p.hash.mult p.hash.shift (UInt64.ofNat id)]? with
      | some s => .ok s
      | none => .error (.fault "vptrs index out of range")
    | .checked =>
      match checkedIdx p.hash p.control (UInt64.ofNat id) with
      | none => .error (.unknownClass id)
      | some i =>
        match p.vec[i]? with
        | some s => .ok s
        | none => .error (.fault "vptrs index out of range")

structure PState where
  cfg : Cfg
  /-- class catalog: (handle, record) in registration order -/
  classes : List (Nat × ClassRec) := []
  /-- method catalog with each method's definitions, in registration order -/
  methods : List MethodRec := []
  budget : Nat := Generated.hashBudget
  pub : Pub := {}
  compiled : Option Compiled := none
  inst : Option Installed := none
  /-- number of updates that rewrote `dispatch_data` so far -/
  epoch : Nat := 0
  /-- what `static_type<Obj>()` answers in the harness: the class whose static v-table pointer cell
      is `Policy::static_vptr<Obj>` (0 = none) -/
  staticId : Nat := 0

def PState.registry (s : PState) : Registry :=
  { classes := s.classes.map (·.2), methods := s.methods }

inductive UpdateOut
  | ok
  | raised (e : Err)

/-- `update()`; `mults` is the multiplier stream the hash search may consume -/
def PState.update (s : PState) (mults : List UInt64) : PState × UpdateOut × List UInt64 :=
  match compile s.cfg.proj s.registry with
  | .error e => ({ s with compiled := none, inst := none }, .raised e, mults)
  | .ok c =>
    match install c with
    | .error e => ({ s with compiled := none, inst := none }, .raised e, mults)
    | .ok inst =>
      let ids := (List.range c.graph.n).map c.graph.ids
      match publish s.cfg ids s.budget mults s.pub with
      | .fault w => ({ s with compiled := none, inst := none }, .raised (.fault w), mults)
      | .hashFailed p att b rest =>
        ({ s with compiled := none, inst := none, pub := p }, .raised (.hashSearch att b), rest)
      | .ok p _ rest => ({ s with compiled := some c, inst := some inst, pub := p, epoch := s.epoch + 1 }, .ok, rest)

/-- v-table pointer of a `VSlot` at call time -/
def slotVptr (inst : Installed) : VSlot → Except CallErr Int
  | .cur c => .ok (inst.vptr.get c)
  | .null => .error (.fault "null v-table pointer")
  | .stale => .error (.fault "dangling v-table pointer")

/-- the v-table pointer part of a `virtual_ptr` -/
inductive VRef
  | direct (s : VSlot) (epoch : Nat)   -- a pointer value copied when the `virtual_ptr` was made
  | cell (key : Nat)                   -- indirect: address of the class's static v-table pointer cell
deriving Repr, DecidableEq

structure VPtr where
  obj : Nat          -- dynamic type id of the pointee
  ref : VRef
deriving Repr, DecidableEq

/-- content of the static v-table pointer cell of the class with `type_index` `key` -/
def PState.cellSlot (s : PState) (key : Nat) : VSlot :=
  match s.compiled with
  | none => .null
  | some c =>
    match classIdx c.graph.heads key with
    | some ci => .cur ci
    | none => if s.epoch == 0 then .null else .stale

/-- `vptrs[index]` as the `virtual_ptr` constructor reads it (`operator[]`: a map inserts a null
    entry for an absent key; the model keeps the map unchanged since a null entry is unobservable
    through registered ids) -/
def lookupForVptr (cfg : Cfg) (p : Pub) (id : Nat) : Except CallErr VSlot :=
  if cfg.vptrMap then
    match p.map.find? (fun e => e.1 == id) with
    | some e => .ok e.2
    | none => .ok .null
  else lookupVptr cfg p id

/-- `virtual_ptr<Obj, Policy>(obj)`: from a reference to an object of dynamic type `id` -/
def PState.mkVPtr (s : PState) (id : Nat) : Except CallErr VPtr :=
  if id == s.staticId && s.staticId != 0 then
    -- dynamic type == static type: the class's own cell, after the registered-class check of
    -- checked policies
    let chk : Except CallErr Unit :=
      if s.cfg.hash == .checked then
        match checkedIdx s.pub.hash s.pub.control (UInt64.ofNat id) with
        | none => .error (.unknownClass id)
        | some _ => .ok ()
      else .ok ()
    match chk with
    | .error e => .error e
    | .ok _ =>
      if s.cfg.indirect then .ok { obj := id, ref := .cell (s.cfg.proj id) }
      else .ok { obj := id, ref := .direct (s.cellSlot (s.cfg.proj id)) s.epoch }
  else
    match lookupForVptr s.cfg s.pub id with
    | .error e => .error e
    | .ok sl =>
      if s.cfg.indirect then
        match sl with
        | .cur _ => .ok { obj := id, ref := .cell (s.cfg.proj id) }
        | _ => .error (.fault "indirect_vptrs entry of an unregistered id")
      else .ok { obj := id, ref := .direct sl s.epoch }

/-- `virtual_ptr<Obj, Policy>::final(obj)` -/
def PState.mkFinal (s : PState) (id : Nat) : Except CallErr VPtr :=
  -- without a static class (`staticId = 0`) no object's dynamic type is "the static type"
  if s.staticId == 0 then
    (if s.cfg.checks then .error (.methodTable id) else .error (.fault "final without a static class"))
  else if s.cfg.checks && id != s.staticId then .error (.methodTable id)
  else if s.cfg.indirect then .ok { obj := id, ref := .cell (s.cfg.proj s.staticId) }
  else .ok { obj := id, ref := .direct (s.cellSlot (s.cfg.proj s.staticId)) s.epoch }

/-- `_vptr()` at call time -/
def PState.derefVPtr (s : PState) (inst : Installed) (v : VPtr) : Except CallErr Int :=
  match v.ref with
  | .direct sl e =>
    if e != s.epoch then .error (.fault "virtual_ptr used after a later update (direct v-table pointer)")
    else slotVptr inst sl
  | .cell key => slotVptr inst (s.cellSlot key)

inductive CallOut
  | ran (defId : Nat)
  | raised (e : CallErr)
deriving Repr, DecidableEq

/-- the payload the error handlers build: ids of the virtual arguments only, at most 16 -/
def errorTypes (args : List (Kind × Nat)) : List Nat :=
  ((args.filter (fun a => a.1.isVirtual)).map (·.2)).take 16

/-- how the harness produces a `virtual_ptr` argument: from a reference, with `final`, or a
    `virtual_ptr` made earlier -/
inductive Route
  | ref
  | final
deriving DecidableEq, Repr

/-- how one argument of a call gets its v-table pointer: `virtual_<T&>` through the policy's lookup of
    the dynamic type id, `virtual_ptr` from the pointer it carries; `e = ((kind, id), position)` -/
def PState.argLookup (s : PState) (inst : Installed) (route : Route) (pre : List (Nat × VPtr))
    (e : (Kind × Nat) × Nat) : Except CallErr (Kind × Int) :=
  match e.1.1 with
  | .virt => do
    let sl ← lookupVptr s.cfg s.pub e.1.2
    let v ← slotVptr inst sl
    pure (e.1.1, v)
  | .vptr => do
    let vp ← match pre.find? (fun x => x.1 == e.2) with
      | some x => pure x.2
      | none => if route == .final then s.mkFinal e.1.2 else s.mkVPtr e.1.2
    let v ← s.derefVPtr inst vp
    pure (e.1.1, v)
  | .nonvirt => pure (e.1.1, (0 : Int))

/-- a call through `method::operator()`: `args` pairs each parameter kind with the dynamic type
    id of the argument; `virtual_ptr` arguments are built on the spot by `route`, or taken from
    `pre` (position ↦ an existing `virtual_ptr`) -/
def PState.callWith (s : PState) (key : Nat) (args : List (Kind × Nat)) (route : Route)
    (pre : List (Nat × VPtr)) : CallOut :=
  match s.compiled, s.inst with
  | some c, some inst =>
    match (List.zipIdx c.methods).find? (fun e => e.1.key == key) with
    | none => .raised (.fault "no such method")
    | some (m, mi) =>
      let lookups : Except CallErr (List (Kind × Int)) := (List.zipIdx args).mapM (s.argLookup inst route pre)
      match lookups with
      | .error e => .raised e
      | .ok vargs =>
        match resolve inst mi vargs with
        | .error (.fault w) => .raised (.fault w)
        | .error _ => .raised (.fault "resolve")
        | .ok (.fn m' cell) =>
          if m' ≠ mi then .raised (.fault "call jumped into another method's function") else
          match cell with
          | .defn i =>
            match m.specs[i]? with
            | some sp => .ran sp.1
            | none => .raised (.fault "definition index out of range")
          | other => .raised (.resolution other (m.vp.length) (errorTypes args))
        | .ok _ => .raised (.fault "call through a word that is not a function pointer")
  | _, _ => .raised (.fault "call without a completed update")

def PState.call (s : PState) (key : Nat) (args : List (Kind × Nat)) : CallOut :=
  s.callWith key args .ref []

end Yomm2
