import Yomm2.Model.Types
/-!
# `generator`: static offsets text, name extraction, forward declarations   (generator.hpp:56-257)
-/
namespace Yomm2

/-! ## `write_static_offsets` (after the repair of D6: slots first, then strides) -/

def joinNats (sep : String) (l : List Nat) : String := sep.intercalate (l.map toString)

/-- the text written for one method; `ss` is its `slots_strides` array -/
def writeStaticOffsets (name : String) (arity : Nat) (ss : List Nat) : String :=
  let slots := (List.range arity).map (fun i => (ss[i]?).getD 0)
  let head := "template<> struct yorel::yomm2::detail::static_offsets<" ++ name ++
    "> {static constexpr std::size_t slots[] = {" ++ joinNats ", " slots
  if arity > 1 then
    let strides := (List.range (arity - 1)).map (fun i => (ss[arity + i]?).getD 0)
    head ++ "}; static constexpr std::size_t strides[] = {" ++ joinNats ", " strides ++ "}; };"
  else head ++ "}; };"

/-! ## `add_forward_declaration(string_view)`: the regex `(\w+(?:::\w+)*)( *<)?` as a scanner -/

def isWord (c : Char) : Bool := c.isAlphanum || c == '_'

/-- maximal run of word characters -/
def takeWord : List Char → List Char × List Char
  | [] => ([], [])
  | c :: cs => if isWord c then let (w, r) := takeWord cs; (c :: w, r) else ([], c :: cs)

/-- `(?:::\w+)*` after a first word -/
def takeScoped : Nat → List Char → List Char × List Char
  | 0, cs => ([], cs)
  | f + 1, ':' :: ':' :: cs =>
    match takeWord cs with
    | ([], _) => ([], ':' :: ':' :: cs)
    | (w, r) => let (more, r') := takeScoped f r; (':' :: ':' :: w ++ more, r')
  | _, cs => ([], cs)

/-- `( *<)?`: `some rest` when spaces followed by `<` follow -/
def takeAngle : List Char → Option (List Char)
  | ' ' :: cs => takeAngle cs
  | '<' :: cs => some cs
  | _ => none

/-- all matches of the regex, left to right: (name, followed by `<`) -/
def scanNames : Nat → List Char → List (String × Bool)
  | 0, _ => []
  | _, [] => []
  | f + 1, c :: cs =>
    if isWord c then
      let (w, r) := takeWord (c :: cs)
      let (more, r') := takeScoped (r.length + 1) r
      let name := String.ofList (w ++ more)
      match takeAngle r' with
      | some r'' => (name, true) :: scanNames f r''
      | none => (name, false) :: scanNames f r'
    else scanNames f cs

def startsWithStr (s : String) (p : String) : Bool := p.toList.isPrefixOf s.toList

/-- the names kept by `add_forward_declaration` for one type description -/
def extractNames (keywords : List String) (type : String) : List String :=
  ((scanNames (type.length + 1) type.toList).filter (fun (n, tmpl) =>
    !tmpl &&
    (match n.toList with | c :: _ => c.isAlpha || c == '_' | [] => false) &&
    !keywords.contains n &&
    !startsWithStr n "std::" && !startsWithStr n "yorel::")).map (·.1)

/-- `std::set<std::string>`: sorted by bytes, unique -/
def strLt (a b : String) : Bool := a.toList.map Char.toNat < b.toList.map Char.toNat

def sortedSet (l : List String) : List String := isortBy strLt (dedup l)

/-! ## `write_forward_declarations`: the character-level writer with its two cursors -/

structure FwdSt where
  out : String := ""
  /-- previous name, the cursor into it and the end of its namespace part -/
  prev : List Char := []
  pi : Nat := 0
  pl : Nat := 0

/-- close the namespaces of `prev[pi, pl)`: one `}` per `::` -/
def closeNs (prev : List Char) : Nat → Nat → Nat → String → String
  | 0, _, _, out => out
  | f + 1, pi, pl, out =>
    if pi ≥ pl then out
    else if prev[pi]? == some ':' then closeNs prev f (pi + 2) pl (out ++ "}\n")
    else closeNs prev f (pi + 1) pl out

/-- the comparison loop: returns (closes emitted into out, name cursor) -/
def matchPrefix (prev name : List Char) : Nat → Nat → Nat → Nat → String → String × Nat
  | 0, _, _, ni, out => (out, ni)
  | f + 1, pi, pl, ni, out =>
    if pi ≥ pl then (out, ni)
    else if ni ≥ name.length || prev[pi]? != name[ni]? then
      let out := closeNs prev (pl + 1) pi pl out
      -- back up to the start of the component
      let rec back : Nat → Nat → Nat
        | 0, k => k
        | g + 1, k => if k == 0 then 0 else if name[k - 1]? == some ':' then k else back g (k - 1)
      (out, back ni ni)
    else matchPrefix prev name f (pi + 1) pl (ni + 1) out

/-- emit `namespace x {` for each remaining scope and `class y;` for the last component -/
def openRest (name : List Char) : Nat → Nat → String → Nat → String × Nat
  | 0, _, out, pl => (out, pl)
  | f + 1, ni, out, pl =>
    let rest := name.drop ni
    match rest.findIdx? (fun c => c == ':') with
    | none => (out ++ "class " ++ String.ofList rest ++ ";\n", pl)
    | some k =>
      openRest name f (ni + k + 2) (out ++ "namespace " ++ String.ofList (rest.take k) ++ " {\n") (ni + k + 2)

def fwdStep (st : FwdSt) (name : String) : FwdSt :=
  let nm := name.toList
  let (out, ni) := matchPrefix st.prev nm (st.pl + 1) st.pi st.pl 0 st.out
  let (out, pl) := openRest nm (nm.length + 1) ni out ni
  { out, prev := nm, pi := 0, pl }

def writeForwardDeclarations (names : List String) : String :=
  let st := names.foldl fwdStep {}
  closeNs st.prev (st.pl + 1) st.pi st.pl st.out

end Yomm2
