import Yomm2.Model.Types
/-!
# `generator`: static offsets text, name extraction, forward declarations   (generator.hpp:56-257)
-/
namespace Yomm2

/-! ## `write_static_offsets` (after the repair of D6: slots first, then strides) -/

def joinNats (sep : String) (l : List Nat) : String := sep.intercalate (l.map toString)

/-- the text written for one method; `ss` is its `slots_strides` array -/
def writeStaticOffsets (name : String) (arity : Nat) (ss : List Nat) : String :=
  let slots := (List.range arity).map (fun i => (ss[i]?).getD 0)
  let head := "template<> struct yorel::yomm2::detail::static_offsets<" ++ name ++
    "> {static constexpr std::size_t slots[] = {" ++ joinNats ", " slots
  if arity > 1 then
    let strides := (List.range (arity - 1)).map (fun i => (ss[arity + i]?).getD 0)
    head ++ "}; static constexpr std::size_t strides[] = {" ++ joinNats ", " strides ++ "}; };"
  else head ++ "}; };"

/-! ## the debug-build cross-check of static offsets   (core.hpp: `check_static_offset`)

A method compiled against generated offsets reads its slots and strides from the `static_offsets`
specialisation; under `runtime_checks` each number is compared with the installed one just before it is
used: slot 0 by the first virtual argument, then slot `k` and stride `k - 1` by the `k`-th. -/

/-- the first disagreement met by a call, in the order the walk uses the numbers: `none` when the walk
    meets none; `ss` = slots followed by strides -/
def staticCheckFrom (arity : Nat) (static installed : List Nat) : Nat → Nat → Option String
  | 0, _ => none
  | f + 1, k =>
    if k ≥ arity then none
    else if (static[k]?).getD 0 ≠ (installed[k]?).getD 0 then some "static_slot"
    else if k ≥ 1 ∧ (static[arity + k - 1]?).getD 0 ≠ (installed[arity + k - 1]?).getD 0 then some "static_stride"
    else staticCheckFrom arity static installed f (k + 1)

def staticCheck (arity : Nat) (static installed : List Nat) : Option String :=
  staticCheckFrom arity static installed arity 0

/-! ## `add_forward_declaration(string_view)`: the regex `(\w+(?:::\w+)*)( *<)?` as a scanner -/

def isWord (c : Char) : Bool := c.isAlphanum || c == '_'

/-- maximal run of word characters -/
def takeWord : List Char → List Char × List Char
  | [] => ([], [])
  | c :: cs => if isWord c then let (w, r) := takeWord cs; (c :: w, r) else ([], c :: cs)

/-- `(?:::\w+)*` after a first word -/
def takeScoped : Nat → List Char → List Char × List Char
  | 0, cs => ([], cs)
  | f + 1, ':' :: ':' :: cs =>
    match takeWord cs with
    | ([], _) => ([], ':' :: ':' :: cs)
    | (w, r) => let (more, r') := takeScoped f r; (':' :: ':' :: w ++ more, r')
  | _, cs => ([], cs)

/-- `( *<)?`: `some rest` when spaces followed by `<` follow -/
def takeAngle : List Char → Option (List Char)
  | ' ' :: cs => takeAngle cs
  | '<' :: cs => some cs
  | _ => none

/-- all matches of the regex, left to right: (name, followed by `<`) -/
def scanNames : Nat → List Char → List (String × Bool)
  | 0, _ => []
  | _, [] => []
  | f + 1, c :: cs =>
    if isWord c then
      let (w, r) := takeWord (c :: cs)
      let (more, r') := takeScoped (r.length + 1) r
      let name := String.ofList (w ++ more)
      match takeAngle r' with
      | some r'' => (name, true) :: scanNames f r''
      | none => (name, false) :: scanNames f r'
    else scanNames f cs

def startsWithStr (s : String) (p : String) : Bool := p.toList.isPrefixOf s.toList

/-- the names kept by `add_forward_declaration` for one type description -/
def extractNames (keywords : List String) (type : String) : List String :=
  ((scanNames (type.length + 1) type.toList).filter (fun (n, tmpl) =>
    !tmpl &&
    (match n.toList with | c :: _ => c.isAlpha || c == '_' | [] => false) &&
    !keywords.contains n &&
    !startsWithStr n "std::" && !startsWithStr n "yorel::")).map (·.1)

/-- `std::set<std::string>`: sorted by bytes, unique -/
def strLt (a b : String) : Bool := a.toList.map Char.toNat < b.toList.map Char.toNat

def sortedSet (l : List String) : List String := isortBy strLt (dedup l)

/-! ## `write_forward_declarations`: the character-level writer

The C++ keeps two iterators into the previous name (`prev_ns_iter`, `prev_ns_last`: its namespace part)
and one into the current name (`name_iter`, which also moves backwards). Here the namespace part of the
previous name is a list of characters, and `name_iter` is a zipper: the characters before it, reversed,
and the characters from it on. Output is collected line by line. -/

/-- `while (prev_ns_iter != prev_ns_last) { if (*prev_ns_iter == ':') { os << "}\n"; ++prev_ns_iter; } ++prev_ns_iter; }` -/
def closeRest : List Char → List String
  | [] => []
  | [c] => if c = ':' then ["}\n"] else []
  | c :: d :: rest => if c = ':' then "}\n" :: closeRest rest else closeRest (d :: rest)

/-- `while (name_iter != name.begin() && name_iter[-1] != ':') --name_iter;` on (before reversed, after) -/
def backUp : List Char → List Char → List Char × List Char
  | [], af => ([], af)
  | b :: rb, af => if b = ':' then (b :: rb, af) else backUp rb (b :: af)

/-- the comparison loop: the rest of the previous namespace part against the name, from its start;
    returns the closing lines and the position `name_iter` ends at -/
def matchNs : List Char → List Char → List Char → List String × List Char × List Char
  | [], rb, af => ([], rb, af)
  | p :: ps, rb, [] =>
    let z := backUp rb []
    (closeRest (p :: ps), z.1, z.2)
  | p :: ps, rb, a :: af =>
    if p = a then matchNs ps (a :: rb) af
    else
      let z := backUp rb (a :: af)
      (closeRest (p :: ps), z.1, z.2)

/-- the `while (true)` loop: one `namespace x {` per remaining scope, then `class y;`; `pre` is the
    part of the name before `name_iter`; returns the lines and the new namespace part (`prev_ns_last`) -/
def openRest : Nat → List Char → List Char → List String × List Char
  | 0, pre, _ => ([], pre)
  | f + 1, pre, af =>
    let comp := af.takeWhile (fun c => c != ':')
    match af.dropWhile (fun c => c != ':') with
    | [] => (["class " ++ String.ofList comp ++ ";\n"], pre)
    | rest =>
      let r := openRest f (pre ++ comp ++ rest.take 2) (rest.drop 2)
      (("namespace " ++ String.ofList comp ++ " {\n") :: r.1, r.2)

structure FwdSt where
  lines : List String := []
  /-- `[prev_ns_iter, prev_ns_last)` between two names: the namespace part of the previous name -/
  prevNs : List Char := []

def fwdStep (st : FwdSt) (name : String) : FwdSt :=
  let m := matchNs st.prevNs [] name.toList
  let o := openRest (name.length + 1) m.2.1.reverse m.2.2
  { lines := st.lines ++ m.1 ++ o.1, prevNs := o.2 }

def fwdLines (names : List String) : List String :=
  let st := names.foldl fwdStep {}
  st.lines ++ closeRest st.prevNs

def writeForwardDeclarations (names : List String) : String := String.join (fwdLines names)

end Yomm2
