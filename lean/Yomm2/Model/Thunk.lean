import Yomm2.Model.Types
/-!
# The per-definition thunk: argument conversion   (detail.hpp:228-247, 258-476, 531-545)

What is logic here: argument `i` of the method is converted to parameter `i` of the definition by the
traits its kind selects; `static_cast` is used where it is well formed and `dynamic_cast` otherwise;
value categories are forwarded. What the casts *mean* (address adjustment) is the C++ compiler's and
is observed by the generated programs.
-/
namespace Yomm2

/-- inheritance shape between the method's class and the definition's class -/
inductive Shape
  | single      -- Derived : Base
  | second      -- Derived : Pad, Base            (Base at a non-zero offset)
  | virt        -- Derived : virtual Base
  | deep        -- Derived : Mid, Mid : Pad, Base
  | vdeep       -- Derived : Pad, Mid, Mid : virtual Base
deriving DecidableEq, Repr

/-- `requires_dynamic_cast<Base&, Derived&>`: `static_cast` down is ill formed exactly when a virtual
    base lies on the path -/
def Shape.hasVirtualEdge : Shape → Bool
  | .virt => true
  | .vdeep => true
  | _ => false

def requiresDynamicCast (s : Shape) : Bool := s.hasVirtualEdge

/-- categories of non-virtual parameters and of the argument passed -/
inductive NvCat
  | value
  | lref
  | rref
  | moveOnly
deriving DecidableEq, Repr

inductive ArgCat
  | prvalue
  | xvalue
  | lvalue
deriving DecidableEq, Repr

/-- copy constructions between caller and definition (after the repair of D11: arguments are
    forwarded, an lvalue passed to a by-value parameter is copied once, by the caller) -/
def copiesOf : NvCat → ArgCat → Nat
  | .value, .lvalue => 1
  | _, _ => 0

/-- a thunk converts argument `i` into parameter `i` and nothing else -/
def thunk {α β} (conv : Nat → α → β) (args : List α) : List β :=
  (List.zipIdx args).map (fun (a, i) => conv i a)

theorem thunk_positional {α β} (conv : Nat → α → β) (args : List α) (i : Nat) :
    (thunk conv args)[i]? = (args[i]?).map (conv i) := by
  unfold thunk
  simp only [List.getElem?_map, List.getElem?_zipIdx]
  cases args[i]? <;> simp

theorem thunk_length {α β} (conv : Nat → α → β) (args : List α) : (thunk conv args).length = args.length := by
  simp [thunk]

theorem rvalues_never_copied (c : NvCat) : copiesOf c .prvalue = 0 ∧ copiesOf c .xvalue = 0 := by
  cases c <;> simp [copiesOf]

theorem references_never_copied (a : ArgCat) : copiesOf .lref a = 0 ∧ copiesOf .rref a = 0 := by
  cases a <;> simp [copiesOf]

def shapeOfName : String → Option Shape
  | "single" => some .single
  | "second" => some .second
  | "virtual" => some .virt
  | "deep" => some .deep
  | "vdeep" => some .vdeep
  | _ => none

end Yomm2
