import Yomm2.Model.Types
import Yomm2.Generated.Constants
/-!
# `fast_perfect_hash::hash_initialize` and `checked_perfect_hash`   (policies/fast_perfect_hash.hpp)

The multiplier stream (`uniform_dist(rnd)` of a fixed-seed engine) is an *input* of the model, so the
theorems hold for every stream. `hash_min` / `hash_max` are never reset by the C++ and are part of
the persistent state.
-/
namespace Yomm2

def sentinel : UInt64 := 0xFFFFFFFFFFFFFFFF

/-- `(hash_mult * type) >> hash_shift` on 64-bit words -/
def hashIdx (mult : UInt64) (shift : Nat) (id : UInt64) : Nat :=
  ((mult * id) >>> (UInt64.ofNat shift)).toNat

structure Att where
  buckets : Array UInt64
  found : Bool
  mn : Nat
  mx : Nat
  fault : Bool := false

/-- one class's ids; stops at the first collision (the inner `break`) -/
def classLoop (ix : UInt64 → Nat) (a : Att) : List UInt64 → Att
  | [] => a
  | t :: ts =>
    let i := ix t
    let a := { a with mn := min a.mn i, mx := max a.mx i }
    match a.buckets[i]? with
    | none => { a with fault := true, found := false }     -- out-of-bounds read: UB in C++
    | some b =>
      -- a bucket holding this very id (a class registered several times) is not a collision
      if b != sentinel && b != t then { a with found := false }
      else classLoop ix { a with buckets := a.buckets.set! i t } ts

/-- one attempt: all classes, the outer loop keeps going after a collision -/
def attempt (ix : UInt64 → Nat) (size : Nat) (mn mx : Nat) (classes : List (List UInt64)) : Att :=
  classes.foldl (classLoop ix) { buckets := Array.replicate size sentinel, found := true, mn, mx }

structure HashSt where
  mult : UInt64 := 0
  shift : Nat := 0
  length : Nat := 0
  mn : Nat := 0
  mx : Nat := 0
deriving Repr, DecidableEq

/-- number of halvings: `for (size = N*5/4; size >>= 1;) ++M` starting from `M = 1` -/
def initialM (n : Nat) : Nat :=
  let size := n * Generated.hashGrowNum / Generated.hashGrowDen      -- `N * 5 / 4` in the pinned source
  max 1 (Nat.log2 size + (if size = 0 then 0 else 1))

inductive SearchResult
  | found (st : HashSt) (buckets : Array UInt64) (attempts : Nat) (rest : List UInt64)
  | failed (st : HashSt) (attempts : Nat) (buckets : Nat) (rest : List UInt64)
  | streamExhausted      -- the harness did not supply enough multipliers (a harness error)
  | fault

/-- the `while (!found && attempts < budget)` loop of one pass -/
def passLoop (classes : List (List UInt64)) (M : Nat) : Nat → List UInt64 → Nat → Nat → UInt64 →
    Option (Bool × Array UInt64 × Nat × Nat × UInt64 × Nat × List UInt64 × Bool)
  | 0, mults, mn, mx, mult => some (false, #[], mn, mx, mult, 0, mults, false)
  | budget + 1, mults, mn, mx, _ =>
    match mults with
    | [] => none
    | m :: rest =>
      let mult := m ||| 1
      let a := attempt (hashIdx mult (64 - M)) (2 ^ M) mn mx classes
      if a.fault then some (false, a.buckets, a.mn, a.mx, mult, 1, rest, true)
      else if a.found then some (true, a.buckets, a.mn, a.mx, mult, 1, rest, false)
      else
        match passLoop classes M budget rest a.mn a.mx mult with
        | none => none
        | some (f, b, mn', mx', mult', att, rest', flt) => some (f, b, mn', mx', mult', att + 1, rest', flt)

/-- the passes (four in the pinned source: `Generated.hashPasses`) -/
def searchPasses (classes : List (List UInt64)) (budget : Nat) :
    Nat → Nat → List UInt64 → HashSt → Nat → SearchResult
  | 0, M, mults, st, total => .failed { st with length := 0 } total (2 ^ M) mults
  | p + 1, M, mults, st, total =>
    match passLoop classes M budget mults st.mn st.mx st.mult with
    | none => .streamExhausted
    | some (found, buckets, mn, mx, mult, att, rest, flt) =>
      let st := { st with mult, shift := 64 - M, mn, mx, length := 0 }
      if flt then .fault
      else if found then .found { st with length := mx + 1 } buckets (total + att) rest
      else searchPasses classes budget p (M + 1) rest st (total + att)

def hashSearch (classes : List (List UInt64)) (budget : Nat) (mults : List UInt64) (st : HashSt) :
    SearchResult :=
  searchPasses classes budget Generated.hashPasses (initialM classes.length) mults st 0

/-- `control.resize(hash_length)` after the buckets were handed back -/
def resizeControl (buckets : Array UInt64) (len : Nat) : Array UInt64 :=
  if len ≤ buckets.size then buckets.extract 0 len
  else buckets ++ Array.replicate (len - buckets.size) 0

/-- `checked_perfect_hash::hash_type_id`: the index, or `none` for "unknown class" -/
def checkedIdx (st : HashSt) (control : Array UInt64) (id : UInt64) : Option Nat :=
  let i := hashIdx st.mult st.shift id
  if i ≥ st.length then none
  else match control[i]? with
    | some c => if c == id then some i else none
    | none => none

end Yomm2
