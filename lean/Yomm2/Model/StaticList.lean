import Yomm2.Model.Types
/-!
# `detail::static_list<T>`   (detail/static_list.hpp:32-91, 196-205)

An intrusive doubly linked list whose `prev` pointers are circular (`first->prev` is the last node)
and whose `next` pointers end in null. Nodes are identified by numbers; the heap maps a node to its
two link fields. Link fields are never initialised by a constructor: the library relies on
zero-initialised static storage, which is the model's "unlinked" state.
-/
namespace Yomm2

structure Links where
  prev : Option Nat := none
  next : Option Nat := none
deriving Repr, DecidableEq

structure SList where
  first : Option Nat := none
  heap : Tab Links := Tab.const {}

def SList.links (l : SList) (n : Nat) : Links := l.heap.get n

def SList.setPrev (l : SList) (n : Nat) (p : Option Nat) : SList :=
  { l with heap := l.heap.set n { l.heap.get n with prev := p } }

def SList.setNext (l : SList) (n : Nat) (p : Option Nat) : SList :=
  { l with heap := l.heap.set n { l.heap.get n with next := p } }

/-- `push_back(node)`; the two assertions are the precondition "node is unlinked" -/
def SList.pushBack (l : SList) (n : Nat) : SList :=
  match l.first with
  | none => { (l.setPrev n (some n)) with first := some n }
  | some f =>
    match (l.links f).prev with
    | none => l                         -- unreachable when the representation invariant holds
    | some last =>
      let l := l.setNext last (some n)
      let l := l.setPrev n (some last)
      l.setPrev f (some n)

/-- `remove(node)` -/
def SList.remove (l : SList) (n : Nat) : SList :=
  match l.first with
  | none => l                           -- BOOST_ASSERT(first != nullptr)
  | some f =>
    let prev := (l.links n).prev
    let next := (l.links n).next
    let last := (l.links f).prev
    let l := l.setNext (n) none
    let l := l.setPrev (n) none
    if some n = last then
      if n = f then { l with first := none }
      else
        let l := l.setPrev f prev
        match prev with
        | some p => l.setNext p none
        | none => l
    else if n = f then
      match next with
      | some nx => { (l.setPrev nx last) with first := some nx }
      | none => { l with first := none }
    else
      match prev, next with
      | some p, some nx => (l.setNext p (some nx)).setPrev nx (some p)
      | _, _ => l

/-- iteration from a node following `next`, with fuel -/
def SList.walk (l : SList) : Nat → Option Nat → List Nat
  | 0, _ => []
  | _, none => []
  | f + 1, some n => n :: l.walk f (l.links n).next

/-- `clear()`: unlink every node reachable from `first` -/
def SList.clearGo (l : SList) : Nat → Option Nat → SList
  | 0, _ => l
  | _, none => l
  | f + 1, some n =>
    let nx := (l.links n).next
    let l' := (l.setPrev n none).setNext n none
    l'.clearGo f nx

def SList.clear (l : SList) (fuel : Nat) : SList :=
  ({ l with first := none } : SList).clearGo fuel l.first

/-- what `begin()..end()` enumerates -/
def SList.toList (l : SList) (fuel : Nat) : List Nat := l.walk fuel l.first

def SList.size (l : SList) (fuel : Nat) : Nat := (l.toList fuel).length
def SList.empty (l : SList) : Bool := l.first.isNone

end Yomm2
