import Yomm2.Model.Classes
/-!
# Stage 2: `augment_methods` and `assign_slots`   (compiler.hpp:526-767)
-/
namespace Yomm2

/-- a method with its parameters and definitions resolved to class indices -/
structure MethodC where
  key : Nat
  shape : List Kind
  vp : List Nat
  /-- definitions: id and classes of the virtual parameters -/
  specs : List (Nat × List Nat)
deriving Repr, DecidableEq

def resolveIds (proj : Nat → Nat) (hs : List Head) : List Nat → Except Err (List Nat)
  | [] => .ok []
  | t :: ts =>
    match classIdx hs (proj t) with
    | none => .error (.unknownClass t)
    | some c => do
      let rest ← resolveIds proj hs ts
      .ok (c :: rest)

def resolveDefs (proj : Nat → Nat) (hs : List Head) (arity : Nat) :
    List DefRec → Except Err (List (Nat × List Nat))
  | [] => .ok []
  | d :: ds => do
    let vp ← resolveIds proj hs d.vp
    if vp.length ≠ arity then .error (.fault "definition arity differs from method arity") else
    let rest ← resolveDefs proj hs arity ds
    .ok ((d.id, vp) :: rest)

/-- `augment_methods`: the first unknown class (method parameters, then its definitions') is reported -/
def resolveMethods (proj : Nat → Nat) (hs : List Head) : List MethodRec → Except Err (List MethodC)
  | [] => .ok []
  | m :: ms => do
    let vp ← resolveIds proj hs m.vp
    let specs ← resolveDefs proj hs vp.length m.defs
    let rest ← resolveMethods proj hs ms
    .ok ({ key := m.key, shape := m.shape, vp, specs } :: rest)

/-- `used_by_vp` of class `c`: (method index, parameter index), methods in order, parameters in order -/
def usedBy (ms : List MethodC) (c : Nat) : List (Nat × Nat) :=
  (List.zipIdx ms).flatMap (fun (m, mi) =>
    ((List.zipIdx m.vp).filter (fun (v, _) => v == c)).map (fun (_, p) => (mi, p)))

structure SlotSt where
  /-- (method, parameter) ↦ slot; most recent assignment first; unassigned slots read 0 -/
  slotList : List ((Nat × Nat) × Nat)
  used : Tab Bits
  reserved : Tab Bits
  first : Tab Nat
  vsize : Tab Nat

def SlotSt.slots (st : SlotSt) (mp : Nat × Nat) : Nat := alGet st.slotList 0 mp

def SlotSt.init : SlotSt :=
  { slotList := [], used := Tab.const [], reserved := Tab.const [], first := Tab.const 0, vsize := Tab.const 0 }

/-- assign consecutive slots starting at `base` -/
def assignRun (slots : List ((Nat × Nat) × Nat)) : List (Nat × Nat) → Nat → List ((Nat × Nat) × Nat)
  | [], _ => slots
  | mp :: rest, base => assignRun ((mp, base) :: slots) rest (base + 1)

/-- `assign_tree_slots` -/
def treeSlots (g : Graph) (ms : List MethodC) : Nat → Nat → Nat → SlotSt → SlotSt
  | 0, _, _, st => st
  | f + 1, c, base, st =>
    let ps := usedBy ms c
    let next := base + ps.length
    let st := { st with slotList := assignRun st.slotList ps base, first := st.first.set c 0, vsize := st.vsize.set c next }
    (g.derived.get c).foldl (fun st d => treeSlots g ms f d next st) st

/-- reserve `u` in every class of `bs` -/
def reserveIn (u : Bits) (bs : List Nat) (r : Tab Bits) : Tab Bits :=
  bs.foldl (fun r b => r.set b (mergeInto u (r.get b))) r

/-- the loop over the covariant classes of the allocation body -/
def covLoop (tb : Nat → List Nat) (usedV : Bits) (v : Nat) (ds : List Nat)
    (ur : Tab Bits × Tab Bits) : Tab Bits × Tab Bits :=
  ds.foldl (fun (ur : Tab Bits × Tab Bits) d =>
      if d = v then ur else
        (ur.1.set d (mergeInto usedV (ur.1.get d)), reserveIn usedV (tb d) ur.2)) ur

/-- body of the `for mp in cls.used_by_vp` loop of `assign_lattice_slots` for one parameter -/
def alloc (g : Graph) (used reserved : Tab Bits) (v : Nat) : (Tab Bits × Tab Bits) × Nat :=
  let slot := firstFree (mergeInto (reserved.get v) (used.get v))
  let usedV := setBit (used.get v) slot
  let used := used.set v usedV
  let reserved := reserved.set v (setBit (reserved.get v) slot)
  let reserved := reserveIn usedV (g.tb.get v) reserved
  (covLoop g.tb.get usedV v (g.cov.get v) (used, reserved), slot)

/-- all the parameters rooted at class `v` -/
def allocClass (g : Graph) (ms : List MethodC) (st : SlotSt) (v : Nat) : SlotSt :=
  (usedBy ms v).foldl (fun st mp =>
    let r := alloc g st.used st.reserved v
    { st with slotList := (mp, r.2) :: st.slotList, used := r.1.1, reserved := r.1.2 }) st

/-- pre-order of `assign_lattice_slots` through `direct_derived` with marks -/
def latticeOrder (derived : Nat → List Nat) : Nat → Nat → List Nat → List Nat
  | 0, _, visited => visited
  | f + 1, c, visited =>
    if c ∈ visited then visited
    else (derived c).foldl (fun vis d => latticeOrder derived f d vis) (visited ++ [c])

/-- `assign_slots`: roots in class order, trees by counter, lattices by bit sets; then the
    "MI v-tables" loop -/
def assignSlots (g : Graph) (ms : List MethodC) : SlotSt :=
  let roots := (List.range g.n).filter (fun c => (g.direct.get c).isEmpty)
  let step := fun (sv : SlotSt × List Nat) (r : Nat) =>
    if (g.cov.get r).all (fun c => (g.direct.get c).length ≤ 1) then
      (treeSlots g ms g.fuel r 0 sv.1, sv.2)
    else
      let vis := latticeOrder g.derived.get g.fuel r sv.2
      let newly := vis.drop sv.2.length
      (newly.foldl (allocClass g ms) sv.1, vis)
  let st := (roots.foldl step (SlotSt.init, [])).1
  (List.range g.n).foldl (fun st c =>
    if (st.used.get c).isEmpty then st
    else
      let fs := ((st.used.get c).findFirst).getD 0
      { st with first := st.first.set c fs, vsize := st.vsize.set c ((st.used.get c).length - fs) }) st

end Yomm2
