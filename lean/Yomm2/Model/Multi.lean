import Yomm2.Model.World
/-!
# Several policies side by side

Every static of a policy (catalogs, `dispatch_data`, hash statics, `vptrs`, `control`, error handler)
belongs to a template instantiated on the policy's key; a world is a finite map from keys to policy
states and every operation names the key it acts on.
-/
namespace Yomm2

inductive POp
  | addClass (handle : Nat) (r : ClassRec)
  | removeClass (handle : Nat)
  | addMethod (m : MethodRec)
  | removeMethod (key : Nat)
  | addDef (key : Nat) (d : DefRec)
  | removeDef (key : Nat) (defId : Nat)
  | update (mults : List UInt64)
  | setBudget (n : Nat)

def PState.apply (s : PState) : POp → PState
  | .addClass h r => { s with classes := s.classes ++ [(h, r)] }
  | .removeClass h => { s with classes := s.classes.filter (fun e => e.1 != h) }
  | .addMethod m => { s with methods := s.methods ++ [m] }
  | .removeMethod k => { s with methods := s.methods.filter (fun m => m.key != k) }
  | .addDef k d => { s with methods := s.methods.map (fun m => if m.key == k then { m with defs := m.defs ++ [d] } else m) }
  | .removeDef k id => { s with methods := s.methods.map (fun m =>
      if m.key == k then { m with defs := m.defs.filter (fun d => d.id != id) } else m) }
  | .update mults => (s.update mults).1
  | .setBudget n => { s with budget := n }

structure World where
  pols : List (String × PState)

def World.get (w : World) (k : String) : Option PState := (w.pols.find? (fun e => e.1 == k)).map (·.2)

/-- an operation on the policy with key `k` -/
def World.apply (w : World) (k : String) (op : POp) : World :=
  { pols := w.pols.map (fun e => if e.1 == k then (e.1, e.2.apply op) else e) }

end Yomm2
