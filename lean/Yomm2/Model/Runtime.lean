import Yomm2.Model.Dispatch
import Yomm2.Model.Hash
/-!
# Stage 4 and 5: `install_gv`, `publish_vptrs` and a call   (compiler.hpp:1034-1138, core.hpp:439-615,
# policies/vptr_vector.hpp, vptr_map.hpp)
-/
namespace Yomm2

inductive HashKind
  | none
  | fast
  | checked
deriving DecidableEq, Repr

inductive ErrKind
  | vectored      -- `vectored_error`, handler installed by the user
  | throwing      -- `throw_error`
  | backward      -- `backward_compatible_error_handler` (deprecated `call_error`)
deriving DecidableEq, Repr

inductive Rtti
  | identity      -- custom ids, identity projection
  | projected     -- custom ids, `type_index(id) = id / 8` (several ids per class)
  | deferred      -- `deferred_static_rtti`: ids known when `update` runs
deriving DecidableEq, Repr

structure Cfg where
  hash : HashKind := .none
  vptrMap : Bool := false
  indirect : Bool := false
  err : ErrKind := .vectored
  rtti : Rtti := .identity
deriving DecidableEq, Repr

def Cfg.proj (c : Cfg) : Nat → Nat :=
  match c.rtti with
  | .projected => fun id => id / 8
  | _ => fun id => id

/-- the `runtime_checks` facet comes with the checked hash -/
def Cfg.checks (c : Cfg) : Bool := c.hash == .checked

structure Installed where
  /-- the words written by this `install_gv`, from the start of `dispatch_data` -/
  data : Array Word
  /-- `dispatch_data.size()`; words beyond `data.size` were not written by this update -/
  dataSize : Nat
  /-- per class: `*static_vptr`, as an offset into `dispatch_data` (biased by `first_slot`) -/
  vptr : Tab Int
  /-- per method: the `slots_strides` array -/
  ss : List (List Nat)

def slotsOf (st : SlotSt) (mi : Nat) (arity : Nat) : List Nat :=
  (List.range arity).map (fun p => st.slots (mi, p))

/-- words of the multi-method dispatch tables, per method (uni-methods have none) -/
def tableWordsOf (c : Compiled) : List (List Word) :=
  (List.zipIdx (c.methods.zip c.outs)).map (fun (mo, mi) =>
    if mo.1.vp.length == 1 then [] else mo.2.table.map (fun cell => Word.fn mi cell.1))

/-- `gv_dispatch_table` of each method: where its table starts in `dispatch_data` -/
def prefixSums : List Nat → Nat → List Nat
  | [], _ => []
  | x :: xs, acc => acc :: prefixSums xs (acc + x)

/-- the word `install_gv` writes for one v-table entry -/
def entryWord (c : Compiled) (bases : List Nat) (e : Entry) : Except Err Word :=
  match c.outs[e.method]?, c.methods[e.method]? with
  | some o, some m =>
    if m.vp.length == 1 then
      match o.table[e.group]? with
      | some cell => .ok (Word.fn e.method cell.1)
      | none => .error (Err.fault "install: group index outside the method's dispatch table")
    else if e.vp == 0 then .ok (Word.ptr ((bases[e.method]?).getD 0 + e.group))
    else .ok (Word.num e.group)
  | _, _ => .error (Err.fault "install: v-table entry of an unknown method")

/-- `install_gv` without the publication of v-table pointers: the multi-method tables first, then
    the v-tables of the classes in order; each class's v-table pointer is biased by its first slot -/
def install (c : Compiled) : Except Err Installed := do
  let tw := tableWordsOf c
  let bases := prefixSums (tw.map List.length) 0
  let rows ← c.vtbl.mapM (fun row => row.mapM (entryWord c bases))
  let tlen := (tw.map List.length).sum
  let vptrs : List Int := (List.range c.vtbl.length).map (fun ci =>
    ((tlen + ((rows.take ci).map List.length).sum : Nat) : Int) - (c.slots.first.get ci : Int))
  let dataSize := (c.outs.map (fun o => o.table.length)).sum + (c.vtbl.map List.length).sum
  let ss := (List.zipIdx (c.methods.zip c.outs)).map (fun (mo, mi) =>
    if mo.1.vp.length == 1 then [c.slots.slots (mi, 0)] else slotsOf c.slots mi mo.1.vp.length ++ mo.2.strides)
  .ok { data := (tw.flatten ++ rows.flatten).toArray, dataSize, vptr := ⟨vptrs.toArray, 0⟩, ss }

/-! ## a call -/

/-- `vtbl[slot]`: the address must lie inside the words this update wrote -/
def readWord (inst : Installed) (i : Int) : Except Err Word :=
  if i < 0 then .error (.fault "read below dispatch_data")
  else match inst.data[i.toNat]? with
    | some w => .ok w
    | none => .error (.fault "read beyond the words written by update")

/-- `resolve_multi_next`, structurally over the parameter list; `k` is `VirtualArg` -/
def resolveMultiNext (inst : Installed) (ss : List Nat) (arity : Nat) :
    Nat → List (Kind × Int) → Nat → Except Err Word
  | _, [], _ => .error (.fault "resolve: ran out of arguments")
  | k, (kind, v) :: rest, d =>
    if kind.isVirtual then
      match (ss[k]? : Option Nat), (ss[arity + k - 1]? : Option Nat) with
      | some slot, some stride => do
        let w ← readWord inst (v + (slot : Int))
        match w with
        | .num g =>
          let d := d + g * stride
          if k + 1 == arity then readWord inst d else resolveMultiNext inst ss arity (k + 1) rest d
        | _ => .error (.fault "resolve: v-table cell of a later parameter is not a group index")
      | _, _ => .error (.fault "resolve: slots_strides out of range")
    else resolveMultiNext inst ss arity k rest d

def resolveMultiFirst (inst : Installed) (ss : List Nat) (arity : Nat) :
    List (Kind × Int) → Except Err Word
  | [] => .error (.fault "resolve: no virtual argument")
  | (kind, v) :: rest =>
    if kind.isVirtual then
      match (ss[0]? : Option Nat) with
      | some slot => do
        let w ← readWord inst (v + (slot : Int))
        match w with
        | .ptr d => resolveMultiNext inst ss arity 1 rest d
        | _ => .error (.fault "resolve: v-table cell of the first parameter is not a table pointer")
      | none => .error (.fault "resolve: slots_strides out of range")
    else resolveMultiFirst inst ss arity rest

def resolveUni (inst : Installed) (ss : List Nat) : List (Kind × Int) → Except Err Word
  | [] => .error (.fault "resolve: no virtual argument")
  | (kind, v) :: rest =>
    if kind.isVirtual then
      match (ss[0]? : Option Nat) with
      | some slot => readWord inst (v + (slot : Int))
      | none => .error (.fault "resolve: slots_strides out of range")
    else resolveUni inst ss rest

/-- `method::resolve`: the word the call jumps through; `args` pairs each parameter kind with the
    v-table pointer obtained for it (ignored for non-virtual parameters) -/
def resolve (inst : Installed) (mi : Nat) (args : List (Kind × Int)) : Except Err Word :=
  match inst.ss[mi]? with
  | none => .error (.fault "resolve: unknown method")
  | some ss =>
    let arity := (args.filter (fun a => a.1.isVirtual)).length
    if arity == 1 then resolveUni inst ss args else resolveMultiFirst inst ss arity args

end Yomm2
