import Yomm2.Model.Types
/-!
# Stage 1: `augment_classes` + `calculate_covariant_classes`   (compiler.hpp:362-524)

Records are merged by `type_index` (the projection `proj`), base lists are collected, de-duplicated,
sorted by weight; direct bases are extracted with marks; `direct_derived` is the inverse; covariant
classes are the closure through `direct_derived`; finally (repair of D4) `transitive_bases` is
completed from the covariant sets.
-/
namespace Yomm2

structure Head where
  key : Nat
  ids : List Nat
  abstract : Bool
deriving Repr

/-- first loop of `augment_classes`: one `class_` per `type_index`, every id seen collected once -/
def addRec (proj : Nat → Nat) (acc : List Head) (r : ClassRec) : List Head :=
  if acc.any (fun h => h.key == proj r.id) then
    acc.map (fun h =>
      if h.key == proj r.id && !(h.ids.contains r.id) then { h with ids := h.ids ++ [r.id] } else h)
  else acc ++ [{ key := proj r.id, ids := [r.id], abstract := r.abstract }]

def heads (proj : Nat → Nat) (recs : List ClassRec) : List Head := recs.foldl (addRec proj) []

def classIdx (hs : List Head) (k : Nat) : Option Nat := hs.findIdx? (fun h => h.key == k)

/-- the first listed base that is not a registered class (second loop), in record order -/
def firstUnknownBase (proj : Nat → Nat) (hs : List Head) (recs : List ClassRec) : Option Nat :=
  recs.findSome? (fun r => r.bases.find? (fun b => (classIdx hs (proj b)).isNone))

/-- `transitive_bases` of class `i` as pushed by the second loop (the class itself eliminated) -/
def rawBases (proj : Nat → Nat) (hs : List Head) (recs : List ClassRec) (i : Nat) : List Nat :=
  match hs[i]? with
  | none => []
  | some h =>
    ((recs.filter (fun r => proj r.id == h.key)).flatMap
        (fun r => r.bases.filterMap (fun b => classIdx hs (proj b)))).filter (fun b => b != i)

/-- the marking loop over the sorted bases: kept direct bases and the marks -/
def extract (tb : Nat → List Nat) : List Nat → List Nat → List Nat → List Nat × List Nat
  | [], direct, marks => (direct, marks)
  | b :: rest, direct, marks =>
    if b ∈ marks then extract tb rest direct marks
    else extract tb rest (direct ++ [b]) (marks ++ tb b)

/-- the class and everything reachable through `direct_derived`, with fuel -/
def covF (derived : Nat → List Nat) : Nat → Nat → List Nat
  | 0, c => [c]
  | f + 1, c => dedup (c :: (derived c).flatMap (covF derived f))

structure Graph where
  n : Nat
  /-- bound on the depth of every recursion through `direct_derived` (any number ≥ the length of the
      longest inheritance chain; the number of records is one) -/
  fuel : Nat
  heads : List Head
  /-- de-duplicated listed proper bases, sorted by weight -/
  tb0 : Tab (List Nat)
  direct : Tab (List Nat)
  derived : Tab (List Nat)
  /-- covariant classes, ascending (an `unordered_set` in C++: order unobservable) -/
  cov : Tab (List Nat)
  /-- `transitive_bases` after completion from the covariant sets -/
  tb : Tab (List Nat)

def Graph.abstract (g : Graph) (c : Nat) : Bool := (g.heads[c]?.map (·.abstract)).getD false
def Graph.ids (g : Graph) (c : Nat) : List Nat := (g.heads[c]?.map (·.ids)).getD []

/-- de-duplicated listed proper bases -/
def tbDOf (proj : Nat → Nat) (hs : List Head) (recs : List ClassRec) : Tab (List Nat) :=
  Tab.ofFn hs.length (fun i => dedup (rawBases proj hs recs i)) []

/-- … sorted by weight (number of listed proper bases), heaviest first -/
def tb0Of (n : Nat) (tbD : Tab (List Nat)) : Tab (List Nat) :=
  Tab.ofFn n (fun i => isortBy (fun a b => (tbD.get a).length > (tbD.get b).length) (tbD.get i)) []

def directOf (n : Nat) (tbD tb0 : Tab (List Nat)) : Tab (List Nat) :=
  Tab.ofFn n (fun i => (extract tbD.get (tb0.get i) [] []).1) []

def derivedOf (n : Nat) (direct : Tab (List Nat)) : Tab (List Nat) :=
  Tab.ofFn n (fun b => (List.range n).filter (fun c => (direct.get c).contains b)) []

def covOf (n fuel : Nat) (derived : Tab (List Nat)) : Tab (List Nat) :=
  Tab.ofFn n (fun c => isortBy (fun a b => a < b) (covF derived.get fuel c)) []

/-- repair of D4: complete `transitive_bases` from the covariant sets -/
def tbOf (n : Nat) (tb0 cov : Tab (List Nat)) : Tab (List Nat) :=
  Tab.ofFn n (fun d => tb0.get d ++
    (List.range n).filter (fun c => (cov.get c).contains d && c != d && !(tb0.get d).contains c)) []

def buildGraph (proj : Nat → Nat) (recs : List ClassRec) : Except Err Graph :=
  let hs := heads proj recs
  match firstUnknownBase proj hs recs with
  | some b => .error (.unknownClass b)
  | none =>
    let n := hs.length
    let tbD := tbDOf proj hs recs
    let tb0 := tb0Of n tbD
    let direct := directOf n tbD tb0
    let derived := derivedOf n direct
    let cov := covOf n recs.length derived
    .ok { n, fuel := recs.length + 1, heads := hs, tb0, direct, derived, cov, tb := tbOf n tb0 cov }

end Yomm2
