import Yomm2
#print axioms Yomm2.Props.C01.spec_functional
#print axioms Yomm2.Props.C01.oracle_decides
#print axioms Yomm2.Generated.hashPasses_is_model
#print axioms Yomm2.Generated.hashGrow_is_model
#print axioms Yomm2.Generated.hashBudget_is_model
#print axioms Yomm2.Generated.maxTypes_is_model
#print axioms Yomm2.Generated.aggregateThreshold_pos
#print axioms Yomm2.Generated.aggregateThreshold_is_model
#print axioms Yomm2.Generated.bits_are_model
#print axioms Yomm2.Generated.bits_disjoint
#print axioms Yomm2.Generated.keywords_cover_fundamentals
