import Yomm2.Driver
/-!
# Line-protocol driver of the model (compiled as `driver`; imports nothing outside core + the model)

Reads scripts separated by `--- <name>` lines from stdin and prints, for each op, the canonical lines
the H-dyn harness prints for the real implementation.
-/
open Yomm2

def fmtList {α} (f : α → String) (l : List α) : String := "[" ++ ",".intercalate (l.map f) ++ "]"
def fmtNats (l : List Nat) : String := fmtList toString l

def policyOf : String → Option Cfg
  | "fast" => some { hash := .fast }
  | "checked" => some { hash := .checked }
  | "plain" => some { hash := .none, err := .throwing }
  | "map" => some { vptrMap := true, err := .throwing }
  | "indirect" => some { hash := .fast, indirect := true }
  | "indmix" => some { hash := .fast, indirect := true }
  | "proj" => some { hash := .checked, rtti := .projected }
  | "deferred" => some { hash := .checked, rtti := .deferred }
  | "backward" => some { hash := .fast, err := .backward }
  | "gen" => some { vptrMap := true }
  | "genh" => some { vptrMap := true }
  | "fastA" => some { hash := .fast }
  | "fastB" => some { hash := .fast }
  | "fastC" => some { hash := .fast }
  | "checkedB" => some { hash := .checked }
  | _ => none

def shapeOf (s : String) : Option (List Kind) :=
  s.toList.mapM (fun c => match c with
    | 'V' => some Kind.virt
    | 'P' => some Kind.vptr
    | 'N' => some Kind.nonvirt
    | _ => none)

structure DState where
  pols : List (String × PState) := []
  cur : Option String := none
  rng : List UInt64 := []
  handlerReturns : Bool := false
  dead : Bool := false
  slist : SList := {}
  /-- `--src` mode: list operations run the bodies translated from `static_list.hpp` (`Mini.exec`) instead of
      the hand-written model; `some why` once an operation did not complete -/
  src : Bool := false
  srcStuck : Option String := none
  /-- the definitions' `next` cells as `decode_dispatch_data` restored them, per policy in which the latest
      tables were installed by the `decode` op (an `update` recomputes them) -/
  decNexts : List (String × List (List Cell)) := []
  vars : List (String × VPtr) := []
  encoded : Option Emitted := none
  /-- oracle mode: the pointee class of each `virtual_ptr` variable -/
  ovars : List (String × Nat) := []
  oracle : Bool := false
  /-- oracle mode: the registry as of the latest completed update, per policy -/
  snaps : List (String × Registry) := []

/-- a list operation in `--src` mode -/
def srcListOp (d : DState) (body : Mini.Stmt) (params : List (String × Option Nat)) : DState :=
  if d.srcStuck.isSome then d else
  match Mini.run 257 body d.slist params with
  | .done l => { d with slist := l }
  | .fault w => { d with srcStuck := some w }
  | .assertFailed => { d with srcStuck := some "assertion failed" }
  | .outOfFuel => { d with srcStuck := some "out of fuel" }

def DState.get (d : DState) : Option PState :=
  match d.cur with
  | none => none
  | some n => (d.pols.find? (fun e => e.1 == n)).map (·.2)

def DState.set (d : DState) (s : PState) : DState :=
  match d.cur with
  | none => d
  | some n => { d with pols := d.pols.map (fun e => if e.1 == n then (n, s) else e) }

def cellStr (defId : Nat → Nat) : Cell → String
  | .defn i => s!"d{defId i}"
  | .amb => "A"
  | .ni => "N"

def fmtCallErr : CallErr → String
  | .resolution st ar tys =>
    let s := match st with | .amb => "amb" | _ => "ni"
    s!"raised resolution status={s} arity={ar} types={fmtNats tys}"
  | .unknownClass id => s!"raised unknown_class {id}"
  | .methodTable id => s!"raised method_table {id}"
  | .fault w => s!"fault {w}"

def dump (s : PState) : List String :=
  match s.compiled, s.inst with
  | some c, some inst =>
    let g := c.graph
    let methodKey := fun (mi : Nat) => (c.methods[mi]?.map (·.key)).getD 0
    let defId := fun (mi i : Nat) => ((c.methods[mi]?.bind (fun m => m.specs[i]?)).map (·.1)).getD 0
    let classLines := (List.range g.n).map (fun i =>
      let vt := (c.vtbl[i]?).getD []
      s!"class {i} ids={fmtNats (g.ids i)} abs={if g.abstract i then 1 else 0} tb={fmtNats (isortBy (fun a b => a < b) (g.tb.get i))} direct={fmtNats (g.direct.get i)} derived={fmtNats (g.derived.get i)} cov={fmtNats (g.cov.get i)} first={c.slots.first.get i} vp={inst.vptr.get i} vtbl={fmtList (fun (e : Entry) => s!"{e.method}.{e.vp}.{e.group}") vt}")
    let methodLines := (List.zipIdx (c.methods.zip c.outs)).map (fun ((m, o), mi) =>
      let r := o.report
      s!"method {m.key} slots={fmtNats (slotsOf c.slots mi m.vp.length)} strides={fmtNats o.strides} table={fmtList (fun (cl : Cell × Bool) => cellStr (defId mi) cl.1) o.table} next={fmtList (cellStr (defId mi)) o.nexts} report={r.cells},{r.concreteCells},{r.notImplemented},{r.concreteNotImplemented},{r.ambiguous},{r.concreteAmbiguous}")
    let r := c.report
    let word := fun (w : Word) => match w with
      | .fn m cl => s!"F{methodKey m}." ++ cellStr (defId m) cl
      | .ptr i => s!"P{i}"
      | .num n => s!"N{n}"
    let ssLines := (List.zipIdx c.methods).map (fun (m, mi) => s!"ss {m.key} {fmtNats ((inst.ss[mi]?).getD [])}")
    let hashLines :=
      if s.cfg.hash == .none || s.cfg.vptrMap then []
      else
        let h := s.pub.hash
        [s!"hash mult={h.mult.toNat} shift={h.shift} length={h.length} min={h.mn} max={h.mx}"] ++
        (if s.cfg.hash == .checked then [s!"control {fmtList (fun (x : UInt64) => toString x.toNat) s.pub.control.toList}"] else [])
    let entries : List (Nat × VSlot) :=
      if s.cfg.vptrMap then s.pub.map else (List.zipIdx s.pub.vec.toList).map (fun (v, i) => (i, v))
    let curEntries := (isortBy (fun (a b : Nat × VSlot) => a.1 < b.1) entries).filterMap (fun e =>
      match e.2 with
      | .cur cl => some s!"{e.1}:{inst.vptr.get cl}"
      | _ => none)
    let vptrLine := s!"vptrs size={entries.length} [" ++ ",".intercalate curEntries ++ "]"
    classLines ++ methodLines ++
      [s!"report {r.cells},{r.concreteCells},{r.notImplemented},{r.concreteNotImplemented},{r.ambiguous},{r.concreteAmbiguous}",
       s!"data size={inst.dataSize} words={fmtList word inst.data.toList}"] ++ ssLines ++ hashLines ++ [vptrLine]
  | _, _ => ["dump none"]

/-- pair the shape of a method with the dynamic ids of the virtual arguments -/
def zipArgs : List Kind → List Nat → List (Kind × Nat)
  | [], _ => []
  | k :: ks, ids =>
    if k.isVirtual then
      match ids with
      | id :: rest => (k, id) :: zipArgs ks rest
      | [] => (k, 0) :: zipArgs ks []
    else (k, 0) :: zipArgs ks ids

/-- follow `next` from a definition: the chain of definition ids and how it ends -/
def nextChain (c : Compiled) (nexts : List (List Cell)) (mi : Nat) : Nat → Nat → List Nat × Option Cell
  | 0, _ => ([], none)
  | fuel + 1, i =>
    let me := ((c.methods[mi]?.bind (fun m => m.specs[i]?)).map (·.1)).getD 0
    match (nexts[mi]?).bind (fun l => l[i]?) with
    | some (.defn j) => let (l, e) := nextChain c nexts mi fuel j; (me :: l, e)
    | some other => ([me], some other)
    | none => ([me], none)

/-- spec-level answer to a call: `Spec.selectB` on the registry of the latest update -/
def oracleCall (cfg : Cfg) (reg : Registry) (m : MethodRec) (ids : List Nat) : String :=
  let proj := cfg.proj
  let regd := fun (id : Nat) => reg.classes.any (fun r => r.id == id)
  match ids.find? (fun id => !regd id) with
  | some id => if cfg.checks then s!"raised unknown_class {id}" else "illegal"
  | none =>
    if ids.length != m.vp.length || !((ids.zip m.vp).all (fun (a, p) => Spec.derivesB proj reg (proj a) (proj p))) then "illegal"
    else
      match Spec.selectB proj reg m.defs (ids.map proj) with
      | .ran d => s!"ran {d}"
      | .notImplemented => s!"raised resolution status=ni arity={m.vp.length} types={fmtNats (ids.take 16)}"
      | .ambiguous => s!"raised resolution status=amb arity={m.vp.length} types={fmtNats (ids.take 16)}"

/-- spec-level `next` chain starting from the definition a call selects -/
def oracleNext (cfg : Cfg) (reg : Registry) (m : MethodRec) (ids : List Nat) : String :=
  let proj := cfg.proj
  let err := fun (st : String) => s!"raised resolution status={st} arity={m.vp.length} types={fmtNats (ids.take 16)}"
  let rec go (fuel : Nat) (d : Nat) (acc : List Nat) : String :=
    match fuel with
    | 0 => s!"ran {fmtNats acc} end"
    | fuel + 1 =>
      match m.defs.find? (fun df => df.id == d) with
      | none => s!"ran {fmtNats acc} end"
      | some df =>
        match Spec.nextB proj reg m.defs df with
        | .ran d' => go fuel d' (acc ++ [d'])
        | .notImplemented => s!"ran {fmtNats acc} " ++ err "ni"
        | .ambiguous => s!"ran {fmtNats acc} " ++ err "amb"
  match oracleCall cfg reg m ids with
  | "illegal" => "illegal"
  | r =>
    if r.startsWith "ran " then
      match (r.drop 4).toString.toNat? with
      | some d => go (m.defs.length + 1) d [d]
      | none => r
    else "ran [] " ++ r

def stepOracle (d : DState) (s : PState) (cmd : String) (args : List String) : DState × List String :=
  let name := d.cur.getD ""
  let nats : List Nat := args.filterMap (fun t =>
    if t.startsWith "$" then (d.ovars.find? (fun e => e.1 == (t.drop 1).toString)).map (·.2) else t.toNat?)
  if cmd == "vnew" || cmd == "vfinal" then
    match args, d.snaps.find? (fun e => e.1 == name) with
    | nm :: idt :: _, some (_, reg) =>
      let id := idt.toNat?.getD 0
      if s.cfg.checks && !(reg.classes.any (fun r => r.id == id)) then
        (d, [if cmd == "vfinal" then s!"raised method_table {id}" else s!"raised unknown_class {id}"])
      else if cmd == "vfinal" && s.staticId == 0 then
        -- no static class: `final` of anything is a misuse; checked policies report it
        (d, [if s.cfg.checks then s!"raised method_table {id}" else "illegal"])
      else if cmd == "vfinal" && s.cfg.checks && id != s.staticId then (d, [s!"raised method_table {id}"])
      else ({ d with ovars := (d.ovars.filter (fun e => e.1 != nm)) ++ [(nm, id)] }, ["vptr ok"])
    | _, _ => (d, ["illegal"])
  else if cmd == "vcopy" || cmd == "vmove" then
    match args with
    | dst :: src :: _ =>
      match d.ovars.find? (fun e => e.1 == src) with
      | some e => ({ d with ovars := (d.ovars.filter (fun x => x.1 != dst)) ++ [(dst, e.2)] }, ["vptr ok"])
      | none => (d, ["illegal"])
    | _ => (d, ["illegal"])
  else if cmd == "update" then
    match compile s.cfg.proj s.registry with
    | .error (.unknownClass id) => ({ d with snaps := d.snaps.filter (fun e => e.1 != name) }, [s!"update raised unknown_class {id}"])
    | _ => ({ d with snaps := (d.snaps.filter (fun e => e.1 != name)) ++ [(name, s.registry)] }, ["update ok"])
  else if cmd == "dump" then
    -- the specification's `next` of every definition, from the registry of the latest update
    match d.snaps.find? (fun e => e.1 == name) with
    | none => (d, [])
    | some (_, reg) =>
      (d, reg.methods.map (fun m =>
        let cells := m.defs.map (fun df =>
          match Spec.nextB s.cfg.proj reg m.defs df with
          | .ran x => s!"d{x}"
          | .notImplemented => "N"
          | .ambiguous => "A")
        s!"specnext {m.key} [" ++ ",".intercalate cells ++ "]"))
  else
    match nats, d.snaps.find? (fun e => e.1 == name) with
    | key :: ids, some (_, reg) =>
      match reg.methods.find? (fun m => m.key == key) with
      | none => (d, ["call bad-method"])
      | some m =>
        if cmd == "callnext" then (d, [oracleNext s.cfg reg m ids]) else (d, [oracleCall s.cfg reg m ids])
    | _, _ => (d, ["skipped: no completed update"])

def step (d : DState) (tok : List String) : DState × List String :=
  match tok with
  | [] => (d, [])
  | "policy" :: n :: _ =>
    match policyOf n with
    | none => (d, ["!harness unknown policy " ++ n])
    | some cfg =>
      if d.pols.any (fun e => e.1 == n) then ({ d with cur := some n }, [])
      else ({ d with cur := some n, pols := d.pols ++ [(n, { cfg := cfg })] }, [])
  | "echo" :: rest => (d, ["@" ++ rest.headD ""])
  | "thunk-expect" :: sh :: _ =>
    -- what a generated argument-passing program must print for this inheritance shape
    match shapeOfName sh with
    | none => (d, ["!harness unknown shape"])
    | some s =>
      let arg := fun (k : String) => s!"arg kind={k} same=1 most=1 value=1 extra=1"
      (d, [s!"cast dynamic={if requiresDynamicCast s then 1 else 0}",
           arg "ref", arg "ref@1", arg "cref", arg "rref", arg "ptr", arg "two", arg "shared",
           "own kind=shared same_owner=1 use_after=1", arg "cshared@1", "own kind=cshared same_owner=1 use_after=1",
           arg "vsptr", "own kind=vsptr same_owner=1 use_after=1", arg "cvsptr", "own kind=cvsptr same_owner=1",
           arg "vsptr<-lvalue", arg "vsptr<-const", arg "vsptr<-rvalue", arg "vsptr<-derived",
           arg "vsptr-const<-base", arg "vsptr-const<-exact", arg "vsptr-const<-copy",
           "arg kind=make_virtual_shared same=1 get=1",
           arg "vptr", arg "vptr@1", arg "vptr-copy", arg "vptr-final->base", arg "vptr-exact->base",
           "get kind=vptr get=1 deref=1 arrow=1",
           s!"nv cat=value-prvalue got=1 copies={copiesOf .value .prvalue} moves_le1=1",
           s!"nv cat=value-xvalue got=1 copies={copiesOf .value .xvalue} moves_le1=1 src_moved=1",
           s!"nv cat=value-lvalue got=1 copies={copiesOf .value .lvalue} src_intact=1",
           s!"nv cat=lref same=1 copies={copiesOf .lref .lvalue} moves=0 written=1",
           s!"nv cat=rref same=1 copies={copiesOf .rref .xvalue} moves=0 intact=1",
           "nv cat=moveonly got=1 moves_le1=1",
           "ret cat=value got=1 copies=0 moves=0",
           "ret cat=ref same=1", "ret cat=derived-pointer adjusted=1 value=1"])
  | "thunk-expect-fork" :: _ =>
    -- a definition on an intermediate class with a virtual base, reached by objects of several most
    -- derived classes in turn: each call must hand the definition the caller's own object
    let kinds := ["ref", "ref@1", "cref", "rref", "ptr", "vptr", "vptr@1"]
    let objs := ["L1", "L2", "D", "L3", "L2", "L1"]
    (d, kinds.flatMap (fun k => objs.map (fun o => s!"fork kind={k} obj={o} same=1 value=1 extra=1")))
  | "use-defs" :: nl :: nr :: holes =>
    -- use_definitions over product<types<M>, L0..L(nl-1), R0..R(nr-1)> with holes i:j
    let nl := nl.toNat?.getD 0
    let nr := nr.toNat?.getD 0
    let hs : List (Nat × Nat) := holes.filterMap (fun h =>
      match h.splitOn ":" with
      | [a, b] => match a.toNat?, b.toNat? with
        | some x, some y => some (x, y)
        | _, _ => none
      | _ => none)
    let prod := product [[0], List.range nl, List.range nr]
    let defined := fun (t : List Nat) => match t with
      | [_, i, j] => !(hs.contains (i, j))
      | _ => false
    let pr := fun (t : List Nat) => match t with
      | [_, i, j] => s!" {i}:{j}"
      | _ => " ?"
    let regs := (useDefinitions defined Generated.aggregateThreshold prod).flatten
    let sorted := isortBy (fun (a b : List Nat) => a < b) regs
    let calls := (List.range nl).flatMap (fun i => (List.range nr).map (fun j =>
      if regs.contains [0, i, j] then s!" {1000 * i + j}" else " E"))
    (d, ["product" ++ String.join (prod.map pr), "registered" ++ String.join (sorted.map pr), "calls" ++ String.join calls])
  | "static-check" :: ar :: rest =>
    -- static-check <arity> <static slots and strides...> | <installed slots and strides...>
    let ar := ar.toNat?.getD 0
    let st := (rest.takeWhile (· != "|")).filterMap String.toNat?
    let ins := ((rest.dropWhile (· != "|")).drop 1).filterMap String.toNat?
    (d, [match staticCheck ar st ins with | none => "static-check ok" | some e => "static-check " ++ e])
  | "aggregate" :: n :: _ =>
    -- aggregate<Tag<0>, ..., Tag<n-1>>: every element constructed exactly once
    let n := n.toNat?.getD 0
    let leaves := (aggregate Generated.aggregateThreshold (n + 1) (List.range n)).flatten
    let missing := (List.range n).filter (fun i => !(leaves.contains i))
    let dup := (List.range n).filter (fun i => (leaves.filter (· == i)).length > 1)
    (d, [s!"aggregate n={n} constructed={leaves.length} missing={missing} twice={dup}"])
  | "fwd-names" :: names =>
    (d, ["fwd " ++ (writeForwardDeclarations (sortedSet (names.flatMap (extractNames Generated.keywords)))).replace "\n" "|"])
  | "fwd-type" :: _ => (d, ["fwd-type needs the raw line"])
  | "lpush" :: n :: _ =>
    if d.src then (srcListOp d Generated.StaticListSrc.push_back [("node", some (n.toNat?.getD 0))], [])
    else ({ d with slist := d.slist.pushBack (n.toNat?.getD 0) }, [])
  | "lremove" :: n :: _ =>
    if d.src then (srcListOp d Generated.StaticListSrc.remove [("node", some (n.toNat?.getD 0))], [])
    else ({ d with slist := d.slist.remove (n.toNat?.getD 0) }, [])
  | "lclear" :: _ =>
    if d.src then (srcListOp d Generated.StaticListSrc.clear [], [])
    else ({ d with slist := d.slist.clear 256 }, [])
  | "ldump" :: rest =>
    if let some why := d.srcStuck then (d, ["list stuck: " ++ why]) else
    let maxn := (rest.head?.bind String.toNat?).getD 8
    let items := d.slist.toList 201
    let o := fun (x : Option Nat) => toString (x.getD 0)
    let links := (List.range maxn).map (fun i => let l := d.slist.links (i + 1); o l.prev ++ "/" ++ o l.next)
    (d, [s!"list {fmtNats items} size={d.slist.size 100000} empty={if d.slist.empty then 1 else 0} links=[" ++ ",".intercalate links ++ "]"])
  | "rng" :: ms => ({ d with rng := ms.filterMap (fun s => s.toNat?.map UInt64.ofNat) }, [])
  | cmd :: args =>
    match d.get with
    | none => (d, ["!harness no policy selected"])
    | some s =>
      let nats := args.filterMap String.toNat?
      if d.oracle && (cmd == "update" || cmd == "dump" || cmd == "call" || cmd == "callnext" || cmd == "callfinal" ||
          cmd == "vcall" || cmd == "vnew" || cmd == "vfinal" || cmd == "vcopy" || cmd == "vmove") then
        stepOracle d s cmd args
      else
      match cmd, args with
      | "static", _ => (d.set { s with staticId := nats.headD 0 }, [])
      | "vnew", nm :: _ =>
        match s.mkVPtr (nats.headD 0) with
        | .ok v => ({ d with vars := (d.vars.filter (fun e => e.1 != nm)) ++ [(nm, v)] }, ["vptr ok"])
        | .error (.fault w) => (d, [s!"fault {w}"])
        | .error e => if d.handlerReturns then ({ d with dead := true }, ["!signal 6"]) else (d, [fmtCallErr e])
      | "vfinal", nm :: _ =>
        match s.mkFinal (nats.headD 0) with
        | .ok v => ({ d with vars := (d.vars.filter (fun e => e.1 != nm)) ++ [(nm, v)] }, ["vptr ok"])
        | .error (.fault w) => (d, [s!"fault {w}"])
        | .error e => if d.handlerReturns then ({ d with dead := true }, ["!signal 6"]) else (d, [fmtCallErr e])
      | "vcopy", dst :: src :: _ =>
        match d.vars.find? (fun e => e.1 == src) with
        | some e => ({ d with vars := (d.vars.filter (fun x => x.1 != dst)) ++ [(dst, e.2)] }, ["vptr ok"])
        | none => (d, ["!harness bad virtual_ptr variable"])
      | "vmove", dst :: src :: _ =>
        match d.vars.find? (fun e => e.1 == src) with
        | some e => ({ d with vars := (d.vars.filter (fun x => x.1 != dst)) ++ [(dst, e.2)] }, ["vptr ok"])
        | none => (d, ["!harness bad virtual_ptr variable"])
      | "budget", _ => (d.set { s with budget := nats.headD Generated.hashBudget }, [])
      | "handler", a :: _ => ({ d with handlerReturns := a == "return" }, [])
      | "class", _ =>
        match nats with
        | h :: id :: ab :: bases =>
          (d.set { s with classes := s.classes ++ [(h, { id := id, bases := bases, abstract := ab != 0 })] }, [])
        | _ => (d, ["!harness bad class op"])
      | "unclass", _ => (d.set { s with classes := s.classes.filter (fun e => e.1 != nats.headD 0) }, [])
      | "method", k :: sh :: _ =>
        match k.toNat?, shapeOf sh with
        | some key, some shape =>
          (d.set { s with methods := s.methods ++ [{ key := key, shape := shape, vp := nats.drop 1, defs := [] }] }, [])
        | _, _ => (d, ["!harness unknown shape"])
      | "unmethod", _ => (d.set { s with methods := s.methods.filter (fun m => m.key != nats.headD 0) }, [])
      | "def", _ =>
        match nats with
        | key :: did :: vp =>
          (d.set { s with methods := s.methods.map (fun m =>
            if m.key == key then { m with defs := m.defs ++ [{ id := did, vp := vp }] } else m) }, [])
        | _ => (d, ["!harness bad def op"])
      | "ghostdefs", _ =>
        -- n more definitions with the same parameter classes (ids from 900000 up)
        match nats with
        | key :: n :: vp =>
          (d.set { s with methods := s.methods.map (fun m =>
            if m.key == key then { m with defs := m.defs ++ (List.range n).map (fun i => { id := 900000 + i, vp := vp }) } else m) }, [])
        | _ => (d, ["!harness bad ghostdefs op"])
      | "undef", _ =>
        match nats with
        | key :: did :: _ =>
          (d.set { s with methods := s.methods.map (fun m =>
            if m.key == key then { m with defs := m.defs.filter (fun df => df.id != did) } else m) }, [])
        | _ => (d, [])
      | "update", _ =>
        let (s', out, _) := s.update d.rng
        let d := { (d.set s') with rng := [] }
        match out with
        | .ok => ({ d with decNexts := d.decNexts.filter (fun e => some e.1 != d.cur) }, ["update ok"])
        | .raised (.unknownClass id) =>
          if d.handlerReturns || s.cfg.err == .backward then ({ d with dead := true }, ["!signal 6"])
          else (d, [s!"update raised unknown_class {id}"])
        | .raised (.hashSearch a b) =>
          if d.handlerReturns || s.cfg.err == .backward then ({ d with dead := true }, ["!signal 6"])
          else (d, [s!"update raised hash_search attempts={a} buckets={b}"])
        | .raised (.fault w) => (d, [s!"update fault {w}"])
      | "dump", _ => (d, dump s)
      | "cmpmatrix", _ =>
        -- is_more_specific / is_base on every pair of definitions of every method: the hand-written model, or in
        -- --src mode the bodies translated from compiler.hpp (Sel.exec)
        match s.compiled with
        | none => (d, ["cmp none"])
        | some c =>
          let der := fun (x y : Nat) => (c.graph.cov.get y).contains x
          let bit := fun (b : Bool) => if b then "1" else "0"
          let viaSrc := fun (body : Sel.Stmt) (a b : List Nat) =>
            match Sel.run der (a.length + 1) body a b with
            | .returned v => bit v
            | .normal _ => "?"
            | .fault _ => "F"
            | .outOfFuel => "T"
          (d, c.methods.map (fun m =>
            let vps := m.specs.map (·.2)
            let pairs := vps.flatMap (fun a => vps.map (fun b => (a, b)))
            let ms := pairs.map (fun (a, b) =>
              if d.src then viaSrc Generated.CompareSrc.is_more_specific a b else bit (isMoreSpecific der a b))
            let bs := pairs.map (fun (a, b) =>
              if d.src then viaSrc Generated.CompareSrc.is_base a b else bit (isBase der a b))
            -- best() on every prefix and every suffix of the definitions (by position)
            let n := vps.length
            let msIdx := fun (a b : Nat) => isMoreSpecific der (vps.getD a []) (vps.getD b [])
            let sets := ((List.range n).map (fun k => List.range (k + 1))) ++
              ((List.range (n - 1)).map (fun k => (List.range n).drop (k + 1)))
            let showL := fun (l : List Nat) => ".".intercalate (l.map toString)
            let bests := sets.map (fun cands =>
              if d.src then
                match Pick.run msIdx Generated.BestSrc.best cands with
                | .returned l => showL l
                | .normal => "?"
                | .fault _ => "F"
              else showL (best msIdx cands))
            s!"cmp {m.key} n={vps.length} ms={String.join ms} base={String.join bs} best={"|".intercalate bests}"))
      | "offsets", _ =>
        match s.inst with
        | none => (d, [])
        | some inst =>
          (d, (List.zipIdx s.methods).map (fun (m, mi) =>
            "offsets " ++ writeStaticOffsets s!"M{m.key}" m.vp.length ((inst.ss[mi]?).getD [])))
      | "encode", _ =>
        match s.compiled with
        | none => (d, ["skipped: no completed update"])
        | some c =>
          match encodeChecked c with
          | none => ({ d with encoded := none }, ["encode refused"])
          | some em =>
          ({ d with encoded := some em },
           [s!"encoded headroom={em.headroom} slots={em.slotsN} vtbls={em.encN} decoded={em.decN} dtbls={em.dtblN}",
            s!"enc-slots {fmtNats em.slots}", s!"enc-vtbls {fmtNats em.vtbls}", s!"enc-dtbls {fmtNats em.dtbls}"])
      | "decode", _ =>
        match d.encoded, s.compiled with
        | some em, some c =>
          let ms := c.methods.map (fun m => (m.vp.length, m.specs.length))
          let cells := s.classes.map (fun e => s.cfg.proj e.2.id)
          match decode em ms cells with
          | .error (.fault w) => (d, [s!"decode fault {w}"])
          | .error _ => (d, ["decode fault"])
          | .ok dec =>
            let methodKey := fun (mi : Nat) => (c.methods[mi]?.map (·.key)).getD 0
            let defId := fun (mi i : Nat) => ((c.methods[mi]?.bind (fun m => m.specs[i]?)).map (·.1)).getD 0
            let w := fun (x : DWord) => match x with
              | .fn m cl => s!"F{methodKey m}." ++ cellStr (defId m) cl
              | .tbl i => s!"T{i}"
              | .num n => s!"N{n}"
            let recLines := (s.classes.zip dec.vptrs).map (fun (e, v) =>
              -- a skipped record shares the cell of an earlier one
              let vp := match v with
                | some x => x
                | none =>
                  let k := s.cfg.proj e.2.id
                  (((s.classes.zip dec.vptrs).find? (fun (p : (Nat × ClassRec) × Option Int) => s.cfg.proj p.1.2.id == k && p.2.isSome)).bind (·.2)).getD 0
              s!"dclass {e.2.id} vp={vp}")
            let inst := dec.toInstalled
            match decodeNext em ms with
            | .error (.fault w) => (d, [s!"decode fault {w}"])
            | .error _ => (d, ["decode fault"])
            | .ok nx =>
            let cur := d.cur.getD ""
            ({ (d.set { s with inst := some inst }) with decNexts := d.decNexts.filter (fun e => e.1 != cur) ++ [(cur, nx)] },
             ["decode ok"] ++ recLines ++ [s!"dvtbls {fmtList w dec.vtbls}", s!"ddtbls {fmtList w dec.dtbls}"] ++
               (List.zipIdx c.methods).map (fun (m, mi) => s!"dss {m.key} {fmtNats ((dec.ss[mi]?).getD [])}") ++
               (List.zipIdx c.methods).map (fun (m, mi) =>
                 s!"dnext {m.key} {fmtList (fun (cl : Cell) => cellStr (defId mi) cl) ((nx[mi]?).getD [])}"))
        | _, _ => (d, ["skipped: nothing encoded"])
      | "lookup", _ =>
        match s.inst with
        | none => (d, ["skipped: no completed update"])
        | some inst =>
          -- in --src mode the index comes from the bodies of hash_type_id translated from the header
          let viaSrc : Option (Except CallErr VSlot) :=
            if d.src && !s.cfg.vptrMap && s.cfg.hash != .none then
              let id := UInt64.ofNat (nats.headD 0)
              let slotAt := fun (i : Nat) => match s.pub.vec[i]? with
                | some sl => Except.ok sl
                | none => Except.error (CallErr.fault "vptrs index out of range")
              if s.cfg.hash == .checked then
                match HashL.run s.pub.hash s.pub.control Generated.HashSrc.fast Generated.HashSrc.checked id with
                | .returned i => some (slotAt i.toNat)
                | .reported x => some (.error (.unknownClass x.toNat))
                | .aborted => some (.error (.fault "abort"))
                | .normal _ => some (.error (.fault "fell off the end of hash_type_id"))
                | .fault w => some (.error (.fault w))
              else
                match HashL.evalE { st := s.pub.hash, control := s.pub.control, fast := Generated.HashSrc.fast, param := id } [] 2
                    Generated.HashSrc.fast with
                | .ok i => some (slotAt i.toNat)
                | .error w => some (.error (.fault w))
            else none
          match (viaSrc.getD (lookupVptr s.cfg s.pub (nats.headD 0))).bind (slotVptr inst) with
          | .ok v => (d, [s!"vptr {v}"])
          | .error (.fault w) => (d, [s!"fault {w}"])
          | .error e => if d.handlerReturns then ({ d with dead := true }, ["!signal 6"]) else (d, [fmtCallErr e])
      | c, _ =>
        if c == "call" || c == "callnext" || c == "callfinal" || c == "vcall" then
          if s.inst.isNone then (d, ["skipped: no completed update"]) else
          -- virtual arguments: an id, or $name for an existing virtual_ptr
          let vtoks := args.drop 1
          let vals : List (Nat × Option VPtr) := vtoks.map (fun t =>
            if t.startsWith "$" then
              match d.vars.find? (fun e => e.1 == (t.drop 1).toString) with
              | some e => (e.2.obj, some e.2)
              | none => (0, none)
            else (t.toNat?.getD 0, none))
          match (args.head?.bind String.toNat?), vals.map (·.1) with
          | some key, ids =>
            match s.methods.find? (fun m => m.key == key) with
            | none => (d, ["call bad-method"])
            | some m =>
              -- positions (in the full parameter list) of the virtual parameters
              let vpos := (List.zipIdx m.shape).filterMap (fun (k, i) => if k.isVirtual then some i else none)
              let pre : List (Nat × VPtr) := (vpos.zip vals).filterMap (fun (i, v) => v.2.map (fun p => (i, p)))
              let out := s.callWith key (zipArgs m.shape ids) (if c == "callfinal" then .final else .ref) pre
              let errLine := fun (e : CallErr) =>
                match e with
                | .fault w => (d, [s!"fault {w}"])
                | e => if d.handlerReturns then ({ d with dead := true }, ["!signal 6"]) else (d, [fmtCallErr e])
              if c == "callnext" then
                match out, s.compiled with
                | .ran did, some cp =>
                  match (List.zipIdx cp.methods).find? (fun e => e.1.key == key) with
                  | some (mc, mi) =>
                    let i := (mc.specs.findIdx? (fun sp => sp.1 == did)).getD 0
                    let nexts := match d.decNexts.find? (fun e => some e.1 == d.cur) with
                      | some e => e.2
                      | none => cp.outs.map (·.nexts)
                    let (chain, e) := nextChain cp nexts mi (mc.specs.length + 1) i
                    match e with
                    | some cell =>
                      if d.handlerReturns then ({ d with dead := true }, ["!signal 6"])
                      else (d, [s!"ran {fmtNats chain} " ++ fmtCallErr (.resolution cell mc.vp.length (errorTypes (zipArgs m.shape ids)))])
                    | none => (d, [s!"ran {fmtNats chain} end"])
                  | none => (d, ["call bad-method"])
                | .raised e, _ =>
                  let (d', l) := errLine e
                  (d', l.map (fun x => if x.startsWith "raised" then "ran [] " ++ x else x))
                | _, _ => (d, ["call bad-state"])
              else
                match out with
                | .ran did => (d, [s!"ran {did}"])
                | .raised e => errLine e
          | _, _ => (d, ["!harness bad call"])
        else (d, ["!harness unknown op " ++ c])

partial def loop (h : IO.FS.Stream) (out : IO.FS.Stream) (d : DState) : IO Unit := do
  let line ← h.getLine
  if line.isEmpty then return ()
  let l := line.trimAscii.toString
  if l.startsWith "--- " then
    out.putStrLn l
    loop h out { oracle := d.oracle, src := d.src }
  else if d.dead then loop h out d
  else
    let tok := (l.splitOn " ").filter (fun t => !t.isEmpty)
    if l.startsWith "fwd-type" then
      let ty := ((l.drop 8).toString.trimAscii).toString
      out.putStrLn ("fwd " ++ (writeForwardDeclarations (sortedSet (extractNames Generated.keywords ty))).replace "\n" "|")
      loop h out d
    else if tok.isEmpty || l.startsWith "#" then loop h out d
    else
      let (d', lines) := step d tok
      for x in lines do out.putStrLn x
      loop h out d'

def main (args : List String) : IO Unit := do
  let stdin ← IO.getStdin
  let stdout ← IO.getStdout
  loop stdin stdout { oracle := args.contains "--oracle", src := args.contains "--src" }
