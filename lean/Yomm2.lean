import Yomm2.Basic
import Yomm2.Model.Types
import Yomm2.Model.Classes
import Yomm2.Model.Slots
import Yomm2.Model.Dispatch
import Yomm2.Model.Hash
import Yomm2.Model.Runtime
import Yomm2.Model.World
