namespace ProtoHash

def sentinel : UInt64 := 0xFFFFFFFFFFFFFFFF

structure Att where
  buckets : Array UInt64
  found : Bool
  mx : Nat
  fault : Bool := false

/-- one class's ids; stops at the first collision (the inner `break`) -/
def classLoop (ix : UInt64 → Nat) (a : Att) : List UInt64 → Att
  | [] => a
  | t :: ts =>
    let i := ix t
    let a := { a with mx := max a.mx i }
    match a.buckets[i]? with
    | none => { a with fault := true, found := false }     -- out-of-bounds read: UB in C++
    | some b =>
      if b != sentinel then { a with found := false }
      else classLoop ix { a with buckets := a.buckets.set! i t } ts

structure Inv (ix : UInt64 → Nat) (a : Att) (done : List UInt64) : Prop where
  nosent : ∀ t ∈ done, t ≠ sentinel
  stored : a.found = true → ∀ t ∈ done, a.buckets[ix t]? = some t
  others : a.found = true → ∀ j b, a.buckets[j]? = some b → b = sentinel ∨ ∃ t ∈ done, ix t = j
  bound : ∀ t ∈ done, ix t ≤ a.mx

theorem classLoop_inv (ix : UInt64 → Nat)
    (a : Att) (done ts : List UInt64) (hs : ∀ t ∈ ts, t ≠ sentinel)
    (h : Inv ix a done) :
    ∃ done', (∀ t, t ∈ done' → t ∈ done ∨ t ∈ ts) ∧
      ((classLoop ix a ts).found = true → ∀ t, t ∈ done' ↔ (t ∈ done ∨ t ∈ ts)) ∧
      Inv ix (classLoop ix a ts) done' := by
  induction ts generalizing a done with
  | nil => exact ⟨done, by simp, by simp [classLoop], by simpa [classLoop] using h⟩
  | cons t ts ih =>
    simp only [classLoop]
    split
    · refine ⟨done, fun x hx => Or.inl hx, by simp, ?_⟩
      exact ⟨h.nosent, by simp, by simp,
        fun x hx => Nat.le_trans (h.bound x hx) (Nat.le_max_left _ _)⟩
    · rename_i b hb
      split
      · refine ⟨done, fun x hx => Or.inl hx, by simp, ?_⟩
        exact ⟨h.nosent, by simp, by simp,
          fun x hx => Nat.le_trans (h.bound x hx) (Nat.le_max_left _ _)⟩
      · rename_i hfree
        simp only [bne_iff_ne, ne_eq, Decidable.not_not] at hfree
        subst hfree
        have htn : t ≠ sentinel := hs t (by simp)
        have hlt : ix t < a.buckets.size := by
          have := (Array.getElem?_eq_some_iff.mp hb).1; exact this
        have hI : Inv ix { buckets := a.buckets.set! (ix t) t, found := a.found, mx := max a.mx (ix t), fault := a.fault } (t :: done) := by
          refine ⟨?_, ?_, ?_, ?_⟩
          · intro x hx
            rcases List.mem_cons.mp hx with rfl | hx
            · exact htn
            · exact h.nosent x hx
          · intro hf x hx
            rcases List.mem_cons.mp hx with rfl | hx
            · simp [Array.set!, hlt]
            · have hxs := h.stored hf x hx
              have hxe : ix t ≠ ix x := by
                intro he
                rw [← he, hb] at hxs
                exact h.nosent x hx (Option.some.inj hxs).symm
              simp [Array.set!, Array.getElem?_setIfInBounds_ne hxe, hxs]
          · intro hf j b hjb
            by_cases hj : ix t = j
            · exact Or.inr ⟨t, by simp, hj⟩
            · simp only [Array.set!, Array.getElem?_setIfInBounds_ne hj] at hjb
              rcases h.others hf j b hjb with hsn | ⟨x, hx, hxj⟩
              · exact Or.inl hsn
              · exact Or.inr ⟨x, by simp [hx], hxj⟩
          · intro x hx
            rcases List.mem_cons.mp hx with rfl | hx
            · exact Nat.le_max_right _ _
            · exact Nat.le_trans (h.bound x hx) (Nat.le_max_left _ _)
        obtain ⟨done', h1, h2, h3⟩ := ih _ (t :: done) (fun x hx => hs x (by simp [hx])) hI
        refine ⟨done', ?_, ?_, h3⟩
        · intro x hx
          rcases h1 x hx with hc | hc
          · rcases List.mem_cons.mp hc with rfl | hc
            · right; simp
            · left; exact hc
          · right; simp [hc]
        · intro hf x
          rw [h2 hf x]
          simp only [List.mem_cons]
          constructor
          · rintro ((rfl | h) | h)
            · right; left; rfl
            · left; exact h
            · right; right; exact h
          · rintro (h | rfl | h)
            · left; right; exact h
            · left; left; rfl
            · right; exact h

end ProtoHash
