#include <yorel/yomm2/keywords.hpp>
#include <yorel/yomm2/templates.hpp>
#include <iostream>
#include <set>
using namespace yorel::yomm2;
struct Base { virtual ~Base() {} };
template<int I> struct L : Base {};
template<int I> struct R : Base {};
using meet = method<struct k, int(virtual_<Base&>, virtual_<Base&>)>;
template<typename A, typename B> struct Def { using method = meet; static int fn(A&, B&) { return 1; } };
// mark a few combinations as not defined
template<> struct Def<L<3>, R<5>> : not_defined {};
template<> struct Def<L<0>, R<0>> : not_defined {};
#ifndef NL
#define NL 24
#endif
#ifndef NR
#define NR 24
#endif
template<template<int> class T, int... I> auto mk(std::integer_sequence<int, I...>) -> types<T<I>...>;
using Ls = decltype(mk<L>(std::make_integer_sequence<int, NL>()));
using Rs = decltype(mk<R>(std::make_integer_sequence<int, NR>()));
template<class... T> struct reg_all; template<class... T> struct reg_all<types<T...>> { use_classes<Base, T...> x; };
static reg_all<Ls> rl; static reg_all<Rs> rr;
static use_definitions<Def, product<Ls, Rs>> defs;
int main() {
  auto c = update();
  size_t n = 0; for (auto& d : meet::fn.specs) ++n;
  std::cout << "registered=" << n << " expected=" << (NL*NR - 2) << " sizeof(defs)=" << sizeof(defs) << "\n";
  L<3> a; R<5> b; L<1> a1; R<1> b1;
  int r1 = 0; try { r1 = meet::fn(a1, b1); } catch (...) { r1 = -1; }
  std::cout << "call(L1,R1)=" << r1 << "\n";
}
