#include <yorel/yomm2/keywords.hpp>
#include <iostream>
#include <memory>
using namespace yorel::yomm2;
struct Animal { virtual ~Animal() {} }; struct Dog : Animal {}; struct Cat : Animal {}; struct Bulldog : Dog {};
struct IP : policy::basic_policy<IP, policy::std_rtti, policy::fast_perfect_hash<IP>, policy::vptr_vector<IP>, policy::basic_indirect_vptr<IP>, policy::throw_error> {};
struct DP : policy::basic_policy<DP, policy::std_rtti, policy::fast_perfect_hash<DP>, policy::vptr_vector<DP>, policy::throw_error> {};
template<class Pol> struct T {
  template<class C> using VP = virtual_ptr<C, Pol>;
  using kick = method<struct k, std::string(VP<Animal>), Pol>;
  static std::string dog(VP<Dog>) { return "dog"; }
  static std::string cat(VP<Cat>) { return "cat"; }
  static std::string bulldog(VP<Bulldog> b) { return "bulldog"; }
  static void run(const char* name) {
    static use_classes<Animal, Dog, Cat, Pol> c1;
    static typename kick::template add_function<dog> d1;
    update<Pol>();
    Dog d; Cat c; Bulldog b; Animal& ad = d;
    VP<Animal> p1(ad);                     // from base reference
    VP<Dog> p2(d);                         // exact type
    VP<Animal> p3 = p2;                    // converting copy
    auto p4 = VP<Dog>::final(d);
    std::cout << name << " before: " << kick::fn(p1) << " " << kick::fn(p3) << " " << kick::fn(p4) << " get==&d:" << (p1.get() == &d) << "\n";
    // "load a library": more classes and definitions, then update again
    static use_classes<Dog, Bulldog, Pol> c2; static typename kick::template add_function<cat> d2; static typename kick::template add_function<bulldog> d3;
    // force dispatch_data to move
    std::vector<std::unique_ptr<char[]>> junk; for (int i = 0; i < 100; i++) junk.emplace_back(new char[64]);
    update<Pol>();
    std::cout << name << " after (old ptrs): ";
    try { std::cout << kick::fn(p1) << " " << kick::fn(p3) << " " << kick::fn(p4); } catch (...) { std::cout << "exception"; }
    std::cout << "\n";
    Animal& ab = b; VP<Animal> q(ab); std::cout << name << " new ptr: " << kick::fn(q) << " " << kick::fn(VP<Animal>(c)) << "\n";
    { auto sp = std::make_shared<Bulldog>(); std::shared_ptr<Animal> sa = sp; virtual_ptr<std::shared_ptr<Animal>, Pol> vs{sa}; std::cout << name << " shared: " << kick::fn(VP<Animal>(*vs)) << " use_count=" << sp.use_count() << " same=" << (vs.get().get() == sp.get()) << "\n"; }
  }
};
int main(int argc, char** argv) { if (argc > 1) T<DP>::run("direct"); else T<IP>::run("indirect"); }
