#include <yorel/yomm2/core.hpp>
#include <yorel/yomm2/generator.hpp>
#include <iostream>
#include <sstream>
#include <unistd.h>
#include <deque>
#include <regex>
using namespace yorel::yomm2;
struct Obj { type_id id; };
template<int I> struct Tag {};
struct dyn_rtti : policy::rtti {
    template<class T> static type_id static_type() { return (type_id)&typeid(T); }
    template<class T> static type_id dynamic_type(const T& o) { if constexpr (std::is_same_v<T, Obj>) return o.id; else return (type_id)&typeid(T); }
    static std::type_index type_index(type_id t) { return std::type_index(*(const std::type_info*)t); }
    template<class S> static void type_name(type_id t, S& s) { s << ((const std::type_info*)t)->name(); }
};
struct P : policy::basic_policy<P, dyn_rtti, policy::vptr_vector<P>, policy::fast_perfect_hash<P>, policy::throw_error> {};
template<int I> void d2(Obj&, Obj&) { throw I; }
template<int I> void d1(Obj&) { throw I; }
using M2 = method<struct k2, void(virtual_<Obj&>, virtual_<Obj&>), P>;
using M1 = method<struct k1, void(virtual_<Obj&>), P>;
type_id T[] = {(type_id)&typeid(Tag<0>),(type_id)&typeid(Tag<1>),(type_id)&typeid(Tag<2>),(type_id)&typeid(Tag<3>),(type_id)&typeid(Tag<4>),(type_id)&typeid(Tag<5>)};
std::deque<detail::class_info> cis; std::deque<std::vector<type_id>> arrays; std::deque<std::uintptr_t*> vps; std::deque<detail::definition_info> dis; std::deque<void*> nexts;
void add_class(int id, std::vector<int> bases, bool abstract=false) {
    auto& ci = cis.emplace_back(); std::vector<type_id> b; for (int x : bases) b.push_back(T[x]); auto& arr = arrays.emplace_back(b); arr.push_back(0);
    ci.type = T[id]; ci.first_base = arr.data(); ci.last_base = arr.data() + bases.size(); ci.is_abstract = abstract; ci.static_vptr = &vps.emplace_back(nullptr); P::classes.push_back(ci);
}
void set_vp(detail::method_info& m, std::vector<int> vp) { std::vector<type_id> b; for (int x : vp) b.push_back(T[x]); auto& arr = arrays.emplace_back(b); m.vp_begin = arr.data(); m.vp_end = arr.data() + vp.size(); }
void add_def(detail::method_info& m, void* pf, std::vector<int> vp) {
    auto& di = dis.emplace_back(); std::vector<type_id> b; for (int x : vp) b.push_back(T[x]); auto& arr = arrays.emplace_back(b);
    di.method = &m; di.type = (type_id)&typeid(int); di.next = &nexts.emplace_back(nullptr); di.vp_begin = arr.data(); di.vp_end = arr.data() + vp.size(); di.pf = pf; m.specs.push_back(di);
}
struct DynData { struct { uint16_t* slots; uint16_t* vtbls; } encoded; std::uintptr_t* vtbls; std::uintptr_t* dtbls; };
std::string sweep() { std::ostringstream os; for (int a = 0; a < 3; a++) { Obj x{T[a]}; try { M1::fn(x); } catch (int i) { os << "u" << a << ":d" << i << " "; } catch (const resolution_error& e) { os << "u" << a << ":e" << e.status << " "; }
  for (int b = 0; b < 3; b++) { Obj y{T[b]}; try { M2::fn(x,y); } catch (int i) { os << a << b << ":d" << i << " "; } catch (const resolution_error& e) { os << a << b << ":e" << e.status << " "; } } } return os.str(); }
int main() {
    add_class(0,{0}); add_class(1,{1,0}); add_class(2,{2,0});
    set_vp(M2::fn, {0,0}); set_vp(M1::fn, {0});
    add_def(M2::fn,(void*)d2<0>,{1,2}); add_def(M2::fn,(void*)d2<1>,{2,0}); add_def(M1::fn,(void*)d1<0>,{1});
    auto c = update<P>();
    std::string before = sweep();
    std::ostringstream os; generator::encode_dispatch_data(c, "P", os); std::string text = os.str();
    // parse extents
    std::smatch m; std::regex re(R"(headroom\[(-?\d+)\];\s*uint16_t slots\[(\d+)\];\s*uint16_t vtbls\[(\d+)\];\s*\} encoded;\s*std::uintptr_t vtbls\[(\d+)\];\s*\};\s*std::uintptr_t dtbls\[(\d+)\];)");
    if (!std::regex_search(text, m, re)) { std::cout << "no match\n" << text; return 1; }
    long H = std::stol(m[1]), S = std::stol(m[2]), E = std::stol(m[3]), D = std::stol(m[4]), DT = std::stol(m[5]);
    std::cout << "H=" << H << " S=" << S << " E=" << E << " D=" << D << " DT=" << DT << "\n";
    // parse initialisers: strip comments, split the three brace groups
    std::string body = text.substr(text.find("yomm2_dispatch_data = {"));
    body = std::regex_replace(body, std::regex("//[^\n]*"), "");
    std::vector<std::vector<unsigned long>> groups; std::vector<unsigned long> cur; bool in = false; std::string num;
    size_t p1 = body.find("{}, {") + 5; // slots start
    auto parse_list = [&](size_t& pos) { std::vector<unsigned long> v; while (body[pos] != '}') { if (isalnum(body[pos])) { size_t e = pos; while (isalnum(body[e])) e++; v.push_back(std::stoul(body.substr(pos, e-pos), nullptr, 0)); pos = e; } else pos++; } return v; };
    auto slots = parse_list(p1); size_t p2 = body.find('{', p1) + 1; auto vt = parse_list(p2); size_t p3 = body.find('{', body.find("} } }", p2)) + 1; auto dt = parse_list(p3);
    std::cout << "slots=" << slots.size() << " vt=" << vt.size() << " dt=" << dt.size() << "\n";
    // layout
    size_t enc_bytes = (H + S + E) * 2, dec_bytes = D * 8, un = std::max(enc_bytes, dec_bytes); un = (un + 7) / 8 * 8;
    std::vector<char> buf(un + DT * 8);
    DynData dd; dd.encoded.slots = (uint16_t*)(buf.data() + H*2); dd.encoded.vtbls = dd.encoded.slots + S; dd.vtbls = (std::uintptr_t*)buf.data(); dd.dtbls = (std::uintptr_t*)(buf.data() + un);
    for (size_t i = 0; i < slots.size(); i++) dd.encoded.slots[i] = slots[i];
    for (size_t i = 0; i < vt.size(); i++) dd.encoded.vtbls[i] = vt[i];
    for (size_t i = 0; i < dt.size(); i++) dd.dtbls[i] = dt[i];
    // wipe installed state
    for (auto& ci : cis) *ci.static_vptr = nullptr; P::dispatch_data.clear(); P::vptrs.clear(); M2::fn.slots_strides[0] = M2::fn.slots_strides[1] = M2::fn.slots_strides[2] = 99; M1::fn.slots_strides[0] = 99;
    decode_dispatch_data<P>(dd);
    std::string after = sweep();
    std::cout << before << "\n" << after << "\n" << (before == after ? "SAME" : "DIFF") << "\n";
    std::cout.flush(); _exit(0);
}
