#include <yorel/yomm2/keywords.hpp>
#include <iostream>
using namespace yorel::yomm2;
struct Animal { const char* name; Animal(const char* n, std::size_t t) : name(n), type(t) {} static std::size_t last_type_id; static std::size_t static_type; std::size_t type; };
std::size_t Animal::last_type_id; std::size_t Animal::static_type = ++Animal::last_type_id;
struct Dog : Animal { Dog(const char* n, std::size_t t = static_type) : Animal(n, t) {} static std::size_t static_type; };
std::size_t Dog::static_type = ++Animal::last_type_id;
struct Cat : Animal { Cat(const char* n, std::size_t t = static_type) : Animal(n, t) {} static std::size_t static_type; };
std::size_t Cat::static_type = ++Animal::last_type_id;
struct custom_rtti : policy::deferred_static_rtti {
    template<typename T> static auto static_type() { if constexpr (std::is_base_of_v<Animal, T>) return T::static_type; else { static type_id invalid = 0; return invalid; } }
    template<typename T> static auto dynamic_type(const T& obj) { if constexpr (std::is_base_of_v<Animal, T>) return obj.type; else return 666; }
    static auto type_index(type_id type) { return type; }
};
struct test_policy : policy::default_static::rebind<test_policy>::replace<policy::rtti, custom_rtti>::remove<policy::type_hash>::replace<policy::error_handler, policy::throw_error> {};
register_classes(Animal, Dog, Cat, test_policy);
#ifdef MULTI
declare_method(void, meet, (virtual_<Animal&>, virtual_<Animal&>), test_policy);
define_method(void, meet, (Dog&, Cat&)) { std::cout << "dog-cat\n"; }
#else
declare_method(void, kick, (virtual_<Animal&>), test_policy);
define_method(void, kick, (Dog& dog)) { std::cout << "bark\n"; }
#endif
int main() {
  try {
  update<test_policy>();
  Dog d("d"); Cat c("c");
#ifdef MULTI
  meet(d, c);
#else
  kick(d);
  std::cout << "second update\n" << std::flush;
  update<test_policy>();
  kick(d);
#endif
  } catch (const unknown_class_error& e) { std::cout << "unknown_class " << e.type << "\n"; }
}
