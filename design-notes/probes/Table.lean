/-! Calibration: the recursive table builder of `build_dispatch_table` and its index lemma. -/
namespace ProtoTable

inductive Forall₂ {α β} (R : α → β → Prop) : List α → List β → Prop
  | nil : Forall₂ R [] []
  | cons {a b as bs} : R a b → Forall₂ R as bs → Forall₂ R (a :: as) (b :: bs)

/-- block lemma: flatMap with constant block size is indexed by quotient and remainder -/
theorem getElem?_flatMap_const {α β} (l : List α) (f : α → List β) (B : Nat)
    (hB : ∀ x ∈ l, (f x).length = B) (i r : Nat) (hr : r < B) :
    (l.flatMap f)[i * B + r]? = (l[i]?).bind (fun x => (f x)[r]?) := by
  induction l generalizing i with
  | nil => simp
  | cons x xs ih =>
    have hx : (f x).length = B := hB x (by simp)
    have hxs : ∀ y ∈ xs, (f y).length = B := fun y hy => hB y (by simp [hy])
    cases i with
    | zero =>
      simp only [List.flatMap_cons, Nat.zero_mul, Nat.zero_add, List.getElem?_cons_zero, Option.bind_some]
      rw [List.getElem?_append_left (by omega)]
    | succ i =>
      simp only [List.flatMap_cons, List.getElem?_cons_succ]
      rw [List.getElem?_append_right (by rw [hx, Nat.succ_mul]; omega)]
      have : (i + 1) * B + r - (f x).length = i * B + r := by rw [hx, Nat.succ_mul]; omega
      rw [this]
      exact ih hxs i

variable {Mask Cell : Type}

/-- `dims` lists the groups of each dimension, LAST dimension first (the order in which the C++
    recursion consumes them); `inter` is `candidates & group_mask`; `cellOf` is what is pushed at
    dimension 0. -/
def table (inter : Mask → Mask → Mask) (cellOf : Mask → Cell) : List (List Mask) → Mask → List Cell
  | [], cand => [cellOf cand]
  | g :: rest, cand => g.flatMap (fun gm => table inter cellOf rest (inter cand gm))

def size : List (List Mask) → Nat
  | [] => 1
  | g :: rest => g.length * size rest

theorem table_length (inter : Mask → Mask → Mask) (cellOf : Mask → Cell) (dims : List (List Mask)) (cand : Mask) :
    (table inter cellOf dims cand).length = size dims := by
  induction dims generalizing cand with
  | nil => simp [table, size]
  | cons g rest ih =>
    simp only [table, size, List.length_flatMap]
    have : (g.map (fun gm => (table inter cellOf rest (inter cand gm)).length)) = g.map (fun _ => size rest) := by
      apply List.map_congr_left; intro a _; exact ih _
    rw [this]
    clear this ih
    induction g with
    | nil => simp
    | cons a as ih => simp [List.map_cons, List.sum_cons, ih, Nat.succ_mul, Nat.add_comm]

/-- the linear offset of a group tuple (outermost index first) -/
def offset : List (List Mask) → List Nat → Nat
  | g :: rest, i :: is => i * size rest + offset rest is
  | _, _ => 0

/-- the candidates left after intersecting with the chosen group of every dimension -/
def narrowed (inter : Mask → Mask → Mask) : List (List Mask) → List Nat → Mask → Option Mask
  | [], [], cand => some cand
  | g :: rest, i :: is, cand => (g[i]?).bind (fun gm => narrowed inter rest is (inter cand gm))
  | _, _, _ => none

theorem offset_lt (dims : List (List Mask)) (idx : List Nat)
    (h : Forall₂ (fun (g : List Mask) i => i < g.length) dims idx) : offset dims idx < size dims := by
  induction h with
  | nil => simp [offset, size]
  | @cons g i rest is hi _ ih =>
    simp only [offset, size]
    calc i * size rest + offset rest is < i * size rest + size rest := by omega
      _ = (i + 1) * size rest := by rw [Nat.succ_mul]
      _ ≤ g.length * size rest := Nat.mul_le_mul_right _ hi

/-- **cell_index**: the cell for a tuple of group indices sits at the mixed-radix offset and holds
    `cellOf` of the candidates narrowed by those groups. -/
theorem cell_index (inter : Mask → Mask → Mask) (cellOf : Mask → Cell)
    (dims : List (List Mask)) (idx : List Nat) (cand : Mask)
    (h : Forall₂ (fun (g : List Mask) i => i < g.length) dims idx) :
    (table inter cellOf dims cand)[offset dims idx]? = (narrowed inter dims idx cand).map cellOf := by
  induction h generalizing cand with
  | nil => simp [table, offset, narrowed]
  | @cons g i rest is hi hrest ih =>
    simp only [table, offset, narrowed]
    rw [getElem?_flatMap_const g _ (size rest) (fun x _ => table_length inter cellOf rest _) i _ (offset_lt rest is hrest)]
    cases hg : g[i]? with
    | none => simp
    | some gm => simp [ih]

end ProtoTable
