/-! Calibration: the lattice slot allocator of `assign_lattice_slots` and its disjointness invariant.
    Bit sets mirror boost::dynamic_bitset as `List Bool` (explicit size, resize on merge). -/
namespace ProtoLattice

abbrev Bits := List Bool

def Bits.mem (b : Bits) (i : Nat) : Bool := b[i]?.getD false

/-- `merge_into a b`: resize `b` up to `a.size` if shorter, then or `a` into it -/
def mergeInto (a b : Bits) : Bits :=
  List.zipWithAll (fun x y => x.getD false || y.getD false) b a

def oneHot (i : Nat) : Bits := List.replicate i false ++ [true]

/-- `set_bit` -/
def setBit (b : Bits) (i : Nat) : Bits := mergeInto (oneHot i) b

/-- first index not set (the size if all are set) -/
def firstFree (b : Bits) : Nat := b.findIdx (fun x => !x)

theorem mem_mergeInto (a b : Bits) (i : Nat) : (mergeInto a b).mem i = (b.mem i || a.mem i) := by
  unfold mergeInto Bits.mem
  rw [List.getElem?_zipWithAll]
  cases b[i]? <;> cases a[i]? <;> simp

theorem mem_oneHot (i j : Nat) : (oneHot i).mem j = decide (j = i) := by
  unfold oneHot Bits.mem
  by_cases h : j < i
  · rw [List.getElem?_append_left (by simpa using h)]
    simp [List.getElem?_replicate, h, Nat.ne_of_lt h]
  · rw [List.getElem?_append_right (by simpa using Nat.le_of_not_lt h)]
    simp only [List.length_replicate]
    by_cases he : j = i
    · subst he; simp
    · have : j - i ≠ 0 := by omega
      cases hji : j - i with
      | zero => exact absurd hji this
      | succ k => simp [he]

theorem mem_setBit (b : Bits) (i j : Nat) : (setBit b i).mem j = (decide (j = i) || b.mem j) := by
  unfold setBit
  rw [mem_mergeInto, mem_oneHot, Bool.or_comm]

theorem firstFree_not_mem (b : Bits) : b.mem (firstFree b) = false := by
  unfold firstFree Bits.mem
  by_cases h : b.findIdx (fun x => !x) < b.length
  · have := List.findIdx_getElem (w := h)
    simp only [Bool.not_eq_eq_eq_not, Bool.not_true] at this
    rw [List.getElem?_eq_getElem h, this]; rfl
  · rw [List.getElem?_eq_none (Nat.le_of_not_lt h)]; rfl

/-! The allocator state and one allocation step (for a parameter rooted at class `v`). -/

structure St where
  used : Nat → Bits
  reserved : Nat → Bits

def upd (f : Nat → Bits) (c : Nat) (v : Bits) : Nat → Bits := fun x => if x = c then v else f x

/-- reserve `u` in every class of `bs` -/
def reserveIn (u : Bits) (bs : List Nat) (r : Nat → Bits) : Nat → Bits :=
  bs.foldl (fun r b => upd r b (mergeInto u (r b))) r

theorem mem_reserveIn (u : Bits) (bs : List Nat) (r : Nat → Bits) (c i : Nat) :
    ((reserveIn u bs r) c).mem i = ((r c).mem i || (decide (c ∈ bs) && u.mem i)) := by
  induction bs generalizing r with
  | nil => simp [reserveIn]
  | cons b bs ih =>
    simp only [reserveIn, List.foldl_cons] at ih ⊢
    rw [ih]
    by_cases hcb : c = b
    · subst hcb; simp [upd, mem_mergeInto]; cases (r c).mem i <;> cases u.mem i <;> simp
    · simp [upd, hcb]

structure Graph where
  bases : Nat → List Nat      -- proper transitive bases
  cov : Nat → List Nat        -- the class and its descendants

def Graph.Complete (g : Graph) : Prop :=
  (∀ c, c ∈ g.cov c) ∧ (∀ c d, d ∈ g.cov c → d ≠ c → c ∈ g.bases d)

/-- one allocation, exactly the body of the `for mp in cls.used_by_vp` loop -/
def alloc (g : Graph) (st : St) (v : Nat) : St × Nat :=
  let slot := firstFree (mergeInto (st.reserved v) (st.used v))
  let usedV := setBit (st.used v) slot
  let used := upd st.used v usedV
  let reserved := upd st.reserved v (setBit (st.reserved v) slot)
  let reserved := reserveIn usedV (g.bases v) reserved
  let (used, reserved) := (g.cov v).foldl (fun (ur : (Nat → Bits) × (Nat → Bits)) d =>
      if d = v then ur else
        (upd ur.1 d (mergeInto usedV (ur.1 d)), reserveIn usedV (g.bases d) ur.2)) (used, reserved)
  ({ used, reserved }, slot)

/-- what the invariant says about one earlier allocation `(v', s')` -/
def Covers (g : Graph) (st : St) (v' s' : Nat) : Prop :=
  (∀ x ∈ g.cov v', (st.used x).mem s' = true) ∧
  (∀ x ∈ g.cov v', ∀ b ∈ g.bases x, (st.reserved b).mem s' = true)

/-- **the key step**: a fresh slot differs from the slot of every earlier allocation whose root
    shares a descendant with `v` — needs only completeness of the base lists -/
theorem alloc_fresh (g : Graph) (hc : g.Complete) (st : St) (v v' s' x : Nat)
    (hcov : Covers g st v' s') (hx : x ∈ g.cov v) (hx' : x ∈ g.cov v') :
    (alloc g st v).2 ≠ s' := by
  intro h
  have hfree := firstFree_not_mem (mergeInto (st.reserved v) (st.used v))
  simp only [alloc] at h
  rw [h, mem_mergeInto] at hfree
  simp only [Bool.or_eq_false_iff] at hfree
  by_cases hxv : x = v
  · subst hxv
    have := hcov.1 x hx'
    rw [this] at hfree; exact Bool.noConfusion hfree.1
  · have hb : v ∈ g.bases x := hc.2 v x hx hxv
    have := hcov.2 x hx' v hb
    rw [this] at hfree; exact Bool.noConfusion hfree.2



/-- the loop over the covariant classes, characterised bit by bit -/
def covLoop (g : Graph) (usedV : Bits) (v : Nat) (ds : List Nat) (ur : (Nat → Bits) × (Nat → Bits)) :
    (Nat → Bits) × (Nat → Bits) :=
  ds.foldl (fun (ur : (Nat → Bits) × (Nat → Bits)) d =>
      if d = v then ur else
        (upd ur.1 d (mergeInto usedV (ur.1 d)), reserveIn usedV (g.bases d) ur.2)) ur

theorem covLoop_used (g : Graph) (usedV : Bits) (v : Nat) (ds : List Nat) (ur) (x i : Nat) :
    ((covLoop g usedV v ds ur).1 x).mem i =
      ((ur.1 x).mem i || (decide (x ∈ ds ∧ x ≠ v) && usedV.mem i)) := by
  induction ds generalizing ur with
  | nil => simp [covLoop]
  | cons d ds ih =>
    simp only [covLoop, List.foldl_cons] at ih ⊢
    rw [ih]
    by_cases hdv : d = v
    · subst hdv
      simp only [if_true, List.mem_cons]
      by_cases hx : x = d
      · subst hx; simp
      · simp [hx]
    · simp only [hdv, if_false, List.mem_cons]
      by_cases hx : x = d
      · subst hx
        simp [upd, mem_mergeInto, hdv]
        cases (ur.1 x).mem i <;> cases usedV.mem i <;> simp
      · simp [upd, hx]

theorem covLoop_reserved (g : Graph) (usedV : Bits) (v : Nat) (ds : List Nat) (ur) (b i : Nat) :
    ((covLoop g usedV v ds ur).2 b).mem i =
      ((ur.2 b).mem i || (decide (∃ d ∈ ds, d ≠ v ∧ b ∈ g.bases d) && usedV.mem i)) := by
  induction ds generalizing ur with
  | nil => simp [covLoop]
  | cons d ds ih =>
    simp only [covLoop, List.foldl_cons] at ih ⊢
    rw [ih]
    by_cases hdv : d = v
    · subst hdv
      simp
    · simp only [hdv, if_false, mem_reserveIn]
      by_cases hb : b ∈ g.bases d
      · have h1 : (∃ d' ∈ d :: ds, d' ≠ v ∧ b ∈ g.bases d') := ⟨d, by simp, hdv, hb⟩
        simp [hb]
        cases (ur.2 b).mem i <;> cases usedV.mem i <;> simp [hdv]
      · have : (∃ d' ∈ d :: ds, d' ≠ v ∧ b ∈ g.bases d') ↔ (∃ d' ∈ ds, d' ≠ v ∧ b ∈ g.bases d') := by
          constructor
          · rintro ⟨d', hd', hne, hbb⟩
            rcases List.mem_cons.mp hd' with rfl | hd'
            · exact absurd hbb hb
            · exact ⟨d', hd', hne, hbb⟩
          · rintro ⟨d', hd', hne, hbb⟩
            exact ⟨d', by simp [hd'], hne, hbb⟩
        simp [hb, this]

theorem alloc_eq (g : Graph) (st : St) (v : Nat) :
    let slot := firstFree (mergeInto (st.reserved v) (st.used v))
    let usedV := setBit (st.used v) slot
    (alloc g st v).1.used = (covLoop g usedV v (g.cov v)
        (upd st.used v usedV, reserveIn usedV (g.bases v) (upd st.reserved v (setBit (st.reserved v) slot)))).1 ∧
    (alloc g st v).1.reserved = (covLoop g usedV v (g.cov v)
        (upd st.used v usedV, reserveIn usedV (g.bases v) (upd st.reserved v (setBit (st.reserved v) slot)))).2 ∧
    (alloc g st v).2 = slot := by
  simp [alloc, covLoop]

/-- bits are never cleared -/
theorem alloc_mono (g : Graph) (st : St) (v x i : Nat) :
    ((st.used x).mem i = true → ((alloc g st v).1.used x).mem i = true) ∧
    ((st.reserved x).mem i = true → ((alloc g st v).1.reserved x).mem i = true) := by
  obtain ⟨hu, hr, _⟩ := alloc_eq g st v
  constructor
  · intro h
    rw [hu, covLoop_used]
    by_cases hx : x = v
    · subst hx; simp [upd, mem_setBit, h]
    · simp [upd, hx, h]
  · intro h
    rw [hr, covLoop_reserved, mem_reserveIn]
    by_cases hx : x = v
    · subst hx; simp [upd, mem_setBit, h]
    · simp [upd, hx, h]

theorem covers_mono (g : Graph) (st : St) (v v' s' : Nat) (h : Covers g st v' s') :
    Covers g (alloc g st v).1 v' s' :=
  ⟨fun x hx => (alloc_mono g st v x s').1 (h.1 x hx),
   fun x hx b hb => (alloc_mono g st v b s').2 (h.2 x hx b hb)⟩

/-- the new allocation is itself covered -/
theorem alloc_covers (g : Graph) (st : St) (v : Nat) :
    Covers g (alloc g st v).1 v (alloc g st v).2 := by
  obtain ⟨hu, hr, hs⟩ := alloc_eq g st v
  have hslot : (setBit (st.used v) (alloc g st v).2).mem (alloc g st v).2 = true := by simp [mem_setBit]
  rw [hs] at hslot
  constructor
  · intro x hx
    rw [hu, covLoop_used, hs]
    by_cases hxv : x = v
    · subst hxv; simp [upd, hslot]
    · simp [hx, hxv, hslot]
  · intro x hx b hb
    rw [hr, covLoop_reserved, mem_reserveIn, hs]
    by_cases hxv : x = v
    · subst hxv; simp [hb, hslot]
    · have : ∃ d ∈ g.cov v, d ≠ v ∧ b ∈ g.bases d := ⟨x, hx, hxv, hb⟩
      simp [this, hslot]

/-- allocating a whole list of (key, root class) pairs, in ANY order -/
def allocAll (g : Graph) : St → List (Nat × Nat) → List (Nat × Nat × Nat) → St × List (Nat × Nat × Nat)
  | st, [], acc => (st, acc)
  | st, (k, v) :: rest, acc =>
    let (st', s) := alloc g st v
    allocAll g st' rest ((k, v, s) :: acc)

/-- **slots_disjoint (lattice part)**: whatever the order of allocation, two parameters whose root
    classes share a descendant never get the same slot -/
theorem allocAll_disjoint (g : Graph) (hc : g.Complete) (st : St) (todo : List (Nat × Nat))
    (acc : List (Nat × Nat × Nat))
    (hinv : ∀ e ∈ acc, Covers g st e.2.1 e.2.2)
    (hacc : acc.Pairwise (fun e e' => ∀ x, x ∈ g.cov e.2.1 → x ∈ g.cov e'.2.1 → e.2.2 ≠ e'.2.2)) :
    (allocAll g st todo acc).2.Pairwise
      (fun e e' => ∀ x, x ∈ g.cov e.2.1 → x ∈ g.cov e'.2.1 → e.2.2 ≠ e'.2.2) := by
  induction todo generalizing st acc with
  | nil => simpa [allocAll]
  | cons kv rest ih =>
    obtain ⟨k, v⟩ := kv
    simp only [allocAll]
    apply ih
    · intro e he
      rcases List.mem_cons.mp he with rfl | he
      · exact alloc_covers g st v
      · exact covers_mono g st v _ _ (hinv e he)
    · rw [List.pairwise_cons]
      refine ⟨?_, hacc⟩
      intro e he x hx hx'
      exact alloc_fresh g hc st v e.2.1 e.2.2 x (hinv e he) hx hx'

end ProtoLattice
