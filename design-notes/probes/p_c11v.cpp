#include <yorel/yomm2/keywords.hpp>
#include <iostream>
using namespace yorel::yomm2;
struct Pad { long pad[3]; virtual ~Pad() {} };
struct A { int a = 1; virtual ~A() {} };
struct B : virtual A { int b = 2; };
struct C : virtual A { int c = 3; };
struct D : Pad, B, C { int d = 4; };
register_classes(A, B, C, D);
declare_method(const void*, probe, (virtual_<A&>, virtual_<C*>));
define_method(const void*, probe, (D& x, D* y)) { std::cout << "D&=" << (void*)&x << " D*=" << (void*)y << " d=" << x.d << y->d << "\n"; return &x; }
define_method(const void*, probe, (B& x, C* y)) { std::cout << "B&=" << (void*)&x << " C*=" << (void*)y << " b=" << x.b << " c=" << y->c << "\n"; return &x; }
int main() { update(); D d; A& a = d; C* c = &d; std::cout << "obj=" << (void*)&d << " A=" << (void*)&a << " C=" << (void*)c << " B=" << (void*)static_cast<B*>(&d) << "\n"; const void* r = probe(a, c); std::cout << "ret=" << r << "\n";
  struct E : B {}; }
