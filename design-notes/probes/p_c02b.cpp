#include <yorel/yomm2/keywords.hpp>
#include <iostream>
using namespace yorel::yomm2;
struct A { virtual ~A() {} }; struct B : A {}; struct C : A {};
struct TP : default_policy::rebind<TP>::replace<policy::error_handler, policy::throw_error> {};
template<class T> using VP = virtual_ptr<T, TP>;
register_classes(A, B, C, TP);
declare_method(void, poke, (VP<A>), TP);
define_method(void, poke, (VP<B>)) {}
int main() {
  update<TP>();
  C c; A& a = c;
  try { poke(VP<A>(a)); } catch (const resolution_error& e) {
    std::cout << "status=" << e.status << " arity=" << e.arity << " types[0]=" << (void*)e.types[0] << " typeid(C)=" << (void*)&typeid(C) << " typeid(VP<A>)=" << (void*)&typeid(VP<A>) << "\n"; }
}
