/-! Calibration: direct-base extraction of `augment_classes` (weight sort + marks) keeps reachability,
    for ANY presentation of the base lists (complete, direct-only, redundant). -/
namespace ProtoDirect

/-- `tb c` : the de-duplicated listed proper bases of `c` (any order — the sort only permutes it) -/
structure G where
  tb : Nat → List Nat
  rank : Nat → Nat                       -- acyclicity witness
  hrank : ∀ c b, b ∈ tb c → rank b < rank c

/-- the marking loop over the (sorted) list of bases: returns kept direct bases and the marks -/
def extract (g : G) : List Nat → List Nat → List Nat → List Nat × List Nat
  | [], direct, marks => (direct, marks)
  | b :: rest, direct, marks =>
    if b ∈ marks then extract g rest direct marks
    else extract g rest (direct ++ [b]) (marks ++ g.tb b)

/-- reachability through a relation given as successor lists -/
inductive Reach (succ : Nat → List Nat) : Nat → Nat → Prop
  | refl (c) : Reach succ c c
  | step {a m b} : m ∈ succ a → Reach succ m b → Reach succ a b

theorem Reach.trans {succ a b c} (h1 : Reach succ a b) (h2 : Reach succ b c) : Reach succ a c := by
  induction h1 with
  | refl => exact h2
  | step hm _ ih => exact Reach.step hm (ih h2)

theorem extract_spec (g : G) (l direct marks : List Nat) :
    let r := extract g l direct marks
    (∀ d, d ∈ r.1 ↔ d ∈ direct ∨ (d ∈ l ∧ d ∈ r.1)) ∧
    (∀ d ∈ r.1, d ∈ direct ∨ d ∈ l) ∧
    (∀ m, m ∈ r.2 → m ∈ marks ∨ ∃ k ∈ r.1, m ∈ g.tb k) ∧
    (∀ b ∈ l, b ∈ r.1 ∨ b ∈ marks ∨ ∃ k ∈ r.1, b ∈ g.tb k) ∧
    (∀ d ∈ direct, d ∈ r.1) := by
  induction l generalizing direct marks with
  | nil => simp only [extract]; exact ⟨by simp, by simp, fun m hm => Or.inl hm, by simp, by simp⟩
  | cons b rest ih =>
    simp only [extract]
    split
    · rename_i hm
      obtain ⟨h1, h2, h3, h4, h5⟩ := ih direct marks
      refine ⟨?_, ?_, h3, ?_, h5⟩
      · intro d; constructor
        · intro hd; rcases (h2 d hd) with h | h
          · exact Or.inl h
          · exact Or.inr ⟨by simp [h], hd⟩
        · rintro (h | ⟨_, h⟩)
          · exact h5 d h
          · exact h
      · intro d hd; rcases h2 d hd with h | h
        · exact Or.inl h
        · exact Or.inr (by simp [h])
      · intro x hx
        rcases List.mem_cons.mp hx with rfl | hx
        · exact Or.inr (Or.inl hm)
        · exact h4 x hx
    · rename_i hm
      obtain ⟨h1, h2, h3, h4, h5⟩ := ih (direct ++ [b]) (marks ++ g.tb b)
      have hb : b ∈ (extract g rest (direct ++ [b]) (marks ++ g.tb b)).1 := h5 b (by simp)
      refine ⟨?_, ?_, ?_, ?_, ?_⟩
      · intro d; constructor
        · intro hd; rcases h2 d hd with h | h
          · rcases List.mem_append.mp h with h | h
            · exact Or.inl h
            · simp at h; subst h; exact Or.inr ⟨by simp, hd⟩
          · exact Or.inr ⟨by simp [h], hd⟩
        · rintro (h | ⟨_, h⟩)
          · exact h5 d (by simp [h])
          · exact h
      · intro d hd; rcases h2 d hd with h | h
        · rcases List.mem_append.mp h with h | h
          · exact Or.inl h
          · simp at h; subst h; exact Or.inr (by simp)
        · exact Or.inr (by simp [h])
      · intro m hmm; rcases h3 m hmm with h | h
        · rcases List.mem_append.mp h with h | h
          · exact Or.inl h
          · exact Or.inr ⟨b, hb, h⟩
        · exact Or.inr h
      · intro x hx
        rcases List.mem_cons.mp hx with rfl | hx
        · exact Or.inl hb
        · rcases h4 x hx with h | h | h
          · exact Or.inl h
          · rcases List.mem_append.mp h with h | h
            · exact Or.inr (Or.inl h)
            · exact Or.inr (Or.inr ⟨b, hb, h⟩)
          · exact Or.inr (Or.inr h)
      · intro d hd; exact h5 d (by simp [hd])

/-- `direct c` for a presentation whose per-class processing order `sorted c` is any permutation
    (here: any list with the same members) of `tb c` -/
def direct (g : G) (sorted : Nat → List Nat) (c : Nat) : List Nat := (extract g (sorted c) [] []).1

/-- kept edges are listed edges -/
theorem direct_subset (g : G) (sorted : Nat → List Nat) (hs : ∀ c b, b ∈ sorted c ↔ b ∈ g.tb c) (c b : Nat)
    (h : b ∈ direct g sorted c) : b ∈ g.tb c := by
  have := (extract_spec g (sorted c) [] []).2.1 b h
  simpa [hs] using this

/-- **every listed base stays reachable through kept direct edges** (strong induction on rank) -/
theorem listed_reach_direct (g : G) (sorted : Nat → List Nat) (hs : ∀ c b, b ∈ sorted c ↔ b ∈ g.tb c) :
    ∀ n c, g.rank c ≤ n → ∀ b ∈ g.tb c, Reach (direct g sorted) c b := by
  intro n
  induction n with
  | zero =>
    intro c hc b hb
    have := g.hrank c b hb; omega
  | succ n ih =>
    intro c hc b hb
    have h4 := (extract_spec g (sorted c) [] []).2.2.2.1 b ((hs c b).mpr hb)
    rcases h4 with h | h | ⟨k, hk, hbk⟩
    · exact Reach.step h (Reach.refl b)
    · simp at h
    · have hkc : k ∈ g.tb c := direct_subset g sorted hs c k hk
      have hrk : g.rank k ≤ n := by have := g.hrank c k hkc; omega
      exact Reach.step hk (ih k hrk b hbk)

/-- closure of listed edges = closure of kept direct edges -/
theorem reach_listed_iff_direct (g : G) (sorted : Nat → List Nat) (hs : ∀ c b, b ∈ sorted c ↔ b ∈ g.tb c) (c b : Nat) :
    Reach g.tb c b ↔ Reach (direct g sorted) c b := by
  constructor
  · intro h
    induction h with
    | refl => exact Reach.refl _
    | step hm _ ih => exact (listed_reach_direct g sorted hs _ _ (Nat.le_refl _) _ hm).trans ih
  · intro h
    induction h with
    | refl => exact Reach.refl _
    | step hm _ ih => exact Reach.step (direct_subset g sorted hs _ _ hm) ih

end ProtoDirect
