#include <yorel/yomm2/keywords.hpp>
#include <iostream>
using namespace yorel::yomm2;
struct A { virtual ~A() {} }; struct B : A {}; struct C : A {};
struct TP : default_policy::rebind<TP>::replace<policy::error_handler, policy::throw_error> {};
register_classes(A, B, C, TP);
declare_method(void, times, (double, virtual_<A&>), TP);
define_method(void, times, (double, B&)) {}
declare_method(void, mid, (virtual_<A&>, int, virtual_<A&>), TP);
define_method(void, mid, (B&, int, B&)) { std::cout << "BB\n"; }
define_method(void, mid, (B&, int, C&)) { std::cout << "BC\n"; }
int main() {
  update<TP>();
  C c; B b;
  try { times(2.0, c); } catch (const resolution_error& e) {
    std::cout << "status=" << e.status << " arity=" << e.arity << " types[0]=" << (void*)e.types[0] << " typeid(C)=" << (void*)&typeid(C) << " typeid(double)=" << (void*)&typeid(double) << "\n"; }
  try { mid(b, 1, c); } catch (const resolution_error& e) { std::cout << "mid(b,1,c) error status=" << e.status << "\n"; }
  try { mid(b, 1, b); } catch (const resolution_error& e) { std::cout << "mid(b,1,b) error status=" << e.status << "\n"; }
}
