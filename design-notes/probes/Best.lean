namespace Proto

/-- fixed `best`: the candidate more specific than every other one, else all candidates -/
def best {α} [DecidableEq α] (ms : α → α → Bool) (cands : List α) : List α :=
  match cands.find? (fun d => cands.all (fun e => e == d || ms d e)) with
  | some d => [d]
  | none => cands

def Dominates {α} (ms : α → α → Bool) (cands : List α) (d : α) : Prop :=
  d ∈ cands ∧ ∀ e ∈ cands, e ≠ d → ms d e = true

theorem best_singleton_iff {α} [DecidableEq α] (ms : α → α → Bool)
    (asym : ∀ a b, ms a b = true → ms b a = false)
    (cands : List α) (hnd : cands.Nodup) (d : α) (h2 : 2 ≤ cands.length ∨ cands = [d] ∨ True) :
    Dominates ms cands d → best ms cands = [d] := by
  intro ⟨hd, hdom⟩
  unfold best
  have hex : ∃ x, cands.find? (fun d => cands.all (fun e => e == d || ms d e)) = some x := by
    cases hf : cands.find? (fun d => cands.all (fun e => e == d || ms d e)) with
    | some x => exact ⟨x, rfl⟩
    | none =>
      rw [List.find?_eq_none] at hf
      have := hf d hd
      simp only [List.all_eq_true, Bool.or_eq_true, beq_iff_eq] at this
      exfalso
      apply this
      intro e he
      by_cases hed : e = d
      · exact Or.inl hed
      · exact Or.inr (hdom e he hed)
  obtain ⟨x, hx⟩ := hex
  rw [hx]
  have hxp := List.find?_some hx
  have hxm := List.mem_of_find?_eq_some hx
  simp only [List.all_eq_true, Bool.or_eq_true, beq_iff_eq] at hxp
  by_cases hxd : x = d
  · rw [hxd]
  · exfalso
    have h1 := hdom x hxm hxd
    have h2' := hxp d hd
    rcases h2' with h | h
    · exact hxd h.symm
    · have := asym _ _ h1; rw [h] at this; exact Bool.noConfusion this

theorem best_singleton_conv {α} [DecidableEq α] (ms : α → α → Bool)
    (cands : List α) (d : α) (hlen : cands.length ≠ 1 ∨ cands = [d]) :
    best ms cands = [d] → Dominates ms cands d := by
  unfold best
  cases hf : cands.find? (fun d => cands.all (fun e => e == d || ms d e)) with
  | some x =>
    intro h
    have hxd : x = d := by simpa using h
    subst hxd
    have hxp := List.find?_some hf
    have hxm := List.mem_of_find?_eq_some hf
    simp only [List.all_eq_true, Bool.or_eq_true, beq_iff_eq] at hxp
    refine ⟨hxm, fun e he hne => ?_⟩
    rcases hxp e he with h | h
    · exact absurd h hne
    · exact h
  | none =>
    intro h
    simp only at h
    subst h
    rw [List.find?_eq_none] at hf
    have := hf d (by simp)
    simp at this

end Proto
