#include <yorel/yomm2/keywords.hpp>
#include <thread>
#include <atomic>
#include <iostream>
#include <vector>
using namespace yorel::yomm2;
struct Animal { virtual ~Animal() {} }; struct Dog : Animal {}; struct Cat : Animal {}; struct Bulldog : Dog {};
struct P1 : policy::release::rebind<P1>::replace<policy::error_handler, policy::throw_error> {};
struct P2 : policy::debug::rebind<P2>::replace<policy::error_handler, policy::throw_error> {};
struct P3 : policy::basic_policy<P3, policy::std_rtti, policy::vptr_map<P3>, policy::throw_error> {};
template<class Pol> struct T {
  template<class C> using VP = virtual_ptr<C, Pol>;
  using kick = method<struct k, int(virtual_<Animal&>), Pol>;
  using meet = method<struct m, int(virtual_<Animal&>, int, virtual_<Animal&>), Pol>;
  using poke = method<struct p, int(VP<Animal>), Pol>;
  static int kd(Dog&) { return 1; } static int kc(Cat&) { return 2; }
  static int mdc(Dog&, int, Cat&) { return 3; } static int maa(Animal&, int, Animal&) { return 4; }
  static int pb(VP<Bulldog>) { return 5; } static int pa(VP<Animal>) { return 6; }
  static void reg() {
    static use_classes<Animal, Dog, Cat, Bulldog, Pol> c; static typename kick::template add_function<kd> a1; static typename kick::template add_function<kc> a2;
    static typename meet::template add_function<mdc> a3; static typename meet::template add_function<maa> a4; static typename poke::template add_function<pb> a5; static typename poke::template add_function<pa> a6;
  }
  static long work(int n) { Dog d; Cat c; Bulldog b; Animal a; long s = 0; Animal* objs[] = {&a, &d, &c, &b};
    for (int i = 0; i < n; i++) { Animal& x = *objs[i & 3]; Animal& y = *objs[(i >> 2) & 3];
      try { s += kick::fn(x); } catch (const resolution_error&) { s += 100; }
      s += meet::fn(x, i, y); VP<Animal> p(x); VP<Animal> q = p; s += poke::fn(q); s += poke::fn(VP<Bulldog>::final(b));
      auto pf = meet::fn.resolve(x, i, y); s += (pf != nullptr); }
    return s; }
};
int main() {
  T<P1>::reg(); T<P2>::reg(); T<P3>::reg(); struct Other : policy::release::rebind<Other> {}; static use_classes<Animal, Dog, Other> oc;
  update<P1>(); update<P2>(); update<P3>(); update<Other>();
  long ref1 = T<P1>::work(4000), ref2 = T<P2>::work(4000), ref3 = T<P3>::work(4000);
  std::vector<std::thread> ts; std::atomic<int> bad{0};
  for (int t = 0; t < 8; t++) ts.emplace_back([&, t]{ long r = t % 3 == 0 ? T<P1>::work(4000) : t % 3 == 1 ? T<P2>::work(4000) : T<P3>::work(4000); long ref = t % 3 == 0 ? ref1 : t % 3 == 1 ? ref2 : ref3; if (r != ref) bad++; });
  ts.emplace_back([&]{ for (int i = 0; i < 50; i++) update<Other>(); });
  for (auto& t : ts) t.join();
  std::cout << "ref " << ref1 << " " << ref2 << " " << ref3 << " bad=" << bad << "\n";
}
