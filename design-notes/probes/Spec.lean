/-! Draft of the user-level specification (Spec layer). Core Lean only. -/
namespace Yomm2.Spec

abbrev ClassId := Nat
abbrev DefId := Nat

/-- position-wise relation between two lists of equal length -/
inductive Forall₂ {α β} (R : α → β → Prop) : List α → List β → Prop
  | nil : Forall₂ R [] []
  | cons {a b as bs} : R a b → Forall₂ R as bs → Forall₂ R (a :: as) (b :: bs)

/-- one class registration record: the class, the bases it lists (any superset of the direct
    bases inside the transitive bases; may contain the class itself, duplicates) -/
structure ClassRec where
  id : ClassId
  bases : List ClassId
  abstract : Bool := false
deriving Repr, DecidableEq

structure Defn where
  id : DefId
  vp : List ClassId            -- classes of the virtual parameters, in order
deriving Repr, DecidableEq

structure Method where
  key : Nat
  vp : List ClassId
  defs : List Defn
deriving Repr

structure Registry where
  classes : List ClassRec
  methods : List Method
deriving Repr

/-- `d` lists `b` in some record -/
def Registry.lists (r : Registry) (d b : ClassId) : Prop :=
  ∃ rec ∈ r.classes, rec.id = d ∧ b ∈ rec.bases

/-- `Derives r d b`: `d` is `b` or has `b` as a direct or indirect base -/
inductive Derives (r : Registry) : ClassId → ClassId → Prop
  | refl (c) : Derives r c c
  | step {d m b} : r.lists d m → Derives r m b → Derives r d b

def ProperDerives (r : Registry) (d b : ClassId) : Prop := Derives r d b ∧ d ≠ b

/-- a definition accepts a tuple of dynamic classes -/
def Applicable (r : Registry) (d : Defn) (args : List ClassId) : Prop :=
  Forall₂ (fun a p => Derives r a p) args d.vp

/-- the documented ordering: nowhere a proper base of the other's class, somewhere a proper
    derived class (unrelated classes at a position are allowed) -/
def MoreSpecific (r : Registry) (d e : Defn) : Prop :=
  Forall₂ (fun dp ep => ¬ ProperDerives r ep dp) d.vp e.vp ∧
  ∃ i : Nat, ∃ dp ep, d.vp[i]? = some dp ∧ e.vp[i]? = some ep ∧ ProperDerives r dp ep

inductive Outcome
  | ran (d : DefId)
  | notImplemented
  | ambiguous
deriving Repr, DecidableEq

/-- what a call must do -/
def Selects (r : Registry) (m : Method) (args : List ClassId) : Outcome → Prop
  | .ran d => ∃ df ∈ m.defs, df.id = d ∧ Applicable r df args ∧
      ∀ e ∈ m.defs, e.id ≠ d → Applicable r e args → MoreSpecific r df e
  | .notImplemented => ∀ e ∈ m.defs, ¬ Applicable r e args
  | .ambiguous => (∃ e ∈ m.defs, Applicable r e args) ∧
      ∀ df ∈ m.defs, Applicable r df args →
        ∃ e ∈ m.defs, e.id ≠ df.id ∧ Applicable r e args ∧ ¬ MoreSpecific r df e

/-- candidates for `next` inside `d`: base of `d` everywhere, different somewhere -/
def MoreGeneral (r : Registry) (e d : Defn) : Prop :=
  Forall₂ (fun dp ep => Derives r dp ep) d.vp e.vp ∧ e.vp ≠ d.vp

end Yomm2.Spec

namespace Yomm2.Spec

theorem Derives.trans {r : Registry} {a b c} (h1 : Derives r a b) (h2 : Derives r b c) : Derives r a c := by
  induction h1 with
  | refl => exact h2
  | step hl _ ih => exact Derives.step hl (ih h2)

/-- Registries whose listed-base relation has no cycle (guaranteed by C++). -/
def Acyclic (r : Registry) : Prop := ∀ a b, Derives r a b → Derives r b a → a = b

theorem forall₂_length {α β} {R : α → β → Prop} {l₁ l₂} (h : Forall₂ R l₁ l₂) : l₁.length = l₂.length := by
  induction h with
  | nil => rfl
  | cons _ _ ih => simp [ih]

theorem forall₂_get {α β} {R : α → β → Prop} {l₁ : List α} {l₂ : List β} (h : Forall₂ R l₁ l₂) :
    ∀ (i : Nat) a b, l₁[i]? = some a → l₂[i]? = some b → R a b := by
  induction h with
  | nil => intro i a b h; simp at h
  | cons hr _ ih =>
    intro i a b h1 h2
    cases i with
    | zero => simp at h1 h2; subst h1; subst h2; exact hr
    | succ i => simp at h1 h2; exact ih i a b h1 h2

/-- `MoreSpecific` is asymmetric on acyclic registries, so at most one definition can be more
    specific than every other applicable one: `Selects … (.ran d)` determines `d`. -/
theorem moreSpecific_asymm {r : Registry} (hac : Acyclic r) {d e : Defn}
    (h : MoreSpecific r d e) : ¬ MoreSpecific r e d := by
  intro h'
  obtain ⟨_, i, dp, ep, hd, he, hpd⟩ := h
  obtain ⟨hno, _⟩ := h'
  -- hno : at every position, ¬ ProperDerives r (d's class) (e's class)
  exact forall₂_get hno i ep dp he hd hpd

theorem selects_ran_unique {r : Registry} (hac : Acyclic r) {m : Method} {args} {d d' : DefId}
    (h : Selects r m args (.ran d)) (h' : Selects r m args (.ran d')) : d = d' := by
  obtain ⟨df, hdf, hid, hap, hdom⟩ := h
  obtain ⟨df', hdf', hid', hap', hdom'⟩ := h'
  by_cases hne : d = d'
  · exact hne
  · exfalso
    have h1 := hdom df' hdf' (by rw [hid']; exact fun h => hne h.symm) hap'
    have h2 := hdom' df hdf (by rw [hid]; exact hne) hap
    exact moreSpecific_asymm hac h1 h2

end Yomm2.Spec
