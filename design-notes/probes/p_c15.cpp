#include <yorel/yomm2/keywords.hpp>
#include <iostream>
using namespace yorel::yomm2;
struct Animal { virtual ~Animal() {} }; struct Dog : Animal {}; struct Cat : Animal {};
struct Other { virtual ~Other() {} };
template<class T> using VP = virtual_ptr<T, struct TP>;
struct TP : policy::debug::rebind<TP>::replace<policy::error_handler, policy::throw_error> {};
register_classes(Animal, Dog, TP);
declare_method(void, kick, (VP<Animal>), TP);
define_method(void, kick, (VP<Dog>)) { std::cout << "bark\n"; }
int main(int argc, char**) {
  try { update<TP>(); } catch (const unknown_class_error& e) { std::cout << "update: unknown_class " << (void*)e.type << " Other=" << (void*)&typeid(Other) << "\n"; }
  if (argc > 1) {
   Cat c;
   try { Animal& a = c; virtual_ptr<Animal, TP> p(a); std::cout << "constructed from base ref, vptr=" << (void*)p._vptr() << "\n"; } catch (const unknown_class_error& e) { std::cout << "base-ref: unknown_class\n"; }
   try { virtual_ptr<Cat, TP> p(c); std::cout << "constructed exact, vptr=" << (void*)p._vptr() << "\n"; std::cout.flush(); } catch (const unknown_class_error& e) { std::cout << "exact: unknown_class\n"; }
   try { Dog d; Animal& a = d; auto p = virtual_ptr<Animal, TP>::final(a); std::cout << "final wrong type accepted\n"; } catch (const method_table_error& e) { std::cout << "final: method_table_error\n"; }
  }
}
