#include <yorel/yomm2/core.hpp>
#include <yorel/yomm2/generator.hpp>
#include <iostream>
#include <sstream>
#include <unistd.h>
#include <deque>
using namespace yorel::yomm2;
struct Obj { type_id id; };
template<int I> struct Tag {};
struct dyn_rtti : policy::rtti {
    template<class T> static type_id static_type() { return (type_id)&typeid(T); }
    template<class T> static type_id dynamic_type(const T& o) { if constexpr (std::is_same_v<T, Obj>) return o.id; else return (type_id)&typeid(T); }
    static std::type_index type_index(type_id t) { return std::type_index(*(const std::type_info*)t); }
    template<class S> static void type_name(type_id t, S& s) { s << ((const std::type_info*)t)->name(); }
};
struct P : policy::basic_policy<P, dyn_rtti, policy::vptr_vector<P>, policy::fast_perfect_hash<P>, policy::throw_error> {};
template<int I> void d3(Obj&, Obj&, Obj&) { throw I; }
template<int I> void d2(Obj&, Obj&) { throw I; }
using M3 = method<struct k3, void(virtual_<Obj&>, virtual_<Obj&>, virtual_<Obj&>), P>;
using M2 = method<struct k2, void(virtual_<Obj&>, virtual_<Obj&>), P>;
type_id T[] = {(type_id)&typeid(Tag<0>),(type_id)&typeid(Tag<1>),(type_id)&typeid(Tag<2>),(type_id)&typeid(Tag<3>),(type_id)&typeid(Tag<4>),(type_id)&typeid(Tag<5>)};
std::deque<detail::class_info> cis; std::deque<std::vector<type_id>> arrays; std::deque<std::uintptr_t*> vps; std::deque<detail::definition_info> dis; std::deque<void*> nexts;
void add_class(int id, std::vector<int> bases, bool abstract=false) {
    auto& ci = cis.emplace_back(); std::vector<type_id> b; for (int x : bases) b.push_back(T[x]); auto& arr = arrays.emplace_back(b); arr.push_back(0);
    ci.type = T[id]; ci.first_base = arr.data(); ci.last_base = arr.data() + bases.size(); ci.is_abstract = abstract; ci.static_vptr = &vps.emplace_back(nullptr); P::classes.push_back(ci);
}
void set_vp(detail::method_info& m, std::vector<int> vp) { std::vector<type_id> b; for (int x : vp) b.push_back(T[x]); auto& arr = arrays.emplace_back(b); m.vp_begin = arr.data(); m.vp_end = arr.data() + vp.size(); }
void add_def(detail::method_info& m, void* pf, std::vector<int> vp) {
    auto& di = dis.emplace_back(); std::vector<type_id> b; for (int x : vp) b.push_back(T[x]); auto& arr = arrays.emplace_back(b);
    di.method = &m; di.type = (type_id)&typeid(int); di.next = &nexts.emplace_back(nullptr); di.vp_begin = arr.data(); di.vp_end = arr.data() + vp.size(); di.pf = pf; m.specs.push_back(di);
}
int main(int argc, char** argv) {
    std::string probe = argv[1];
    if (probe == "c12") {
        // A=0; B=1:A; C=2:A ; X=3; Y=4:X
        add_class(0,{0}); add_class(1,{1,0}); add_class(2,{2,0}); add_class(3,{3}); add_class(4,{4,3});
        P::methods.remove(M2::fn);
        set_vp(M3::fn, {0,0,3});
        add_def(M3::fn, (void*)d3<0>, {0,0,3}); add_def(M3::fn, (void*)d3<1>, {1,0,3}); add_def(M3::fn, (void*)d3<2>, {2,1,4}); add_def(M3::fn, (void*)d3<3>, {0,2,4});
        auto c = update<P>();
        std::cout << "installed slots_strides:"; for (int i = 0; i < 5; i++) std::cout << " " << M3::fn.slots_strides[i]; std::cout << "\n";
        generator g; g.write_static_offsets<M3>(std::cout);
        std::cout << "report cells=" << c.report.cells << "\n";
        std::ostringstream os; generator::encode_dispatch_data(c, "P", os); std::cout << os.str();
    }
    if (probe == "c17") {
        // A=0 abstract; B=1:A; C=2:A; D=3:B,C
        add_class(0,{0}, true); add_class(1,{1,0}); add_class(2,{2,0}); add_class(3,{3,1,2,0});
        P::methods.remove(M3::fn);
        set_vp(M2::fn, {0,0});
        add_def(M2::fn,(void*)d2<0>,{0,1}); add_def(M2::fn,(void*)d2<1>,{0,2}); add_def(M2::fn,(void*)d2<2>,{1,3}); add_def(M2::fn,(void*)d2<3>,{2,3}); add_def(M2::fn,(void*)d2<4>,{3,3});
        auto c = update<P>();
        std::cout << "cells=" << c.report.cells << " ni=" << c.report.not_implemented << " amb=" << c.report.ambiguous << " ccells=" << c.report.concrete_cells << " cni=" << c.report.concrete_not_implemented << " camb=" << c.report.concrete_ambiguous << "\n";
        for (int a = 0; a < 4; a++) for (int b = 0; b < 4; b++) { Obj x{T[a]}, y{T[b]}; try { M2::fn(x,y); } catch (int i) { std::cout << a << b << ":def" << i << " "; } catch (const resolution_error& e) { std::cout << a << b << (e.status==1?":none ":":amb "); } }
        std::cout << "\n";
    }
    std::cout.flush(); _exit(0);
}
