#include <yorel/yomm2/keywords.hpp>
#include <iostream>
#include <memory>
using namespace yorel::yomm2;
struct A { virtual ~A() {} }; struct B : A {};
struct T { int v; static int copies, moves; T(int v):v(v){} T(const T& o):v(o.v){++copies;} T(T&& o):v(o.v){++moves; o.v=-1;} };
int T::copies, T::moves;
register_classes(A, B);
declare_method(int, byval, (virtual_<A&>, T));
define_method(int, byval, (B&, T t)) { return t.v; }
declare_method(int, byrref, (virtual_<A&>, T&&));
define_method(int, byrref, (B&, T&& t)) { return t.v; }
declare_method(int, bylref, (virtual_<A&>, T&));
define_method(int, bylref, (B&, T& t)) { return t.v; }
#ifdef MOVEONLY
declare_method(int, mo, (virtual_<A&>, std::unique_ptr<int>));
define_method(int, mo, (B&, std::unique_ptr<int> p)) { return *p; }
#endif
int main() {
  update(); B b; A& a = b;
  T::copies = T::moves = 0; int r = byval(a, T(7)); std::cout << "byval rvalue: r=" << r << " copies=" << T::copies << " moves=" << T::moves << "\n";
  T t(8); T::copies = T::moves = 0; r = byval(a, t); std::cout << "byval lvalue: r=" << r << " copies=" << T::copies << " moves=" << T::moves << "\n";
  T::copies = T::moves = 0; r = byrref(a, T(9)); std::cout << "byrref: r=" << r << " copies=" << T::copies << " moves=" << T::moves << "\n";
  T::copies = T::moves = 0; r = bylref(a, t); std::cout << "bylref: r=" << r << " copies=" << T::copies << " moves=" << T::moves << "\n";
#ifdef MOVEONLY
  std::cout << mo(a, std::make_unique<int>(5)) << "\n";
#endif
}
