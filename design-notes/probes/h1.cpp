#include <yorel/yomm2/core.hpp>
#include <iostream>
#include <unistd.h>
#include <sstream>
#include <vector>
#include <deque>
#include <string>
using namespace yorel::yomm2;

struct Obj { type_id id; };

struct dyn_rtti : policy::rtti {
    template<class T> static type_id static_type() { return 0; }
    template<class T> static type_id dynamic_type(const T& o) {
        if constexpr (std::is_same_v<T, Obj>) return o.id; else return 666;
    }
};

struct P : policy::basic_policy<P, dyn_rtti, policy::vptr_vector<P>, policy::throw_error> {};

template<int I> void def2(Obj&, Obj&) { throw I; }
template<int I> void def3(Obj&, int, Obj&) { throw I; }
template<int I> void def1(Obj&) { throw I; }

using M2 = method<struct k2, void(virtual_<Obj&>, virtual_<Obj&>), P>;
using M3 = method<struct k3, void(virtual_<Obj&>, int, virtual_<Obj&>), P>;
using M1a = method<struct k1a, void(virtual_<Obj&>), P>;
using M1b = method<struct k1b, void(virtual_<Obj&>), P>;
using M1c = method<struct k1c, void(virtual_<Obj&>), P>;

template<int... I> void* pool2_[] = {(void*)def2<I>...};
void* pool2[] = {(void*)def2<0>,(void*)def2<1>,(void*)def2<2>,(void*)def2<3>,(void*)def2<4>,(void*)def2<5>,(void*)def2<6>,(void*)def2<7>};
void* pool3[] = {(void*)def3<0>,(void*)def3<1>,(void*)def3<2>,(void*)def3<3>,(void*)def3<4>,(void*)def3<5>,(void*)def3<6>,(void*)def3<7>};
void* pool1[] = {(void*)def1<0>,(void*)def1<1>,(void*)def1<2>,(void*)def1<3>,(void*)def1<4>,(void*)def1<5>,(void*)def1<6>,(void*)def1<7>,(void*)def1<8>,(void*)def1<9>,(void*)def1<10>,(void*)def1<11>};

std::deque<detail::class_info> cis;
std::deque<std::vector<type_id>> arrays;
std::deque<std::uintptr_t*> vptrs;
std::deque<detail::definition_info> dis;
std::deque<void*> nexts;

void add_class(type_id id, std::vector<type_id> bases, bool abstract=false) {
    auto& ci = cis.emplace_back();
    auto& arr = arrays.emplace_back(bases);
    arr.push_back(0);
    ci.type = id; ci.first_base = arr.data(); ci.last_base = arr.data() + bases.size();
    ci.is_abstract = abstract; ci.static_vptr = &vptrs.emplace_back(nullptr);
    P::classes.push_back(ci);
}
void set_vp(detail::method_info& m, std::vector<type_id> vp) {
    auto& arr = arrays.emplace_back(vp);
    m.vp_begin = arr.data(); m.vp_end = arr.data() + vp.size();
}
void add_def(detail::method_info& m, void* pf, std::vector<type_id> vp) {
    auto& di = dis.emplace_back();
    auto& arr = arrays.emplace_back(vp);
    di.method = &m; di.type = 0; di.next = &nexts.emplace_back(nullptr);
    di.vp_begin = arr.data(); di.vp_end = arr.data() + vp.size(); di.pf = pf;
    m.specs.push_back(di);
}
std::string describe(const error_type& e) { return "err"; }

template<class F> std::string run(F f) {
    try { f(); return "returned"; }
    catch (int i) { return "def" + std::to_string(i); }
    catch (const resolution_error& e) {
        std::ostringstream os; os << (e.status == resolution_error::ambiguous ? "ambiguous" : "no_definition") << " arity=" << e.arity << " types=";
        for (size_t i = 0; i < e.arity; i++) os << e.types[i] << ",";
        return os.str();
    }
    catch (const unknown_class_error& e) { return "unknown_class " + std::to_string(e.type); }
}

int main(int argc, char** argv) {
    std::string probe = argv[1]; std::cerr << "methods=" << P::methods.size() << "\n"; for (auto& m : P::methods) std::cerr << " " << (void*)&m << " " << m.name << "\n";
    if (probe == "best") {
        // classes: A=1, C=2 : A, B=3, D=4 : C,B ; S0=5, S1=6: S0, S2=7: S1
        add_class(1,{1}); add_class(2,{2,1}); add_class(3,{3}); add_class(4,{4,2,3,1});
        add_class(5,{5}); add_class(6,{6,5}); add_class(7,{7,6,5});
        P::methods.remove(M3::fn); P::methods.remove(M1a::fn); P::methods.remove(M1b::fn); P::methods.remove(M1c::fn);
        set_vp(M2::fn, {1, 5});   // hmm method params: need class that is base of A,B,C: use separate root
        // a=(A,S2) b=(B,S1) c=(C,S0)
        std::vector<int> order = {atoi(argv[2]), atoi(argv[3]), atoi(argv[4])};
        std::vector<std::vector<type_id>> defs = {{1,7},{3,6},{2,5}};
        for (int i : order) add_def(M2::fn, pool2[i], defs[i]);
        std::cout << run([]{ update<P>(); }) << "\n";
        Obj d{4}, s2{7};
        std::cout << "call(D,S2) -> " << run([&]{ M2::fn(d, s2); }) << "\n";
    }
    if (probe == "nonvirt") {
        add_class(1,{1}); add_class(2,{2,1}); add_class(3,{3,1});
        P::methods.remove(M2::fn); P::methods.remove(M1a::fn); P::methods.remove(M1b::fn); P::methods.remove(M1c::fn);
        set_vp(M3::fn, {1,1});
        add_def(M3::fn, pool3[0], {1,1});
        add_def(M3::fn, pool3[1], {2,2});
        add_def(M3::fn, pool3[2], {2,3});
        add_def(M3::fn, pool3[3], {3,2});
        std::cout << run([]{ update<P>(); }) << "\n";
        for (type_id a = 1; a <= 3; a++) for (type_id b = 1; b <= 3; b++) {
            Obj x{a}, y{b};
            std::cout << "call(" << a << ",int," << b << ") -> " << run([&]{ M3::fn(x, 42, y); }) << "\n";
        }
    }
    if (probe == "lattice") {
        // C10=10, C11=11, C12=12:{C10}, C15=15:{C12,C11}  (incremental: only direct bases listed)
        bool full = argc > 2;
        add_class(11,{11}); add_class(10,{10}); add_class(12,{12,10});
        if (full) add_class(15,{15,12,11,10}); else add_class(15,{15,12,11});
        P::methods.remove(M2::fn); P::methods.remove(M3::fn);
        set_vp(M1a::fn, {10}); set_vp(M1b::fn, {11}); set_vp(M1c::fn, {15});
        add_def(M1a::fn, pool1[0], {10});
        add_def(M1b::fn, pool1[1], {11});
        add_def(M1c::fn, pool1[2], {15});
        std::cout << run([]{ update<P>(); }) << "\n";
        std::cout << "slots a=" << M1a::fn.slots_strides[0] << " b=" << M1b::fn.slots_strides[0] << " c=" << M1c::fn.slots_strides[0] << "\n";
        Obj o{15};
        std::cout << "a(C15) -> " << run([&]{ M1a::fn(o); }) << "\n";
        std::cout << "b(C15) -> " << run([&]{ M1b::fn(o); }) << "\n";
        std::cout << "c(C15) -> " << run([&]{ M1c::fn(o); }) << "\n";
    }
    std::cout.flush(); _exit(0);
}
