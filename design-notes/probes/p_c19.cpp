#include <yorel/yomm2/keywords.hpp>
#include <yorel/yomm2/generator.hpp>
#include <iostream>
using namespace yorel::yomm2;
int main() {
  for (const char* s : {"ns::Foo const&", "void (ns::Animal const&, wchar_t, unsigned long, _Hidden*, a1::X, a::Y)", "std::vector<foo::Bar>", "yorel::yomm2::method<k, void (yorel::yomm2::virtual_<Animal const&>), P>"}) {
    generator g; g.add_forward_declaration(std::string_view(s));
    std::cout << "--- " << s << "\n"; g.write_forward_declarations(std::cout);
  }
}
