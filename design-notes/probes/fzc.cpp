// Randomised differential probe: real yomm2 update + call vs. an independent spec oracle.
#include <yorel/yomm2/core.hpp>
#include <yorel/yomm2/generator.hpp>
#include <regex>
#include <iostream>
#include <sstream>
#include <unistd.h>
#include <deque>
#include <random>
#include <set>
#include <map>
#include <memory>
using namespace yorel::yomm2;
struct Obj { type_id id; };
template<int I> struct Tag {};
static type_id TT[] = {(type_id)&typeid(Tag<0>),(type_id)&typeid(Tag<1>),(type_id)&typeid(Tag<2>),(type_id)&typeid(Tag<3>),(type_id)&typeid(Tag<4>),(type_id)&typeid(Tag<5>),(type_id)&typeid(Tag<6>),(type_id)&typeid(Tag<7>),(type_id)&typeid(Tag<8>),(type_id)&typeid(Tag<9>),(type_id)&typeid(Tag<10>)};
static type_id enc(int c) { return TT[c]; }
struct dyn_rtti : policy::rtti {
    template<class T> static type_id static_type() { return (type_id)&typeid(T); }
    template<class T> static type_id dynamic_type(const T& o) { if constexpr (std::is_same_v<T, Obj>) return o.id; else return (type_id)&typeid(T); }
    static std::type_index type_index(type_id t) { return std::type_index(*(const std::type_info*)t); }
    template<class S> static void type_name(type_id t, S& s) { s << ((const std::type_info*)t)->name(); }
};
struct DynData { struct { uint16_t* slots; uint16_t* vtbls; } encoded; std::uintptr_t* vtbls; std::uintptr_t* dtbls; };
#if 1
struct P : policy::basic_policy<P, dyn_rtti, policy::vptr_vector<P>, policy::fast_perfect_hash<P>, policy::throw_error> {};
#else
struct P : policy::basic_policy<P, dyn_rtti, policy::vptr_vector<P>, policy::throw_error> {};
#endif
template<int I> void f1(Obj&) { throw I; }
template<int I> void f2(Obj&, Obj&) { throw I; }
template<int I> void f2n(Obj&, int, Obj&) { throw I; }
template<int I> void f3(Obj&, Obj&, Obj&) { throw I; }
template<int I> void f3n(double, Obj&, Obj&, int, Obj&) { throw I; }
using MA = method<struct ka, void(virtual_<Obj&>), P>;
using MB = method<struct kb, void(virtual_<Obj&>), P>;
using MC = method<struct kc, void(virtual_<Obj&>, virtual_<Obj&>), P>;
using MD = method<struct kd, void(virtual_<Obj&>, int, virtual_<Obj&>), P>;
using ME = method<struct ke, void(virtual_<Obj&>, virtual_<Obj&>, virtual_<Obj&>), P>;
using MF = method<struct kf, void(double, virtual_<Obj&>, virtual_<Obj&>, int, virtual_<Obj&>), P>;
#define POOL(f) {(void*)f<0>,(void*)f<1>,(void*)f<2>,(void*)f<3>,(void*)f<4>,(void*)f<5>,(void*)f<6>,(void*)f<7>}
void* pools[6][8] = {POOL(f1), POOL(f1), POOL(f2), POOL(f2n), POOL(f3), POOL(f3n)};
detail::method_info* meths[6];
int arities[6] = {1,1,2,2,3,3};
template<class F> int outcome(F f) {  // >=0 def, -1 none, -2 ambiguous, -3 other
    try { f(); return -3; } catch (int i) { return i; }
    catch (const resolution_error& e) { return e.status == resolution_error::ambiguous ? -2 : -1; }
    catch (...) { return -4; }
}
int call(int m, const std::vector<int>& a) {
    Obj o[3]; for (size_t i = 0; i < a.size(); i++) o[i].id = enc(a[i]);
    switch (m) {
    case 0: return outcome([&]{ MA::fn(o[0]); });
    case 1: return outcome([&]{ MB::fn(o[0]); });
    case 2: return outcome([&]{ MC::fn(o[0], o[1]); });
    case 3: return outcome([&]{ MD::fn(o[0], 7, o[1]); });
    case 4: return outcome([&]{ ME::fn(o[0], o[1], o[2]); });
    default: return outcome([&]{ MF::fn(1.5, o[0], o[1], 9, o[2]); });
    }
}
int main(int argc, char** argv) {
    meths[0] = &MA::fn; meths[1] = &MB::fn; meths[2] = &MC::fn; meths[3] = &MD::fn; meths[4] = &ME::fn; meths[5] = &MF::fn;
    unsigned seed = argc > 1 ? atoi(argv[1]) : 1; int iters = argc > 2 ? atoi(argv[2]) : 1000; int style = argc > 3 ? atoi(argv[3]) : -1;
    std::mt19937 rng(seed);
    auto rnd = [&](int n) { return (int)(rng() % n); };
    long decoded = 0, mismatches = 0, calls = 0, nextmis = 0, amb = 0, none = 0, uniq = 0, repmis = 0, lattice = 0;
    for (auto m : meths) P::methods.remove(*m);
    for (int it = 0; it < iters; it++) {
        int n = 2 + rnd(8);
        std::vector<std::set<int>> direct(n), anc(n);
        for (int c = 0; c < n; c++) { int nb = c == 0 ? 0 : rnd(4) == 0 ? 0 : 1 + rnd(std::min(c, 3)); while ((int)direct[c].size() < nb) direct[c].insert(rnd(c)); }
        for (int c = 0; c < n; c++) { anc[c].insert(c); for (int b : direct[c]) anc[c].insert(anc[b].begin(), anc[b].end()); }
        // remove redundant direct edges is not needed: any presentation within the closure is legal
        auto derives = [&](int d, int b) { return anc[d].count(b) > 0; };
        std::vector<bool> abstract_(n); for (int c = 0; c < n; c++) abstract_[c] = rnd(4) == 0;
        // presentation
        int st = style >= 0 ? style : rnd(3);
        std::deque<detail::class_info> cis; std::deque<std::vector<type_id>> arrays; std::deque<std::uintptr_t*> vps;
        std::vector<int> order(n); for (int i = 0; i < n; i++) order[i] = i; std::shuffle(order.begin(), order.end(), rng);
        for (int c : order) {
            std::vector<int> lst;
            if (st == 0) { lst.assign(anc[c].begin(), anc[c].end()); }            // complete (as use_classes with everything)
            else if (st == 1) { lst.push_back(c); lst.insert(lst.end(), direct[c].begin(), direct[c].end()); } // direct only
            else { lst.insert(lst.end(), direct[c].begin(), direct[c].end()); for (int a : anc[c]) if (rnd(2)) lst.push_back(a); } // random superset, maybe dup, maybe self
            std::shuffle(lst.begin(), lst.end(), rng);
            auto& arr = arrays.emplace_back(); for (int x : lst) arr.push_back(enc(x)); arr.push_back(0);
            auto& ci = cis.emplace_back(); ci.type = enc(c); ci.first_base = arr.data(); ci.last_base = arr.data() + lst.size(); ci.is_abstract = abstract_[c]; ci.static_vptr = &vps.emplace_back(nullptr);
            P::classes.push_back(ci);
        }
        bool has_mi = false; for (int c = 0; c < n; c++) if (direct[c].size() > 1) has_mi = true; lattice += has_mi;
        // methods
        struct Def { std::vector<int> vp; int idx; }; std::vector<std::vector<int>> mvp(6); std::vector<std::vector<Def>> defs(6); std::vector<bool> used(6);
        std::deque<std::unique_ptr<detail::definition_info>> dis; std::deque<void*> nexts;
        std::vector<int> morder = {0,1,2,3,4,5}; std::shuffle(morder.begin(), morder.end(), rng);
        for (int m : morder) {
            used[m] = rnd(3) != 0; if (!used[m]) continue;
            for (int p = 0; p < arities[m]; p++) mvp[m].push_back(rnd(n));
            auto& arr = arrays.emplace_back(); for (int x : mvp[m]) arr.push_back(enc(x)); arr.push_back(0);
            meths[m]->vp_begin = arr.data(); meths[m]->vp_end = arr.data() + arities[m];
            P::methods.push_back(*meths[m]);
            int nd = rnd(7);
            for (int d = 0; d < nd; d++) {
                Def df; df.idx = d;
                for (int p = 0; p < arities[m]; p++) { std::vector<int> desc; for (int c = 0; c < n; c++) if (derives(c, mvp[m][p])) desc.push_back(c); df.vp.push_back(desc[rnd(desc.size())]); }
                defs[m].push_back(df);
            }
            std::vector<int> dorder(nd); for (int i = 0; i < nd; i++) dorder[i] = i; std::shuffle(dorder.begin(), dorder.end(), rng);
            for (int d : dorder) {
                auto& arr2 = arrays.emplace_back(); for (int x : defs[m][d].vp) arr2.push_back(enc(x)); arr2.push_back(0);
                auto di = std::make_unique<detail::definition_info>(); di->method = meths[m]; di->type = 0; di->next = &nexts.emplace_back(nullptr); di->vp_begin = arr2.data(); di->vp_end = arr2.data() + arities[m]; di->pf = pools[m][d];
                meths[m]->specs.push_back(*di); dis.push_back(std::move(di));
            }
        }
        std::ostringstream desc;
        auto dump = [&]() { desc << "n=" << n << " style=" << st << " order:"; for (int c : order) { desc << " " << c << (abstract_[c] ? "a" : "") << ":{"; for (int b : direct[c]) desc << b << ","; desc << "}"; } for (int m = 0; m < 6; m++) if (used[m]) { desc << " | m" << m << "("; for (int x : mvp[m]) desc << x << ","; desc << ")"; for (auto& d : defs[m]) { desc << " d" << d.idx << "("; for (int x : d.vp) desc << x << ","; desc << ")"; } } };
        std::string text; int ur = outcome([&]{ auto comp = update<P>(); std::ostringstream os; generator::encode_dispatch_data(comp, "P", os); text = os.str(); });
        std::vector<int> firstpass; bool second = false;
        if (ur != -3) { dump(); std::cout << "UPDATE FAILED " << ur << " " << desc.str() << "\n"; mismatches++; }
        else {
            auto verify = [&]() {
            auto more_specific = [&](const Def& a, const Def& b) { bool res = false; for (size_t p = 0; p < a.vp.size(); p++) { if (a.vp[p] != b.vp[p]) { if (derives(a.vp[p], b.vp[p])) res = true; else if (derives(b.vp[p], a.vp[p])) return false; } } return res; };
            auto select = [&](const std::vector<const Def*>& app) { if (app.empty()) return -1; for (auto d : app) { bool dom = true; for (auto e : app) if (e != d && !more_specific(*d, *e)) dom = false; if (dom) return d->idx; } return -2; };
            for (int m = 0; m < 6; m++) if (used[m]) {
                std::vector<std::vector<int>> doms; for (int p = 0; p < arities[m]; p++) { std::vector<int> d; for (int c = 0; c < n; c++) if (derives(c, mvp[m][p])) d.push_back(c); doms.push_back(d); }
                std::vector<size_t> ix(arities[m], 0);
                bool any_none = false, any_amb = false;
                while (true) {
                    std::vector<int> a; for (int p = 0; p < arities[m]; p++) a.push_back(doms[p][ix[p]]);
                    std::vector<const Def*> app; for (auto& d : defs[m]) { bool ok = true; for (int p = 0; p < arities[m]; p++) if (!derives(a[p], d.vp[p])) ok = false; if (ok) app.push_back(&d); }
                    int exp = select(app), got = call(m, a); calls++; if (!second) firstpass.push_back(got);
                    if (exp == -1) { none++; any_none = true; } else if (exp == -2) { amb++; any_amb = true; } else uniq++;
                    if (exp != got) { if (mismatches < 5) { if (desc.str().empty()) dump(); std::cout << "MISMATCH m" << m << " args("; for (int x : a) std::cout << x << ","; std::cout << ") expected " << exp << " got " << got << " :: " << desc.str() << "\n"; } mismatches++; }
                    int p = 0; while (p < arities[m] && ++ix[p] == doms[p].size()) { ix[p] = 0; p++; } if (p == arities[m]) break;
                }
                // next
                size_t k = 0; std::map<int, void**> nextOf; for (auto& di : dis) if (di->method == meths[m]) { for (int i = 0; i < 8; i++) if (pools[m][i] == di->pf) nextOf[i] = di->next; }
                for (auto& d : defs[m]) {
                    std::vector<const Def*> cand; for (auto& e : defs[m]) { bool ok = true, diff = false; for (int p = 0; p < arities[m]; p++) { if (!derives(d.vp[p], e.vp[p])) ok = false; if (d.vp[p] != e.vp[p]) diff = true; } if (ok && diff) cand.push_back(&e); }
                    int exp = select(cand); void* nx = *nextOf[d.idx]; int got = nx == meths[m]->not_implemented ? -1 : nx == meths[m]->ambiguous ? -2 : -5; for (int i = 0; i < 8; i++) if (pools[m][i] == nx) got = i;
                    if (exp != got) { if (nextmis < 3) { if (desc.str().empty()) dump(); std::cout << "NEXT MISMATCH m" << m << " d" << d.idx << " expected " << exp << " got " << got << " :: " << desc.str() << "\n"; } nextmis++; }
                }
            }
                    };
            verify();
            // ---- encode / decode round trip
            std::smatch mm; std::regex re(R"(headroom\[(-?\d+)\];\s*uint16_t slots\[(\d+)\];\s*uint16_t vtbls\[(\d+)\];\s*\} encoded;\s*std::uintptr_t vtbls\[(\d+)\];\s*\};\s*std::uintptr_t dtbls\[(\d+)\];)");
            if (!std::regex_search(text, mm, re)) { std::cout << "no match\n"; mismatches++; }
            else {
                long H = std::stol(mm[1]), S = std::stol(mm[2]), E = std::stol(mm[3]), D = std::stol(mm[4]), DT = std::stol(mm[5]);
                if (H < 0) { std::cout << "NEGATIVE HEADROOM " << H << "\n"; mismatches++; }
                else {
                std::string body = text.substr(text.find("yomm2_dispatch_data = {")); body = std::regex_replace(body, std::regex("//[^\n]*"), "");
                size_t p1 = body.find("{}, {") + 5;
                auto parse_list = [&](size_t& pos) { std::vector<unsigned long> v; while (body[pos] != '}') { if (isalnum(body[pos])) { size_t e = pos; while (isalnum(body[e])) e++; v.push_back(std::stoul(body.substr(pos, e-pos), nullptr, 0)); pos = e; } else pos++; } return v; };
                auto slots = parse_list(p1); size_t p2 = body.find('{', p1) + 1; auto vt = parse_list(p2); size_t p3 = body.find('{', body.find("} } }", p2)) + 1; auto dt = parse_list(p3);
                if ((long)slots.size() > S || (long)vt.size() > E || (long)dt.size() > DT) { std::cout << "EXCESS INITIALISERS\n"; mismatches++; }
                size_t enc_bytes = (H + S + E) * 2, dec_bytes = D * 8, un = std::max(enc_bytes, dec_bytes); un = (un + 7) / 8 * 8;
                std::unique_ptr<char[]> buf(new char[un + DT * 8 + 8]);   // exact size: ASan redzones guard both ends
                DynData dd; dd.encoded.slots = (uint16_t*)(buf.get() + H*2); dd.encoded.vtbls = dd.encoded.slots + S; dd.vtbls = (std::uintptr_t*)buf.get(); dd.dtbls = (std::uintptr_t*)(buf.get() + un);
                for (size_t i = 0; i < slots.size(); i++) dd.encoded.slots[i] = slots[i];
                for (size_t i = 0; i < vt.size(); i++) dd.encoded.vtbls[i] = vt[i];
                for (size_t i = 0; i < dt.size(); i++) dd.dtbls[i] = dt[i];
                for (auto& ci : cis) *ci.static_vptr = nullptr; P::dispatch_data.clear(); P::dispatch_data.shrink_to_fit(); P::vptrs.clear();
                for (int m = 0; m < 6; m++) if (used[m]) for (int i = 0; i < 2 * arities[m] - 1; i++) meths[m]->slots_strides_ptr[i] = 7777;
                decode_dispatch_data<P>(dd);
                second = true; decoded++;
                verify();
                }
            }
        }
        // cleanup
        for (auto& di : dis) di->method = nullptr; for (int m = 0; m < 6; m++) { meths[m]->specs.clear(); if (used[m]) P::methods.remove(*meths[m]); }
        P::classes.clear();
    }
    std::cout << "seed=" << seed << " iters=" << iters << " lattice=" << lattice << " calls=" << calls << " uniq=" << uniq << " none=" << none << " amb=" << amb << " mismatches=" << mismatches << " nextmis=" << nextmis << " decoded=" << decoded << "\n";
    std::cout.flush(); _exit(mismatches || nextmis ? 1 : 0);
}
