#include <yorel/yomm2/core.hpp>
#include <yorel/yomm2/generator.hpp>
#include <iostream>
#include <sstream>
#include <random>
#include <set>
using namespace yorel::yomm2;
int main(int argc, char** argv) {
    unsigned seed = argc > 1 ? atoi(argv[1]) : 1; int iters = argc > 2 ? atoi(argv[2]) : 10000;
    std::mt19937 rng(seed); auto rnd = [&](int n) { return (int)(rng() % n); };
    const char* comps[] = {"a","ab","abc","a1","a_","b","B","A","a2b","x","_y","z9","ab1","aB"};
    long bad = 0, total = 0;
    for (int it = 0; it < iters; it++) {
        std::set<std::string> names; int n = 1 + rnd(7);
        for (int i = 0; i < n; i++) { int depth = rnd(4); std::string s; for (int d = 0; d <= depth; d++) { if (d) s += "::"; s += comps[rnd(14)]; } names.insert(s); }
        // drop names that are a namespace prefix of another (a class cannot also be a namespace)
        std::set<std::string> ok; for (auto& a : names) { bool pre = false; for (auto& b : names) if (b.size() > a.size() && b.compare(0, a.size(), a) == 0 && b.compare(a.size(), 2, "::") == 0) pre = true; if (!pre) ok.insert(a); }
        generator g; for (auto& s : ok) g.add_forward_declaration(std::string_view(s));
        std::ostringstream os; g.write_forward_declarations(os);
        // parse
        std::istringstream is(os.str()); std::string line; std::vector<std::string> stack; std::multiset<std::string> got; bool err = false;
        while (std::getline(is, line)) {
            if (line.rfind("namespace ", 0) == 0 && line.size() > 12 && line.substr(line.size()-2) == " {") stack.push_back(line.substr(10, line.size()-12));
            else if (line == "}") { if (stack.empty()) err = true; else stack.pop_back(); }
            else if (line.rfind("class ", 0) == 0 && line.back() == ';') { std::string q; for (auto& s : stack) q += s + "::"; got.insert(q + line.substr(6, line.size()-7)); }
            else err = true;
        }
        if (!stack.empty()) err = true;
        std::multiset<std::string> exp(ok.begin(), ok.end());
        total++;
        if (err || got != exp) { if (bad < 5) { std::cout << "BAD: names:"; for (auto& s : ok) std::cout << " " << s; std::cout << "\n" << os.str() << "\n"; } bad++; }
    }
    std::cout << "seed=" << seed << " total=" << total << " bad=" << bad << "\n";
}
