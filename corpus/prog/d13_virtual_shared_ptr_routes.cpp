#include <yorel/yomm2/keywords.hpp>
#include <cstdio>
#include <memory>
using namespace yorel::yomm2;
struct Animal { virtual ~Animal() {} };
struct Dog : Animal {};
register_classes(Animal, Dog);
declare_method(int, kick, (virtual_shared_ptr<Animal>));
define_method(int, kick, (virtual_shared_ptr<Dog>)) { return 1; }
define_method(int, kick, (virtual_shared_ptr<Animal>)) { return 2; }
int main(int argc, char** argv) {
    update();
    int which = argc > 1 ? atoi(argv[1]) : 0;
    auto dog = std::make_shared<Dog>();
    const std::shared_ptr<Dog> cdog = dog;
    std::shared_ptr<Animal> adog = dog;
    const std::shared_ptr<Animal> cadog = dog;
    if (which == 0) { virtual_shared_ptr<Animal> p = make_virtual_shared<Dog>(); printf("make_virtual_shared: %d\n", kick(p)); }
    if (which == 1) { virtual_shared_ptr<Animal> p(cadog); printf("from const shared_ptr<Animal>&: %d\n", kick(p)); }
    if (which == 2) { virtual_shared_ptr<Animal> p(adog); printf("from shared_ptr<Animal>& (non-const lvalue): %d\n", kick(p)); }
    if (which == 3) { virtual_shared_ptr<Animal> p(std::make_shared<Dog>()); printf("from rvalue shared_ptr<Dog>: %d\n", kick(p)); }
    if (which == 4) { virtual_shared_ptr<Dog> p(dog); printf("from shared_ptr<Dog>& exact: %d\n", kick(virtual_shared_ptr<Animal>(p))); }
    if (which == 5) { virtual_shared_ptr<Animal> p(cdog); printf("from const shared_ptr<Dog>&: %d\n", kick(p)); }
    return 0;
}
