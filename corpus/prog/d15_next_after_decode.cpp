// D15 witness: a definition that calls next(), after decode_dispatch_data in a process that never ran update
#include <yorel/yomm2/keywords.hpp>
#include <yorel/yomm2/generator.hpp>
#include <yorel/yomm2/decode.hpp>
#include <iostream>
#include <fstream>
#include <string>

struct Animal { virtual ~Animal() {} };
struct Dog : Animal {};

register_classes(Animal, Dog);
declare_method(std::string, kick, (virtual_<Animal&>));
define_method(std::string, kick, (Animal&)) { return "animal"; }
define_method(std::string, kick, (Dog& d)) { return "dog+" + next(d); }

int main(int argc, char** argv) {
    using namespace yorel::yomm2;
    Dog d;
    Animal& a = d;
#ifdef PHASE2
    {
#include "tables.hpp"
    }
#else
    auto compiler = update();
    std::ofstream tables("tables.hpp");
    generator().encode_dispatch_data(compiler, tables);
#endif
    std::string r = kick(a);
    std::cout << r << "\n";
    return r == "dog+animal" ? 0 : 1;
}
