#include "hdyn.hpp"
namespace verif {
// generator policies: ids are std::type_info pointers of tag types
struct p_gen : policy::basic_policy<p_gen, tag_rtti, policy::vptr_map<p_gen>, policy::vectored_error<p_gen>> {};
struct p_genh : policy::basic_policy<p_genh, tag_rtti, policy::fast_perfect_hash<p_genh>, policy::vptr_vector<p_genh>, policy::vectored_error<p_genh>> {};
static Engine<p_gen> engine_gen("gen");
static Engine<p_genh> engine_genh("genh");
}
