#include "hdyn.hpp"
namespace verif {
// the indirect facet mixed in by inheritance beside a rebound stock policy, the way tests/benchmarks.cpp
// composes its indirect policy (not through the facet list of basic_policy)
struct p_indmix_src : policy::basic_policy<p_indmix_src, dyn_rtti<0>, policy::fast_perfect_hash<p_indmix_src>, policy::vptr_vector<p_indmix_src>, policy::vectored_error<p_indmix_src>> {};
struct p_indmix : p_indmix_src::rebind<p_indmix>, policy::basic_indirect_vptr<p_indmix> {};
static Engine<p_indmix> engine_indmix("indmix");
}
