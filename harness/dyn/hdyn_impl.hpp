// Implementation of Engine<Policy> (included by hdyn.hpp)
#ifndef VERIF_HDYN_IMPL_HPP
#define VERIF_HDYN_IMPL_HPP

namespace verif {

inline long tol(const std::string& s) {
    return std::stol(s);
}
inline type_id rawid(const std::string& s) {
    return static_cast<type_id>(std::stoull(s));
}
#define toid(s) (IdMap<Policy>::in(rawid(s)))

template<class Policy>
Engine<Policy>::Engine(const char* name) : name_(name) {
    slots_.reserve(kShapes * kKeys);
    make_slots_s<0>();
    register_engine(name, this);
}

template<class Policy>
void Engine<Policy>::reset() {
    Policy::classes.clear();
    Policy::methods.clear();
    for (auto& s : slots_) {
        s.info->specs.clear();
    }
    classes_.clear();
    methods_.clear();
    vars_.clear();
    comp_.reset();
    handler_returns_ = false;
    install_handlers();
}

template<class Policy>
void Engine<Policy>::install_handlers() {
    if constexpr (has_call_error<Policy>::value) {
        if (handler_returns_) {
            Policy::call_error = +[](const method_call_error&, std::size_t, type_id*) {};
        } else {
            Policy::call_error = +[](const method_call_error& e, std::size_t arity, type_id* types) {
                CaughtOld c;
                c.code = e.code;
                c.arity = arity;
                c.types.assign(types, types + (std::min)(arity, std::size_t(16)));
                throw c;
            };
        }
    } else if constexpr (has_vectored<Policy>::value) {
        if (handler_returns_) {
            Policy::error = [](const error_type&) {};
        } else {
            Policy::error = [](const error_type& e) { throw Caught{e}; };
        }
    }
}

template<class Policy>
void Engine<Policy>::report_error(const error_type& e, const char* prefix) {
    std::ostringstream os;
    os << prefix;
    if (auto r = std::get_if<resolution_error>(&e)) {
        std::vector<type_id> types(
            r->types, r->types + (std::min)(r->arity, resolution_error::max_types));
        for (auto& t : types) {
            t = IdMap<Policy>::out(t);
        }
        os << "raised resolution status="
           << (r->status == resolution_error::no_definition ? "ni" : "amb")
           << " arity=" << r->arity << " types=" << list(types);
    } else if (auto u = std::get_if<unknown_class_error>(&e)) {
        os << "raised unknown_class " << IdMap<Policy>::out(u->type);
    } else if (auto h = std::get_if<hash_search_error>(&e)) {
        os << "raised hash_search attempts=" << h->attempts << " buckets=" << h->buckets;
    } else if (auto m = std::get_if<method_table_error>(&e)) {
        os << "raised method_table " << IdMap<Policy>::out(m->type);
    } else if (auto s = std::get_if<static_slot_error>(&e)) {
        os << "raised static_slot";
        (void)s;
    } else if (auto s = std::get_if<static_stride_error>(&e)) {
        os << "raised static_stride";
        (void)s;
    } else {
        os << "raised error";
    }
    emit(os.str());
}

// run `f`, translating whatever the policy's error facet does into a canonical line
template<class Policy, class F>
bool guarded(Engine<Policy>& eng, const char* prefix, F&& f) {
    try {
        f();
        return true;
    } catch (const Caught& c) {
        eng.report_error(c.err, prefix);
    } catch (const CaughtOld& c) {
        std::ostringstream os;
        os << prefix << "raised resolution status="
           << (c.code == resolution_error::no_definition ? "ni" : "amb") << " arity=" << c.arity
           << " types=" << list(c.types);
        emit(os.str());
    } catch (const resolution_error& e) {
        eng.report_error(error_type(e), prefix);
    } catch (const unknown_class_error& e) {
        eng.report_error(error_type(e), prefix);
    } catch (const hash_search_error& e) {
        eng.report_error(error_type(e), prefix);
    } catch (const method_table_error& e) {
        eng.report_error(error_type(e), prefix);
    } catch (const static_slot_error& e) {
        eng.report_error(error_type(e), prefix);
    } catch (const static_stride_error& e) {
        eng.report_error(error_type(e), prefix);
    } catch (const error& e) {
        eng.report_error(error_type(e), prefix);
    }
    return false;
}

#ifndef HDYN_HASH_SEED
#define HDYN_HASH_SEED 13081963
#endif

template<class Policy>
void Engine<Policy>::do_update() {
    comp_.reset();
    std::size_t attempts = 0;
    bool ok = false;
    std::string saved;
    saved.swap(g_out); // the #rng line must come first
    if constexpr (PolicyTraits<Policy>::hashed) {
#ifdef YOMM2_VERIF
        // if the error handler returns, the library aborts: leave the multiplier stream of an
        // exhausted search (4 passes x budget attempts) for the SIGABRT handler to print
        auto budget = yorel::yomm2::verif::hash_attempt_budget;
        if (budget <= 2000) {
            std::default_random_engine rnd(HDYN_HASH_SEED);
            std::uniform_int_distribution<type_id> uniform_dist;
            std::ostringstream os;
            os << "#rng";
            for (std::size_t i = 0; i < 8 * budget; ++i) {  // more than any number of passes the search makes
                os << " " << uniform_dist(rnd);
            }
            os << "\n";
            g_abort_note = saved + os.str();
        }
#endif
    }
    try {
        ok = guarded(*this, "update ", [&] { comp_.emplace(yorel::yomm2::update<Policy>()); });
    } catch (...) {
        saved.swap(g_out);
        throw;
    }
    g_abort_note.clear();
    std::string result;
    result.swap(g_out);
    g_out.swap(saved);

    if constexpr (PolicyTraits<Policy>::hashed) {
        // replay the multiplier stream the search consumed
        std::default_random_engine rnd(HDYN_HASH_SEED);
        std::uniform_int_distribution<type_id> uniform_dist;
        std::vector<type_id> mults;
        if (ok) {
            for (int i = 0; i < 2000000; ++i) {
                auto m = uniform_dist(rnd);
                mults.push_back(m);
                if ((m | 1) == Policy::hash_mult) {
                    break;
                }
            }
        } else {
            auto pos = result.find("attempts=");
            if (pos != std::string::npos) {
                attempts = std::stoull(result.substr(pos + 9));
                for (std::size_t i = 0; i < attempts; ++i) {
                    mults.push_back(uniform_dist(rnd));
                }
            }
        }
        std::ostringstream os;
        os << "#rng";
        for (auto m : mults) {
            os << " " << m;
        }
        emit(os.str());
    } else {
        emit("#rng"); // one line per update, whatever the policy
    }

    g_out += result;
    if (ok) {
        emit("update ok");
    } else {
        comp_.reset();
    }
}

template<class Policy>
std::string Engine<Policy>::describe_fn(void* pf) {
    for (auto& [key, mr] : methods_) {
        if (pf == mr.slot->info->ambiguous) {
            return "F" + std::to_string(key) + ".A";
        }
        if (pf == mr.slot->info->not_implemented) {
            return "F" + std::to_string(key) + ".N";
        }
        for (auto& [j, def] : mr.j_def) {
            if (pf == mr.slot->pool[j]) {
                return "F" + std::to_string(key) + ".d" + std::to_string(def);
            }
        }
    }
    return "";
}

template<class Policy>
std::string Engine<Policy>::classify(std::uintptr_t w) {
    auto s = describe_fn(reinterpret_cast<void*>(w));
    if (!s.empty()) {
        return s;
    }
    auto base = reinterpret_cast<std::uintptr_t>(Policy::dispatch_data.data());
    auto end = base + Policy::dispatch_data.size() * sizeof(std::uintptr_t);
    if (w >= base && w < end && (w - base) % sizeof(std::uintptr_t) == 0) {
        return "P" + std::to_string((w - base) / sizeof(std::uintptr_t));
    }
    return "N" + std::to_string(w);
}

template<class Policy>
void Engine<Policy>::do_dump() {
    if (!comp_) {
        emit("dump none");
        return;
    }
    auto& comp = *comp_;
    std::map<const detail::generic_compiler::class_*, int> cidx;
    {
        int i = 0;
        for (auto& c : comp.classes) {
            cidx[&c] = i++;
        }
    }
    auto idxs = [&](auto& container, bool sorted) {
        std::vector<int> v;
        for (auto p : container) {
            v.push_back(cidx.at(p));
        }
        if (sorted) {
            std::sort(v.begin(), v.end());
        }
        return v;
    };
    auto base = Policy::dispatch_data.data();
    {
        int i = 0;
        for (auto& c : comp.classes) {
            std::ostringstream os;
            std::vector<type_id> ids(c.type_ids.begin(), c.type_ids.end());
            for (auto& t : ids) {
                t = IdMap<Policy>::out(t);
            }
            os << "class " << i++ << " ids=" << list(ids) << " abs=" << (c.is_abstract ? 1 : 0)
               << " tb=" << list(idxs(c.transitive_bases, true))
               << " direct=" << list(idxs(c.direct_bases, false))
               << " derived=" << list(idxs(c.direct_derived, false))
               << " cov=" << list(idxs(c.covariant_classes, true)) << " first=" << c.first_slot
               << " vp=" << (static_cast<std::ptrdiff_t>(*c.static_vptr - base)) << " vtbl=[";
            const char* sep = "";
            for (auto& e : c.vtbl) {
                os << sep << e.method_index << "." << e.vp_index << "." << e.group_index;
                sep = ",";
            }
            os << "]";
            emit(os.str());
        }
    }
    std::size_t written = 0;
    for (auto& m : comp.methods) {
        long key = -1;
        MethodRecord* mr = nullptr;
        for (auto& [k, r] : methods_) {
            if (r.slot->info == m.info) {
                key = k;
                mr = &r;
            }
        }
        std::ostringstream os;
        std::vector<std::size_t> slots(m.slots.begin(), m.slots.end());
        std::vector<std::size_t> strides(m.strides.begin(), m.strides.end());
        os << "method " << key << " slots=" << list(slots) << " strides=" << list(strides)
           << " table=[";
        auto cell = [&](const detail::generic_compiler::definition* d) -> std::string {
            if (d == &m.ambiguous) {
                return "A";
            }
            if (d == &m.not_implemented) {
                return "N";
            }
            for (auto& [j, info] : mr->def_info) {
                if (info == d->info) {
                    return "d" + std::to_string(mr->j_def.at(j));
                }
            }
            return "?";
        };
        const char* sep = "";
        for (auto d : m.dispatch_table) {
            os << sep << cell(d);
            sep = ",";
        }
        os << "] next=[";
        sep = "";
        for (auto& spec : m.specs) {
            void* nx = spec.info->next ? *spec.info->next : nullptr;
            std::string s = "?";
            if (nx == m.info->ambiguous) {
                s = "A";
            } else if (nx == m.info->not_implemented) {
                s = "N";
            } else {
                for (auto& [j, def] : mr->j_def) {
                    if (mr->slot->pool[j] == nx) {
                        s = "d" + std::to_string(def);
                    }
                }
            }
            os << sep << s;
            sep = ",";
        }
        auto& r = m.report;
        os << "] report=" << r.cells << "," << r.concrete_cells << "," << r.not_implemented << ","
           << r.concrete_not_implemented << "," << r.ambiguous << "," << r.concrete_ambiguous;
        emit(os.str());
        if (m.arity() > 1) {
            written += m.dispatch_table.size();
        }
    }
    for (auto& c : comp.classes) {
        written += c.vtbl.size();
    }
    {
        auto& r = comp.report;
        std::ostringstream os;
        os << "report " << r.cells << "," << r.concrete_cells << "," << r.not_implemented << ","
           << r.concrete_not_implemented << "," << r.ambiguous << "," << r.concrete_ambiguous;
        emit(os.str());
    }
    {
        std::ostringstream os;
        os << "data size=" << Policy::dispatch_data.size() << " words=[";
        const char* sep = "";
        for (std::size_t i = 0; i < written && i < Policy::dispatch_data.size(); ++i) {
            os << sep << classify(Policy::dispatch_data[i]);
            sep = ",";
        }
        os << "]";
        emit(os.str());
    }
    for (auto& m : comp.methods) {
        for (auto& [k, r] : methods_) {
            if (r.slot->info == m.info) {
                std::vector<std::size_t> ss(
                    m.info->slots_strides_ptr, m.info->slots_strides_ptr + 2 * m.arity() - 1);
                emit("ss " + std::to_string(k) + " " + list(ss));
            }
        }
    }
    if constexpr (PolicyTraits<Policy>::hashed) {
        std::ostringstream os;
        os << "hash mult=" << Policy::hash_mult << " shift=" << Policy::hash_shift
           << " length=" << Policy::hash_length << " min=" << Policy::hash_min
           << " max=" << Policy::hash_max;
        emit(os.str());
        if constexpr (has_control<Policy>::value) {
            std::vector<type_id> ctl(Policy::control.begin(), Policy::control.end());
            emit("control " + list(ctl));
        }
    }
    {
        // entries of `vptrs` for the ids registered now (stale entries of earlier updates are
        // not observable through registered ids)
        std::ostringstream os;
        std::map<std::size_t, std::ptrdiff_t> entries;
        for (auto& c : comp.classes) {
            for (auto id : c.type_ids) {
                if constexpr (vptrs_is_map<Policy>::value) {
                    auto it = Policy::vptrs.find(id);
                    if (it != Policy::vptrs.end()) {
                        entries[IdMap<Policy>::out(id)] = it->second - base;
                    }
                } else {
                    std::size_t index = id;
                    if constexpr (PolicyTraits<Policy>::hashed) {
                        index = (Policy::hash_mult * id) >> Policy::hash_shift;
                    }
                    if (index < Policy::vptrs.size()) {
                        entries[index] = Policy::vptrs[index] - base;
                    }
                }
            }
        }
        os << "vptrs size=" << Policy::vptrs.size() << " [";
        const char* sep = "";
        for (auto& [k, off] : entries) {
            os << sep << k << ":" << off;
            sep = ",";
        }
        os << "]";
        emit(os.str());
    }
}

template<class Policy>
void Engine<Policy>::do_call(const std::vector<std::string>& tok, bool follow_next, int route) {
    if (!comp_) {
        emit("skipped: no completed update");
        return;
    }
    long key = tol(tok.at(1));
    auto it = methods_.find(key);
    if (it == methods_.end()) {
        emit("call bad-method");
        return;
    }
    auto& mr = it->second;
    std::vector<type_id> ids;
    std::vector<const void*> pre;
    {
        // tokens give one entry per *virtual* parameter: an id, or $name for an existing virtual_ptr
        std::size_t t = 2;
        for (int kind : mr.slot->kinds) {
            if (kind == 2) {
                pre.push_back(nullptr);
                continue;
            }
            if (t >= tok.size()) {
                emit("!harness too few arguments");
                return;
            }
            if (tok[t][0] == '$') {
                auto v = vars_.find(tok[t].substr(1));
                if (v == vars_.end() || !v->second.vp || kind != 1) {
                    emit("!harness bad virtual_ptr variable");
                    return;
                }
                pre.push_back(&*v->second.vp);
                ids.push_back(v->second.obj->type);
            } else {
                pre.push_back(nullptr);
                ids.push_back(toid(tok[t]));
            }
            ++t;
        }
    }
    g_ran.clear();
    g_next_null = false;
    g_follow_next = follow_next;
    std::string saved;
    saved.swap(g_out);
    bool ok = guarded(*this, "", [&] { mr.slot->call(ids, route, pre); });
    std::string err;
    err.swap(g_out);
    g_out.swap(saved);
    if (!err.empty() && err.back() == '\n') {
        err.pop_back();
    }
    g_follow_next = false;
    std::ostringstream os;
    auto defid = [&](const Ran& r) -> long {
        auto f = mr.j_def.find(r.j);
        return f == mr.j_def.end() ? -1 : f->second;
    };
    bool bad = false;
    for (auto& r : g_ran) {
        if (r.args != g_passed) {
            bad = true;
        }
    }
    if (follow_next) {
        std::vector<long> chain;
        for (auto& r : g_ran) {
            chain.push_back(defid(r));
        }
        os << "ran " << list(chain) << (g_next_null ? " next-null" : ok ? " end" : " " + err);
    } else if (ok) {
        if (g_ran.size() == 1) {
            os << "ran " << defid(g_ran[0]);
        } else {
            os << "ran-count " << g_ran.size();
        }
    } else {
        if (!g_ran.empty()) {
            os << "ran-before-error " << g_ran.size() << " ";
        }
        os << err;
    }
    if (bad) {
        os << " BADARGS";
    }
    emit(os.str());
}

// ---------------------------------------------------------------------------------------------
// generator ops (policies whose ids are std::type_info pointers)

template<class Policy>
void Engine<Policy>::do_offsets() {
    if constexpr (!IdMap<Policy>::gen) {
        emit("!harness not a generator policy");
    } else {
        std::ostringstream os;
        generator().template write_static_offsets<Policy>(os);
        std::istringstream is(os.str());
        std::string line;
        auto it = Policy::methods.begin();
        while (std::getline(is, line)) {
            // replace the demangled method name by M<key>
            long key = -1;
            if (it != Policy::methods.end()) {
                for (auto& [k, r] : methods_) {
                    if (r.slot->info == &*it) {
                        key = k;
                    }
                }
                ++it;
            }
            auto a = line.find("static_offsets<");
            auto b = line.find("> {static constexpr");
            if (a != std::string::npos && b != std::string::npos) {
                line = line.substr(0, a + 15) + "M" + std::to_string(key) + line.substr(b);
            }
            emit("offsets " + line);
        }
    }
}

struct DynData {
    struct {
        uint16_t* slots;
        uint16_t* vtbls;
    } encoded;
    std::uintptr_t* vtbls;
    std::uintptr_t* dtbls;
};

struct ParsedEncoding {
    long H = 0, S = 0, E = 0, D = 0, DT = 0;
    std::vector<unsigned long> slots, vt, dt;
    bool ok = false;
};

inline ParsedEncoding parse_encoding(const std::string& text) {
    ParsedEncoding p;
    auto num_after = [&](const char* what, std::size_t from, long& out) -> std::size_t {
        auto pos = text.find(what, from);
        if (pos == std::string::npos) {
            return pos;
        }
        pos += std::strlen(what);
        out = std::strtol(text.c_str() + pos, nullptr, 10);
        return pos;
    };
    std::size_t pos = 0;
    pos = num_after("headroom[", pos, p.H);
    if (pos == std::string::npos) return p;
    pos = num_after("uint16_t slots[", pos, p.S);
    if (pos == std::string::npos) return p;
    pos = num_after("uint16_t vtbls[", pos, p.E);
    if (pos == std::string::npos) return p;
    pos = num_after("std::uintptr_t vtbls[", pos, p.D);
    if (pos == std::string::npos) return p;
    pos = num_after("std::uintptr_t dtbls[", pos, p.DT);
    if (pos == std::string::npos) return p;
    auto start = text.find("yomm2_dispatch_data = {");
    if (start == std::string::npos) return p;
    // strip comments
    std::string body;
    for (std::size_t i = start; i < text.size(); ++i) {
        if (text[i] == '/' && i + 1 < text.size() && text[i + 1] == '/') {
            while (i < text.size() && text[i] != '\n') ++i;
        } else {
            body += text[i];
        }
    }
    auto parse_list = [&](std::size_t& at) {
        std::vector<unsigned long> v;
        while (at < body.size() && body[at] != '}') {
            if (std::isalnum((unsigned char)body[at])) {
                std::size_t e = at;
                while (e < body.size() && std::isalnum((unsigned char)body[e])) ++e;
                v.push_back(std::stoul(body.substr(at, e - at), nullptr, 0));
                at = e;
            } else {
                ++at;
            }
        }
        return v;
    };
    std::size_t p1 = body.find("{}, {");
    if (p1 == std::string::npos) return p;
    p1 += 5;
    p.slots = parse_list(p1);
    std::size_t p2 = body.find('{', p1);
    if (p2 == std::string::npos) return p;
    ++p2;
    p.vt = parse_list(p2);
    std::size_t close = body.find("} } }", p2);
    if (close == std::string::npos) return p;
    std::size_t p3 = body.find('{', close);
    if (p3 == std::string::npos) return p;
    ++p3;
    p.dt = parse_list(p3);
    p.ok = true;
    return p;
}

template<class Policy>
void Engine<Policy>::do_encode() {
    if constexpr (!IdMap<Policy>::gen) {
        emit("!harness not a generator policy");
    } else {
        if (!comp_) {
            emit("skipped: no completed update");
            return;
        }
        std::ostringstream os;
        last_encoded_.clear();
        try {
            generator::encode_dispatch_data(*comp_, "P", os);
        } catch (const std::length_error&) {
            // a value does not fit the 16-bit codes: nothing usable was emitted
            emit("encode refused");
            return;
        }
        last_encoded_ = os.str();
        auto p = parse_encoding(last_encoded_);
        if (!p.ok) {
            emit("encoded unparsable");
            return;
        }
        std::ostringstream l;
        l << "encoded headroom=" << p.H << " slots=" << p.S << " vtbls=" << p.E << " decoded=" << p.D
          << " dtbls=" << p.DT;
        emit(l.str());
        emit("enc-slots " + list(p.slots));
        emit("enc-vtbls " + list(p.vt));
        emit("enc-dtbls " + list(p.dt));
    }
}

template<class Policy>
void Engine<Policy>::do_decode() {
    if constexpr (!IdMap<Policy>::gen) {
        emit("!harness not a generator policy");
    } else {
        auto p = parse_encoding(last_encoded_);
        if (!p.ok || !comp_) {
            emit("skipped: nothing encoded");
            return;
        }
        if (p.H < 0 || (long)p.slots.size() > p.S || (long)p.vt.size() > p.E || (long)p.dt.size() > p.DT) {
            emit("decode rejected: the emitted text is not valid C++ (negative extent or excess initialisers)");
            return;
        }
        // exactly the layout of the emitted struct, in its own heap block (ASan guards both ends)
        std::size_t enc_bytes = (p.H + p.S + p.E) * 2, dec_bytes = p.D * 8;
        std::size_t un = (std::max)(enc_bytes, dec_bytes);
        un = (un + 7) / 8 * 8;
        std::size_t total = un + p.DT * 8;
        char* buf = static_cast<char*>(std::malloc(total ? total : 1));
        std::memset(buf, 0, total);
        DynData dd;
        dd.encoded.slots = reinterpret_cast<uint16_t*>(buf + p.H * 2);
        dd.encoded.vtbls = dd.encoded.slots + p.S;
        dd.vtbls = reinterpret_cast<std::uintptr_t*>(buf);
        dd.dtbls = reinterpret_cast<std::uintptr_t*>(buf + un);
        for (std::size_t i = 0; i < p.slots.size(); ++i) dd.encoded.slots[i] = (uint16_t)p.slots[i];
        for (std::size_t i = 0; i < p.vt.size(); ++i) dd.encoded.vtbls[i] = (uint16_t)p.vt[i];
        for (std::size_t i = 0; i < p.dt.size(); ++i) dd.dtbls[i] = p.dt[i];
        // a fresh process: nothing installed yet
        for (auto& ci : Policy::classes) {
            *ci.static_vptr = nullptr;
        }
        Policy::dispatch_data.clear();
        Policy::vptrs.clear();
        for (auto& m : Policy::methods) {
            for (long i = 0; i < 2 * m.arity() - 1; ++i) {
                m.slots_strides_ptr[i] = 9999;
            }
            // the definitions' `next` cells are zero-initialised statics
            for (auto& spec : m.specs) {
                if (spec.next) {
                    *spec.next = nullptr;
                }
            }
        }
        bool ok = guarded(*this, "decode ", [&] { decode_dispatch_data<Policy>(dd); });
        if (!ok) {
            return;
        }
        emit("decode ok");
        // what the decoder left: per class record the v-table pointer, then the decoded words
        for (auto& ci : Policy::classes) {
            std::ostringstream os;
            os << "dclass " << IdMap<Policy>::out(ci.type) << " vp=" << (*ci.static_vptr - dd.vtbls);
            emit(os.str());
        }
        auto word = [&](std::uintptr_t w) -> std::string {
            auto f = describe_fn(reinterpret_cast<void*>(w));
            if (!f.empty()) {
                return f;
            }
            auto b = reinterpret_cast<std::uintptr_t>(dd.dtbls);
            if (w >= b && w < b + p.DT * 8 && (w - b) % 8 == 0) {
                return "T" + std::to_string((w - b) / 8);
            }
            return "N" + std::to_string(w);
        };
        {
            std::ostringstream os;
            os << "dvtbls [";
            const char* sep = "";
            for (long i = 0; i < p.D; ++i) {
                os << sep << word(dd.vtbls[i]);
                sep = ",";
            }
            os << "]";
            emit(os.str());
        }
        {
            std::ostringstream os;
            os << "ddtbls [";
            const char* sep = "";
            for (long i = 0; i < p.DT; ++i) {
                os << sep << word(dd.dtbls[i]);
                sep = ",";
            }
            os << "]";
            emit(os.str());
        }
        for (auto& m : Policy::methods) {
            for (auto& [k, r] : methods_) {
                if (r.slot->info == &m) {
                    std::vector<std::size_t> ss(m.slots_strides_ptr, m.slots_strides_ptr + 2 * m.arity() - 1);
                    emit("dss " + std::to_string(k) + " " + list(ss));
                }
            }
        }
        // the next cell of every definition, as the decoder left it (a fresh process starts with null cells)
        for (auto& m : Policy::methods) {
            for (auto& [k, r] : methods_) {
                if (r.slot->info != &m) {
                    continue;
                }
                std::ostringstream os;
                os << "dnext " << k << " [";
                const char* sep = "";
                for (auto& spec : m.specs) {
                    void* nx = spec.next ? *spec.next : nullptr;
                    std::string s = "?";
                    if (nx == nullptr) {
                        s = "null";
                    } else if (nx == m.ambiguous) {
                        s = "A";
                    } else if (nx == m.not_implemented) {
                        s = "N";
                    } else {
                        for (auto& [j, def] : r.j_def) {
                            if (r.slot->pool[j] == nx) {
                                s = "d" + std::to_string(def);
                            }
                        }
                    }
                    os << sep << s;
                    sep = ",";
                }
                os << "]";
                emit(os.str());
            }
        }
        // the buffer stays alive: the decoded tables are now the installed ones
    }
}

template<class Policy>
void Engine<Policy>::op(const std::vector<std::string>& tok) {
    const auto& cmd = tok[0];
    if (cmd == "static") {
        g_obj_static_id = rawid(tok.at(1)) == 0 ? static_cast<type_id>(-2) : toid(tok.at(1));
    } else if (cmd == "budget") {
#ifdef YOMM2_VERIF
        yorel::yomm2::verif::hash_attempt_budget = std::stoull(tok.at(1));
#endif
    } else if (cmd == "handler") {
        handler_returns_ = tok.at(1) == "return";
        install_handlers();
    } else if (cmd == "class") {
        // class <handle> <id> <abstract> <bases...>
        long h = tol(tok.at(1));
        if (used_class_infos_ >= kMaxClassInfos) {
            emit("!harness out of class storage");
            return;
        }
        auto& rec = classes_[h];
        type_id id = toid(tok.at(2));
        rec.info = new (class_storage[used_class_infos_++]) detail::class_info();
        rec.info->type = make_id(id);
        clear_type_resolved(*rec.info);
        rec.info->is_abstract = tol(tok.at(3)) != 0;
        rec.info->static_vptr = cell_for(id);
        for (std::size_t i = 4; i < tok.size(); ++i) {
            rec.bases.push_back(make_id(toid(tok[i])));
        }
        auto n = rec.bases.size();
        rec.bases.push_back(0); // flag word read by deferred resolution
        if (n == 0) {
            // like type_id_list<Policy, types<>>
            rec.info->first_base = nullptr;
            rec.info->last_base = nullptr;
        } else {
            rec.info->first_base = rec.bases.data();
            rec.info->last_base = rec.bases.data() + n;
        }
        Policy::classes.push_back(*rec.info);
    } else if (cmd == "unclass") {
        long h = tol(tok.at(1));
        auto it = classes_.find(h);
        if (it != classes_.end()) {
            Policy::classes.remove(*it->second.info);
            classes_.erase(it);
        }
    } else if (cmd == "method") {
        // method <key> <shape name> <vp ids...>
        long key = tol(tok.at(1));
        int s = -1;
        for (int i = 0; i < kShapes; ++i) {
            if (tok.at(2) == kShapeNames[i]) {
                s = i;
            }
        }
        if (s < 0) {
            emit("!harness unknown shape");
            return;
        }
        MethodSlot* slot = nullptr;
        for (auto& ms : slots_) {
            if (ms.shape != s) {
                continue;
            }
            bool taken = false;
            for (auto& [k, r] : methods_) {
                taken = taken || r.slot == &ms;
            }
            if (!taken) {
                slot = &ms;
                break;
            }
        }
        if (!slot) {
            emit("!harness no free method of this shape");
            return;
        }
        auto& mr = methods_[key];
        mr.slot = slot;
        for (std::size_t i = 3; i < tok.size(); ++i) {
            mr.vp.push_back(make_id(toid(tok[i])));
        }
        auto n = mr.vp.size();
        mr.vp.push_back(0);
        slot->info->vp_begin = mr.vp.data();
        slot->info->vp_end = mr.vp.data() + n;
        Policy::methods.push_back(*slot->info);
    } else if (cmd == "unmethod") {
        long key = tol(tok.at(1));
        auto it = methods_.find(key);
        if (it != methods_.end()) {
            it->second.slot->info->specs.clear();
            Policy::methods.remove(*it->second.slot->info);
            methods_.erase(it);
        }
    } else if (cmd == "def") {
        // def <key> <defid> <vp ids...>
        long key = tol(tok.at(1));
        long def = tol(tok.at(2));
        auto it = methods_.find(key);
        if (it == methods_.end()) {
            emit("!harness def of unknown method");
            return;
        }
        auto& mr = it->second;
        int j = 0;
        while (j < kDefs && mr.j_def.count(j)) {
            ++j;
        }
        if (j == kDefs || used_def_infos_ >= kMaxDefInfos) {
            emit("!harness out of definitions");
            return;
        }
        mr.def_j[def] = j;
        mr.j_def[j] = def;
        auto& vp = mr.def_vp[j];
        vp.clear();
        for (std::size_t i = 3; i < tok.size(); ++i) {
            vp.push_back(make_id(toid(tok[i])));
        }
        auto n = vp.size();
        vp.push_back(0);
        auto info = new (def_storage[used_def_infos_++]) detail::definition_info();
        info->method = nullptr; // only used by the destructor
        info->type = 0;
        *mr.slot->next[j] = nullptr;
        info->next = mr.slot->next[j];
        info->vp_begin = vp.data();
        info->vp_end = vp.data() + n;
        info->pf = mr.slot->pool[j];
        mr.def_info[j] = info;
        mr.slot->info->specs.push_back(*info);
    } else if (cmd == "ghostdefs") {
        // ghostdefs <key> <n> <vp ids...> : n more definitions of the method, all with the same
        // parameter classes and sharing the function of the method's first pool entry. With n >= 2 they
        // are ambiguous among themselves, so no call ever runs one: they only occupy definition indices.
        long key = tol(tok.at(1));
        long n = tol(tok.at(2));
        auto it = methods_.find(key);
        if (it == methods_.end()) {
            emit("!harness ghostdefs of unknown method");
            return;
        }
        auto& mr = it->second;
        auto vp = new std::vector<type_id>();
        for (std::size_t i = 3; i < tok.size(); ++i) {
            vp->push_back(make_id(toid(tok[i])));
        }
        auto nvp = vp->size();
        vp->push_back(0);
        for (long i = 0; i < n; ++i) {
            auto info = new (::operator new(sizeof(detail::definition_info))) detail::definition_info();
            info->method = nullptr;
            info->type = 0;
            info->next = new void*(nullptr);
            info->vp_begin = vp->data();
            info->vp_end = vp->data() + nvp;
            info->pf = mr.slot->pool[0];
            mr.slot->info->specs.push_back(*info);
        }
    } else if (cmd == "undef") {
        long key = tol(tok.at(1));
        long def = tol(tok.at(2));
        auto it = methods_.find(key);
        if (it == methods_.end()) {
            return;
        }
        auto& mr = it->second;
        auto f = mr.def_j.find(def);
        if (f == mr.def_j.end()) {
            return;
        }
        int j = f->second;
        mr.slot->info->specs.remove(*mr.def_info[j]);
        mr.def_info.erase(j);
        mr.j_def.erase(j);
        mr.def_j.erase(f);
    } else if (cmd == "vnew" || cmd == "vfinal") {
        // vnew <name> <id> : virtual_ptr built from a reference; vfinal: with final
        auto& var = vars_[tok.at(1)];
        var.vp.reset();
        var.obj = std::make_shared<Obj>(toid(tok.at(2)));
        bool ok = guarded(*this, "", [&] {
            if (cmd == "vnew") {
                var.vp.emplace(*var.obj);
            } else {
                var.vp.emplace(virtual_ptr<Obj, Policy>::final(*var.obj));
            }
        });
        if (ok) {
            emit(var.vp->get() == var.obj.get() ? "vptr ok" : "vptr BADOBJ");
        }
    } else if (cmd == "vcopy" || cmd == "vmove") {
        auto src = vars_.find(tok.at(2));
        if (src == vars_.end() || !src->second.vp) {
            emit("!harness bad virtual_ptr variable");
            return;
        }
        auto& dst = vars_[tok.at(1)];
        dst.vp.reset();
        dst.obj = src->second.obj;
        if (cmd == "vcopy") {
            dst.vp.emplace(*src->second.vp);
        } else {
            virtual_ptr<Obj, Policy> tmp(*src->second.vp);
            dst.vp.emplace(std::move(tmp));
        }
        // the copy points to the source's object: keep that object alive through dst too
        emit(dst.vp->get() == src->second.obj.get() ? "vptr ok" : "vptr BADOBJ");
    } else if (cmd == "lookup") {
        // lookup <id>: Policy::dynamic_vptr on an object of that dynamic type
        if (!comp_) {
            emit("skipped: no completed update");
            return;
        }
        Obj o(toid(tok.at(1)));
        guarded(*this, "", [&] {
            const std::uintptr_t* p = Policy::dynamic_vptr(o);
            emit("vptr " + std::to_string(p - Policy::dispatch_data.data()));
        });
    } else if (cmd == "update") {
        do_update();
    } else if (cmd == "dump") {
        do_dump();
    } else if (cmd == "offsets") {
        do_offsets();
    } else if (cmd == "encode") {
        do_encode();
    } else if (cmd == "decode") {
        do_decode();
    } else if (cmd == "cmpmatrix") {
        // the real is_more_specific / is_base on every pair of definitions of every method (row-major, specs order)
        if (!comp_) {
            emit("cmp none");
        } else {
            for (auto& m : comp_->methods) {
                long key = -1;
                for (auto& [k, r] : methods_) {
                    if (r.slot->info == m.info) {
                        key = k;
                    }
                }
                std::string ms, base;
                for (auto& a : m.specs) {
                    for (auto& b : m.specs) {
                        ms += detail::compiler<Policy>::is_more_specific(&a, &b) ? '1' : '0';
                        base += detail::compiler<Policy>::is_base(&a, &b) ? '1' : '0';
                    }
                }
                // best() on every prefix and every suffix of the method's definitions: positions of what it returns
                std::string bests;
                auto run_best = [&](std::size_t from, std::size_t to) {
                    std::vector<const detail::generic_compiler::definition*> cands;
                    for (std::size_t i = from; i < to; ++i) {
                        cands.push_back(&m.specs[i]);
                    }
                    auto r = detail::compiler<Policy>::best(cands);
                    std::string out;
                    for (auto d : r) {
                        if (!out.empty()) {
                            out += '.';
                        }
                        out += std::to_string(d - &m.specs[0]);
                    }
                    bests += (bests.empty() ? "" : "|") + out;
                };
                for (std::size_t k = 1; k <= m.specs.size(); ++k) {
                    run_best(0, k);
                }
                for (std::size_t k = 1; k < m.specs.size(); ++k) {
                    run_best(k, m.specs.size());
                }
                emit("cmp " + std::to_string(key) + " n=" + std::to_string(m.specs.size()) + " ms=" + ms + " base=" + base + " best=" + bests);
            }
        }
    } else if (cmd == "call" || cmd == "vcall") {
        do_call(tok, false, 0);
    } else if (cmd == "callfinal") {
        do_call(tok, false, 1);
    } else if (cmd == "callnext") {
        do_call(tok, true, 0);
    } else {
        emit("!harness unknown op " + cmd);
    }
}

} // namespace verif

#endif
