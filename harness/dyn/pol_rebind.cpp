#include "hdyn.hpp"
namespace verif {
// policies obtained from others by rebind (C14): same facets, own key
struct p_fast_src : policy::basic_policy<p_fast_src, dyn_rtti<0>, policy::fast_perfect_hash<p_fast_src>, policy::vptr_vector<p_fast_src>, policy::vectored_error<p_fast_src>> {};
struct p_fastB : p_fast_src::rebind<p_fastB> {};
struct p_fastC : p_fastB::rebind<p_fastC> {};
struct p_checked_src : policy::basic_policy<p_checked_src, dyn_rtti<0>, policy::checked_perfect_hash<p_checked_src>, policy::vptr_vector<p_checked_src>, policy::vectored_error<p_checked_src>> {};
struct p_checkedB : p_checked_src::rebind<p_checkedB> {};
static Engine<p_fast_src> engine_fastA("fastA");
static Engine<p_fastB> engine_fastB("fastB");
static Engine<p_fastC> engine_fastC("fastC");
static Engine<p_checkedB> engine_checkedB("checkedB");
}
