#include "hdyn.hpp"
namespace verif {
struct p_map : policy::basic_policy<p_map, dyn_rtti<0>, policy::vptr_map<p_map>, policy::throw_error> {};
static Engine<p_map> engine_map("map");
}
