#include "hdyn.hpp"
namespace verif {
struct p_backward : policy::basic_policy<p_backward, dyn_rtti<0>, policy::fast_perfect_hash<p_backward>, policy::vptr_vector<p_backward>, policy::backward_compatible_error_handler<p_backward>> {};
static Engine<p_backward> engine_backward("backward");
}
