// H-dyn driver: reads scripts from stdin, runs each in a forked child, prints canonical output.
#include "hdyn.hpp"

#include <csignal>
#include <iostream>
#include <sys/wait.h>
#include <unistd.h>

namespace verif {

std::string g_out;
std::string g_abort_note;
type_id g_obj_static_id = static_cast<type_id>(-2); // none
type_id g_id_table[kIdFns];
type_id g_tag_ids[kTags];
template<int... I>
static void fill_tags(std::integer_sequence<int, I...>) {
    ((g_tag_ids[I] = reinterpret_cast<type_id>(&typeid(Tag<I>))), ...);
}
std::vector<Ran> g_ran;
std::vector<std::uintptr_t> g_passed;
bool g_follow_next = false;
bool g_next_null = false;
const char* const kShapeNames[] = {"V",    "P",   "NV",   "VN",   "VV", "PV", "VNV",
                                   "NVVN", "VVV", "VPNV", "VVVV", "PP"};

template<int... I>
static void fill_idfns(std::integer_sequence<int, I...>) {
    ((g_idfns[I] = &idfn<I>), ...);
}
idfn_t g_idfns[kIdFns];

void emit(const std::string& line) {
    g_out += line;
    g_out += '\n';
}

static std::map<std::string, EngineBase*>& engines() {
    static std::map<std::string, EngineBase*> m;
    return m;
}

void register_engine(const char* name, EngineBase* e) {
    engines()[name] = e;
}

EngineBase* find_engine(const std::string& name) {
    auto it = engines().find(name);
    return it == engines().end() ? nullptr : it->second;
}

} // namespace verif

using namespace verif;

// ---- static_list ops (policy independent): nodes live in zero-initialised static storage
struct LNode : yorel::yomm2::detail::static_list<LNode>::static_link {
    LNode* prev() {
        return prev_ptr;
    }
};
static yorel::yomm2::detail::static_list<LNode> g_list;
static LNode g_nodes[64];

static bool fwd_op(const std::vector<std::string>& tok, const std::string& line) {
    auto esc = [](const std::string& text) {
        std::string out;
        for (char c : text) {
            if (c == '\n') {
                out += "|";
            } else {
                out += c;
            }
        }
        return out;
    };
    if (tok[0] == "fwd-names") {
        // fwd-names a::b::C d::E ... : qualified names given directly
        yorel::yomm2::generator g;
        for (std::size_t i = 1; i < tok.size(); ++i) {
            g.add_forward_declaration(std::string_view(tok[i]));
        }
        std::ostringstream os;
        g.write_forward_declarations(os);
        emit("fwd " + esc(os.str()));
        return true;
    }
    if (tok[0] == "fwd-type") {
        // fwd-type <type description up to the end of the line>
        yorel::yomm2::generator g;
        auto pos = line.find("fwd-type");
        std::string type = line.substr(pos + 8);
        while (!type.empty() && type[0] == ' ') type.erase(0, 1);
        g.add_forward_declaration(std::string_view(type));
        std::ostringstream os;
        g.write_forward_declarations(os);
        emit("fwd " + esc(os.str()));
        return true;
    }
    return false;
}

static bool list_op(const std::vector<std::string>& tok) {
    auto idx = [](LNode* p) -> long { return p ? long(p - g_nodes) + 1 : 0; };
    if (tok[0] == "lpush") {
        g_list.push_back(g_nodes[std::stol(tok.at(1)) - 1]);
    } else if (tok[0] == "lremove") {
        g_list.remove(g_nodes[std::stol(tok.at(1)) - 1]);
    } else if (tok[0] == "lclear") {
        g_list.clear();
    } else if (tok[0] == "ldump") {
        std::vector<long> items;
        for (auto& n : g_list) {
            items.push_back(idx(&n));
            if (items.size() > 200) {
                break;
            }
        }
        std::ostringstream os;
        os << "list " << list(items) << " size=" << g_list.size() << " empty=" << (g_list.empty() ? 1 : 0)
           << " links=[";
        long maxn = std::stol(tok.size() > 1 ? tok[1] : "8");
        const char* sep = "";
        for (long i = 0; i < maxn; ++i) {
            os << sep << idx(g_nodes[i].prev()) << "/" << idx(g_nodes[i].next());
            sep = ",";
        }
        os << "]";
        emit(os.str());
    } else {
        return false;
    }
    return true;
}

static std::vector<std::string> split(const std::string& line) {
    std::vector<std::string> tok;
    std::istringstream is(line);
    std::string t;
    while (is >> t) {
        tok.push_back(t);
    }
    return tok;
}

static void flush_out(int fd) {
    const char* p = g_out.data();
    std::size_t n = g_out.size();
    while (n > 0) {
        auto w = ::write(fd, p, n);
        if (w <= 0) {
            break;
        }
        p += w;
        n -= w;
    }
    g_out.clear();
}

static int g_fd = 1;
static void on_abort(int) {
    // async-signal-safe enough for a dying test process: write what is pending, then die by SIGABRT
    if (!g_abort_note.empty()) {
        (void)!::write(g_fd, g_abort_note.data(), g_abort_note.size());
    }
    std::signal(SIGABRT, SIG_DFL);
    std::raise(SIGABRT);
}

static void run_script(const std::vector<std::string>& lines, int fd) {
    g_fd = fd;
    std::signal(SIGABRT, on_abort);
    EngineBase* cur = nullptr;
    std::map<std::string, bool> seen;
    for (auto& line : lines) {
        auto tok = split(line);
        if (tok.empty() || tok[0][0] == '#') {
            continue;
        }
        if (tok[0] == "policy") {
            cur = find_engine(tok.at(1));
            if (!cur) {
                emit("!harness unknown policy " + tok.at(1));
            } else if (!seen[tok[1]]) {
                seen[tok[1]] = true;
                cur->reset();
            }
        } else if (list_op(tok) || fwd_op(tok, line)) {
        } else if (tok[0] == "echo") {
            emit("@" + (tok.size() > 1 ? tok[1] : std::string()));
        } else if (tok[0] == "rng") {
            // model-only line
        } else if (!cur) {
            emit("!harness no policy selected");
        } else {
            try {
                cur->op(tok);
            } catch (const std::exception& e) {
                emit(std::string("!harness exception ") + e.what());
            }
        }
        flush_out(fd);
    }
}

int main(int argc, char** argv) {
    fill_idfns(std::make_integer_sequence<int, kIdFns>{});
    fill_tags(std::make_integer_sequence<int, kTags>{});
    bool nofork = argc > 1 && std::string(argv[1]) == "--nofork";
    std::string line, name;
    std::vector<std::string> lines;
    bool have = false;
    auto finish = [&]() {
        if (!have) {
            return;
        }
        std::cout << "--- " << name << "\n" << std::flush;
        if (nofork) {
            run_script(lines, 1);
        } else {
            int fds[2];
            if (pipe(fds) != 0) {
                perror("pipe");
                exit(2);
            }
            pid_t pid = fork();
            if (pid == 0) {
                close(fds[0]);
                run_script(lines, fds[1]);
                _exit(0);
            }
            close(fds[1]);
            char buf[65536];
            ssize_t n;
            std::string out;
            while ((n = read(fds[0], buf, sizeof buf)) > 0) {
                out.append(buf, n);
            }
            close(fds[0]);
            int status = 0;
            waitpid(pid, &status, 0);
            if (!out.empty() && out.back() != '\n') {
                out += '\n';
            }
            std::cout << out;
            if (WIFSIGNALED(status)) {
                std::cout << "!signal " << WTERMSIG(status) << "\n";
            } else if (WIFEXITED(status) && WEXITSTATUS(status) != 0) {
                std::cout << "!exit " << WEXITSTATUS(status) << "\n";
            }
        }
        std::cout << std::flush;
        lines.clear();
    };
    while (std::getline(std::cin, line)) {
        if (line.rfind("--- ", 0) == 0) {
            finish();
            name = line.substr(4);
            have = true;
        } else {
            lines.push_back(line);
        }
    }
    finish();
    return 0;
}
