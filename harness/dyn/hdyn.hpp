// H-dyn: in-process dynamic registry harness for yomm2 (see DESIGN.md 3.3).
// Builds class_info / method_info / definition_info catalogs at run time over a universal object
// type with custom RTTI, runs the real update<Policy>() and the real method::operator(), and prints
// canonical lines that the Lean driver must reproduce.
#ifndef VERIF_HDYN_HPP
#define VERIF_HDYN_HPP

#include <yorel/yomm2/core.hpp>
#include <yorel/yomm2/generator.hpp>

#include <algorithm>
#include <cstdio>
#include <cstring>
#include <functional>
#include <map>
#include <memory>
#include <optional>
#include <random>
#include <sstream>
#include <string>
#include <vector>

namespace verif {

using namespace yorel::yomm2;
using yorel::yomm2::type_id;

struct Obj {
    type_id type;
    explicit Obj(type_id t = 0) : type(t) {
    }
    virtual ~Obj() {
    }
};

// ---------------------------------------------------------------------------------------------
// output

extern std::string g_out;
extern std::string g_abort_note; // written by the SIGABRT handler before the process dies
void emit(const std::string& line);

template<typename T>
std::string list(const std::vector<T>& v) {
    std::ostringstream os;
    os << "[";
    const char* sep = "";
    for (auto& x : v) {
        os << sep << x;
        sep = ",";
    }
    os << "]";
    return os.str();
}

// ---------------------------------------------------------------------------------------------
// RTTI facets. Ids are plain integers carried by the object.

extern type_id g_obj_static_id; // what static_type<Obj>() answers (script op `static`)

template<int Proj>
struct dyn_rtti : virtual policy::rtti {
    template<typename T>
    static type_id static_type() {
        if constexpr (std::is_same_v<T, Obj>) {
            return g_obj_static_id;
        } else {
            static char id;
            return reinterpret_cast<type_id>(&id);
        }
    }

    template<typename T>
    static type_id dynamic_type(const T& obj) {
        if constexpr (std::is_base_of_v<Obj, T>) {
            return obj.type;
        } else {
            // what std_rtti would answer for an object that is not of a registered hierarchy
            static char id;
            return reinterpret_cast<type_id>(&id);
        }
    }

    template<typename Stream>
    static void type_name(type_id type, Stream& stream) {
        stream << "type_id(" << type << ")";
    }

    static type_id type_index(type_id type) {
        if constexpr (Proj == 1) {
            return type / 8;
        } else {
            return type;
        }
    }

    template<typename D, typename B>
    static D dynamic_cast_ref(B&& obj) {
        return static_cast<D>(obj);
    }
};

struct dyn_deferred_rtti : virtual policy::deferred_static_rtti {
    template<typename T>
    static type_id static_type() {
        if constexpr (std::is_same_v<T, Obj>) {
            return g_obj_static_id;
        } else {
            static char id;
            return reinterpret_cast<type_id>(&id);
        }
    }

    template<typename T>
    static type_id dynamic_type(const T& obj) {
        if constexpr (std::is_base_of_v<Obj, T>) {
            return obj.type;
        } else {
            // what std_rtti would answer for an object that is not of a registered hierarchy
            static char id;
            return reinterpret_cast<type_id>(&id);
        }
    }

    template<typename Stream>
    static void type_name(type_id type, Stream& stream) {
        stream << "type_id(" << type << ")";
    }

    static type_id type_index(type_id type) {
        return type;
    }

    template<typename D, typename B>
    static D dynamic_cast_ref(B&& obj) {
        return static_cast<D>(obj);
    }
};

// RTTI facet for the generator ops: class ids are pointers to std::type_info of tag types, so
// that the generator can demangle names; scripts use tag numbers, translated by IdMap
template<int I>
struct Tag {};
constexpr int kTags = 64;
extern type_id g_tag_ids[kTags];

struct tag_rtti : virtual policy::rtti {
    template<typename T>
    static type_id static_type() {
        if constexpr (std::is_same_v<T, Obj>) {
            return g_obj_static_id;
        } else {
            return reinterpret_cast<type_id>(&typeid(T));
        }
    }
    template<typename T>
    static type_id dynamic_type(const T& obj) {
        if constexpr (std::is_base_of_v<Obj, T>) {
            return obj.type;
        } else {
            // what std_rtti would answer for an object that is not of a registered hierarchy
            static char id;
            return reinterpret_cast<type_id>(&id);
        }
    }
    template<typename Stream>
    static void type_name(type_id type, Stream& stream) {
        stream << reinterpret_cast<const std::type_info*>(type)->name();
    }
    static type_id type_index(type_id type) {
        return type;
    }
    template<typename D, typename B>
    static D dynamic_cast_ref(B&& obj) {
        return static_cast<D>(obj);
    }
};

// translation between script ids and type ids; specialised for the generator policies
template<class Policy, class = void>
struct IdMap {
    static constexpr bool gen = false;
    static type_id in(type_id n) {
        return n;
    }
    static type_id out(type_id p) {
        return p;
    }
};

template<class Policy>
struct IdMap<Policy, std::enable_if_t<std::is_base_of_v<tag_rtti, Policy>>> {
    static constexpr bool gen = true;
    static type_id in(type_id n) {
        return n < kTags ? g_tag_ids[n] : n;
    }
    static type_id out(type_id p) {
        for (int i = 0; i < kTags; ++i) {
            if (g_tag_ids[i] == p) {
                return i;
            }
        }
        return p;
    }
};

// deferred ids: a pool of functions returning ids from a table
constexpr int kIdFns = 512;
extern type_id g_id_table[kIdFns];
template<int I>
type_id idfn() {
    return g_id_table[I];
}
using idfn_t = type_id (*)();
extern idfn_t g_idfns[kIdFns];

// ---------------------------------------------------------------------------------------------
// shapes

struct V {};
struct P {};
struct N {};

template<class Policy, class Tag>
struct param;
template<class Policy>
struct param<Policy, V> {
    using decl = virtual_<Obj&>;
    using arg = Obj&;
};
template<class Policy>
struct param<Policy, P> {
    using decl = virtual_ptr<Obj, Policy>;
    using arg = virtual_ptr<Obj, Policy>;
};
template<class Policy>
struct param<Policy, N> {
    using decl = int;
    using arg = int;
};

template<class... Tags>
struct shape {};

// the menu of signature shapes (index = shape number in scripts, by name)
using shapes = detail::types<
    shape<V>, shape<P>, shape<N, V>, shape<V, N>, shape<V, V>, shape<P, V>, shape<V, N, V>,
    shape<N, V, V, N>, shape<V, V, V>, shape<V, P, N, V>, shape<V, V, V, V>, shape<P, P>>;
extern const char* const kShapeNames[];
constexpr int kShapes = 12;
constexpr int kKeys = 3; // methods per shape
constexpr int kDefs = 8; // definitions per method

template<int S, int K>
struct key {};

// what a definition observed
struct Ran {
    int j;
    std::vector<std::uintptr_t> args;
};
extern std::vector<Ran> g_ran;
extern std::vector<std::uintptr_t> g_passed;
extern bool g_follow_next;
extern bool g_next_null; // a definition asked to call next found its next cell null (a real one would crash)

inline std::uintptr_t arg_repr(Obj& o) {
    return reinterpret_cast<std::uintptr_t>(&o);
}
inline std::uintptr_t arg_repr(int i) {
    return static_cast<std::uintptr_t>(i);
}
template<class Policy>
std::uintptr_t arg_repr(const virtual_ptr<Obj, Policy>& p) {
    return reinterpret_cast<std::uintptr_t>(p.get());
}

struct CaughtOld {
    int code;
    std::size_t arity;
    std::vector<type_id> types;
};

struct Caught {
    error_type err;
};

// ---------------------------------------------------------------------------------------------

struct EngineBase {
    virtual ~EngineBase() {
    }
    virtual void op(const std::vector<std::string>& tok) = 0;
    virtual void reset() = 0;
    virtual std::string name() const = 0;
};

void register_engine(const char* name, EngineBase* e);
EngineBase* find_engine(const std::string& name);

template<class Policy>
struct PolicyTraits {
    static constexpr bool hashed = Policy::template has_facet<policy::type_hash>;
    static constexpr bool checked = Policy::template has_facet<policy::runtime_checks>;
    static constexpr bool indirect = Policy::template has_facet<policy::indirect_vptr>;
    static constexpr bool deferred = std::is_base_of_v<policy::deferred_static_rtti, Policy>;
};

template<class T, class = void>
struct has_type_resolved : std::false_type {};
template<class T>
struct has_type_resolved<T, std::void_t<decltype(std::declval<T&>().type_resolved)>> : std::true_type {};
template<class Info>
void clear_type_resolved(Info& info) {
    if constexpr (has_type_resolved<Info>::value) {
        info.type_resolved = false;
    }
}

template<class T, class = void>
struct has_control : std::false_type {};
template<class T>
struct has_control<T, std::void_t<decltype(T::control)>> : std::true_type {};

template<class T, class = void>
struct has_call_error : std::false_type {};
template<class T>
struct has_call_error<T, std::void_t<decltype(T::call_error)>> : std::true_type {};

template<class T, class = void>
struct has_vectored : std::false_type {};
template<class T>
struct has_vectored<T, std::void_t<decltype(T::error = error_handler_type())>> : std::true_type {};

template<class T, class = void>
struct vptrs_is_map : std::false_type {};
template<class T>
struct vptrs_is_map<T, std::void_t<typename decltype(T::vptrs)::mapped_type>> : std::true_type {};

template<class Policy>
struct Engine : EngineBase {
    using compiler_t = detail::compiler<Policy>;

    // ---- per (shape, key) method instance, type-erased
    struct MethodSlot {
        detail::method_info* info;
        int shape;
        int k;
        void* pool[kDefs];                        // definition functions
        void** next[kDefs];                       // addresses of the `next` cells
        std::function<int(const std::vector<type_id>&, int route, const std::vector<const void*>& pre)> call;
        std::vector<int> kinds; // 0 V, 1 P, 2 N
    };

    std::vector<MethodSlot> slots_; // kShapes * kKeys

    // ---- run-time state
    struct ClassRecord {
        detail::class_info* info;
        std::vector<type_id> bases; // storage for first_base..last_base (+ flag word when deferred)
        int id_fn = -1;
    };
    std::map<long, ClassRecord> classes_; // by handle

    struct MethodRecord {
        MethodSlot* slot;
        std::vector<type_id> vp; // storage (+ flag word when deferred)
        std::map<long, int> def_j;              // def id -> pool index
        std::map<int, long> j_def;              // pool index -> def id
        std::map<int, std::vector<type_id>> def_vp; // storage
        std::map<int, detail::definition_info*> def_info;
    };
    std::map<long, MethodRecord> methods_; // by key

    struct Var {
        std::shared_ptr<Obj> obj;
        std::optional<virtual_ptr<Obj, Policy>> vp;
    };
    std::map<std::string, Var> vars_;
    std::optional<compiler_t> comp_;
    std::string name_;
    bool handler_returns_ = false;
    int next_id_fn_ = 0;

    // static storage for registration nodes (links rely on zero-initialised storage)
    static constexpr int kMaxClassInfos = 4096;
    static constexpr int kMaxDefInfos = 8192;
    int used_class_infos_ = 0, used_def_infos_ = 0;
    alignas(detail::class_info) static unsigned char class_storage[kMaxClassInfos][sizeof(detail::class_info)];
    alignas(detail::definition_info) static unsigned char def_storage[kMaxDefInfos][sizeof(detail::definition_info)];
    static std::uintptr_t* cells[4096];
    std::map<type_id, int> cell_of_key_;

    explicit Engine(const char* name);

    std::string name() const override {
        return name_;
    }

    template<int S, int K, class... Tags>
    void make_slot(shape<Tags...>);
    template<int S, int K>
    void make_slots_k();
    template<int S>
    void make_slots_s();

    void reset() override;
    void op(const std::vector<std::string>& tok) override;

    std::uintptr_t** cell_for(type_id id) {
        type_id key = Policy::type_index(id);
        if (g_obj_static_id != static_cast<type_id>(-2) && key == Policy::type_index(g_obj_static_id)) {
            return &Policy::template static_vptr<Obj>;
        }
        auto it = cell_of_key_.find(key);
        if (it == cell_of_key_.end()) {
            int n = (int)cell_of_key_.size();
            it = cell_of_key_.emplace(key, n).first;
        }
        return &cells[it->second];
    }

    type_id make_id(type_id id, ClassRecord* rec = nullptr) {
        if constexpr (PolicyTraits<Policy>::deferred) {
            if (next_id_fn_ >= kIdFns) { emit("!harness out of deferred id functions"); next_id_fn_ = 0; }
            int f = next_id_fn_++;
            g_id_table[f] = id;
            return reinterpret_cast<type_id>(g_idfns[f]);
        } else {
            return id;
        }
    }

    void install_handlers();
    void do_offsets();
    void do_encode();
    void do_decode();
    std::string last_encoded_;
    void do_update();
    void do_dump();
    void do_call(const std::vector<std::string>& tok, bool follow_next, int route);
    std::string classify(std::uintptr_t w);
    std::string describe_fn(void* pf);
    void report_error(const error_type& e, const char* prefix);
};

template<class Policy>
alignas(detail::class_info) unsigned char Engine<Policy>::class_storage[kMaxClassInfos][sizeof(detail::class_info)];
template<class Policy>
alignas(detail::definition_info) unsigned char Engine<Policy>::def_storage[kMaxDefInfos][sizeof(detail::definition_info)];
template<class Policy>
std::uintptr_t* Engine<Policy>::cells[4096];

// the pool of definition functions
template<class Policy, int S, int K, int J, class... Tags>
struct DefFn {
    static void* next_cell; // what definition_info::next points to
    static int fn(typename param<Policy, Tags>::arg... a) {
        Ran r;
        r.j = J;
        (r.args.push_back(arg_repr(a)), ...);
        g_ran.push_back(r);
        if (g_follow_next && !next_cell) {
            g_next_null = true;
        }
        if (g_follow_next && next_cell) {
            using fp = int (*)(typename param<Policy, Tags>::arg...);
            return reinterpret_cast<fp>(next_cell)(std::forward<typename param<Policy, Tags>::arg>(a)...);
        }
        return J;
    }
};
template<class Policy, int S, int K, int J, class... Tags>
void* DefFn<Policy, S, K, J, Tags...>::next_cell = nullptr;

template<class Policy>
template<int S, int K, class... Tags>
void Engine<Policy>::make_slot(shape<Tags...>) {
    using M = method<key<S, K>, int(typename param<Policy, Tags>::decl...), Policy>;
    MethodSlot ms;
    ms.info = &M::fn;
    ms.shape = S;
    ms.k = K;
    ms.kinds = {(std::is_same_v<Tags, V> ? 0 : std::is_same_v<Tags, P> ? 1 : 2)...};
    auto fill = [&](auto... js) {
        ((ms.pool[decltype(js)::value] =
              (void*)DefFn<Policy, S, K, decltype(js)::value, Tags...>::fn,
          ms.next[decltype(js)::value] =
              &DefFn<Policy, S, K, decltype(js)::value, Tags...>::next_cell),
         ...);
    };
    fill(
        std::integral_constant<int, 0>{}, std::integral_constant<int, 1>{},
        std::integral_constant<int, 2>{}, std::integral_constant<int, 3>{},
        std::integral_constant<int, 4>{}, std::integral_constant<int, 5>{},
        std::integral_constant<int, 6>{}, std::integral_constant<int, 7>{});
    // route: 0 = virtual_ptr arguments built from a reference; 1 = built with final
    ms.call = [](const std::vector<type_id>& ids, int route, const std::vector<const void*>& pre) -> int {
        std::vector<std::unique_ptr<Obj>> objs;
        std::size_t next_id = 0;
        int pos = 0;
        auto make_arg = [&](auto tag) -> decltype(auto) {
            using Tag = decltype(tag);
            ++pos;
            if constexpr (std::is_same_v<Tag, N>) {
                return 100 + pos;
            } else {
                if constexpr (std::is_same_v<Tag, P>) {
                    if (std::size_t(pos) <= pre.size() && pre[pos - 1]) {
                        // an existing virtual_ptr: copy it
                        ++next_id;
                        return virtual_ptr<Obj, Policy>(
                            *static_cast<const virtual_ptr<Obj, Policy>*>(pre[pos - 1]));
                    }
                }
                objs.push_back(std::make_unique<Obj>(ids.at(next_id++)));
                if constexpr (std::is_same_v<Tag, V>) {
                    return static_cast<Obj&>(*objs.back());
                } else {
                    if (route == 1) {
                        return virtual_ptr<Obj, Policy>::final(*objs.back());
                    }
                    return virtual_ptr<Obj, Policy>(*objs.back());
                }
            }
        };
        // evaluation order of braced init lists is left to right
        std::tuple<typename param<Policy, Tags>::arg...> args{make_arg(Tags{})...};
        g_passed.clear();
        std::apply([](auto&... a) { (g_passed.push_back(arg_repr(a)), ...); }, args);
        return std::apply([](auto&... a) -> int { return M::fn(a...); }, args);
    };
    slots_.push_back(std::move(ms));
}

template<class Policy>
template<int S, int K>
void Engine<Policy>::make_slots_k() {
    make_slot<S, K>(boost::mp11::mp_at_c<shapes, S>{});
    if constexpr (K + 1 < kKeys) {
        make_slots_k<S, K + 1>();
    }
}

template<class Policy>
template<int S>
void Engine<Policy>::make_slots_s() {
    make_slots_k<S, 0>();
    if constexpr (S + 1 < kShapes) {
        make_slots_s<S + 1>();
    }
}

} // namespace verif

#include "hdyn_impl.hpp"

#endif
