#include "hdyn.hpp"
namespace verif {
struct p_checked : policy::basic_policy<p_checked, dyn_rtti<0>, policy::checked_perfect_hash<p_checked>, policy::vptr_vector<p_checked>, policy::vectored_error<p_checked>> {};
static Engine<p_checked> engine_checked("checked");
}
