#include "hdyn.hpp"
namespace verif {
struct p_proj : policy::basic_policy<p_proj, dyn_rtti<1>, policy::checked_perfect_hash<p_proj>, policy::vptr_vector<p_proj>, policy::vectored_error<p_proj>> {};
static Engine<p_proj> engine_proj("proj");
}
