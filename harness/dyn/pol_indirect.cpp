#include "hdyn.hpp"
namespace verif {
struct p_indirect : policy::basic_policy<p_indirect, dyn_rtti<0>, policy::fast_perfect_hash<p_indirect>, policy::vptr_vector<p_indirect>, policy::basic_indirect_vptr<p_indirect>, policy::vectored_error<p_indirect>> {};
static Engine<p_indirect> engine_indirect("indirect");
}
