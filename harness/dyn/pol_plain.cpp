#include "hdyn.hpp"
namespace verif {
struct p_plain : policy::basic_policy<p_plain, dyn_rtti<0>, policy::vptr_vector<p_plain>, policy::throw_error> {};
static Engine<p_plain> engine_plain("plain");
}
