#include "hdyn.hpp"
namespace verif {
struct p_fast : policy::basic_policy<p_fast, dyn_rtti<0>, policy::fast_perfect_hash<p_fast>, policy::vptr_vector<p_fast>, policy::vectored_error<p_fast>> {};
static Engine<p_fast> engine_fast("fast");
}
