#include "hdyn.hpp"
namespace verif {
struct p_deferred : policy::basic_policy<p_deferred, dyn_deferred_rtti, policy::checked_perfect_hash<p_deferred>, policy::vptr_vector<p_deferred>, policy::vectored_error<p_deferred>> {};
static Engine<p_deferred> engine_deferred("deferred");
}
