// Translation unit read by tools/cpp2lean.py: instantiates every member of static_list<T> for one node
// type, so that clang's AST holds the fully typed bodies of push_back / remove / clear / empty.
#include <yorel/yomm2/detail/static_list.hpp>

namespace verif {
struct node : yorel::yomm2::detail::static_list<node>::static_link {};
} // namespace verif

template class yorel::yomm2::detail::static_list<verif::node>;
