// Translation unit read by tools/cpp2lean.py: instantiates compiler<Policy>::is_more_specific / is_base / best
// (they are used by update) so that clang's AST holds their fully typed bodies.
#include <yorel/yomm2/core.hpp>
#include <yorel/yomm2/detail/compiler.hpp>

struct verif_xlate_policy : yorel::yomm2::policy::release::rebind<verif_xlate_policy> {};
template struct yorel::yomm2::detail::compiler<verif_xlate_policy>;
