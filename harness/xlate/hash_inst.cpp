// Translation unit read by tools/cpp2lean.py: instantiates the two hash_type_id functions of
// policies/fast_perfect_hash.hpp (the call-time lookup of a type id, plain and checked).
#include <yorel/yomm2/core.hpp>

struct verif_xlate_hash_policy : yorel::yomm2::policy::debug::rebind<verif_xlate_hash_policy> {};
template struct yorel::yomm2::policy::fast_perfect_hash<verif_xlate_hash_policy>;
template struct yorel::yomm2::policy::checked_perfect_hash<verif_xlate_hash_policy>;
