// H-tsan: N threads dispatching through every route on shared registries while another thread
// updates an unrelated policy. Built with -fsanitize=thread; per-thread results are compared with
// the sequential ones. Also the translation unit whose AST the write-effect extractor reads.
#include <yorel/yomm2/keywords.hpp>
#include <atomic>
#include <map>
#include <cstdio>
#include <cstdlib>
#include <memory>
#include <thread>
#include <vector>
using namespace yorel::yomm2;
struct Animal { virtual ~Animal() {} };
struct Dog : Animal {};
struct Cat : Animal {};
struct Bulldog : Dog {};
struct P1 : policy::release::rebind<P1>::replace<policy::error_handler, policy::throw_error> {};
struct P2 : policy::debug::rebind<P2>::replace<policy::error_handler, policy::throw_error> {};
struct P3 : policy::basic_policy<P3, policy::std_rtti, policy::vptr_map<P3>, policy::throw_error> {};
struct P4 : policy::basic_policy<P4, policy::std_rtti, policy::fast_perfect_hash<P4>, policy::vptr_vector<P4>,
                                 policy::basic_indirect_vptr<P4>, policy::throw_error> {};
// a stateful facet with a non-default extra template argument, and a policy obtained from it by rebind
using OrderedMap = std::map<type_id, const std::uintptr_t*>;
struct P5 : policy::basic_policy<P5, policy::std_rtti, policy::vptr_map<P5, OrderedMap>, policy::throw_error> {};
struct Plugin : P5::rebind<Plugin> {};
template<int N> struct Unrelated { virtual ~Unrelated() {} };
template<class Pol>
struct T {
    template<class C> using VP = virtual_ptr<C, Pol>;
    template<class C> using VSP = virtual_shared_ptr<C, Pol>;
    using kick = method<struct k, int(virtual_<Animal&>), Pol>;
    using meet = method<struct m, int(virtual_<Animal&>, int, virtual_<Animal&>), Pol>;
    using poke = method<struct p, int(VP<Animal>), Pol>;
    using hug = method<struct h, int(VSP<Animal>), Pol>;
    static int kd(Dog&) { return 1; }
    static int kc(Cat&) { return 2; }
    static int mdc(Dog&, int, Cat&) { return 3; }
    static int maa(Animal&, int, Animal&) { return 4; }
    static int mdc2(Dog&, Cat&) { return 9; }
    static int pb(VP<Bulldog>) { return 5; }
    static int pa(VP<Animal>) { return 6; }
    static int hd(VSP<Dog>) { return 7; }
    static int ha(VSP<Animal>) { return 8; }
    static void reg() {
        static use_classes<Animal, Dog, Cat, Bulldog, Pol> c;
        static typename kick::template add_function<kd> a1;
        static typename kick::template add_function<kc> a2;
        static typename meet::template add_function<mdc> a3;
        static typename meet::template add_function<maa> a4;
        static typename poke::template add_function<pb> a5;
        static typename poke::template add_function<pa> a6;
        static typename hug::template add_function<hd> a7;
        static typename hug::template add_function<ha> a8;
    }
    static long work(int n) {
        Dog d; Cat c; Bulldog b; Animal a;
        auto sd = std::make_shared<Dog>();
        long s = 0;
        Animal* objs[] = {&a, &d, &c, &b};
        for (int i = 0; i < n; i++) {
            Animal& x = *objs[i & 3];
            Animal& y = *objs[(i >> 2) & 3];
            try { s += kick::fn(x); } catch (const resolution_error&) { s += 100; }
            s += meet::fn(x, i, y);
            VP<Animal> p(x);
            VP<Animal> q = p;
            s += poke::fn(q);
            s += poke::fn(VP<Bulldog>::final(b));
            VSP<Animal> sp(sd);
            s += hug::fn(sp);
            auto pf = meet::fn.resolve(x, i, y);
            s += (pf != nullptr);
        }
        return s;
    }
};
int main(int argc, char** argv) {
    int threads = argc > 1 ? std::atoi(argv[1]) : 8;
    int iters = argc > 2 ? std::atoi(argv[2]) : 3000;
    T<P1>::reg(); T<P2>::reg(); T<P3>::reg(); T<P4>::reg(); T<P5>::reg();
    struct Other : policy::release::rebind<Other> {};
    // the policy that is updated while the others are in use declares the same methods - same keys, same
    // policy-independent signatures - after two more methods of its own, so that its slots differ: nothing a
    // method of one policy reads at call time may be shared with the method of the same key in another policy
    using extra1 = method<struct e1, int(virtual_<Animal&>), Other>;
    using extra2 = method<struct e2, int(virtual_<Animal&>, virtual_<Animal&>), Other>;
    static extra1::add_function<T<Other>::kd> x1;
    static extra2::add_function<T<Other>::mdc2> x2;
    T<Other>::reg();
    static use_classes<Unrelated<0>, Unrelated<1>, Unrelated<2>, Unrelated<3>, Unrelated<4>, Unrelated<5>, Unrelated<6>, Unrelated<7>,
                       Unrelated<8>, Unrelated<9>, Unrelated<10>, Unrelated<11>, Unrelated<12>, Unrelated<13>, Unrelated<14>, Plugin> pc;
    // every facet of a rebound policy is keyed on the new policy: no static of P5 belongs to Plugin
    const bool rekeyed = std::is_base_of_v<policy::vptr_map<Plugin, OrderedMap>, Plugin> &&
        !std::is_base_of_v<policy::vptr_map<P5, OrderedMap>, Plugin>;
    update<P1>(); update<P2>(); update<P3>(); update<P4>(); update<P5>(); update<Other>();
    long ref[5] = {T<P1>::work(iters), T<P2>::work(iters), T<P3>::work(iters), T<P4>::work(iters), T<P5>::work(iters)};
    std::vector<std::thread> ts;
    std::atomic<int> bad{0};
    for (int t = 0; t < threads; t++)
        ts.emplace_back([&, t] {
            long r = t % 5 == 0 ? T<P1>::work(iters) : t % 5 == 1 ? T<P2>::work(iters) : t % 5 == 2 ? T<P3>::work(iters)
                   : t % 5 == 3 ? T<P4>::work(iters) : T<P5>::work(iters);
            if (r != ref[t % 5]) bad++;
        });
    ts.emplace_back([&] { for (int i = 0; i < 40; i++) { update<Other>(); update<Plugin>(); } });
    for (auto& t : ts) t.join();
    if (!rekeyed) bad++;
    std::printf("ref %ld %ld %ld %ld %ld threads=%d rekeyed=%d bad=%d\n", ref[0], ref[1], ref[2], ref[3], ref[4], threads, (int)rekeyed, (int)bad);
    return bad ? 1 : 0;
}
