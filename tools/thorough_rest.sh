#!/bin/bash
cd "$(dirname "$0")/.."
export VERIF_REPO="${VERIF_REPO:-${VP_RUN_REPO:-/repo}}"
for c in ${@}; do
  s=$(date +%s); out=$(python3 tools/verif.py check $c --tier thorough 2>&1); rc=$?; e=$(date +%s)
  echo "$c rc=$rc $((e-s))s $(echo "$out" | grep -E 'VIOLATION|KNOWN' | head -2 | cut -c1-200)"
done
